import Proofs.RdataTextBlob
/-! IPv6 text codec, part 1: chunks of four hex digits, the zero-run search, `split`/`join` (C05). -/
namespace Model

/-! ## hex chunks -/

def isHexL (x : Nat) : Bool := (decide (48 ≤ x) && decide (x ≤ 57)) || (decide (97 ≤ x) && decide (x ≤ 102))

theorem hexDigitLower_isHexL (d : Nat) (h : d < 16) : isHexL (hexDigitLower d) = true := by
  unfold hexDigitLower isHexL
  by_cases h10 : d < 10
  · simp [h10]; omega
  · simp [h10]; omega

theorem hexDigitLower_eq48 (d : Nat) (h : d < 16) : hexDigitLower d = 48 ↔ d = 0 := by
  unfold hexDigitLower
  by_cases h10 : d < 10
  · simp [h10]
  · simp [h10]; omega

/-- a chunk as printed by `inet_ntoa`: 1–4 lower-case hex digits -/
def HexChunk (c : List Nat) : Prop := c ≠ [] ∧ c.length ≤ 4 ∧ ∀ x ∈ c, isHexL x = true

theorem stripLead0_quad (a b c d : Nat) :
    let s := stripLead0 [a, b, c, d]
    s ≠ [] ∧ s.length ≤ 4 ∧ (∀ x ∈ s, x ∈ [a, b, c, d]) ∧ pad4 s = [a, b, c, d] ∧ (s = [48] ↔ (a = 48 ∧ b = 48 ∧ c = 48 ∧ d = 48)) := by
  by_cases ha : a = 48
  · subst ha
    by_cases hb : b = 48
    · subst hb
      by_cases hc : c = 48
      · subst hc
        by_cases hd : d = 48
        · subst hd; simp [stripLead0, pad4]
        · simp [stripLead0, pad4, hd]
      · have : stripLead0 [48, 48, c, d] = [c, d] := by
          simp only [stripLead0]
          unfold stripLead0
          split
          · rename_i h; simp at h; exact absurd h.1 hc
          · rfl
        simp [this, pad4, hc]
    · have : stripLead0 [48, b, c, d] = [b, c, d] := by
        simp only [stripLead0]
        unfold stripLead0
        split
        · rename_i h; simp at h; exact absurd h.1 hb
        · rfl
      simp [this, pad4, hb]
  · have : stripLead0 [a, b, c, d] = [a, b, c, d] := by
      unfold stripLead0
      split
      · rename_i h; simp at h; exact absurd h.1 ha
      · rfl
    simp [this, pad4, ha]

def chunkOf (g : Nat) : List Nat := stripLead0 (hex4 g)

theorem chunkOf_spec (g : Nat) (hg : g < 65536) :
    HexChunk (chunkOf g) ∧ pad4 (chunkOf g) = hex4 g ∧ (chunkOf g = [48] ↔ g = 0) := by
  have h := stripLead0_quad (hexDigitLower (g / 4096 % 16)) (hexDigitLower (g / 256 % 16))
    (hexDigitLower (g / 16 % 16)) (hexDigitLower (g % 16))
  simp only at h
  obtain ⟨hne, hlen, hmem, hpad, hz⟩ := h
  refine ⟨⟨hne, hlen, ?_⟩, hpad, ?_⟩
  · intro x hx
    have := hmem x hx
    simp at this
    rcases this with e | e | e | e <;> subst e <;> exact hexDigitLower_isHexL _ (by omega)
  · show stripLead0 (hex4 g) = [48] ↔ g = 0
    unfold hex4
    rw [hz, hexDigitLower_eq48 _ (by omega), hexDigitLower_eq48 _ (by omega), hexDigitLower_eq48 _ (by omega),
      hexDigitLower_eq48 _ (by omega)]
    omega

theorem hexChunk_no (c : List Nat) (h : HexChunk c) (x : Nat) (hx : isHexL x = false) : x ∉ c := by
  intro hm
  have := h.2.2 x hm
  rw [hx] at this; exact Bool.noConfusion this

theorem unhexlify_hex4 (g : Nat) (hg : g < 65536) (rest : List Nat) :
    unhexlify (hex4 g ++ rest) = (unhexlify rest).map ([g / 256, g % 256] ++ ·) := by
  simp only [hex4, List.cons_append, List.nil_append, unhexlify]
  rw [hexDigitVal_lower _ (by omega), hexDigitVal_lower _ (by omega), hexDigitVal_lower _ (by omega),
    hexDigitVal_lower _ (by omega)]
  cases unhexlify rest with
  | none => rfl
  | some r =>
    simp
    omega

def bytesOfGroups (gs : List Nat) : Bytes := gs.flatMap fun g => [g / 256, g % 256]

theorem unhexlify_groups (gs : List Nat) (h : ∀ g ∈ gs, g < 65536) :
    unhexlify ((gs.map hex4).flatten) = some (bytesOfGroups gs) := by
  induction gs with
  | nil => rfl
  | cons g rest ih =>
    simp only [List.map_cons, List.flatten_cons]
    rw [unhexlify_hex4 g (h g (by simp)), ih (fun x hx => h x (by simp [hx]))]
    simp [bytesOfGroups]

theorem groupsOf_spec (a : Bytes) (ha : ∀ x ∈ a, x < 256) :
    (∀ g ∈ groupsOf a, g < 65536) ∧ (a.length % 2 = 0 → bytesOfGroups (groupsOf a) = a) ∧
      (groupsOf a).length = a.length / 2 := by
  fun_induction groupsOf a with
  | case1 x y rest ih =>
    have hx := ha x (by simp)
    have hy := ha y (by simp)
    obtain ⟨i1, i2, i3⟩ := ih (fun z hz => ha z (by simp [hz]))
    refine ⟨?_, ?_, ?_⟩
    · intro g hg; simp at hg; rcases hg with e | e
      · subst e; omega
      · exact i1 g e
    · intro hl
      simp at hl
      have : rest.length % 2 = 0 := by omega
      simp only [bytesOfGroups, List.flatMap_cons]
      have i2' := i2 this
      simp only [bytesOfGroups] at i2'
      rw [i2']
      simp; omega
    · simp [i3]; omega
  | case2 a hne =>
    refine ⟨by simp, ?_, ?_⟩
    · intro hl
      match a, hne with
      | [], _ => rfl
      | [_], _ => simp at hl
      | x :: y :: r, hne => exact absurd rfl (hne x y r)
    · match a, hne with
      | [], _ => rfl
      | [_], _ => simp
      | x :: y :: r, hne => exact absurd rfl (hne x y r)

/-! ## the zero-run search picks zeros only -/

def runOk (zs : List Bool) : Bool :=
  let r := bestRun zs
  decide (r.2 ≤ 1) || (decide (r.1 + r.2 ≤ 8) && (List.range r.2).all fun i => zs.getD (r.1 + i) false)

theorem bestRun_sound (b0 b1 b2 b3 b4 b5 b6 b7 : Bool) : runOk [b0, b1, b2, b3, b4, b5, b6, b7] = true := by
  cases b0 <;> cases b1 <;> cases b2 <;> cases b3 <;> cases b4 <;> cases b5 <;> cases b6 <;> cases b7 <;> decide

end Model

import Model.ZoneCow
import Proofs.ZoneTxnSim
/-! Copy-on-write isolation (C10): the version never writes to a node object the published zone can reach, and
what it holds is what the persistent-value model holds. -/
namespace Model.ZT
open Model

theorem pget_erase (m : PMap) (k k' : Name) : pget (perase m k) k' = if k' = k then none else pget m k' := by
  induction m with
  | nil => simp [perase, pget]
  | cons e rest ih =>
    obtain ⟨ke, i⟩ := e
    unfold perase at ih ⊢
    by_cases h : ke = k
    · subst h
      rw [filter_cons_neg' _ _ _ (by simp), ih]
      by_cases h2 : k' = ke
      · simp [h2]
      · have : ¬ ke = k' := fun e => h2 e.symm
        simp [h2, pget, this]
    · rw [filter_cons_pos' _ _ _ (by simpa using h)]
      by_cases h3 : ke = k'
      · subst h3; simp [pget, h]
      · simp only [pget, h3, if_false]; exact ih

theorem pget_set (m : PMap) (k k' : Name) (i : Nat) : pget (pset m k i) k' = if k' = k then some i else pget m k' := by
  unfold pset
  by_cases h : k' = k
  · subst h; simp [pget]
  · have : ¬ k = k' := fun e => h e.symm
    simp only [pget, this, if_false, h]
    rw [pget_erase]; simp [h]

theorem pget_mem {m : PMap} {k : Name} {i : Nat} (h : pget m k = some i) : (k, i) ∈ m := by
  induction m with
  | nil => simp [pget] at h
  | cons e rest ih =>
    obtain ⟨ke, j⟩ := e
    by_cases hk : ke = k
    · subst hk; simp [pget] at h; subst h; simp
    · simp only [pget, hk, if_false] at h; exact List.mem_cons_of_mem _ (ih h)

theorem mem_perase {m : PMap} {k : Name} {e : Name × Nat} (h : e ∈ perase m k) : e ∈ m ∧ e.1 ≠ k := by
  unfold perase at h; rw [List.mem_filter] at h; exact ⟨h.1, by simpa using h.2⟩

theorem mem_pset {m : PMap} {k : Name} {i : Nat} {e : Name × Nat} (h : e ∈ pset m k i) : e = (k, i) ∨ (e ∈ m ∧ e.1 ≠ k) := by
  unfold pset at h
  rcases List.mem_cons.mp h with h | h
  · exact Or.inl h
  · exact Or.inr (mem_perase h)

/-- allocated ids everywhere; a name the version has touched owns its node object: the published zone cannot
reach it, and no other name of the version shares it -/
structure CowInv (v : CVer) : Prop where
  zalloc : ∀ e ∈ v.zone, e.2 < v.heap.next
  nalloc : ∀ e ∈ v.nodes, e.2 < v.heap.next
  own : ∀ k, k ∈ v.changed → ∀ i, pget v.nodes k = some i →
    (∀ e ∈ v.zone, e.2 ≠ i) ∧ (∀ e ∈ v.nodes, e.2 = i → e.1 = k)

theorem cow_alloc (v : CVer) (hi : CowInv v) (key : Name) (nd : Node) :
    let v1 : CVer := { v with heap := (v.heap.alloc nd).1, nodes := pset v.nodes key v.heap.next, changed := key :: v.changed }
    CowInv v1 ∧ (∀ k, zview v1 k = zview v k) ∧
      (∀ k, vview v1 k = if k = key then some nd else vview v k) ∧ v1.heap.cell v.heap.next = nd := by
  intro v1
  have hcell : ∀ z, z < v.heap.next → v1.heap.cell z = v.heap.cell z := by
    intro z hz
    show (if z = v.heap.next then nd else v.heap.cell z) = v.heap.cell z
    have : ¬ z = v.heap.next := by omega
    rw [if_neg this]
  refine ⟨⟨?_, ?_, ?_⟩, ?_, ?_, ?_⟩
  · intro e he; have := hi.zalloc e he; show e.2 < v.heap.next + 1; omega
  · intro e he
    show e.2 < v.heap.next + 1
    rcases mem_pset he with h | h
    · rw [h]; simp
    · have := hi.nalloc e h.1; omega
  · intro k hk' i hp
    have hp' : pget (pset v.nodes key v.heap.next) k = some i := hp
    rw [pget_set] at hp'
    by_cases hkk : k = key
    · subst hkk
      simp at hp'
      subst hp'
      constructor
      · intro e he; have := hi.zalloc e he; omega
      · intro e he heq
        rcases mem_pset he with h | h
        · rw [h]
        · have := hi.nalloc e h.1; omega
    · simp [hkk] at hp'
      have hmem : k ∈ v.changed := by
        rcases List.mem_cons.mp hk' with h | h
        · exact absurd h hkk
        · exact h
      obtain ⟨o1, o2⟩ := hi.own k hmem i hp'
      refine ⟨o1, ?_⟩
      intro e he heq
      rcases mem_pset he with h | h
      · have hlt := hi.nalloc (k, i) (pget_mem hp')
        rw [h] at heq; simp at heq hlt; omega
      · exact o2 e h.1 heq
  · intro k
    unfold zview
    cases hz : pget v.zone k with
    | none => rfl
    | some z =>
      have := hi.zalloc (k, z) (pget_mem hz)
      simp only [Option.map_some]; rw [hcell z this]
  · intro k
    unfold vview
    show (pget (pset v.nodes key v.heap.next) k).map v1.heap.cell = _
    rw [pget_set]
    by_cases hkk : k = key
    · simp only [hkk, if_true, Option.map_some]
      show some (if v.heap.next = v.heap.next then nd else _) = _
      simp
    · simp only [hkk, if_false]
      cases hz : pget v.nodes k with
      | none => rfl
      | some z =>
        have := hi.nalloc (k, z) (pget_mem hz)
        simp only [Option.map_some]; rw [hcell z this]
  · show (if v.heap.next = v.heap.next then nd else _) = nd
    simp

theorem cCow_hit (v : CVer) (key : Name) (i : Nat) (hp : pget v.nodes key = some i) (hc : key ∈ v.changed) :
    cCow v key = (v, i) := by
  unfold cCow; rw [hp]; dsimp only; rw [if_pos hc]

theorem cCow_copy (v : CVer) (key : Name) (i : Nat) (hp : pget v.nodes key = some i) (hc : key ∉ v.changed) :
    cCow v key = ({ v with heap := (v.heap.alloc (v.heap.cell i)).1, nodes := pset v.nodes key v.heap.next,
                           changed := key :: v.changed }, v.heap.next) := by
  unfold cCow; rw [hp]; dsimp only; rw [if_neg hc]

theorem cCow_new (v : CVer) (key : Name) (hp : pget v.nodes key = none) :
    cCow v key = ({ v with heap := (v.heap.alloc []).1, nodes := pset v.nodes key v.heap.next,
                           changed := key :: v.changed }, v.heap.next) := by
  unfold cCow; rw [hp]

/-- `_maybe_cow_with_name` -/
theorem cow_spec (v : CVer) (hi : CowInv v) (key : Name) :
    CowInv (cCow v key).1 ∧ key ∈ (cCow v key).1.changed ∧ pget (cCow v key).1.nodes key = some (cCow v key).2 ∧
      (∀ k, zview (cCow v key).1 k = zview v k) ∧
      (∀ k, vview (cCow v key).1 k = if k = key then some ((vview v key).getD []) else vview v k) ∧
      (cCow v key).1.heap.cell (cCow v key).2 = (vview v key).getD [] := by
  cases hp : pget v.nodes key with
  | some i =>
    by_cases hc : key ∈ v.changed
    · rw [cCow_hit v key i hp hc]
      have hv : vview v key = some (v.heap.cell i) := by unfold vview; rw [hp]; rfl
      refine ⟨hi, hc, hp, fun _ => rfl, ?_, by rw [hv]; rfl⟩
      intro k
      by_cases hk : k = key
      · subst hk; rw [hv]; simp
      · simp [hk]
    · rw [cCow_copy v key i hp hc]
      have hv : (vview v key).getD [] = v.heap.cell i := by unfold vview; rw [hp]; rfl
      obtain ⟨h1, h2, h3, h4⟩ := cow_alloc v hi key (v.heap.cell i)
      rw [hv]
      exact ⟨h1, List.mem_cons_self .., by show pget (pset v.nodes key v.heap.next) key = _; rw [pget_set]; simp, h2, h3, h4⟩
  | none =>
    rw [cCow_new v key hp]
    have hv : (vview v key).getD [] = [] := by unfold vview; rw [hp]; rfl
    obtain ⟨h1, h2, h3, h4⟩ := cow_alloc v hi key []
    rw [hv]
    exact ⟨h1, List.mem_cons_self .., by show pget (pset v.nodes key v.heap.next) key = _; rw [pget_set]; simp, h2, h3, h4⟩

/-- in-place mutation of a node object the version owns -/
theorem mutate_spec (v : CVer) (hi : CowInv v) (key : Name) (i : Nat) (x : Node)
    (hc : key ∈ v.changed) (hp : pget v.nodes key = some i) :
    let v' : CVer := { v with heap := v.heap.set i x }
    CowInv v' ∧ (∀ k, zview v' k = zview v k) ∧ (∀ k, vview v' k = if k = key then some x else vview v k) := by
  intro v'
  obtain ⟨o1, o2⟩ := hi.own key hc i hp
  refine ⟨⟨hi.zalloc, hi.nalloc, hi.own⟩, ?_, ?_⟩
  · intro k
    unfold zview
    cases hz : pget v.zone k with
    | none => rfl
    | some z =>
      have hne := o1 (k, z) (pget_mem hz)
      simp only [Option.map_some]
      show some (if z = i then x else v.heap.cell z) = _
      rw [if_neg hne]
  · intro k
    unfold vview
    by_cases hk : k = key
    · subst hk
      show (pget v.nodes k).map (fun j => if j = i then x else v.heap.cell j) = _
      rw [hp]; simp
    · simp only [hk, if_false]
      cases hz : pget v.nodes k with
      | none => rfl
      | some z =>
        have hne : ¬ z = i := by
          intro e; exact hk (o2 (k, z) (pget_mem hz) e)
        simp only [Option.map_some]
        show some (if z = i then x else v.heap.cell z) = _
        rw [if_neg hne]

/-- `del self.nodes[key]` -/
theorem erase_spec (v : CVer) (hi : CowInv v) (key : Name) (extra : List Name) :
    let v' : CVer := { v with nodes := perase v.nodes key, changed := extra ++ v.changed }
    (∀ k ∈ extra, k = key) →
    CowInv v' ∧ (∀ k, zview v' k = zview v k) ∧ (∀ k, vview v' k = if k = key then none else vview v k) := by
  intro v' hex
  refine ⟨⟨hi.zalloc, fun e he => hi.nalloc e (mem_perase he).1, ?_⟩, fun _ => rfl, ?_⟩
  · intro k hk i hp
    have hp' : pget (perase v.nodes key) k = some i := hp
    rw [pget_erase] at hp'
    by_cases hkk : k = key
    · simp [hkk] at hp'
    · simp [hkk] at hp'
      have hmem : k ∈ v.changed := by
        rcases List.mem_append.mp hk with h | h
        · exact absurd (hex k h) hkk
        · exact h
      obtain ⟨o1, o2⟩ := hi.own k hmem i hp'
      exact ⟨o1, fun e he heq => o2 e (mem_perase he).1 heq⟩
  · intro k
    unfold vview
    show (pget (perase v.nodes key) k).map v.heap.cell = _
    rw [pget_erase]
    by_cases hk : k = key <;> simp [hk]

/-- the version and a persistent node map hold the same thing -/
def Rep (v : CVer) (m : Nodes) : Prop := ∀ k, vview v k = nodesGet m k

theorem cStep_spec (cls : Nat) (v : CVer) (m : Nodes) (hi : CowInv v) (hr : Rep v m) (op : COp) :
    CowInv (cStep cls v op) ∧ (∀ k, zview (cStep cls v op) k = zview v k) ∧ Rep (cStep cls v op) (pStep cls m op) := by
  cases op with
  | put key r =>
    obtain ⟨c1, c2, c3, c4, c5, c6⟩ := cow_spec v hi key
    simp only [cStep, cPut, pStep]
    generalize cCow v key = cw at c1 c2 c3 c4 c5 c6
    obtain ⟨v1, i⟩ := cw
    simp only at c1 c2 c3 c4 c5 c6 ⊢
    obtain ⟨m1, m2, m3⟩ := mutate_spec v1 c1 key i ((v1.heap.cell i).replace r) c2 c3
    refine ⟨m1, fun k => (m2 k).trans (c4 k), ?_⟩
    intro k
    rw [m3 k, nodesGet_set, c6, hr key]
    by_cases hk : k = key
    · simp [hk]
    · simp only [hk, if_false]; rw [c5 k]; simp only [hk, if_false]; exact hr k
  | delRds key t c =>
    obtain ⟨c1, c2, c3, c4, c5, c6⟩ := cow_spec v hi key
    simp only [cStep, cDelRds, pStep]
    generalize cCow v key = cw at c1 c2 c3 c4 c5 c6
    obtain ⟨v1, i⟩ := cw
    simp only at c1 c2 c3 c4 c5 c6 ⊢
    have hcell : v1.heap.cell i = (nodesGet m key).getD [] := by rw [c6, hr key]
    rw [hcell]
    obtain ⟨m1, m2, m3⟩ := mutate_spec v1 c1 key i (((nodesGet m key).getD []).delete cls t c) c2 c3
    by_cases hl : (((nodesGet m key).getD []).delete cls t c).length = 0
    · simp only [hl, if_true]
      obtain ⟨e1, e2, e3⟩ := erase_spec _ m1 key [] (by simp)
      simp only [List.nil_append] at e1 e2 e3
      refine ⟨e1, fun k => (e2 k).trans ((m2 k).trans (c4 k)), ?_⟩
      intro k
      rw [e3 k, nodesGet_erase, nodesGet_set]
      by_cases hk : k = key
      · simp [hk]
      · simp only [hk, if_false]; rw [m3 k]; simp only [hk, if_false]; rw [c5 k]; simp only [hk, if_false]; exact hr k
    · simp only [hl, if_false]
      refine ⟨m1, fun k => (m2 k).trans (c4 k), ?_⟩
      intro k
      rw [m3 k, nodesGet_set]
      by_cases hk : k = key
      · simp [hk]
      · simp only [hk, if_false]; rw [c5 k]; simp only [hk, if_false]; exact hr k
  | delNode key =>
    simp only [cStep, cDelNode, pStep]
    have hsome : (pget v.nodes key).isSome = (nodesGet m key).isSome := by
      have := hr key; unfold vview at this; rw [← this]; cases pget v.nodes key <;> rfl
    rw [hsome]
    by_cases hp : (nodesGet m key).isSome = true
    · simp only [hp, if_true]
      obtain ⟨e1, e2, e3⟩ := erase_spec v hi key [key] (by simp)
      simp only [List.cons_append, List.nil_append] at e1 e2 e3
      refine ⟨e1, e2, ?_⟩
      intro k
      rw [e3 k, nodesGet_erase]
      by_cases hk : k = key
      · simp [hk]
      · simp only [hk, if_false]; exact hr k
    · simp only [hp, if_false]
      exact ⟨hi, fun _ => rfl, hr⟩

/-- the content of a node map over a store -/
def deref (h : Heap) (m : PMap) : Nodes := m.map fun e => (e.1, h.cell e.2)

theorem nodesGet_deref (h : Heap) (m : PMap) (k : Name) : nodesGet (deref h m) k = (pget m k).map h.cell := by
  induction m with
  | nil => rfl
  | cons e rest ih =>
    obtain ⟨ke, i⟩ := e
    by_cases hk : ke = k
    · simp [deref, nodesGet, pget, hk]
    · simp only [deref, List.map_cons, nodesGet, pget, hk, if_false]; exact ih

theorem cRun_spec (cls : Nat) (ops : List COp) (v : CVer) (m : Nodes) (hi : CowInv v) (hr : Rep v m) :
    CowInv (ops.foldl (cStep cls) v) ∧ (∀ k, zview (ops.foldl (cStep cls) v) k = zview v k) ∧
      Rep (ops.foldl (cStep cls) v) (ops.foldl (pStep cls) m) := by
  induction ops generalizing v m with
  | nil => exact ⟨hi, fun _ => rfl, hr⟩
  | cons op rest ih =>
    obtain ⟨s1, s2, s3⟩ := cStep_spec cls v m hi hr op
    obtain ⟨r1, r2, r3⟩ := ih (cStep cls v op) (pStep cls m op) s1 s3
    simp only [List.foldl_cons]
    exact ⟨r1, fun k => (r2 k).trans (s2 k), r3⟩

end Model.ZT

import Model.Tsig
import Proofs.TsigSkip
import Proofs.TsigExchange
/-! What an accepting run of the reader establishes. -/
namespace Model.Tsig
open Model

/-- a record that is not a TSIG record is skipped and changes nothing else -/
theorem readRR_other (V : Verifier) (tbl : List AlgEntry) (strict : Bool) (w : Bytes) (kr : Keyring) (now : Nat)
    (rm : Bytes) (multi : Bool) (sec count i : Nat) (st st' : RState) (p : Nat)
    (hp : skipName w w.length (w.length + 1) st.cur = some p) (ht : rd16 w p ≠ ConstsC14.typeTsig)
    (h : readRR V tbl strict w kr now rm multi sec count i st = .ok st') :
    skipRR w st.cur = some st'.cur ∧ st'.tsig = st.tsig ∧ st'.ctx = st.ctx := by
  unfold readRR at h
  rw [hp] at h
  try simp only at h
  split at h; · cases h
  rename_i h10
  split at h; · cases h
  rename_i hlen
  cases h
  unfold skipRR
  rw [hp]
  simp [h10, hlen]

/-- what an accepted TSIG record establishes -/
theorem readRR_tsig (V : Verifier) (tbl : List AlgEntry) (strict : Bool) (w : Bytes) (kr : Keyring) (now : Nat)
    (rm : Bytes) (multi : Bool) (sec count i : Nat) (st st' : RState) (p : Nat)
    (hp : skipName w w.length (w.length + 1) st.cur = some p) (ht : rd16 w p = ConstsC14.typeTsig)
    (h : readRR V tbl strict w kr now rm multi sec count i st = .ok st') :
    sec = 3 ∧ rd16 w (p + 2) = ConstsC14.classAny ∧ i + 1 = count ∧ (strict = true → rd32 w (p + 4) = 0)
      ∧ p + 10 + rd16 w (p + 8) ≤ w.length ∧ st'.cur = p + 10 + rd16 w (p + 8)
      ∧ ∃ owner rd, decodeName w st.cur = .ok owner
          ∧ rdataParse w (p + 10) (p + 10 + rd16 w (p + 8)) = .ok rd
          ∧ ((resolveKey kr owner rd = .ok none ∧ st'.tsig = some ⟨owner, rd, none⟩ ∧ st'.ctx = st.ctx)
            ∨ ∃ key c c', resolveKey kr owner rd = .ok (some key)
                ∧ validateV V tbl w key owner rd now rm st.cur st.ctx multi = .ok (c, c')
                ∧ st'.tsig = some ⟨owner, rd, some (c, rd.mac)⟩ ∧ st'.ctx = c') := by
  unfold readRR at h
  rw [hp] at h
  try simp only at h
  split at h; · cases h
  split at h; · cases h
  rename_i hplace
  split at h; · cases h
  rename_i hstrict
  split at h; · cases h
  rename_i hlen
  split at h; · cases h
  rename_i owner hfw
  split at h; · cases h
  rename_i rd hrd
  have hsec : sec = 3 ∧ rd16 w (p + 2) = ConstsC14.classAny ∧ i + 1 = count := by
    refine ⟨?_, ?_, ?_⟩ <;> (apply Classical.byContradiction; intro hh; exact hplace (by simp [hh]))
  have hst : strict = true → rd32 w (p + 4) = 0 := by
    intro hs
    apply Classical.byContradiction
    intro hh
    exact hstrict ⟨hs, hh⟩
  refine ⟨hsec.1, hsec.2.1, hsec.2.2, hst, by omega, ?_⟩
  split at h
  · cases h
  · rename_i hres
    cases h
    exact ⟨rfl, owner, rd, hfw, hrd, Or.inl ⟨hres, rfl, rfl⟩⟩
  · rename_i key hres
    split at h; · cases h
    rename_i c c' hv
    cases h
    exact ⟨rfl, owner, rd, hfw, hrd, Or.inr ⟨key, c, c', hres, hv, rfl, rfl⟩⟩

/-- a section loop either skips all its records, or (additional section only) skips all but the last and
accepts a TSIG record there -/
theorem readSection_walk (V : Verifier) (tbl : List AlgEntry) (strict : Bool) (w : Bytes) (kr : Keyring) (now : Nat)
    (rm : Bytes) (multi : Bool) (sec count : Nat) : ∀ (n : Nat) (st st' : RState), n ≤ count → st.tsig = none →
    readSection V tbl strict w kr now rm multi sec count n st = .ok st' →
    (skipRRs w n st.cur = some st'.cur ∧ st'.tsig = none ∧ st'.ctx = st.ctx)
    ∨ (sec = 3 ∧ 1 ≤ n ∧ ∃ mid p, skipRRs w (n - 1) st.cur = some mid
        ∧ skipName w w.length (w.length + 1) mid = some p ∧ rd16 w p = ConstsC14.typeTsig
        ∧ readRR V tbl strict w kr now rm multi 3 count (count - 1) ⟨mid, none, st.ctx⟩ = .ok st') := by
  intro n
  induction n with
  | zero =>
    intro st st' _ hts h
    simp only [readSection] at h
    cases h
    exact Or.inl ⟨rfl, hts, rfl⟩
  | succ n ih =>
    intro st st' hn hts h
    simp only [readSection] at h
    split at h; · cases h
    rename_i st1 h1
    cases hp : skipName w w.length (w.length + 1) st.cur with
    | none =>
      unfold readRR at h1
      rw [hp] at h1
      cases h1
    | some p =>
      by_cases ht : rd16 w p = ConstsC14.typeTsig
      · -- a TSIG record: it must be the last one
        obtain ⟨hsec, _, hidx, _, _, _, _⟩ := readRR_tsig V tbl strict w kr now rm multi sec count _ st st1 p hp ht h1
        have hn0 : n = 0 := by omega
        subst hn0
        simp only [readSection] at h
        cases h
        refine Or.inr ⟨hsec, by omega, st.cur, p, rfl, hp, ht, ?_⟩
        subst hsec
        have : (⟨st.cur, none, st.ctx⟩ : RState) = st := by
          cases st; simp at hts; simp [hts]
        rw [this]
        have : count - (0 + 1) = count - 1 := rfl
        rw [← this]
        exact h1
      · obtain ⟨hskip, htsig, hctx⟩ := readRR_other V tbl strict w kr now rm multi sec count _ st st1 p hp ht h1
        rcases ih st1 st' (by omega) (by rw [htsig, hts]) h with ⟨a, b, c⟩ | ⟨hsec, hn1, mid, p', a, b, c, d⟩
        · refine Or.inl ⟨?_, b, by rw [c, hctx]⟩
          simp only [skipRRs, hskip, a]
        · refine Or.inr ⟨hsec, by omega, mid, p', ?_, b, c, by rw [← hctx]; exact d⟩
          have : n + 1 - 1 = (n - 1) + 1 := by omega
          rw [this]
          simp only [skipRRs, hskip, a]

/-- the offset at which the last record of the additional section starts, by the skeleton walk -/
def walkTo (w : Bytes) : Option Nat :=
  match skipQuestions w (rd16 w 4) 12 with
  | none => none
  | some p0 =>
    match skipRRs w (rd16 w 6) p0 with
    | none => none
    | some p1 =>
      match skipRRs w (rd16 w 8) p1 with
      | none => none
      | some p2 => skipRRs w (rd16 w 10 - 1) p2

/-- an accepting run that reports a TSIG: the TSIG RR is the last record, found by the skeleton walk, it ends
the message, and it went through `readRR` with the caller's context -/
theorem readV_signed (V : Verifier) (tbl : List AlgEntry) (strict : Bool) (w : Bytes) (kr : Keyring) (now : Nat)
    (rm : Bytes) (ctx : Option Ctx) (multi : Bool) (r : ReadOk) (f : Found)
    (h : readV V tbl strict w kr now rm ctx multi = .ok r) (hf : r.tsig = some f) :
    12 ≤ w.length ∧ 1 ≤ rd16 w 10 ∧ ∃ s p st3, walkTo w = some s
      ∧ skipName w w.length (w.length + 1) s = some p ∧ rd16 w p = ConstsC14.typeTsig
      ∧ readRR V tbl strict w kr now rm multi 3 (rd16 w 10) (rd16 w 10 - 1) ⟨s, none, ctx⟩ = .ok st3
      ∧ st3.cur = w.length ∧ st3.tsig = some f ∧ r.ctx = st3.ctx := by
  unfold readV readVI at h
  split at h; · cases h
  rename_i hlen
  split at h; · cases h
  rename_i p0 hq
  simp only at h
  split at h; · cases h
  rename_i st1 h1
  split at h; · cases h
  rename_i st2 h2
  split at h; · cases h
  rename_i st3 h3
  split at h; · cases h
  rename_i hend
  have hend' : st3.cur = w.length := by
    apply Classical.byContradiction; intro hh; exact hend ⟨trivial, hh⟩
  have w1 := readSection_walk V tbl strict w kr now rm multi 1 (rd16 w 6) (rd16 w 6) ⟨p0, none, ctx⟩ st1 (Nat.le_refl _) rfl h1
  have w1' : skipRRs w (rd16 w 6) p0 = some st1.cur ∧ st1.tsig = none ∧ st1.ctx = ctx := by
    rcases w1 with hh | ⟨hsec, _⟩
    · exact hh
    · cases hsec
  obtain ⟨a1, b1, c1⟩ := w1'
  have w2 := readSection_walk V tbl strict w kr now rm multi 2 (rd16 w 8) (rd16 w 8) st1 st2 (Nat.le_refl _) b1 h2
  have w2' : skipRRs w (rd16 w 8) st1.cur = some st2.cur ∧ st2.tsig = none ∧ st2.ctx = st1.ctx := by
    rcases w2 with hh | ⟨hsec, _⟩
    · exact hh
    · cases hsec
  obtain ⟨a2, b2, c2⟩ := w2'
  have w3 := readSection_walk V tbl strict w kr now rm multi 3 (rd16 w 10) (rd16 w 10) st2 st3 (Nat.le_refl _) b2 h3
  rcases w3 with ⟨a3, b3, c3⟩ | ⟨_, hn1, mid, p, a3, hp, ht, hr⟩
  · -- no TSIG found: the result reports none
    exfalso
    split at h
    · cases h; simp at hf
    · cases h; simp [b3] at hf
  · have hres : r.tsig = st3.tsig ∧ r.ctx = st3.ctx := by
      split at h
      · rename_i c heq1 heq2 heq3
        cases h
        simp at hf
      · cases h; exact ⟨rfl, rfl⟩
    refine ⟨by omega, hn1, mid, p, st3, ?_, hp, ht, ?_, hend', by rw [← hres.1, hf], hres.2⟩
    · unfold walkTo
      simp only [hq, a1, a2]
      exact a3
    · have : st2.ctx = ctx := by rw [c2, c1]
      rw [← this]; exact hr

end Model.Tsig

import Model.Message
import Proofs.NameWire
import Proofs.NameText
/-! Byte-level facts for the message parser: slices of a concatenation, big-endian decode of the fixed-width
encoders, name decoding under a restricted end (`restrict_to`). -/
namespace Model

theorem slice_mid (X Y Z : Bytes) : slice (X ++ Y ++ Z) X.length Y.length = Y := by
  unfold slice
  rw [List.append_assoc, List.drop_left' rfl, List.take_left' rfl]

theorem slice_mid' (X Y Z : Bytes) (i n : Nat) (hi : i = X.length) (hn : n = Y.length) :
    slice (X ++ Y ++ Z) i n = Y := by
  subst hi; subst hn; exact slice_mid X Y Z

theorem beVal_u16 (n : Nat) (h : n < 65536) : beVal (u16 n) = n := by
  simp [beVal, u16]; omega

theorem beVal_u32 (n : Nat) (h : n < 4294967296) : beVal (u32 n) = n := by
  simp [beVal, u32]; omega

theorem beVal_u48 (n : Nat) (h : n < 281474976710656) : beVal (u48 n) = n := by
  simp [beVal, u48, u16, u32]; omega

/-- well-formedness only depends on the label lengths, hence is invariant under a change of ASCII case
(same statement as C01's `wf_of_lowEq`) -/
theorem wfName_of_lowerEq (a b : Name) (h : lowerName a = lowerName b) (hb : WfName b) : WfName a := by
  have hlen : a.map List.length = b.map List.length := by
    have := congrArg (List.map List.length) h
    simpa [lowerName, lowerLabel, List.map_map, Function.comp_def] using this
  obtain ⟨h1, h2, h3⟩ := hb
  have hwl : wireLen a = wireLen b := by
    have : a.map (fun l => l.length + 1) = b.map (fun l => l.length + 1) := by
      have := congrArg (List.map (· + 1)) hlen
      simpa [List.map_map, Function.comp_def] using this
    simp [wireLen, this]
  have hlenab : a.length = b.length := by have := congrArg List.length hlen; simpa using this
  refine ⟨?_, by omega, ?_⟩
  · intro l hl
    obtain ⟨i, hi, rfl⟩ := List.getElem_of_mem hl
    have hib : i < b.length := by omega
    have : a[i].length = b[i].length := by
      have := congrArg (fun x => x[i]?) hlen
      simp [hi, hib] at this
      exact this
    rw [this]; exact h1 _ (List.getElem_mem hib)
  · intro l hl hnil
    subst hnil
    obtain ⟨i, hi⟩ := List.getElem?_of_mem hl
    rw [List.getElem?_dropLast] at hi
    split at hi
    · rename_i hlt
      have hia : i < a.length := by omega
      have hib : i < b.length := by omega
      have hbi : b[i].length = 0 := by
        have := congrArg (fun x => x[i]?) hlen
        simp [hia, hib] at this
        rw [← this]
        rw [List.getElem?_eq_getElem hia] at hi
        simp at hi
        simp [hi]
      have : b[i] ∈ b.dropLast := by
        apply List.mem_of_getElem? (i := i)
        rw [List.getElem?_dropLast]; simp [hib]; omega
      exact h3 _ this (List.length_eq_zero_iff.mp hbi)
    · simp at hi

/-- `fromWireAux_of_Dec` with the parser's end restricted to `endp` (inside `restrict_to(rdlen)`): as long as
everything the name reads forward lies below `endp`, the restricted decoder returns the same name -/
theorem fromWireAux_of_Dec_end {w : Bytes} {cur bp : Nat} {ls : List Label} {fwd : Nat}
    (h : Dec w cur bp ls fwd) (endp : Nat) (he : fwd ≤ endp) (hw : endp ≤ w.length) (f : Nat) (acc : List Label) :
    fromWireAux w endp cur bp f acc = .ok (acc ++ ls ++ [[]], max f fwd) := by
  induction h generalizing f acc with
  | root cur bp h0 =>
    obtain ⟨hlt, hv⟩ := List.getElem?_eq_some_iff.mp h0
    rw [fromWireAux]
    have hc : cur < endp := by omega
    simp [hc, hw, hv]
  | label cur bp c ls fwd h0 hc hc' hlen _ ih =>
    obtain ⟨hlt, hv⟩ := List.getElem?_eq_some_iff.mp h0
    rw [fromWireAux]
    have hce : cur < endp := by omega
    have h1 : ¬ c = 0 := by omega
    have h2 : ¬ c > endp - (cur + 1) := by omega
    simp only [hce, hw, and_self, dite_true, hv, h1, if_false, hc', if_true, h2]
    rw [ih (by omega)]
    have : max (max (max f (cur + 1)) (cur + 1 + c)) fwd = max f (max (cur + 1 + c) fwd) := by omega
    simp [this]
  | ptr cur bp c lo ls fwd h0 hc h1 ht _ ih =>
    obtain ⟨hlt, hv⟩ := List.getElem?_eq_some_iff.mp h0
    obtain ⟨hlt1, hv1⟩ := List.getElem?_eq_some_iff.mp h1
    have hmin := labelMin_le_tagMin
    have hpos := labelMin_pos
    rw [fromWireAux]
    have hce : cur < endp := by omega
    have hce1 : cur + 1 < endp := by omega
    have a1 : ¬ c = 0 := by omega
    have a2 : ¬ c < Consts.ptrLabelMin := by omega
    have a3 : ¬ (c % 64) * 256 + lo ≥ bp := by omega
    simp only [hce, hw, and_self, dite_true, hv, a1, if_false, a2, hc, ge_iff_le, if_true, hce1, hv1, a3]
    rw [ih (by omega)]
    have : max (max (max f (cur + 1)) (cur + 2)) fwd = max f (max (cur + 2) fwd) := by omega
    simp [this]

/-- `getName` on a position where a name is described by `Dec` -/
theorem getName_of_Dec {w : Bytes} {cur : Nat} {ls : List Label} {fwd : Nat} (h : Dec w cur cur ls fwd)
    (endp : Nat) (he : fwd ≤ endp) (hw : endp ≤ w.length) (hwf : WfName (ls ++ [[]])) :
    getName w endp cur = .ok (ls ++ [[]], fwd) := by
  unfold getName
  rw [fromWireAux_of_Dec_end h endp he hw cur []]
  have := h.fwd_le
  have hm : max cur fwd = fwd := by omega
  simp [validate_of_wf _ hwf, hm]

end Model

import Proofs.BTreeDelete2
/-!
The intermediate facts of one level of `delete` on an internal node (what `delete_spec` establishes on its way),
in the form the mechanism-level simulation consumes.
-/
namespace Model.BTree

theorem delete_node_facts {t : Nat} (ht : 2 ≤ t) {h : Nat} {es : List Elt} {cs : List Node} (k : Nat)
    (hk : Kids t h es cs) (hs : Sorted (flat (.node es cs)))
    (hpos' : 1 ≤ es.length ∨ ∀ c ∈ cs, c.elts.length ≠ minKeys t) :
    ∃ (key' i' : Nat) (eq : Bool) (el er : List Elt),
      searchInNode es k = (if eq then i' - 1 else i', eq) ∧ (eq = true → 1 ≤ i') ∧
      key' = (if eq then (minimum h (kidAt cs i')).1 else k) ∧
      es = el ++ er ∧ el.length = i' ∧ (∀ x ∈ el, x.1 < key') ∧ (∀ x ∈ er, key' < x.1) ∧
      ((kidAt cs i').elts.length = minKeys t → 1 ≤ es.length) ∧
      ∃ es1 cs1 i1, delPrep t es cs i' key' = some (es1, cs1, i1) ∧ Kids t h es1 cs1 ∧ i1 < cs1.length ∧
        Shape t h (kidAt cs1 i1) ∧ Sorted (flat (kidAt cs1 i1)) ∧ minKeys t < (kidAt cs1 i1).elts.length ∧
        ∃ elt, (delete t h (kidAt cs1 i1) key' none).2 = .ok elt ∧
          Shape t (h + 1) (.node es1 (setAt cs1 i1 (delete t h (kidAt cs1 i1) key' none).1)) ∧
          Sorted (flat (.node es1 (setAt cs1 i1 (delete t h (kidAt cs1 i1) key' none).1))) ∧
          (eq = true → ∃ s, elt = some s) := by
  have hes := sorted_elts hs
  rcases search_cases k hes with ⟨el, er, rfl, hl, hr, hres⟩ | ⟨el, e0, er, rfl, h0, hl, hr, hres⟩
  · -- not in this node
    obtain ⟨cl, c, cr, rfl, hcl, hcr⟩ := kids_split hk.1
    have hne : c.elts.length = minKeys t → 1 ≤ (el ++ er).length := fun hm => by
      rcases hpos' with h1 | h2
      · exact h1
      · exact absurd hm (h2 c (by simp))
    obtain ⟨el1, er1, cl1, c1, cr1, hprep, hcl1, hk1, hflat1, hwl1, hwr1, hc1, hlo, hhi⟩ :=
      delPrep_spec ht hk hcl hs hne hl hr
    have hs1 : Sorted (flat (.node (el1 ++ er1) (cl1 ++ c1 :: cr1))) := by rw [hflat1]; exact hs
    have hsc1 : Sorted (flat c1) := by
      have := hs1
      rw [flat_node_split el1 er1 cl1 c1 cr1 hcl1] at this
      exact (sorted_append_iff.mp (sorted_append_iff.mp this).1).2.1
    have hc := delete_spec ht h c1 k (hk1.2 c1 (by simp)).1 hsc1 (fun _ => Or.inl (by omega))
    rcases hdc : delete t h c1 k none with ⟨c1', r⟩
    rw [hdc] at hc
    obtain ⟨d1, d2, d3⟩ := del_descend hk1 hcl1 hs1 hwl1 hwr1 hc hc1
    refine ⟨k, el.length, false, el, er, by simp [hres], by simp, by simp, rfl, rfl, hl, hr,
      by rw [kidAt_at hcl]; exact hne, el1 ++ er1, cl1 ++ c1 :: cr1, el1.length, hprep, hk1, by simp; omega, ?_⟩
    rw [kidAt_at hcl1, hdc]
    refine ⟨(hk1.2 c1 (by simp)).1, hsc1, hc1, _, d3, ?_, ?_, by simp⟩
    · simp only [setAt_at hcl1]; exact d1
    · simp only [setAt_at hcl1]; rw [d2]; exact delKey_sorted _ hs1
  · -- found in this node: the least successor
    obtain ⟨cl, c, cr, rfl, hcl, hcr⟩ := kids_split (el := el) (er := e0 :: er) hk.1
    cases cr with
    | nil => simp at hcr
    | cons c' cr' =>
      obtain ⟨rest, hmin⟩ := minimum_head t ht h c' (hk.2 c' (by simp)).1 (hk.2 c' (by simp)).2
      have hkid' : kidAt (cl ++ c :: c' :: cr') (el.length + 1) = c' := kidAt_at_succ hcl
      generalize hsdef : minimum h c' = s at hmin
      have hflatn : flat (.node (el ++ e0 :: er) (cl ++ c :: c' :: cr')) =
          (LF cl el ++ flat c) ++ e0 :: s :: (rest ++ RF cr' er) := by
        rw [flat_node_split el (e0 :: er) cl c (c' :: cr') hcl, RF_cons, hmin]; simp
      have hsn := hs
      rw [hflatn] at hsn
      obtain ⟨q1, q2, q3, q4⟩ := succ_replace hsn
      have hk2 : Kids t h ((el ++ [e0]) ++ er) ((cl ++ [c]) ++ c' :: cr') := by simpa using hk
      have hs2 : Sorted (flat (.node ((el ++ [e0]) ++ er) ((cl ++ [c]) ++ c' :: cr'))) := by simpa using hs
      have hcl2 : (cl ++ [c]).length = (el ++ [e0]).length := by simp [hcl]
      have hes' : e0.1 < s.1 := by
        have := (sorted_append_iff.mp hsn).2.1
        exact (sorted_cons_iff.mp this).1 s (by simp)
      have hwl2 : ∀ x ∈ el ++ [e0], x.1 < s.1 := by
        intro x hx
        rcases List.mem_append.mp hx with hx | hx
        · have := hl x hx; omega
        · simp at hx; subst hx; exact hes'
      have hwr2 : ∀ x ∈ er, s.1 < x.1 := by
        intro x hx
        have hsq := (sorted_cons_iff.mp (sorted_cons_iff.mp (sorted_append_iff.mp hsn).2.1).2).1
        exact hsq x (List.mem_append.mpr (Or.inr (mem_RF_of_mem (cr := cr') hx)))
      obtain ⟨el1, er1, cl1, c1, cr1, hprep, hcl1, hk1, hflat1, hwl1, hwr1, hc1, hlo, hhi⟩ :=
        delPrep_spec ht hk2 hcl2 hs2 (fun _ => by simp <;> omega) hwl2 hwr2
      simp only [List.append_assoc, List.singleton_append, List.length_append, List.length_cons,
        List.length_nil, Nat.zero_add] at hprep hflat1 hlo hhi
      have hs1 : Sorted (flat (.node (el1 ++ er1) (cl1 ++ c1 :: cr1))) := by rw [hflat1]; exact hs
      have hsc1 : Sorted (flat c1) := by
        have := hs1
        rw [flat_node_split el1 er1 cl1 c1 cr1 hcl1] at this
        exact (sorted_append_iff.mp (sorted_append_iff.mp this).1).2.1
      have hc := delete_spec ht h c1 s.1 (hk1.2 c1 (by simp)).1 hsc1 (fun _ => Or.inl (by omega))
      rcases hdc : delete t h c1 s.1 none with ⟨c1', r⟩
      rw [hdc] at hc
      obtain ⟨d1, d2, d3⟩ := del_descend hk1 hcl1 hs1 hwl1 hwr1 hc hc1
      have d3' := d3
      rw [hflat1, hflatn, q1] at d3'
      refine ⟨s.1, el.length + 1, true, el ++ [e0], er, by simp [hres], by simp, ?_, by simp, by simp, hwl2, hwr2,
        fun _ => by simp <;> omega, el1 ++ er1, cl1 ++ c1 :: cr1, el1.length, hprep, hk1, by simp; omega, ?_⟩
      · simp only [if_true, hkid', hsdef]
      · rw [kidAt_at hcl1, hdc]
        refine ⟨(hk1.2 c1 (by simp)).1, hsc1, hc1, _, d3', ?_, ?_, fun _ => ⟨s, rfl⟩⟩
        · simp only [setAt_at hcl1]; exact d1
        · simp only [setAt_at hcl1]; rw [d2]; exact delKey_sorted _ hs1

end Model.BTree

import Proofs.ZoneTxnSim
/-! Every well-formed concrete zone is simulated by its flattening (C10): `txn_refines_spec` applies to any initial zone. -/
namespace Model.ZT
open Model

/-- a well-formed node map: owner keys pairwise distinct, no empty node, and in every node the zone's class
throughout and (type, covers) pairwise distinct — what loading through the public API produces -/
def WfZone (cls : Nat) (v : Nodes) : Prop :=
  v.Pairwise (fun a b => a.1 ≠ b.1) ∧ ∀ e ∈ v, e.2 ≠ [] ∧ NodeInv cls e.2

theorem sget_append (a b : SZone) (k : Key) : SZone.get (a ++ b) k = (SZone.get a k).or (SZone.get b k) := by
  induction a with
  | nil => simp [SZone.get]
  | cons e rest ih =>
    obtain ⟨ke, r⟩ := e
    by_cases hk : ke = k
    · simp [SZone.get, hk]
    · simp only [List.cons_append, SZone.get, hk, if_false]; exact ih

theorem sget_node (cls : Nat) (k0 : Name) (nd : Node) (h : ∀ r ∈ nd, r.rdclass = cls) (k : Name) (t c : Nat) :
    SZone.get (nd.map fun r => ((k0, r.rdtype, r.covers), r)) (k, t, c) =
      if k = k0 then nd.find cls t c else none := by
  induction nd with
  | nil => simp [SZone.get, Node.find]
  | cons x xs ih =>
    have ih' := ih (fun r hr => h r (List.mem_cons_of_mem _ hr))
    have hx : x.rdclass = cls := h x (List.mem_cons_self ..)
    simp only [List.map_cons, SZone.get]
    by_cases hk : k = k0
    · subst hk
      by_cases hm : x.rdtype = t ∧ x.covers = c
      · have : x.isMatch cls t c = true := by rw [isMatch_iff]; exact ⟨hx, hm.1, hm.2⟩
        simp [hm.1, hm.2, find_cons_pos _ _ _ _ _ this]
      · have hne : ¬ ((k, x.rdtype, x.covers) : Key) = (k, t, c) := by
          intro e; simp at e; exact hm e
        have : ¬ x.isMatch cls t c = true := by rw [isMatch_iff]; intro e; exact hm ⟨e.2.1, e.2.2⟩
        rw [if_neg hne, ih', find_cons_neg _ _ _ _ _ this]
    · have hne : ¬ ((k0, x.rdtype, x.covers) : Key) = (k, t, c) := by
        intro e; simp at e; exact hk e.1.symm
      rw [if_neg hne, ih', if_neg hk, if_neg hk]

theorem shas_append (a b : SZone) (n : Name) : SZone.has (a ++ b) n = (SZone.has a n || SZone.has b n) := by
  unfold SZone.has; rw [List.any_append]

theorem shas_node (k0 : Name) (nd : Node) (n : Name) :
    SZone.has (nd.map fun r => ((k0, r.rdtype, r.covers), r)) n = (!nd.isEmpty && decide (k0 = n)) := by
  unfold SZone.has
  cases nd with
  | nil => simp
  | cons x xs =>
    by_cases hk : k0 = n <;> simp [hk]

theorem flatten_cons (k0 : Name) (nd : Node) (rest : Nodes) :
    flatten ((k0, nd) :: rest) = (nd.map fun r => ((k0, r.rdtype, r.covers), r)) ++ flatten rest := by
  simp [flatten]

theorem mem_flatten {v : Nodes} {e : Key × Rdataset} (h : e ∈ flatten v) : ∃ x ∈ v, e.1.1 = x.1 := by
  unfold flatten at h
  rw [List.mem_flatMap] at h
  obtain ⟨x, hx, he⟩ := h
  rw [List.mem_map] at he
  obtain ⟨r, _, hr⟩ := he
  exact ⟨x, hx, by rw [← hr]⟩

theorem sget_flatten_absent (v : Nodes) (k0 : Name) (h : ∀ x ∈ v, k0 ≠ x.1) (t c : Nat) :
    SZone.get (flatten v) (k0, t, c) = none := by
  cases hg : SZone.get (flatten v) (k0, t, c) with
  | none => rfl
  | some r =>
    obtain ⟨x, hx, he⟩ := mem_flatten (sget_some_mem hg)
    exact absurd he (h x hx)

theorem shas_flatten_absent (v : Nodes) (k0 : Name) (h : ∀ x ∈ v, k0 ≠ x.1) : SZone.has (flatten v) k0 = false := by
  apply Bool.eq_false_iff.mpr
  intro hh
  rw [shas_iff] at hh
  obtain ⟨e, he, hn⟩ := hh
  obtain ⟨x, hx, hex⟩ := mem_flatten he
  exact h x hx (by rw [← hn, hex])

/-- "every well-formed concrete zone is simulated by its flattening" -/
theorem sim_flatten (cls : Nat) (v : Nodes) (h : WfZone cls v) : Sim cls v (flatten v) ∧ Inv cls v := by
  induction v with
  | nil => exact ⟨⟨fun _ _ _ => rfl, fun _ => rfl⟩, Inv.nil cls⟩
  | cons e rest ih =>
    obtain ⟨k0, nd⟩ := e
    have hp := List.pairwise_cons.mp h.1
    have hrest : WfZone cls rest := ⟨hp.2, fun x hx => h.2 x (List.mem_cons_of_mem _ hx)⟩
    obtain ⟨ihs, ihi⟩ := ih hrest
    have hnd := h.2 (k0, nd) (List.mem_cons_self ..)
    have habs : ∀ x ∈ rest, k0 ≠ x.1 := fun x hx => hp.1 x hx
    refine ⟨⟨?_, ?_⟩, ?_⟩
    · intro k t c
      rw [flatten_cons, sget_append, sget_node cls k0 nd hnd.2.1]
      unfold getM
      simp only [nodesGet]
      by_cases hk : k0 = k
      · subst hk
        simp only [if_true]
        rw [sget_flatten_absent rest k0 habs]
        cases nd.find cls t c <;> rfl
      · have : ¬ k = k0 := fun e => hk e.symm
        simp only [hk, this, if_false, Option.or]
        exact ihs.1 k t c
    · intro k
      rw [flatten_cons, shas_append, shas_node]
      simp only [nodesGet]
      by_cases hk : k0 = k
      · subst hk
        have : nd.isEmpty = false := by
          cases hq : nd with
          | nil => exact absurd hq hnd.1
          | cons a b => rfl
        simp [this]
      · simp only [hk, if_false, decide_false, Bool.and_false, Bool.false_or]
        exact ihs.2 k
    · intro k nd' hk
      simp only [nodesGet] at hk
      by_cases hkk : k0 = k
      · simp [hkk] at hk; rw [← hk]; exact hnd.2
      · simp [hkk] at hk; exact ihi k nd' hk

end Model.ZT

import Proofs.RenderTrunc
/-! Header counts: what `write_header` writes equals the number of records rendered per section. -/
namespace Model

def itemCount : Item → Nat
  | .q .. => 1
  | .rr _ r => max 1 r.rdatas.length

def countItems (c : Counts) : List Item → Counts
  | [] => c
  | it :: rest => countItems (c.bump it.sec (itemCount it)) rest

theorem addItem_count (s : RState) (it : Item) (s' : RState) (h : s.addItem it = .ok s') :
    s'.counts = s.counts.bump it.sec (itemCount it) := by
  cases it with
  | q n t c => exact addQuestion_count s n t c s' h
  | rr sec r => exact addRRset_count s sec r s' h

theorem addItems_counts (items : List Item) : ∀ (s s' : RState), s.addItems items = .ok (s', false) →
    s'.counts = countItems s.counts items := by
  induction items with
  | nil => intro s s' h; simp [RState.addItems] at h; rw [← h]; rfl
  | cons it rest ih =>
    intro s s' h
    unfold RState.addItems at h
    cases hr : s.addItem it with
    | err e => rw [hr] at h; simp at h
    | tooBig s1 => rw [hr] at h; simp at h
    | ok s1 =>
      rw [hr] at h
      simp only at h
      rw [ih s1 s' h, addItem_count s it s1 hr]
      rfl

theorem countItems_append (a b : List Item) (c : Counts) : countItems c (a ++ b) = countItems (countItems c a) b := by
  induction a generalizing c with
  | nil => rfl
  | cons it rest ih => simp [countItems, ih]

theorem countItems_q (l : List RRset) (c : Counts) :
    countItems c (l.map fun r => Item.q r.name r.rdtype r.rdclass) = { c with c0 := c.c0 + l.length } := by
  induction l generalizing c with
  | nil => rfl
  | cons r rest ih =>
    simp only [List.map_cons, countItems, Item.sec, itemCount, Counts.bump, if_true, ih, List.length_cons]
    congr 1; omega

theorem countItems_1 (l : List RRset) (c : Counts) :
    countItems c (l.map (Item.rr 1)) = { c with c1 := c.c1 + rrCount l } := by
  induction l generalizing c with
  | nil => simp [countItems, rrCount]
  | cons r rest ih =>
    simp only [List.map_cons, countItems, Item.sec, itemCount, Counts.bump, ih]
    simp [rrCount]; omega

theorem countItems_2 (l : List RRset) (c : Counts) :
    countItems c (l.map (Item.rr 2)) = { c with c2 := c.c2 + rrCount l } := by
  induction l generalizing c with
  | nil => simp [countItems, rrCount]
  | cons r rest ih =>
    simp only [List.map_cons, countItems, Item.sec, itemCount, Counts.bump, ih]
    simp [rrCount]; omega

theorem countItems_3 (l : List RRset) (c : Counts) :
    countItems c (l.map (Item.rr 3)) = { c with c3 := c.c3 + rrCount l } := by
  induction l generalizing c with
  | nil => simp [countItems, rrCount]
  | cons r rest ih =>
    simp only [List.map_cons, countItems, Item.sec, itemCount, Counts.bump, ih]
    simp [rrCount]; omega

theorem countItems_message (m : Message) :
    countItems {} m.items = { c0 := m.q.length, c1 := rrCount m.an, c2 := rrCount m.au, c3 := rrCount m.ad } := by
  simp only [Message.items, countItems_append, countItems_q, countItems_1, countItems_2, countItems_3]
  simp

/-- the counts the header is written with -/
def Message.headerCounts (m : Message) : Counts :=
  { c0 := m.q.length, c1 := rrCount m.an, c2 := rrCount m.au,
    c3 := rrCount m.ad + (if m.opt.isSome then 1 else 0) + (if m.tsig.isSome then 1 else 0) }

theorem writeHeader_take (s : RState) :
    s.writeHeader.out.take 12 = u16 s.id ++ u16 s.flags ++ u16 s.counts.c0 ++ u16 s.counts.c1 ++ u16 s.counts.c2
      ++ u16 s.counts.c3 := by
  simp [RState.writeHeader, u16]

theorem stepOk_addRRset {s : RState} {sec : Nat} {r : RRset} {s' : RState}
    (h : stepToExcept (s.addRRset sec r) = .ok s') : s.addRRset sec r = .ok s' := by
  cases hr : s.addRRset sec r with
  | ok s1 => rw [hr] at h; simp [stepToExcept] at h; rw [h]
  | tooBig s1 => rw [hr] at h; simp [stepToExcept] at h
  | err e => rw [hr] at h; simp [stepToExcept] at h

theorem addRRset_ok_fields {s : RState} {sec : Nat} {r : RRset} {s' : RState} (h : s.addRRset sec r = .ok s') :
    s'.id = s.id ∧ s'.flags = s.flags := by
  unfold RState.addRRset at h
  split at h
  · simp at h
  · rename_i s1 hs1
    obtain ⟨rfl, _⟩ := setSection_ok hs1
    split at h
    · simp at h
    · unfold RState.endTrack at h
      split at h
      · simp at h
      · simp at h; subst h; exact ⟨rfl, rfl⟩

/-- the state the tail of `to_wire` ends in: counts, id, flags and the header octets -/
theorem finish_counts (r : RState) (opt : Option EOpt) (tsig : Option Tsig) (pad a b : Nat) (r' : RState)
    (h : r.finish opt tsig pad a b = .ok r') :
    r'.counts = { r.counts with c3 := r.counts.c3 + (if opt.isSome then 1 else 0) + (if tsig.isSome then 1 else 0) }
      ∧ r'.out.take 12 = u16 r.id ++ u16 r.flags ++ u16 r'.counts.c0 ++ u16 r'.counts.c1 ++ u16 r'.counts.c2
          ++ u16 r'.counts.c3 := by
  unfold RState.finish at h
  simp only at h
  have key : ∀ r5 : RState, (match opt with
      | none => (Except.ok r.releaseReserved : Except RErr RState)
      | some o => stepToExcept (r.releaseReserved.addOpt o pad a b)) = .ok r5 →
      r5.counts = { r.counts with c3 := r.counts.c3 + (if opt.isSome then 1 else 0) } ∧ r5.id = r.id ∧ r5.flags = r.flags := by
    intro r5 h5
    cases opt with
    | none => simp at h5; subst h5; exact ⟨rfl, rfl, rfl⟩
    | some o =>
      simp only at h5
      replace h5 := addOpt_core_of_ok h5
      unfold RState.addOptCore at h5
      split at h5
      · have h6 := stepOk_addRRset h5
        have := addRRset_count _ _ _ _ h6
        obtain ⟨i1, i2⟩ := addRRset_ok_fields h6
        refine ⟨?_, i1, i2⟩
        rw [this]
        simp [Counts.bump, optRRset, RState.releaseReserved, secADD]
      · have h6 := stepOk_addRRset h5
        have := addRRset_count _ _ _ _ h6
        obtain ⟨i1, i2⟩ := addRRset_ok_fields h6
        refine ⟨?_, i1, i2⟩
        rw [this]
        simp [Counts.bump, optRRset, RState.releaseReserved, secADD]
  split at h
  · simp at h
  · rename_i r5 h5
    obtain ⟨k1, k2, k3⟩ := key r5 h5
    cases tsig with
    | none =>
      simp at h; subst h
      refine ⟨by simp [RState.writeHeader, k1], ?_⟩
      rw [writeHeader_take, k2, k3]
      rfl
    | some t =>
      simp only at h
      split at h
      · simp at h
      · rename_i r6 h6
        simp at h; subst h
        have h7 := stepOk_addRRset h6
        have hc := addRRset_count _ _ _ _ h7
        obtain ⟨i1, i2⟩ := addRRset_ok_fields h7
        have hc6 : r6.counts = { r.counts with c3 := r.counts.c3 + (if opt.isSome then 1 else 0) + 1 } := by
          rw [hc]
          simp [Counts.bump, tsigRRset, RState.writeHeader, k1, secADD]
        refine ⟨by simp [RState.writeHeader, hc6], ?_⟩
        rw [writeHeader_take, i1, i2]
        simp [RState.writeHeader, k2, k3]

end Model

namespace Model

theorem base_fields (m : Message) (L a b : Nat) (r : RState) (h : m.base L a b = .ok r) :
    r.counts = {} ∧ r.id = m.id ∧ r.flags = m.flags := by
  have h := base_ok h
  unfold Message.base0 at h
  split at h
  · simp at h
  · rename_i r1 h1
    obtain ⟨rfl, _⟩ := reserve_ok h1
    obtain ⟨rfl, _⟩ := reserve_ok h
    exact ⟨rfl, rfl, rfl⟩

/-- an untruncated rendering: the counts in the renderer and the twelve header octets -/
theorem render_counts (m : Message) (lim : Nat) (r : RState) (h : m.render lim false = .ok r) :
    r.counts = m.headerCounts ∧
    r.out.take 12 = u16 m.id ++ u16 m.flags ++ u16 m.headerCounts.c0 ++ u16 m.headerCounts.c1
      ++ u16 m.headerCounts.c2 ++ u16 m.headerCounts.c3 := by
  unfold Message.render at h
  cases hb : m.tsigReserve with
  | error e => rw [hb] at h; simp at h
  | ok b =>
    rw [hb] at h
    simp only at h
    cases hs : m.renderSections (clampSize lim m.requestPayload) false m.optReserve b with
    | error e => rw [hs] at h; simp at h
    | ok r3 =>
      rw [hs] at h
      simp only at h
      rw [renderSections_eq] at hs
      cases hbase : m.base (clampSize lim m.requestPayload) m.optReserve b with
      | error e => rw [hbase] at hs; simp at hs
      | ok r2 =>
        rw [hbase] at hs
        simp only at hs
        obtain ⟨c0, i0, f0⟩ := base_fields m _ _ _ r2 hbase
        obtain ⟨hi2, _, _⟩ := base_inv m _ _ _ r2 hbase
        cases hit : r2.addItems m.items with
        | error e => rw [hit] at hs; simp at hs
        | ok p =>
          obtain ⟨r3', big⟩ := p
          rw [hit] at hs
          simp only at hs
          cases big with
          | true => simp [RState.afterItems] at hs
          | false =>
            simp [RState.afterItems] at hs
            subst hs
            have hc := addItems_counts _ _ _ hit
            obtain ⟨_, _, _, i3, f3, _, _⟩ := addItems_inv _ _ _ _ hi2 hit
            rw [c0, countItems_message] at hc
            obtain ⟨k1, k2⟩ := finish_counts _ _ _ _ _ _ r h
            have hcr : r.counts = m.headerCounts := by
              rw [k1, hc]; rfl
            refine ⟨hcr, ?_⟩
            rw [k2, hcr, i3, i0, f3, f0]

end Model

import Model.Tokenizer
/-!
Layout independence of the tokenizer: separators made of blanks, tabs, parentheses and — inside
parentheses — newlines and comments never change the tokens `Tokenizer.get` returns.
-/
namespace Model

/-! ## words -/

/-- text of an identifier token: plain non-delimiter characters and `\c` escapes (`c` not a newline) -/
def identOK : List Nat → Bool
  | [] => true
  | [92] => false
  | 92 :: c :: rest => c ≠ 10 && identOK rest
  | c :: rest => !isDelim false c && identOK rest

/-- body of a quoted string: anything but `"` and newline, and `\c` escapes (any `c`) -/
def quotedOK : List Nat → Bool
  | [] => true
  | [92] => false
  | 92 :: _ :: rest => quotedOK rest
  | c :: rest => c ≠ 34 && c ≠ 10 && quotedOK rest

/-- does the text contain an escape (a backslash)? -/
def hasEsc (w : List Nat) : Bool := w.contains 92

/-! ## the loop in skip mode -/

/-- the loop of `get` entered in skip mode at depth `d`, not quoting, nothing accumulated -/
def runSkip (d : Nat) (l : List Nat) : Except TokErr GOut :=
  getLoop false { ml := d, mode := .skip } l

def isWs (ml : Bool) (c : Nat) : Bool := c = 32 ∨ c = 9 ∨ (c = 10 ∧ ml = true)

theorem skipWs_head (ml : Bool) (l : List Nat) : ∀ c ∈ (skipWs ml l).2.head?, isWs ml c = false := by
  induction l with
  | nil => simp [skipWs]
  | cons a as ih =>
    unfold skipWs
    split
    · simpa using ih
    · rename_i h
      intro c hc
      simp at hc; subst hc
      simpa [isWs] using h

/-- entering the loop in `tok` mode after `skip_whitespace` is the same as entering it in `skip` mode -/
theorem getLoop_tok_after_skipWs (wc : Bool) (s : LS) (hm : s.mode = .tok) (l : List Nat) :
    getLoop wc s (skipWs (decide (s.ml > 0)) l).2 = getLoop wc { s with mode := .skip } l := by
  induction l with
  | nil => simp [skipWs, getLoop, stepEof, hm]
  | cons c cs ih =>
    unfold skipWs
    split
    · rename_i h
      simp only
      rw [ih]
      conv => rhs; rw [getLoop]
      have : (c = 32 ∨ c = 9 ∨ c = 10 ∧ s.ml > 0) := by simpa using h
      simp [stepChar, this]
    · rename_i h
      have hn : ¬ (c = 32 ∨ c = 9 ∨ c = 10 ∧ s.ml > 0) := by simpa using h
      simp only
      rw [getLoop, getLoop]
      simp [stepChar, hm, hn]
      rfl

/-- result of `TState.get` in terms of the loop's output -/
def liftOut (r : Except TokErr GOut) : Except TokErr (Token × TState) :=
  match r with
  | .error e => .error e
  | .ok o => .ok (o.token, { input := o.rest, ungotten := none, multiline := o.ml, quoting := o.q })

/-- `get()` with nothing ungotten and not quoting runs the loop in skip mode over the whole unread input -/
theorem get_eq_runSkip (inp : List Nat) (d : Nat) :
    ({ input := inp, ungotten := none, multiline := d, quoting := false } : TState).get =
      liftOut (runSkip d inp) := by
  unfold TState.get
  simp only [Bool.false_eq_true, false_and, if_false]
  have := getLoop_tok_after_skipWs false { ml := d, q := false } rfl inp
  simp only at this
  rw [this]
  unfold runSkip liftOut
  rfl

/-- after a quoted string the closing quote is still unread and `quoting` is set: the next `get()` consumes
the quote, leaves quoting mode, and goes on in skip mode -/
theorem get_eq_runSkip_quote (inp : List Nat) (d : Nat) :
    ({ input := 34 :: inp, ungotten := none, multiline := d, quoting := true } : TState).get =
      liftOut (runSkip d inp) := by
  unfold TState.get
  simp only [Bool.false_eq_true, false_and, if_false]
  have h1 : skipWs (decide (d > 0)) (34 :: inp) = (0, 34 :: inp) := by simp [skipWs]
  rw [h1]
  simp only
  rw [getLoop]
  simp [stepChar, stepMain, isDelim, quotingDelimiters]
  unfold runSkip liftOut
  rfl

/-! ## separators -/

inductive SepItem where
  | sp | tab
  | nl                          -- only inside parentheses
  | comment (text : List Nat)   -- `;text` up to and including the newline; only inside parentheses
  | opn | cls
  deriving Repr, DecidableEq

def SepItem.render : SepItem → List Nat
  | .sp => [32] | .tab => [9] | .nl => [10]
  | .comment t => 59 :: t ++ [10]
  | .opn => [40] | .cls => [41]

def renderSep (items : List SepItem) : List Nat := items.flatMap SepItem.render

/-- parenthesis depth after the separator; `none` = ill-formed (newline or comment at depth 0, `)` at depth 0,
newline inside a comment) -/
def sepDepth : Nat → List SepItem → Option Nat
  | d, [] => some d
  | d, .sp :: r => sepDepth d r
  | d, .tab :: r => sepDepth d r
  | d, .nl :: r => if d > 0 then sepDepth d r else none
  | d, .comment t :: r => if d > 0 ∧ 10 ∉ t then sepDepth d r else none
  | d, .opn :: r => sepDepth (d + 1) r
  | d, .cls :: r => if d > 0 then sepDepth (d - 1) r else none

/-- the comment loop: characters other than newline accumulate -/
theorem getLoop_comment (s : LS) (acc t rest : List Nat) (hm : s.mode = .comment acc) (ht : 10 ∉ t) :
    getLoop false s (t ++ 10 :: rest) = getLoop false { s with mode := .comment (acc ++ t) } (10 :: rest) := by
  induction t generalizing s acc with
  | nil => simp [← hm]
  | cons c cs ih =>
    have hc : c ≠ 10 := fun h => ht (by simp [h])
    have hcs : 10 ∉ cs := fun h => ht (by simp [h])
    simp only [List.cons_append]
    rw [getLoop]
    simp only [stepChar, hm, hc, if_false]
    rw [ih _ (acc ++ [c]) rfl hcs]
    simp

/-- a well-formed separator is consumed in skip mode and only changes the parenthesis depth -/
theorem runSkip_sep (items : List SepItem) (d d' : Nat) (rest : List Nat) (h : sepDepth d items = some d') :
    runSkip d (renderSep items ++ rest) = runSkip d' rest := by
  induction items generalizing d with
  | nil => simp [sepDepth] at h; subst h; simp [renderSep]
  | cons it r ih =>
    cases it with
    | sp =>
      simp only [sepDepth] at h
      simp only [renderSep, List.flatMap_cons, SepItem.render, List.cons_append, List.nil_append]
      unfold runSkip; rw [getLoop]; simp [stepChar]
      exact ih d h
    | tab =>
      simp only [sepDepth] at h
      simp only [renderSep, List.flatMap_cons, SepItem.render, List.cons_append, List.nil_append]
      unfold runSkip; rw [getLoop]; simp [stepChar]
      exact ih d h
    | nl =>
      simp only [sepDepth] at h
      split at h
      · rename_i hd
        simp only [renderSep, List.flatMap_cons, SepItem.render, List.cons_append, List.nil_append]
        unfold runSkip; rw [getLoop]; simp [stepChar, hd]
        exact ih d h
      · cases h
    | comment t =>
      simp only [sepDepth] at h
      split at h
      · rename_i hd
        simp only [renderSep, List.flatMap_cons, SepItem.render, List.cons_append, List.nil_append]
        unfold runSkip; rw [getLoop]
        simp only [stepChar, stepMain, isDelim, delimiters]
        simp
        rw [getLoop_comment _ [] t _ rfl hd.2]
        rw [getLoop]
        have hd1 : d > 0 := hd.1
        simp [stepChar, hd1]
        exact ih d h
      · cases h
    | opn =>
      simp only [sepDepth] at h
      simp only [renderSep, List.flatMap_cons, SepItem.render, List.cons_append, List.nil_append]
      unfold runSkip; rw [getLoop]
      simp [stepChar, stepMain, isDelim, delimiters]
      exact ih (d + 1) h
    | cls =>
      simp only [sepDepth] at h
      split at h
      · rename_i hd
        simp only [renderSep, List.flatMap_cons, SepItem.render, List.cons_append, List.nil_append]
        unfold runSkip; rw [getLoop]
        have : d ≠ 0 := by omega
        simp [stepChar, stepMain, isDelim, delimiters, this]
        exact ih (d - 1) h
      · cases h

/-! ## identifiers and quoted strings -/

theorem skip_eq_tok (wc : Bool) (s : LS) (hm : s.mode = .skip) (c : Nat) (cs : List Nat)
    (hc : ¬ (c = 32 ∨ c = 9 ∨ (c = 10 ∧ s.ml > 0))) :
    getLoop wc s (c :: cs) = getLoop wc { s with mode := .tok } (c :: cs) := by
  rw [getLoop, getLoop]
  simp only [stepChar, hm, hc, if_false]
  rfl

theorem isDelim_false_92 : isDelim false 92 = false := by decide

theorem getLoop_ident (wc : Bool) (w : List Nat) (s : LS) (dch : Nat) (rest : List Nat)
    (hw : identOK w = true) (hm : s.mode = .tok) (hq : s.q = false) (htt : s.tt = .identifier)
    (hd : isDelim false dch = true) (hne : s.tok ++ w ≠ []) :
    getLoop wc s (w ++ dch :: rest) =
      .ok ⟨{ ttype := .identifier, value := s.tok ++ w, hasEscape := s.esc || hasEsc w }, dch :: rest, s.ml, false⟩ := by
  induction w using identOK.induct generalizing s with
  | case1 =>
    simp only [List.nil_append, List.append_nil] at hne ⊢
    rw [getLoop]
    simp [stepChar, hm, stepMain, hq, hd, hne, finishTok, htt, hasEsc]
  | case2 => simp [identOK] at hw
  | case3 c r ih =>
    simp only [identOK, Bool.and_eq_true, bne_iff_ne, ne_eq, decide_eq_true_eq] at hw
    have hc : c ≠ 10 := by simpa using hw.1
    simp only [List.cons_append]
    rw [getLoop]
    simp only [stepChar, hm, stepMain, hq, isDelim_false_92, Bool.false_eq_true, false_and, if_false, if_true, hc]
    rw [ih { tok := s.tok ++ [92, c], tt := s.tt, esc := true, ml := s.ml } hw.2 rfl rfl htt (by simp)]
    simp [hasEsc]
  | case4 c r h1 h2 ih =>
    have hc92 : c ≠ 92 := by
      intro h; subst h
      cases r with
      | nil => exact h1 rfl rfl
      | cons a b => exact h2 a b rfl rfl
    have hw' : isDelim false c = false ∧ identOK r = true := by
      unfold identOK at hw
      split at hw
      · cases ‹c :: r = []›
      · rename_i heq
        simp only [List.cons.injEq] at heq
        exact absurd heq.2 (h1 heq.1)
      · rename_i a b heq
        simp only [List.cons.injEq] at heq
        exact absurd heq.2 (h2 a b heq.1)
      · rename_i heq
        simp only [List.cons.injEq] at heq
        obtain ⟨rfl, rfl⟩ := heq
        simpa using hw
    simp only [List.cons_append]
    rw [getLoop]
    simp only [stepChar, hm, stepMain, hq, hw'.1, Bool.false_eq_true, false_and, if_false, hc92]
    rw [ih { tok := s.tok ++ [c], tt := s.tt, esc := s.esc, ml := s.ml } hw'.2 rfl rfl htt (by simp)]
    have : decide (92 = c) = false := by simpa using fun h => hc92 h.symm
    simp [hasEsc, this]

theorem getLoop_quoted (b : List Nat) (s : LS) (rest : List Nat)
    (hb : quotedOK b = true) (hm : s.mode = .tok) (hq : s.q = true) (htt : s.tt = .quotedString) :
    getLoop false s (b ++ 34 :: rest) =
      .ok ⟨{ ttype := .quotedString, value := s.tok ++ b, hasEscape := s.esc || hasEsc b }, 34 :: rest, s.ml, true⟩ := by
  induction b using quotedOK.induct generalizing s with
  | case1 =>
    simp only [List.nil_append, List.append_nil]
    rw [getLoop]
    simp [stepChar, hm, stepMain, hq, isDelim, quotingDelimiters, finishTok, htt, hasEsc]
  | case2 => simp [quotedOK] at hb
  | case3 c r ih =>
    simp only [quotedOK] at hb
    simp only [List.cons_append]
    rw [getLoop]
    simp only [stepChar, hm, stepMain, hq, isDelim, quotingDelimiters]
    simp
    rw [ih { tok := s.tok ++ [92, c], tt := s.tt, esc := true, ml := s.ml, q := true } hb rfl rfl htt]
    simp [hasEsc]
  | case4 c r h1 h2 ih =>
    have hc92 : c ≠ 92 := by
      intro h; subst h
      cases r with
      | nil => exact h1 rfl rfl
      | cons a b => exact h2 a b rfl rfl
    have hb' : (c ≠ 34 ∧ c ≠ 10) ∧ quotedOK r = true := by
      unfold quotedOK at hb
      split at hb
      · cases ‹c :: r = []›
      · rename_i heq
        simp only [List.cons.injEq] at heq
        exact absurd heq.2 (h1 heq.1)
      · rename_i a b heq
        simp only [List.cons.injEq] at heq
        exact absurd heq.2 (h2 a b heq.1)
      · rename_i heq
        simp only [List.cons.injEq] at heq
        obtain ⟨rfl, rfl⟩ := heq
        simpa using hb
    simp only [List.cons_append]
    rw [getLoop]
    simp only [stepChar, hm, stepMain, hq, isDelim, quotingDelimiters]
    simp [hb'.1.1, hb'.1.2, hc92]
    rw [ih { tok := s.tok ++ [c], tt := s.tt, esc := s.esc, ml := s.ml, q := true } hb'.2 rfl rfl htt]
    have : decide (92 = c) = false := by simpa using fun h => hc92 h.symm
    simp [hasEsc, this]

/-! ## one `get()` in skip mode -/

theorem identOK_head_not_ws (a : Nat) (r : List Nat) (hw : identOK (a :: r) = true) (ml : Nat) :
    ¬ (a = 32 ∨ a = 9 ∨ (a = 10 ∧ ml > 0)) := by
  by_cases h92 : a = 92
  · omega
  · have : isDelim false a = false := by
      unfold identOK at hw
      split at hw
      · cases ‹a :: r = []›
      · rename_i heq; simp at heq; exact absurd heq.1 h92
      · rename_i heq; simp at heq; exact absurd heq.1 h92
      · rename_i heq
        simp only [List.cons.injEq] at heq
        obtain ⟨rfl, rfl⟩ := heq
        simp at hw; exact hw.1
    simp [isDelim, delimiters] at this
    omega

/-- an identifier followed by a delimiter -/
theorem runSkip_ident (w : List Nat) (d dch : Nat) (rest : List Nat)
    (hw : identOK w = true) (hne : w ≠ []) (hd : isDelim false dch = true) :
    runSkip d (w ++ dch :: rest) =
      .ok ⟨{ ttype := .identifier, value := w, hasEscape := hasEsc w }, dch :: rest, d, false⟩ := by
  unfold runSkip
  cases w with
  | nil => exact absurd rfl hne
  | cons c r =>
    have := identOK_head_not_ws c r hw d
    simp only [List.cons_append]
    rw [skip_eq_tok false _ rfl c _ this]
    have := getLoop_ident false (c :: r) { ml := d, mode := .tok } dch rest hw rfl rfl rfl hd (by simp)
    simpa using this

/-- a quoted string: the closing quote stays unread and `quoting` stays set -/
theorem runSkip_quoted (b : List Nat) (d : Nat) (rest : List Nat) (hb : quotedOK b = true) :
    runSkip d (34 :: b ++ 34 :: rest) =
      .ok ⟨{ ttype := .quotedString, value := b, hasEscape := hasEsc b }, 34 :: rest, d, true⟩ := by
  unfold runSkip
  simp only [List.cons_append]
  rw [getLoop]
  simp [stepChar, stepMain, isDelim, delimiters]
  have := getLoop_quoted b { tt := .quotedString, ml := d, q := true, mode := .tok } rest hb rfl rfl rfl
  simpa using this

/-- end of line at depth 0 -/
theorem runSkip_eol (rest : List Nat) :
    runSkip 0 (10 :: rest) = .ok ⟨{ ttype := .eol, value := [10] }, rest, 0, false⟩ := by
  unfold runSkip
  rw [getLoop]
  simp [stepChar, stepMain, isDelim, delimiters]

/-- a trailing comment at depth 0 ends the line; the EOL token carries the comment -/
theorem runSkip_eol_comment (t rest : List Nat) (ht : 10 ∉ t) :
    runSkip 0 (59 :: t ++ 10 :: rest) = .ok ⟨{ ttype := .eol, value := [10], comment := some t }, rest, 0, false⟩ := by
  unfold runSkip
  simp only [List.cons_append]
  rw [getLoop]
  simp [stepChar, stepMain, isDelim, delimiters]
  rw [getLoop_comment _ [] t _ rfl ht]
  rw [getLoop]
  simp [stepChar]

/-! ## whole lines -/

inductive Word where
  | ident (w : List Nat)
  | quoted (b : List Nat)
  deriving Repr, DecidableEq

def Word.ok : Word → Bool
  | .ident w => identOK w && !w.isEmpty
  | .quoted b => quotedOK b

def Word.text : Word → List Nat
  | .ident w => w
  | .quoted b => 34 :: b ++ [34]

def Word.isQuoted : Word → Bool
  | .ident _ => false
  | .quoted _ => true

/-- the token `get()` returns for the word -/
def Word.token : Word → Token
  | .ident w => { ttype := .identifier, value := w, hasEscape := hasEsc w }
  | .quoted b => { ttype := .quotedString, value := b, hasEscape := hasEsc b }

/-- tokenizer state between two words: depth `d`; after a quoted string the closing quote is still unread -/
def after (d : Nat) (pq : Bool) (tail : List Nat) : TState :=
  { input := if pq then 34 :: tail else tail, ungotten := none, multiline := d, quoting := pq }

theorem get_after (d : Nat) (pq : Bool) (tail : List Nat) : (after d pq tail).get = liftOut (runSkip d tail) := by
  cases pq
  · exact get_eq_runSkip tail d
  · exact get_eq_runSkip_quote tail d

def startsDelim (l : List Nat) : Prop := ∃ c cs, l = c :: cs ∧ isDelim false c = true

theorem renderSep_startsDelim (sp : List SepItem) (x : List Nat) (h : sp ≠ []) : startsDelim (renderSep sp ++ x) := by
  cases sp with
  | nil => exact absurd rfl h
  | cons it r =>
    cases it <;> simp [renderSep, SepItem.render, startsDelim, isDelim, delimiters]

/-- one `get()`: separator, then a word -/
theorem get_word (sp : List SepItem) (w : Word) (T : List Nat) (d d1 : Nat) (pq : Bool)
    (hsp : sepDepth d sp = some d1) (hw : w.ok = true) (hT : startsDelim T) :
    (after d pq (renderSep sp ++ (w.text ++ T))).get = .ok (w.token, after d1 w.isQuoted T) := by
  rw [get_after, runSkip_sep sp d d1 _ hsp]
  cases w with
  | ident w =>
    obtain ⟨dch, rest, rfl, hd⟩ := hT
    simp only [Word.ok, Bool.and_eq_true, Bool.not_eq_true', List.isEmpty_eq_false_iff] at hw
    simp only [Word.text]
    rw [runSkip_ident w d1 dch rest hw.1 hw.2 hd]
    simp [liftOut, Word.token, after, Word.isQuoted]
  | quoted b =>
    simp only [Word.ok] at hw
    simp only [Word.text, List.append_assoc, List.cons_append, List.nil_append]
    have := runSkip_quoted b d1 T hw
    simp only [List.cons_append] at this
    rw [this]
    simp [liftOut, Word.token, after, Word.isQuoted]

def trailingText : Option (List Nat) → List Nat
  | some t => 59 :: t
  | none => []

def eolToken (trailing : Option (List Nat)) : Token := { ttype := .eol, value := [10], comment := trailing }

/-- the `get()` that ends the line: closing separator back to depth 0, optional comment, newline -/
theorem get_end (sp : List SepItem) (trailing : Option (List Nat)) (rest : List Nat) (d : Nat) (pq : Bool)
    (hsp : sepDepth d sp = some 0) (ht : ∀ t ∈ trailing, 10 ∉ t) :
    (after d pq (renderSep sp ++ (trailingText trailing ++ 10 :: rest))).get = .ok (eolToken trailing, after 0 false rest) := by
  rw [get_after, runSkip_sep sp d 0 _ hsp]
  cases trailing with
  | none =>
    simp only [trailingText, List.nil_append]
    rw [runSkip_eol]
    simp [liftOut, eolToken, after]
  | some t =>
    simp only [trailingText, List.cons_append]
    have := runSkip_eol_comment t rest (ht t rfl)
    simp only [List.cons_append] at this
    rw [this]
    simp [liftOut, eolToken, after]

/-- text of a line: every word preceded by its separator, a closing separator, an optional comment, newline -/
def renderLine (items : List (List SepItem × Word)) (sepEnd : List SepItem) (trailing : Option (List Nat)) : List Nat :=
  match items with
  | [] => renderSep sepEnd ++ (trailingText trailing ++ [10])
  | (sp, w) :: r => renderSep sp ++ (w.text ++ renderLine r sepEnd trailing)

/-- parenthesis depth at the end of the line (`none` = ill-formed layout) -/
def lineDepth : Nat → List (List SepItem × Word) → List SepItem → Option Nat
  | d, [], e => sepDepth d e
  | d, (sp, _) :: r, e => (sepDepth d sp).bind fun d' => lineDepth d' r e

/-- `get()` until end of line: the tokens of the line including the final EOL/EOF token -/
def getLine : Nat → TState → Except TokErr (List Token × TState)
  | 0, _ => .error .syntaxError
  | f + 1, s =>
    match s.get with
    | .error e => .error e
    | .ok (t, s') =>
      if t.isEolOrEof then .ok ([t], s')
      else match getLine f s' with
        | .error e => .error e
        | .ok (ts, s'') => .ok (t :: ts, s'')

theorem renderLine_startsDelim (r : List (List SepItem × Word)) (sepEnd : List SepItem) (trailing : Option (List Nat))
    (hsep : ∀ p ∈ r, p.1 ≠ []) : startsDelim (renderLine r sepEnd trailing) := by
  cases r with
  | nil =>
    simp only [renderLine]
    cases sepEnd with
    | nil =>
      cases trailing <;> simp [renderSep, trailingText, startsDelim, isDelim, delimiters]
    | cons it e => exact renderSep_startsDelim _ _ (by simp)
  | cons p r =>
    obtain ⟨sp, w⟩ := p
    simp only [renderLine]
    exact renderSep_startsDelim _ _ (hsep (sp, w) (by simp))

theorem Word.token_not_eol (w : Word) : w.token.isEolOrEof = false := by
  cases w <;> simp [Word.token, Token.isEolOrEof]

theorem getLine_items (items : List (List SepItem × Word)) (sepEnd : List SepItem) (trailing : Option (List Nat))
    (rest : List Nat) (d : Nat) (pq : Bool) (fuel : Nat) (hf : items.length < fuel)
    (hdepth : lineDepth d items sepEnd = some 0) (hw : ∀ p ∈ items, p.2.ok = true)
    (hsep : ∀ p ∈ items.tail, p.1 ≠ []) (ht : ∀ t ∈ trailing, 10 ∉ t) :
    getLine fuel (after d pq (renderLine items sepEnd trailing ++ rest)) =
      .ok (items.map (fun p => p.2.token) ++ [eolToken trailing], after 0 false rest) := by
  induction items generalizing d pq fuel with
  | nil =>
    cases fuel with
    | zero => simp at hf
    | succ f =>
      simp only [lineDepth] at hdepth
      simp only [renderLine, List.append_assoc, List.cons_append, List.nil_append, getLine]
      rw [get_end sepEnd trailing rest d pq hdepth ht]
      simp [eolToken, Token.isEolOrEof]
  | cons p r ih =>
    obtain ⟨sp, w⟩ := p
    cases fuel with
    | zero => simp at hf
    | succ f =>
      simp only [lineDepth] at hdepth
      cases hd1 : sepDepth d sp with
      | none => simp [hd1] at hdepth
      | some d1 =>
        simp only [hd1, Option.bind_some] at hdepth
        have hT : startsDelim (renderLine r sepEnd trailing ++ rest) := by
          obtain ⟨c, cs, h1, h2⟩ := renderLine_startsDelim r sepEnd trailing (by simpa using hsep)
          exact ⟨c, cs ++ rest, by simp [h1], h2⟩
        simp only [renderLine, List.append_assoc, getLine]
        rw [get_word sp w _ d d1 pq hd1 (hw (sp, w) (by simp)) hT]
        simp only [Word.token_not_eol, Bool.false_eq_true, if_false]
        have hsep' : ∀ p ∈ r.tail, p.1 ≠ [] := by
          intro p hp
          exact hsep p (by simpa using List.mem_of_mem_tail hp)
        rw [ih d1 w.isQuoted f (by simpa using hf) hdepth (fun p hp => hw p (by simp [hp])) hsep']
        simp

theorem map_snd_zip {α β γ : Type} (f : β → γ) (l : List α) (ws : List β) (h : l.length = ws.length) :
    (l.zip ws).map (fun p => f p.2) = ws.map f := by
  induction l generalizing ws with
  | nil => cases ws with
    | nil => rfl
    | cons _ _ => simp at h
  | cons a l ih => cases ws with
    | nil => simp at h
    | cons w ws => simp [List.zip_cons_cons, ih ws (by simpa using h)]

end Model

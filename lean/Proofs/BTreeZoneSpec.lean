import Proofs.BTreeZoneStore
/-!
The specification of C20 (`isDelegSpec`, `isGlueSpec`, `flagsSpec`) in propositional form, and its *frame
theorem*: how the specified flags of every name change when the NS ownership of one name changes.
-/
namespace Model
namespace BTZ

/-- `a` owns an NS rdataset in `nodes` -/
def NS (nodes : Nodes) (a : Name) : Prop := ∃ nd, nget nodes a = some nd ∧ hasNS nd.rds = true

/-- some proper ancestor of `n`, other than the apex, owns NS -/
def NSAbove (cfg : Cfg) (nodes : Nodes) (n : Name) : Prop :=
  ∃ a, LC a ∧ NS nodes a ∧ properSub n a = true ∧ isOrigin cfg a = false

/-- an NS owner strictly between `m` and `name` -/
def NSBetween (nodes : Nodes) (m name : Name) : Prop :=
  ∃ a, LC a ∧ NS nodes a ∧ properSub m a = true ∧ properSub a name = true

theorem nsAt_iff {nodes : Nodes} {n : Name} : nsAt nodes n = true ↔ NS nodes n := by
  unfold nsAt NS
  cases h : nget nodes n with
  | none => simp
  | some nd => simp

theorem nsAbove_iff {cfg : Cfg} {nodes : Nodes} (h : NWF nodes) {n : Name} :
    nsAbove cfg nodes n = true ↔ NSAbove cfg nodes n := by
  unfold nsAbove NSAbove NS
  rw [List.any_eq_true]
  constructor
  · rintro ⟨e, he, hp⟩
    simp only [Bool.and_eq_true, Bool.not_eq_true'] at hp
    refine ⟨e.1, h.2 e he, ⟨e.2, mem_nget h he, hp.2⟩, hp.1.1, hp.1.2⟩
  · rintro ⟨a, ha, ⟨nd, hg, hns⟩, hp, ho⟩
    refine ⟨(a, nd), nget_some_mem h.2 ha hg, ?_⟩
    simp [hp, ho, hns]

theorem isDelegSpec_iff {cfg : Cfg} {nodes : Nodes} (h : NWF nodes) {n : Name} :
    isDelegSpec cfg nodes n = true ↔ isOrigin cfg n = false ∧ NS nodes n ∧ ¬ NSAbove cfg nodes n := by
  unfold isDelegSpec
  simp only [Bool.and_eq_true, Bool.not_eq_true']
  rw [nsAt_iff, ← nsAbove_iff h]
  constructor
  · rintro ⟨⟨h1, h2⟩, h3⟩; exact ⟨h1, h2, by simp [h3]⟩
  · rintro ⟨h1, h2, h3⟩; exact ⟨⟨h1, h2⟩, by simpa using h3⟩

/-- the topmost NS owner above a name is a delegation: glue ⇔ some non-apex NS owner above -/
theorem isGlueSpec_iff {cfg : Cfg} {nodes : Nodes} (h : NWF nodes) {n : Name} :
    isGlueSpec cfg nodes n = true ↔ NSAbove cfg nodes n := by
  constructor
  · unfold isGlueSpec
    rw [List.any_eq_true]
    rintro ⟨e, he, hp⟩
    simp only [Bool.and_eq_true] at hp
    obtain ⟨h1, h2, _⟩ := (isDelegSpec_iff h).mp hp.2
    exact ⟨e.1, h.2 e he, h2, hp.1, h1⟩
  · -- descend to the shortest NS owner above `n`
    intro hex
    have key : ∀ (len : Nat) (a : Name), a.length ≤ len → LC a → NS nodes a → properSub n a = true →
        isOrigin cfg a = false → ∃ d, LC d ∧ isDelegSpec cfg nodes d = true ∧ properSub n d = true ∧ NS nodes d := by
      intro len
      induction len with
      | zero =>
        intro a hl ha hns hp ho
        refine ⟨a, ha, (isDelegSpec_iff h).mpr ⟨ho, hns, ?_⟩, hp, hns⟩
        rintro ⟨b, _, _, hpb, _⟩
        have := properSub_length hpb
        omega
      | succ len ih =>
        intro a hl ha hns hp ho
        by_cases hab : NSAbove cfg nodes a
        · obtain ⟨b, hb, hnsb, hpb, hob⟩ := hab
          have hlen := properSub_length hpb
          exact ih b (by omega) hb hnsb (properSub_trans hp hpb) hob
        · exact ⟨a, ha, (isDelegSpec_iff h).mpr ⟨ho, hns, hab⟩, hp, hns⟩
    obtain ⟨a, ha, hns, hp, ho⟩ := hex
    obtain ⟨d, hd, hdel, hpd, ⟨nd, hg, _⟩⟩ := key a.length a (Nat.le_refl _) ha hns hp ho
    unfold isGlueSpec
    rw [List.any_eq_true]
    exact ⟨(d, nd), nget_some_mem h.2 hd hg, by simp [hpd, hdel]⟩

/-! ## frame -/

/-- NS ownership of every name but `name` is the same in `N` and `N'` -/
def SameNSExcept (N N' : Nodes) (name : Name) : Prop := ∀ a, LC a → a ≠ name → (NS N' a ↔ NS N a)

theorem bool_eq_of_iff {a b : Bool} (h : a = true ↔ b = true) : a = b := by
  cases a <;> cases b <;> simp_all

theorem NSAbove_frame {cfg : Cfg} {N N' : Nodes} {name m : Name} (hs : SameNSExcept N N' name)
    (hm : properSub m name = false) : NSAbove cfg N' m ↔ NSAbove cfg N m := by
  constructor
  · rintro ⟨a, ha, hns, hp, ho⟩
    have : a ≠ name := by intro e; rw [e, hm] at hp; exact absurd hp (by decide)
    exact ⟨a, ha, (hs a ha this).mp hns, hp, ho⟩
  · rintro ⟨a, ha, hns, hp, ho⟩
    have : a ≠ name := by intro e; rw [e, hm] at hp; exact absurd hp (by decide)
    exact ⟨a, ha, (hs a ha this).mpr hns, hp, ho⟩

/-- (i) NS ownership unchanged at `name` too: the specification is unchanged everywhere -/
theorem flagsSpec_same {cfg : Cfg} {N N' : Nodes} (hN : NWF N) (hN' : NWF N') {name : Name}
    (hs : SameNSExcept N N' name) (hn : NS N' name ↔ NS N name) (m : Name) (hm : LC m) :
    flagsSpec cfg N' m = flagsSpec cfg N m := by
  have hall : ∀ a, LC a → (NS N' a ↔ NS N a) := by
    intro a ha
    by_cases e : a = name
    · rw [e]; exact hn
    · exact hs a ha e
  have habove : ∀ x, NSAbove cfg N' x ↔ NSAbove cfg N x := by
    intro x
    constructor
    · rintro ⟨a, ha, hns, hp, ho⟩; exact ⟨a, ha, (hall a ha).mp hns, hp, ho⟩
    · rintro ⟨a, ha, hns, hp, ho⟩; exact ⟨a, ha, (hall a ha).mpr hns, hp, ho⟩
  unfold flagsSpec
  congr 1
  · apply bool_eq_of_iff
    rw [isDelegSpec_iff hN', isDelegSpec_iff hN, hall m hm, habove m]
  · apply bool_eq_of_iff
    rw [isGlueSpec_iff hN', isGlueSpec_iff hN, habove m]

/-- (ii) `name` is the apex or has an NS owner above it: whatever happens to its own NS rdataset, the
specification is unchanged everywhere (except that nothing is said about names whose own node changes). -/
theorem flagsSpec_shadowed {cfg : Cfg} {N N' : Nodes} (hN : NWF N) (hN' : NWF N') {name : Name} (hname : LC name)
    (hs : SameNSExcept N N' name) (hsh : isOrigin cfg name = true ∨ NSAbove cfg N name) (m : Name) (hm : LC m) :
    flagsSpec cfg N' m = flagsSpec cfg N m := by
  have hnn : properSub name name = false := properSub_irrefl name
  have habove : ∀ x, NSAbove cfg N' x ↔ NSAbove cfg N x := by
    intro x
    by_cases hx : properSub x name = true
    · rcases hsh with ho | ⟨b, hb, hnsb, hpb, hob⟩
      · -- the apex never counts
        constructor
        · rintro ⟨a, ha, hns, hp, hoa⟩
          have : a ≠ name := by intro e; rw [e, ho] at hoa; exact absurd hoa (by decide)
          exact ⟨a, ha, (hs a ha this).mp hns, hp, hoa⟩
        · rintro ⟨a, ha, hns, hp, hoa⟩
          have : a ≠ name := by intro e; rw [e, ho] at hoa; exact absurd hoa (by decide)
          exact ⟨a, ha, (hs a ha this).mpr hns, hp, hoa⟩
      · -- `b` above `name` is above `x` as well, in both
        have hbn : b ≠ name := by intro e; rw [e, hnn] at hpb; exact absurd hpb (by decide)
        have hxb := properSub_trans hx hpb
        exact ⟨fun _ => ⟨b, hb, hnsb, hxb, hob⟩, fun _ => ⟨b, hb, (hs b hb hbn).mpr hnsb, hxb, hob⟩⟩
    · exact NSAbove_frame hs (by simpa using hx)
  unfold flagsSpec
  congr 1
  · apply bool_eq_of_iff
    rw [isDelegSpec_iff hN', isDelegSpec_iff hN, habove m]
    by_cases e : m = name
    · subst e
      rcases hsh with ho | hab
      · simp [ho]
      · simp [hab]
    · rw [hs m hm e]
  · apply bool_eq_of_iff
    rw [isGlueSpec_iff hN', isGlueSpec_iff hN, habove m]

/-- (iii, elsewhere) names that are neither `name` nor below it keep their specification -/
theorem flagsSpec_elsewhere {cfg : Cfg} {N N' : Nodes} (hN : NWF N) (hN' : NWF N') {name : Name}
    (hs : SameNSExcept N N' name) (m : Name) (hm : LC m) (hne : m ≠ name) (hnb : properSub m name = false) :
    flagsSpec cfg N' m = flagsSpec cfg N m := by
  unfold flagsSpec
  congr 1
  · apply bool_eq_of_iff
    rw [isDelegSpec_iff hN', isDelegSpec_iff hN, NSAbove_frame hs hnb, hs m hm hne]
  · apply bool_eq_of_iff
    rw [isGlueSpec_iff hN', isGlueSpec_iff hN, NSAbove_frame hs hnb]

/-- (iii, at `name`) -/
theorem flagsSpec_at {cfg : Cfg} {N N' : Nodes} (hN : NWF N) (hN' : NWF N') {name : Name}
    (hs : SameNSExcept N N' name) :
    (flagsSpec cfg N' name).origin = (flagsSpec cfg N name).origin ∧
    (flagsSpec cfg N' name).glue = (flagsSpec cfg N name).glue := by
  have hnn : properSub name name = false := properSub_irrefl name
  refine ⟨rfl, ?_⟩
  apply bool_eq_of_iff
  show isGlueSpec cfg N' name = true ↔ isGlueSpec cfg N name = true
  rw [isGlueSpec_iff hN', isGlueSpec_iff hN, NSAbove_frame hs hnn]

/-- names strictly below an in-zone name are not the apex -/
theorem not_origin_of_below {cfg : Cfg} {name m : Name} (hname : isSubdomain name (apex cfg) = true)
    (hm : properSub m name = true) (hlc : LC m) (hapex : LC (apex cfg)) : isOrigin cfg m = false := by
  cases h : isOrigin cfg m with
  | false => rfl
  | true =>
    unfold isOrigin at h
    have e : m = apex cfg := (nameEq_eq hlc hapex).mp h
    rw [e] at hm
    have := properSub_of_properSub_of_sub hm hname
    rw [properSub_irrefl] at this
    exact absurd this (by decide)

theorem LC_apex (cfg : Cfg) : LC (apex cfg) := by
  unfold apex; split
  · exact LC_nil
  · exact LC_lowerName _

/-- (iii, below, NS added at `name`) `name` is neither apex nor shadowed and now owns NS: everything strictly
below is plain glue -/
theorem flagsSpec_below_added {cfg : Cfg} {N' : Nodes} (hN' : NWF N') {name : Name} (hname : LC name)
    (hin : isSubdomain name (apex cfg) = true) (ho : isOrigin cfg name = false) (hns : NS N' name)
    (m : Name) (hm : LC m) (hb : properSub m name = true) :
    flagsSpec cfg N' m = { origin := false, deleg := false, glue := true } := by
  have hab : NSAbove cfg N' m := ⟨name, hname, hns, hb, ho⟩
  have h1 : isGlueSpec cfg N' m = true := (isGlueSpec_iff hN').mpr hab
  have h2 : isDelegSpec cfg N' m = false := by
    cases h : isDelegSpec cfg N' m with
    | false => rfl
    | true => exact absurd hab ((isDelegSpec_iff hN').mp h).2.2
  have h3 : isOrigin cfg m = false := not_origin_of_below hin hb hm (LC_apex cfg)
  simp [flagsSpec, h1, h2, h3]

/-- (iii, below, NS removed at `name`) `name` neither apex nor shadowed and no longer an NS owner: below it the
flags follow the NS owners strictly between -/
theorem flagsSpec_below_removed {cfg : Cfg} {N N' : Nodes} (hN : NWF N) (hN' : NWF N') {name : Name} (hname : LC name)
    (hin : isSubdomain name (apex cfg) = true)
    (hs : SameNSExcept N N' name) (hnab : ¬ NSAbove cfg N name) (hns : ¬ NS N' name)
    (m : Name) (hm : LC m) (hb : properSub m name = true) :
    (isGlueSpec cfg N' m = true ↔ NSBetween N m name) ∧
    (isDelegSpec cfg N' m = true ↔ NS N m ∧ ¬ NSBetween N m name) := by
  have hmo : isOrigin cfg m = false := not_origin_of_below hin hb hm (LC_apex cfg)
  have hmne : m ≠ name := by intro e; rw [e, properSub_irrefl] at hb; exact absurd hb (by decide)
  have habove : NSAbove cfg N' m ↔ NSBetween N m name := by
    constructor
    · rintro ⟨a, ha, hnsa, hpa, hoa⟩
      have hane : a ≠ name := by intro e; rw [e] at hnsa; exact hns hnsa
      have hnsa' := (hs a ha hane).mp hnsa
      -- a and name are both above m: comparable
      rcases isSubdomain_chain (properSub_sub hpa) (properSub_sub hb) with h | h
      · -- a at or below name, and a ≠ name: strictly between
        exact ⟨a, ha, hnsa', hpa, (properSub_iff_sub_ne ha hname).mpr ⟨h, hane⟩⟩
      · -- name below a: a would be an NS owner above name
        exfalso; apply hnab
        exact ⟨a, ha, hnsa', (properSub_iff_sub_ne hname ha).mpr ⟨h, fun e => hane e.symm⟩, hoa⟩
    · rintro ⟨a, ha, hnsa, hpa, hpn⟩
      have hane : a ≠ name := by intro e; rw [e, properSub_irrefl] at hpn; exact absurd hpn (by decide)
      exact ⟨a, ha, (hs a ha hane).mpr hnsa, hpa, not_origin_of_below hin hpn ha (LC_apex cfg)⟩
  refine ⟨by rw [isGlueSpec_iff hN', habove], ?_⟩
  rw [isDelegSpec_iff hN', habove, hs m hm hmne]
  simp [hmo]

end BTZ
end Model

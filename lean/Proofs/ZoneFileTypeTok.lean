import Model.ZoneFile
import Proofs.ZoneFileLossless
/-!
The type column: the mnemonics of the working tree's table, and the generic `TYPEn` spelling of `want_generic`, are
tokens that read back as their type and as nothing else.
-/
namespace Model

/-- every mnemonic the writer can print — except the meta-type `ANY`, whose mnemonic is also a class mnemonic and
which cannot be stored in a zone — is a token that reads back as its type and is neither a TTL nor a class -/
theorem typeTok_table (p : Nat × List Nat) (hp : p ∈ ConstsC09.typeText) (hany : p.1 ≠ 255) :
    TokOK (typeToText p.1) ∧ typeFromText (typeToText p.1) = some p.1 ∧ ttlOf (typeToText p.1) = none ∧
      classFromText (typeToText p.1) = none := by
  have : ∀ q ∈ ConstsC09.typeText, q.1 ≠ 255 →
      (identOK (typeToText q.1) = true ∧ typeToText q.1 ≠ []) ∧ typeFromText (typeToText q.1) = some q.1 ∧
        ttlOf (typeToText q.1) = none ∧ classFromText (typeToText q.1) = none := by decide
  obtain ⟨⟨a, b⟩, c, d, e⟩ := this p hp hany
  exact ⟨⟨a, b⟩, c, d, e⟩

theorem typeTokOK_plain (st : Style) (hg : st.wantGeneric = false) (p : Nat × List Nat) (hp : p ∈ ConstsC09.typeText)
    (hany : p.1 ≠ 255) : TypeTokOK st p.1 := by
  obtain ⟨a, b, c, d⟩ := typeTok_table p hp hany
  have e : typeTok st p.1 = typeToText p.1 := by simp [typeTok, hg]
  exact ⟨e ▸ a, e ▸ b, e ▸ c, e ▸ d⟩

/-! ## `TYPEn` -/

def typePrefix : List Nat := s2l "TYPE"

theorem upper_decimal (ds : List Nat) (h : ds.all isDecimal = true) : ds.map upperAscii = ds := by
  induction ds with
  | nil => rfl
  | cons d r ih =>
    simp only [List.all_cons, Bool.and_eq_true] at h
    have hd : 48 ≤ d ∧ d ≤ 57 := by simpa [isDecimal] using h.1
    have : upperAscii d = d := by unfold upperAscii; split <;> omega
    simp [this, ih h.2]

/-- the only table names of the form `TYPE<digits>` denote that number -/
theorem typeNames_generic_consistent :
    ∀ q ∈ ConstsC09.typeNames, q.1.take 4 = typePrefix → (q.1.drop 4).all isDecimal = true → q.1.drop 4 ≠ [] →
      q.2 = digitsVal (q.1.drop 4) 0 := by decide

theorem lookup_generic (n : Nat) :
    lookupName ConstsC09.typeNames (typePrefix ++ natToDec n) = none ∨
    lookupName ConstsC09.typeNames (typePrefix ++ natToDec n) = some n := by
  unfold lookupName
  cases hf : ConstsC09.typeNames.find? (fun p => p.1 == typePrefix ++ natToDec n) with
  | none => left; rfl
  | some q =>
    right
    have hm := List.mem_of_find?_eq_some hf
    have he : q.1 = typePrefix ++ natToDec n := by
      have := List.find?_some hf
      simpa using this
    have := typeNames_generic_consistent q hm (by rw [he]; rfl)
      (by rw [he]; simpa [typePrefix, s2l] using natToDec_all n)
      (by rw [he]; simpa [typePrefix, s2l] using natToDec_ne_nil n)
    simp only [Option.map_some, Option.some.injEq]
    rw [this, he]
    simpa [typePrefix, s2l] using digitsVal_natToDec n

theorem typeFromText_generic (n : Nat) (h : n ≤ 65535) : typeFromText (typePrefix ++ natToDec n) = some n := by
  unfold typeFromText enumFromText
  have hup : (typePrefix ++ natToDec n).map upperAscii = typePrefix ++ natToDec n := by
    rw [List.map_append, upper_decimal _ (natToDec_all n)]
    rfl
  simp only [hup]
  rcases lookup_generic n with hl | hl
  · simp only [hl]
    have h1 : (typePrefix ++ natToDec n).take (s2l "TYPE").length = s2l "TYPE" := by simp [typePrefix, s2l]
    have h2 : (typePrefix ++ natToDec n).drop (s2l "TYPE").length = natToDec n := by simp [typePrefix, s2l]
    have h3 : ¬ n > 65535 := by omega
    simp [h1, h2, natToDec_ne_nil, natToDec_all, digitsVal_natToDec, h3]
  · simp [hl]

theorem classNames_no_type_prefix : ∀ q ∈ ConstsC09.classNames, q.1.take 4 ≠ typePrefix := by decide

theorem classFromText_generic (n : Nat) : classFromText (typePrefix ++ natToDec n) = none := by
  unfold classFromText enumFromText
  have hup : (typePrefix ++ natToDec n).map upperAscii = typePrefix ++ natToDec n := by
    rw [List.map_append, upper_decimal _ (natToDec_all n)]
    rfl
  simp only [hup]
  have hl : lookupName ConstsC09.classNames (typePrefix ++ natToDec n) = none := by
    unfold lookupName
    cases hf : ConstsC09.classNames.find? (fun p => p.1 == typePrefix ++ natToDec n) with
    | none => rfl
    | some q =>
      exfalso
      have hm := List.mem_of_find?_eq_some hf
      have he : q.1 = typePrefix ++ natToDec n := by
        have := List.find?_some hf
        simpa using this
      exact classNames_no_type_prefix q hm (by rw [he]; rfl)
  simp only [hl]
  have : (typePrefix ++ natToDec n).take (s2l "CLASS").length ≠ s2l "CLASS" := by
    cases hd : natToDec n with
    | nil => exact absurd hd (natToDec_ne_nil n)
    | cons d r =>
      simp only [typePrefix, s2l]
      intro h
      simp at h
  simp [this]

theorem ttlOf_generic (n : Nat) : ttlOf (typePrefix ++ natToDec n) = none := by
  unfold ttlOf ttlFromText
  have h1 : ¬ ((typePrefix ++ natToDec n) ≠ [] ∧ (typePrefix ++ natToDec n).all isDecimal = true) := by
    intro ⟨_, h⟩
    simp [typePrefix, s2l, isDecimal] at h
  have h2 : typePrefix ++ natToDec n ≠ [] := by simp [typePrefix, s2l]
  simp only [h1, if_false, h2]
  simp [typePrefix, s2l, ttlLoop, isDecimal]

theorem identOK_letters_digits (w : List Nat) (h : ∀ c ∈ w, (65 ≤ c ∧ c ≤ 90) ∨ (48 ≤ c ∧ c ≤ 57)) : identOK w = true := by
  induction w with
  | nil => rfl
  | cons c r ih =>
    have hc := h c (by simp)
    have h92 : c ≠ 92 := by omega
    have hdl : isDelim false c = false := by simp [isDelim, delimiters]; omega
    rw [identOK_plain c r h92, hdl, ih (fun x hx => h x (by simp [hx]))]
    rfl

/-- `want_generic`: the type column `TYPEn` of any 16-bit type -/
theorem typeTokOK_generic (st : Style) (hg : st.wantGeneric = true) (n : Nat) (h : n ≤ 65535) : TypeTokOK st n := by
  have e : typeTok st n = typePrefix ++ natToDec n := by simp [typeTok, hg, typePrefix]
  refine ⟨⟨?_, ?_⟩, ?_, ?_, ?_⟩
  · rw [e]
    apply identOK_letters_digits
    intro c hc
    rcases List.mem_append.mp hc with hc | hc
    · left; simp [typePrefix, s2l] at hc; omega
    · right
      have := (List.all_eq_true.mp (natToDec_all n)) c hc
      simpa [isDecimal] using this
  · rw [e]; simp [typePrefix, s2l]
  · rw [e]; exact typeFromText_generic n h
  · rw [e]; exact ttlOf_generic n
  · rw [e]; exact classFromText_generic n

end Model

import Proofs.WritersStageDef
/-! Steps of threads other than the stage thread leave the stage thread and the admission list alone. -/
set_option linter.unusedSimpArgs false
set_option linter.unusedVariables false
namespace Model.Writers
variable {c : Cfg} {n k : Nat} {s s' : State} {t : Tid}

set_option maxHeartbeats 4000000 in
theorem stage_other (hi : Inv c n s) (hp : pending s ≠ []) (htr : Trans c s t s') (hne : t ≠ stageThread s) :
    stageThread s' = stageThread s ∧ s'.admitted = s.admitted := by
  have hpc := pending_cases hi hp
  stage_facts hi s t
  unfold stageThread at hne ⊢
  cases htr <;> simp only [setLoc_writeTxn, setLoc_lock, setLoc_writeEvent, setLoc_loc, setLoc_owner, setLoc_admitted] <;>
    rcases hwt : s.writeTxn with _ | u <;> rcases hl : s.lock with _ | v <;> rcases hwe : s.writeEvent with _ | e <;>
    simp_all <;> grind

end Model.Writers

import Proofs.BTreeCowPair
import Proofs.BTreeBalance
/-!
Mechanism-level proofs, part 5: `try_right_steal`, `try_left_steal` and `merge` on the heap simulate the
persistent operations and write only owned cells.
-/
namespace Model.BTreeCow
open Model.BTree

/-- an owned child of a good node is good -/
theorem good_kid {c : Nat} {H : Heap} {h p k : Nat} {kl kr : List Nat} (g : Good c H (h + 1) p)
    (hk : (rd H p).kids = kl ++ k :: kr) (hown : (rd H k).creator = c) : Good c H h k :=
  ⟨HT_kid g.ht (by rw [hk]; simp), (nodup_kid g.nodup hk).1, hown⟩

theorem good_of_upd {c : Nat} {H H' : Heap} {h a : Nat} {n : Node} (g : Good c H h a) (u : Upd c H H' h a n) :
    Good c H' h a :=
  ⟨u.ht, u.nodup, by rw [u.creator a (HT_lt g.ht)]; exact g.own⟩

/-- a child that is not the written parent is unchanged by `maybe_cow_child` on another index -/
theorem kid_same_off {H H1 : Heap} {h p j : Nat} (so : SameOff [p] H H1) (nd : (reach H (h + 1) p).Nodup)
    (ht : HT H (h + 1) p) (hj : j ∈ (rd H p).kids) :
    absN H1 h j = absN H h j ∧ reach H1 h j = reach H h j ∧ HT H1 h j ∧ rd H1 j = rd H j := by
  have hpj := self_notin_kid nd hj
  have := frame_off so (HT_kid ht hj) (by
    intro x hx hxp; simp at hxp; subst hxp; exact hpj hx)
  refine ⟨this.1, this.2.1, this.2.2, ?_⟩
  apply so.same j (HT_lt (HT_kid ht hj))
  intro hjp; simp at hjp; subst hjp
  exact hpj (self_mem_reach H h j)

theorem cabs_leaf (H : Heap) (X : Cell) : cabs H 0 X = .leaf X.elts := rfl
theorem cabs_node (H : Heap) (h : Nat) (X : Cell) : cabs H (h + 1) X = .node X.elts (X.kids.map (absN H h)) := rfl

/-! ## `try_right_steal` -/

theorem rightSteal_sim {c t : Nat} {H : Heap} {h p s r0 : Nat} {kl kr : List Nat}
    (g : Good c H (h + 1) p) (hk : (rd H p).kids = kl ++ s :: r0 :: kr) (hsown : (rd H s).creator = c)
    (hocc : minKeys t ≤ (rd H r0).elts.length) :
    (isMinimalC t (rd H r0) = true → hTryRightSteal t H s p kl.length = (H, false) ∧
        tryRightSteal t (rd H p).elts ((rd H p).kids.map (absN H h)) kl.length = none) ∧
    (isMinimalC t (rd H r0) = false → ∃ es' cs' r1,
        tryRightSteal t (rd H p).elts ((rd H p).kids.map (absN H h)) kl.length = some (es', cs') ∧
        (hTryRightSteal t H s p kl.length).2 = true ∧
        Upd c H (hTryRightSteal t H s p kl.length).1 (h + 1) p (.node es' cs') ∧
        (rd (hTryRightSteal t H s p kl.length).1 p).kids = kl ++ s :: r1 :: kr ∧
        (rd (hTryRightSteal t H s p kl.length).1 s).elts.length = (rd H s).elts.length + 1) := by
  have hlen := g.ht.2.2.1
  rw [hk] at hlen
  have hidx : kl.length < (rd H p).elts.length := by simp at hlen; omega
  obtain ⟨el, pe, er, hes, hel⟩ := split_at_lt (rd H p).elts kl.length hidx
  have hcs : (rd H p).kids.map (absN H h) = kl.map (absN H h) ++ absN H h s :: absN H h r0 :: kr.map (absN H h) := by
    rw [hk]; simp
  have hmin : isMinimal t (absN H h r0) = isMinimalC t (rd H r0) := by
    simp [isMinimal, isMinimalC, absN_elts]
  have hpers := tryRightSteal_eq t el er pe (kl.map (absN H h)) (absN H h s) (absN H h r0) (kr.map (absN H h))
    (by simp [hel])
  rw [hel, ← hes, ← hcs, hmin] at hpers
  have hlt : kl.length + 1 < (rd H p).kids.length := by rw [hk]; simp
  have hkid1 : kidA (rd H p).kids (kl.length + 1) = r0 := by
    rw [hk]
    have : kl ++ s :: r0 :: kr = (kl ++ [s]) ++ r0 :: kr := by simp
    rw [this]; exact kidA_at (by simp)
  constructor
  · intro hm
    refine ⟨by simp [hTryRightSteal, hlt, hkid1, hm], by rw [hpers]; simp [hm]⟩
  · intro hm
    have hk' : (rd H p).kids = (kl ++ [s]) ++ r0 :: kr := by rw [hk]; simp
    obtain ⟨r1, hcw, ucow, hkids1, helts1, gr1, habs1, hre, hrk, hrl, so1, _⟩ := cowChild_spec g hk'
    have hidx1 : (kl ++ [s]).length = kl.length + 1 := by simp
    rw [hidx1] at hcw ucow hkids1 helts1 gr1 habs1 hre hrk hrl so1
    generalize hH1 : (cowChild H p (kl.length + 1)).1 = H1 at hcw ucow hkids1 helts1 gr1 habs1 hre hrk hrl so1
    have hkids1' : (rd H1 p).kids = kl ++ s :: r1 :: kr := by rw [hkids1]; simp
    have g1 : Good c H1 (h + 1) p := good_of_upd g ucow
    have hsmem : s ∈ (rd H p).kids := by rw [hk]; simp
    obtain ⟨hs1, hs2, hs3, hs4⟩ := kid_same_off so1 g.nodup g.ht hsmem
    have gs1 : Good c H1 h s := good_kid g1 hkids1' (by rw [hs4]; exact hsown)
    have hnemin : (rd H r0).elts.length ≠ minKeys t := by simpa [isMinimalC] using hm
    -- the shape of the right sibling
    obtain ⟨rhd, rtl, hrelts⟩ : ∃ rhd rtl, (rd H1 r1).elts = rhd :: rtl := by
      rw [hre]
      cases hr : (rd H r0).elts with
      | nil => rw [hr] at hocc hnemin; simp at hocc hnemin; omega
      | cons a l => exact ⟨a, l, rfl⟩
    -- the heap after the three writes
    let P1 := rd H1 p
    let R1 := rd H1 r1
    let S1 := rd H1 s
    let P' : Cell := { P1 with elts := setAt P1.elts kl.length (eltAt R1.elts 0) }
    let B' : Cell := { R1 with elts := R1.elts.drop 1, kids := if R1.leaf then R1.kids else R1.kids.drop 1 }
    let A' : Cell := { S1 with elts := S1.elts ++ [eltAt P1.elts kl.length],
                               kids := if R1.leaf then S1.kids else S1.kids ++ [kidA R1.kids 0] }
    let H4 := wr (wr (wr H1 p P') r1 B') s A'
    have hpr1 : p ≠ r1 := fun e => by
      have := self_notin_kid g1.nodup (show r1 ∈ (rd H1 p).kids by rw [hkids1']; simp)
      exact this (e ▸ self_mem_reach H1 h r1)
    have hps : p ≠ s := fun e => by
      have := self_notin_kid g1.nodup (show s ∈ (rd H1 p).kids by rw [hkids1']; simp)
      exact this (e ▸ self_mem_reach H1 h s)
    have hsr1 : s ≠ r1 := fun e => by
      have nd := g1.nodup
      rw [reach_succ, hkids1'] at nd
      simp only [List.flatMap_append, List.flatMap_cons, List.nodup_cons, List.nodup_append, List.mem_append] at nd
      exact nd.2.2.1.2.2 s (self_mem_reach H1 h s) s (Or.inl (e ▸ self_mem_reach H1 h r1)) rfl
    have hplt1 := HT_lt g1.ht
    have hslt1 := HT_lt gs1.ht
    have hrlt1 := HT_lt gr1.ht
    have hH4 : hTryRightSteal t H s p kl.length = (H4, true) := by
      have hm1 : isMinimalC t (rd H r0) = false := hm
      simp only [hTryRightSteal, hlt, if_true, hkid1, hm1, Bool.not_false, hcw]
      have e1 : rd (wr (wr H1 p P') r1 B') s = S1 := by
        rw [rd_wr_other _ (Ne.symm hsr1), rd_wr_other _ hps]
      show (wr (wr (wr H1 p P') r1 B') s _, true) = _
      rw [e1]
    have hsz4 : H4.size = H1.size := by simp [H4]
    have hrd4p : rd H4 p = P' := by
      show rd (wr (wr (wr H1 p P') r1 B') s A') p = _
      rw [rd_wr_other _ (Ne.symm hps), rd_wr_other _ (Ne.symm hpr1), rd_wr_same _ hplt1]
    have hrd4s : rd H4 s = A' := rd_wr_same _ (by simpa using hslt1)
    have hrd4r : rd H4 r1 = B' := by
      show rd (wr (wr (wr H1 p P') r1 B') s A') r1 = _
      rw [rd_wr_other _ hsr1, rd_wr_same _ (by simpa using hrlt1)]
    have so4 : SameOff ([p, s] ++ if true then [r1] else []) H1 H4 := by
      have := (((SameOff.refl H1).wr p P').wr r1 B').wr s A'
      exact this.mono (by intro x hx; simp at hx ⊢; omega)
    have hleafeq : (rd H1 s).leaf = (rd H1 r1).leaf := by
      cases h with
      | zero => rw [gs1.ht.2, gr1.ht.2]
      | succ h => rw [gs1.ht.2.1, gr1.ht.2.1]
    have hup := upd_pair (c := c) (H := H1) (H' := H4) (h := h) (p := p) (a := s) (b := r1) (kl := kl) (kr := kr)
      true (P' := P') (A' := A') (B' := B') g1 hkids1' gs1 (fun _ => gr1.own) hsz4 so4 hrd4p hrd4s (fun _ => hrd4r)
      g1.own g1.ht.2.1 (by simp [P', P1, hkids1'])
      (by
        have := g1.ht.2.2.1
        simp only [P', P1, setAt, List.length_append, List.length_cons, List.length_take, List.length_drop]
        rw [helts1]; rw [helts1] at this; omega)
      gs1.own rfl (fun _ => ⟨gr1.own, rfl⟩)
      (by
        intro h0
        obtain ⟨h', rfl⟩ : ∃ h', h = h' + 1 := ⟨h - 1, by omega⟩
        have hrleaf : R1.leaf = false := gr1.ht.2.1
        have hrkl := gr1.ht.2.2.1
        cases hrk1 : R1.kids with
        | nil => rw [show (rd H1 r1).kids = R1.kids from rfl, hrk1] at hrkl; simp at hrkl
        | cons g0 rk => simp [A', B', hrleaf, hrk1, kidA, S1])
      (by
        intro h0
        obtain ⟨h', rfl⟩ : ∃ h', h = h' + 1 := ⟨h - 1, by omega⟩
        have hrleaf : R1.leaf = false := gr1.ht.2.1
        have := gs1.ht.2.2.1
        simp only [A', hrleaf, Bool.false_eq_true, if_false, List.length_append, List.length_cons, List.length_nil, S1]
        omega)
      (by
        intro h0 _
        obtain ⟨h', rfl⟩ : ∃ h', h = h' + 1 := ⟨h - 1, by omega⟩
        have hrleaf : R1.leaf = false := gr1.ht.2.1
        have hrkl := gr1.ht.2.2.1
        simp only [B', hrleaf, Bool.false_eq_true, if_false, List.length_drop, R1]
        rw [hrelts] at hrkl ⊢
        simp at hrkl ⊢; omega)
    have hnm : isMinimalC t (rd H r0) = false := hm
    rw [hnm] at hpers
    simp only [Bool.false_eq_true, if_false] at hpers
    refine ⟨_, _, r1, hpers, by rw [hH4], ?_, by rw [hH4]; simp only []; rw [hrd4p]; simp [P', P1, hkids1'],
      by rw [hH4]; simp only []; rw [hrd4s]; simp [A', S1, hs4]⟩
    rw [hH4]
    simp only []
    refine (Upd.trans ucow hup).congr_abs ?_
    -- the persistent result
    have hp1e : P1.elts = el ++ pe :: er := by simp only [P1]; rw [helts1, hes]
    have hR1e : R1.elts = rhd :: rtl := hrelts
    have e_elt : eltAt P1.elts kl.length = pe := by rw [hp1e]; exact eltAt_at hel
    have e_up : eltAt R1.elts 0 = rhd := by rw [hR1e]; simp
    have e_set : setAt P1.elts kl.length rhd = el ++ rhd :: er := by rw [hp1e]; exact setAt_at hel
    have hmapl : kl.map (absN H1 h) = kl.map (absN H h) :=
      List.map_congr_left (fun j hj => (kid_same_off so1 g.nodup g.ht (by rw [hk]; simp [hj])).1)
    have hmapr : kr.map (absN H1 h) = kr.map (absN H h) :=
      List.map_congr_left (fun j hj => (kid_same_off so1 g.nodup g.ht (by rw [hk]; simp [hj])).1)
    have hS1 : S1 = rd H s := hs4
    cases h with
    | zero =>
      have ha_s : absN H 0 s = .leaf (rd H s).elts := rfl
      have ha_r : absN H 0 r0 = .leaf (rhd :: rtl) := by simp [absN, ← hre, hrelts]
      have hrleaf : R1.leaf = true := gr1.ht.2
      simp only [P', A', B', e_elt, e_up, e_set, hmapl, hmapr, cabs_leaf, hrleaf, if_true, hR1e, hS1, ha_s, ha_r,
        stealFromRight, List.drop_succ_cons, List.drop_zero]
      simp [e_set]
    | succ h =>
      have hrleaf : R1.leaf = false := gr1.ht.2.1
      have hrkl := gr1.ht.2.2.1
      cases hrk1 : R1.kids with
      | nil => rw [show (rd H1 r1).kids = R1.kids from rfl, hrk1] at hrkl; simp at hrkl
      | cons g0 rk =>
        have hr0k : (rd H r0).kids = g0 :: rk := by rw [← hrk]; exact hrk1
        have hr0e : (rd H r0).elts = rhd :: rtl := by rw [← hre]; exact hrelts
        have ha_s : absN H (h + 1) s = .node (rd H s).elts ((rd H s).kids.map (absN H h)) := rfl
        have ha_r : absN H (h + 1) r0 = .node (rhd :: rtl) (absN H h g0 :: rk.map (absN H h)) := by
          simp [absN_succ, hr0e, hr0k]
        -- the grandchildren are read in `H1` but were not touched by the copy of the right sibling
        have hgs : ∀ g' ∈ (rd H s).kids, absN H1 h g' = absN H h g' := by
          intro g' hg'
          have hsub : ∀ x ∈ reach H h g', x ∈ reach H (h + 1) s := reach_kid_sub hg'
          have := frame_off so1 (HT_kid (HT_kid g.ht hsmem) hg') (by
            intro x hx hxp; simp at hxp; subst hxp
            exact self_notin_kid g.nodup hsmem (hsub x hx))
          exact this.1
        have hr0mem : r0 ∈ (rd H p).kids := by rw [hk]; simp
        have hgr : ∀ g' ∈ (rd H r0).kids, absN H1 h g' = absN H h g' := by
          intro g' hg'
          have hsub : ∀ x ∈ reach H h g', x ∈ reach H (h + 1) r0 := reach_kid_sub hg'
          have := frame_off so1 (HT_kid (HT_kid g.ht hr0mem) hg') (by
            intro x hx hxp; simp at hxp; subst hxp
            exact self_notin_kid g.nodup hr0mem (hsub x hx))
          exact this.1
        have hms : (rd H s).kids.map (absN H1 h) = (rd H s).kids.map (absN H h) := List.map_congr_left hgs
        have hg0 : absN H1 h g0 = absN H h g0 := hgr g0 (by rw [hr0k]; simp)
        have hmrk : rk.map (absN H1 h) = rk.map (absN H h) :=
          List.map_congr_left (fun g' hg' => hgr g' (by rw [hr0k]; simp [hg']))
        simp only [P', A', B', e_elt, e_up, e_set, hmapl, hmapr, cabs_node, hrleaf, Bool.false_eq_true, if_false,
          hR1e, hrk1, hS1, ha_s, ha_r, stealFromRight, List.drop_succ_cons, List.drop_zero, kidA, List.getD_cons_zero,
          List.map_append, List.map_cons, List.map_nil, hms, hg0, hmrk]
        simp [e_set]

end Model.BTreeCow

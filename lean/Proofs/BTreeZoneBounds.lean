import Proofs.BTreeZoneHist
/-!
`ImmutableVersion.bounds` against its specification, in a `Good` version with an apex node.
-/
namespace Model
namespace BTZ

/-! ## sorted lists: last and first -/

theorem nodes_getLast?_max {l : Nodes} (hs : l.Pairwise (fun e f => cmpOrder e.1 f.1 < 0)) {z : Name × Node}
    (h : l.getLast? = some z) : z ∈ l ∧ ∀ y ∈ l, cmpOrder y.1 z.1 ≤ 0 := by
  obtain ⟨ys, rfl⟩ := List.getLast?_eq_some_iff.mp h
  refine ⟨by simp, ?_⟩
  intro y hy
  rcases List.mem_append.mp hy with hy | hy
  · exact Int.le_of_lt ((List.pairwise_append.mp hs).2.2 y hy z (by simp))
  · simp at hy; rw [hy, cmpOrder_self]; exact Int.le_refl 0

theorem nodes_getLast?_eq {l : Nodes} (h : NWF l) {x : Name × Node} (hx : x ∈ l)
    (hmax : ∀ y ∈ l, cmpOrder y.1 x.1 ≤ 0) : l.getLast? = some x := by
  cases hl : l.getLast? with
  | none => rw [List.getLast?_eq_none_iff] at hl; rw [hl] at hx; simp at hx
  | some z =>
    obtain ⟨hz, hzmax⟩ := nodes_getLast?_max h.1 hl
    have e : z.1 = x.1 := cmpOrder_le_antisymm (h.2 z hz) (h.2 x hx) (hmax z hz) (hzmax x hx)
    have : z = x := by
      have h1 : (x.1, z.2) ∈ l := by rw [← e]; exact hz
      have := key_unique h h1 hx
      exact Prod.ext e this
    rw [this]

theorem NWF_filter {l : Nodes} (p : Name × Node → Bool) (h : NWF l) : NWF (l.filter p) :=
  ⟨List.Pairwise.filter _ h.1, fun a ha => h.2 a (List.mem_filter.mp ha).1⟩

/-- the first element satisfying `p` is below every element satisfying `p` -/
theorem find?_min {l : Nodes} (hs : l.Pairwise (fun e f => cmpOrder e.1 f.1 < 0)) {p : Name × Node → Bool}
    {r : Name × Node} (h : l.find? p = some r) : r ∈ l ∧ p r = true ∧ ∀ w ∈ l, p w = true → cmpOrder r.1 w.1 ≤ 0 := by
  induction l with
  | nil => simp at h
  | cons a t ih =>
    have hc := List.pairwise_cons.mp hs
    rw [List.find?_cons] at h
    cases hp : p a with
    | true =>
      rw [hp] at h; simp only at h; injection h with h; subst h
      refine ⟨List.mem_cons_self, hp, ?_⟩
      intro w hw _
      rcases List.mem_cons.mp hw with hw | hw
      · rw [hw, cmpOrder_self]; exact Int.le_refl 0
      · exact Int.le_of_lt (hc.1 w hw)
    | false =>
      rw [hp] at h; simp only at h
      obtain ⟨h1, h2, h3⟩ := ih hc.2 h
      refine ⟨List.mem_cons_of_mem _ h1, h2, ?_⟩
      intro w hw hpw
      rcases List.mem_cons.mp hw with hw | hw
      · rw [hw, hp] at hpw; exact absurd hpw (by decide)
      · exact h3 w hw hpw

theorem find?_congr_mem {α} {l : List α} {p q : α → Bool} (h : ∀ a ∈ l, p a = q a) : l.find? p = l.find? q := by
  induction l with
  | nil => rfl
  | cons a t ih =>
    rw [List.find?_cons, List.find?_cons, h a List.mem_cons_self,
      ih (fun b hb => h b (List.mem_cons_of_mem _ hb))]

theorem filter_getLast?_of_last {α} {l : List α} {p : α → Bool} {x : α} (h : l.getLast? = some x) (hp : p x = true) :
    (l.filter p).getLast? = some x := by
  obtain ⟨ys, rfl⟩ := List.getLast?_eq_some_iff.mp h
  rw [List.filter_append]
  simp [List.filter_cons, hp]

/-- largest `k ≤ n` satisfying `p`, found by scanning downwards -/
theorem find?_range_rev {p : Nat → Bool} {n K : Nat} (hK : K ≤ n) (hp : p K = true)
    (hno : ∀ k, K < k → k ≤ n → p k = false) : (List.range (n + 1)).reverse.find? p = some K := by
  induction n with
  | zero =>
    have : K = 0 := by omega
    subst this
    simp [List.range_succ, hp]
  | succ n ih =>
    rw [List.range_succ, List.reverse_append]
    simp only [List.reverse_cons, List.reverse_nil, List.nil_append, List.singleton_append, List.find?_cons]
    by_cases e : K = n + 1
    · subst e; simp [hp]
    · have : p (n + 1) = false := hno (n + 1) (by omega) (Nat.le_refl _)
      rw [this]
      exact ih (by omega) (fun k h1 h2 => hno k h1 (by omega))

/-! ## `get_delegation`, soundness -/

theorem getDelegation_some {l : List Name} (h : DWF l) {name c : Name}
    (hc : (getDelegation l name).1 = some c) : c ∈ l ∧ isSubdomain name c = true := by
  unfold getDelegation at hc
  cases hl : lastLE l name with
  | none => rw [hl] at hc; simp at hc
  | some d0 =>
    rw [hl] at hc
    obtain ⟨hd0, _, _⟩ := lastLE_some h hl
    simp only at hc
    by_cases h2 : ((fullcompare name d0).1 == 2) = true
    · simp only [h2, if_true] at hc
      injection hc with hc; subst hc
      exact ⟨hd0, by unfold isSubdomain; simp [h2]⟩
    · simp only [h2, Bool.false_eq_true, if_false] at hc
      by_cases h3 : ((fullcompare name d0).1 == 3) = true
      · simp only [h3, if_true] at hc
        injection hc with hc; subst hc
        exact ⟨hd0, by unfold isSubdomain; simp [h3]⟩
      · simp only [h3, Bool.false_eq_true, if_false] at hc
        cases hc

/-! ## normal forms of the neighbours -/

/-- greatest non-glue node not after `name` -/
def leftN (N : Nodes) (name : Name) : Option (Name × Node) :=
  ((N.filter (fun e => decide (cmpOrder e.1 name ≤ 0))).filter (fun e => !e.2.flags.glue)).getLast?

/-- least non-glue node after `name` -/
def rightN (N : Nodes) (name : Name) : Option (Name × Node) :=
  N.find? (fun e => !e.2.flags.glue && decide (cmpOrder e.1 name > 0))

theorem Good.glue_flag {cfg : Cfg} {N : Nodes} {D c : List Name} (hg : Good cfg ⟨N, D, c⟩) :
    ∀ e ∈ N, e.2.flags.glue = isGlueSpec cfg N e.1 := by
  intro e he; rw [hg.flags e he]; rfl

theorem visible_eq {cfg : Cfg} {N : Nodes} {D c : List Name} (hg : Good cfg ⟨N, D, c⟩) :
    visible cfg N = (N.filter (fun e => !e.2.flags.glue)).map (·.1) := by
  unfold visible
  congr 1
  apply List.filter_congr
  intro e he
  rw [hg.glue_flag e he]

theorem spec_left_eq {cfg : Cfg} {N : Nodes} {D c : List Name} (hg : Good cfg ⟨N, D, c⟩) (name : Name) :
    ((visible cfg N).filter (fun w => decide (cmpOrder w name ≤ 0))).getLast? = (leftN N name).map (·.1) := by
  rw [visible_eq hg, List.filter_map, List.getLast?_map]
  unfold leftN
  have : (N.filter (fun e => !e.2.flags.glue)).filter ((fun w => decide (cmpOrder w name ≤ 0)) ∘ fun x => x.1)
      = (N.filter (fun e => decide (cmpOrder e.1 name ≤ 0))).filter (fun e => !e.2.flags.glue) := by
    rw [List.filter_filter, List.filter_filter]
    apply List.filter_congr
    intro e _
    simp only [Function.comp]
    exact Bool.and_comm _ _
  rw [this]

theorem spec_right_eq {cfg : Cfg} {N : Nodes} {D c : List Name} (hg : Good cfg ⟨N, D, c⟩) (name : Name) :
    (visible cfg N).find? (fun w => decide (cmpOrder w name > 0)) = (rightN N name).map (·.1) := by
  rw [visible_eq hg, List.find?_map, List.find?_filter]
  unfold rightN
  have : N.find? (fun a => decide ((!a.2.flags.glue) = true ∧
        ((fun w => decide (cmpOrder w name > 0)) ∘ fun x => x.1) a = true))
      = N.find? (fun e => !e.2.flags.glue && decide (cmpOrder e.1 name > 0)) := by
    apply find?_congr_mem
    intro a _
    simp only [Function.comp]
    cases a.2.flags.glue <;> simp
  rw [this]

/-! ## the model's neighbours -/

theorem not_le_iff_gt (a b : Name) : (!decide (cmpOrder a b ≤ 0)) = decide (cmpOrder a b > 0) := by
  by_cases h : cmpOrder a b ≤ 0
  · have : ¬ cmpOrder a b > 0 := by omega
    simp [h, this]
  · have : cmpOrder a b > 0 := by omega
    simp [h, this]

/-- facts about a delegation point of a `Good` version -/
theorem cut_facts {cfg : Cfg} {N : Nodes} {D c : List Name} (hg : Good cfg ⟨N, D, c⟩) {cut : Name} (hc : cut ∈ D) :
    LC cut ∧ (∃ nd, (cut, nd) ∈ N ∧ nd.flags.glue = false) ∧
    (∀ e ∈ N, properSub e.1 cut = true → e.2.flags.glue = true) := by
  have hl := hg.dwf.2 cut hc
  have hd := (hg.index cut hl).mp hc
  obtain ⟨ho, ⟨nd, hgn, hns⟩, hna⟩ := (isDelegSpec_iff hg.wf).mp hd
  have hm := nget_some_mem hg.wf.2 hl hgn
  refine ⟨hl, ⟨nd, hm, ?_⟩, ?_⟩
  · rw [hg.glue_flag _ hm]
    cases hh : isGlueSpec cfg N cut with
    | false => rfl
    | true => exact absurd ((isGlueSpec_iff hg.wf).mp hh) hna
  · intro e he hp
    rw [hg.glue_flag e he]
    exact (isGlueSpec_iff hg.wf).mpr ⟨cut, hl, ⟨nd, hgn, hns⟩, hp, ho⟩

/-- no cut applies to `name`: as-shipped left neighbour, under the D19 guard, and right neighbour -/
theorem model_neighbours_nocut {N : Nodes} (h : NWF N) (name : Name) (fixLeft : Bool)
    (hguard : fixLeft = true ∨
      (match (N.takeWhile (fun e => decide (cmpOrder e.1 name ≤ 0))).getLast? with
       | some x => !x.2.flags.glue | none => true) = true) :
    (if fixLeft then ((N.takeWhile (fun e => decide (cmpOrder e.1 name ≤ 0))).filter (fun e => !e.2.flags.glue)).getLast?
      else (N.takeWhile (fun e => decide (cmpOrder e.1 name ≤ 0))).getLast?) = leftN N name ∧
    (N.dropWhile (fun e => decide (cmpOrder e.1 name ≤ 0))).find? (fun e => !e.2.flags.glue) = rightN N name := by
  have hle := takeWhile_le_eq h name
  constructor
  · unfold leftN
    rw [hle.1]
    cases fixLeft with
    | true => rfl
    | false =>
      simp only [Bool.false_eq_true, if_false]
      rcases hguard with hg | hg
      · cases hg
      · rw [hle.1] at hg
        cases hl : (N.filter (fun e => decide (cmpOrder e.1 name ≤ 0))).getLast? with
        | none =>
          rw [List.getLast?_eq_none_iff] at hl
          rw [hl]; rfl
        | some x =>
          rw [hl] at hg
          exact (filter_getLast?_of_last hl hg).symm
  · unfold rightN
    rw [hle.2, List.find?_filter]
    apply find?_congr_mem
    intro a _
    rw [not_le_iff_gt]
    cases a.2.flags.glue <;> simp

/-- `name` is at or below the cut `cut`: the walk starts from the cut -/
theorem model_neighbours_cut {cfg : Cfg} {N : Nodes} {D c : List Name} (hg : Good cfg ⟨N, D, c⟩) {name cut : Name}
    (hn : LC name) (hc : cut ∈ D) (hsub : isSubdomain name cut = true) (fixLeft : Bool) :
    (if fixLeft then ((N.takeWhile (fun e => decide (cmpOrder e.1 cut ≤ 0))).filter (fun e => !e.2.flags.glue)).getLast?
      else (N.takeWhile (fun e => decide (cmpOrder e.1 cut ≤ 0))).getLast?) = leftN N name ∧
    (N.dropWhile (fun e => decide (cmpOrder e.1 cut ≤ 0))).find? (fun e => !e.2.flags.glue) = rightN N name ∧
    ∃ nd, leftN N name = some (cut, nd) := by
  have h := hg.wf
  obtain ⟨hcl, ⟨nd, hm, hng⟩, hbelow⟩ := cut_facts hg hc
  have hle := takeWhile_le_eq h cut
  have hcn : cmpOrder cut name ≤ 0 := isSubdomain_le hsub
  -- a non-glue node after the cut is after `name`
  have hafter : ∀ a ∈ N, a.2.flags.glue = false → (cmpOrder a.1 cut > 0 ↔ cmpOrder a.1 name > 0) := by
    intro a ha hag
    have hal := h.2 a ha
    constructor
    · intro hgt
      have hlt : cmpOrder cut a.1 < 0 := cmpOrder_gt_iff.mp hgt
      have hns : isSubdomain a.1 cut = false := by
        cases hh : isSubdomain a.1 cut with
        | false => rfl
        | true =>
          have hne : a.1 ≠ cut := by
            intro e; rw [e, cmpOrder_self] at hlt; exact absurd hlt (by decide)
          have := hbelow a ha ((properSub_iff_sub_ne hal hcl).mpr ⟨hh, hne⟩)
          rw [hag] at this; exact absurd this (by decide)
      exact cmpOrder_gt_iff.mpr (lt_of_sub_of_lt_of_not_sub hsub hlt hns)
    · intro hgt
      exact cmpOrder_gt_iff.mpr (cmpOrder_lt_of_le_of_lt hcn (cmpOrder_gt_iff.mp hgt))
  -- the cut is the last node not after itself
  have hlast : (N.filter (fun e => decide (cmpOrder e.1 cut ≤ 0))).getLast? = some (cut, nd) := by
    apply nodes_getLast?_eq (NWF_filter _ h)
    · exact List.mem_filter.mpr ⟨hm, by simp [cmpOrder_self]⟩
    · intro y hy; simpa using (List.mem_filter.mp hy).2
  have hng' : (!(cut, nd).2.flags.glue) = true := by simp [hng]
  -- and the last visible node not after `name`
  have hleftN : leftN N name = some (cut, nd) := by
    unfold leftN
    apply nodes_getLast?_eq (NWF_filter _ (NWF_filter _ h))
    · exact List.mem_filter.mpr ⟨List.mem_filter.mpr ⟨hm, by simpa using hcn⟩, hng'⟩
    · intro y hy
      obtain ⟨hy1, hy2⟩ := List.mem_filter.mp hy
      obtain ⟨hyN, hyle⟩ := List.mem_filter.mp hy1
      have hyle' : cmpOrder y.1 name ≤ 0 := by simpa using hyle
      have hyg : y.2.flags.glue = false := by simpa using hy2
      show cmpOrder y.1 cut ≤ 0
      apply Classical.byContradiction
      intro hnot
      have hgt : cmpOrder y.1 cut > 0 := by omega
      have := (hafter y hyN hyg).mp hgt
      omega
  refine ⟨?_, ?_, nd, hleftN⟩
  · rw [hleftN, hle.1]
    cases fixLeft with
    | true => simp only [if_true]; exact filter_getLast?_of_last hlast hng'
    | false => simp only [Bool.false_eq_true, if_false]; exact hlast
  · unfold rightN
    rw [hle.2, List.find?_filter]
    apply find?_congr_mem
    intro a ha
    rw [not_le_iff_gt]
    cases hag : a.2.flags.glue with
    | true => simp
    | false =>
      have := hafter a ha hag
      by_cases h1 : cmpOrder a.1 cut > 0
      · have h2 := this.mp h1
        simp [h1, h2]
      · have h2 : ¬ cmpOrder a.1 name > 0 := fun h' => h1 (this.mpr h')
        simp [h1, h2]

/-! ## closest encloser -/

theorem lcp_ge_of_prefix {p x y : List Bytes} (hx : p <+: x) (hy : p <+: y) : p.length ≤ lcp x y := by
  induction p generalizing x y with
  | nil => simp
  | cons a as ih =>
    cases x with
    | nil => simp at hx
    | cons b bs =>
      cases y with
      | nil => simp at hy
      | cons c cs =>
        obtain ⟨e1, h1⟩ := List.cons_prefix_cons.mp hx
        obtain ⟨e2, h2⟩ := List.cons_prefix_cons.mp hy
        subst e1; subst e2
        simp only [lcp, if_true, List.length_cons]
        have := ih h1 h2
        omega

theorem lk_drop (name : Name) {k : Nat} (hk : k ≤ name.length) :
    lk (name.drop (name.length - k)) = (lk name).take k := by
  unfold lk
  rw [List.map_drop, List.reverse_drop]
  simp only [List.length_map]
  congr 1
  omega

theorem isAbs_drop (name : Name) {k : Nat} (hk : 1 ≤ k) (hk' : k ≤ name.length) :
    isAbs (name.drop (name.length - k)) = isAbs name := by
  unfold isAbs
  rw [List.getLast?_drop]
  have : ¬ name.length ≤ name.length - k := by omega
  simp [this]

/-- a zone name is at or below the `k`-label suffix of `name` iff they share at least `k` labels -/
theorem sub_suffix_iff {w name : Name} (hab : isAbs w = isAbs name) {k : Nat} (hk : k ≤ name.length)
    (h0 : 1 ≤ k ∨ isAbs name = false) :
    isSubdomain w (name.drop (name.length - k)) = true ↔ k ≤ lcp (lk name) (lk w) := by
  rw [isSubdomain_iff, lk_drop name hk, take_prefix_iff_le_lcp (by rw [lk_length]; exact hk)]
  have habs : isAbs w = isAbs (name.drop (name.length - k)) := by
    rcases Nat.eq_zero_or_pos k with e | e
    · subst e
      rcases h0 with h | h
      · omega
      · simp only [Nat.sub_zero, List.drop_length]
        rw [hab, h]; rfl
    · rw [isAbs_drop name e hk, hab]
  simp [habs]

theorem apex_length (cfg : Cfg) : (apex cfg).length = if cfg.relativize then 0 else cfg.origin.length := by
  unfold apex; split
  · rfl
  · simp [lowerName]

theorem sameAbs_of_inzone {cfg : Cfg} {a : Name} (h : isSubdomain a (apex cfg) = true) : isAbs a = isAbs (apex cfg) :=
  (isSubdomain_iff.mp h).1

/-- zone names share at least the labels of the apex -/
theorem common_ge_apex {cfg : Cfg} {a b : Name} (ha : isSubdomain a (apex cfg) = true)
    (hb : isSubdomain b (apex cfg) = true) : (apex cfg).length ≤ lcp (lk a) (lk b) := by
  have := lcp_ge_of_prefix (isSubdomain_iff.mp ha).2 (isSubdomain_iff.mp hb).2
  rwa [lk_length] at this

theorem kle_of_le {a b : Name} (hab : isAbs a = isAbs b) (h : cmpOrder a b ≤ 0) : kle (lk a) (lk b) := by
  rcases cmpOrder_le_iff.mp h with ⟨h1, h2⟩ | ⟨_, h2⟩
  · rw [h1, h2] at hab; exact absurd hab (by decide)
  · exact h2

theorem ceLen_eq {cfg : Cfg} {N : Nodes} {D c : List Name} (hg : Good cfg ⟨N, D, c⟩) (hc : WfCfg cfg) {name : Name}
    (hz : isSubdomain name (apex cfg) = true) {L : Name × Node} (hL : leftN N name = some L) :
    ceLen (visible cfg N) name =
      max (fullcompare L.1 name).2.2
        (match rightN N name with
         | some r => (fullcompare r.1 name).2.2
         | none => if cfg.relativize then 0 else cfg.origin.length) := by
  have hN := hg.wf
  -- the left neighbour
  obtain ⟨hLmem, hLmax⟩ := nodes_getLast?_max (NWF_filter _ (NWF_filter _ hN)).1 hL
  obtain ⟨hL1, hLng⟩ := List.mem_filter.mp hLmem
  obtain ⟨hLN, hLle⟩ := List.mem_filter.mp hL1
  have hLle' : cmpOrder L.1 name ≤ 0 := by simpa using hLle
  have hLz := hg.inzone L hLN
  have habL : isAbs L.1 = isAbs name := (sameAbs_of_inzone hLz).trans (sameAbs_of_inzone hz).symm
  have hcL : (fullcompare L.1 name).2.2 = lcp (lk L.1) (lk name) := common_same habL
  have hvis : ∀ w, w ∈ visible cfg N ↔ ∃ e ∈ N, e.2.flags.glue = false ∧ e.1 = w := by
    intro w
    rw [visible_eq hg, List.mem_map]
    constructor
    · rintro ⟨e, he, rfl⟩
      obtain ⟨h1, h2⟩ := List.mem_filter.mp he
      exact ⟨e, h1, by simpa using h2, rfl⟩
    · rintro ⟨e, h1, h2, rfl⟩
      exact ⟨e, List.mem_filter.mpr ⟨h1, by simp [h2]⟩, rfl⟩
  -- value of the right-hand side and the bound it gives on every visible name
  generalize hK : max (fullcompare L.1 name).2.2
        (match rightN N name with
         | some r => (fullcompare r.1 name).2.2
         | none => if cfg.relativize then 0 else cfg.origin.length) = K
  have hbound : (∀ e ∈ N, e.2.flags.glue = false → lcp (lk e.1) (lk name) ≤ K) ∧
      (∃ e ∈ N, e.2.flags.glue = false ∧ lcp (lk e.1) (lk name) = K) := by
    have hleft : ∀ e ∈ N, e.2.flags.glue = false → cmpOrder e.1 name ≤ 0 →
        lcp (lk e.1) (lk name) ≤ lcp (lk L.1) (lk name) := by
      intro e he heg hle
      have hez := hg.inzone e he
      have habe : isAbs e.1 = isAbs L.1 := (sameAbs_of_inzone hez).trans (sameAbs_of_inzone hLz).symm
      have hmem : e ∈ (N.filter (fun e => decide (cmpOrder e.1 name ≤ 0))).filter (fun e => !e.2.flags.glue) :=
        List.mem_filter.mpr ⟨List.mem_filter.mpr ⟨he, by simpa using hle⟩, by simp [heg]⟩
      exact lcp_mono_left (kle_of_le habe (hLmax e hmem)) (kle_of_le habL hLle')
    cases hR : rightN N name with
    | none =>
      rw [hR] at hK
      simp only at hK
      have hge : (if cfg.relativize then 0 else cfg.origin.length) ≤ (fullcompare L.1 name).2.2 := by
        rw [← apex_length, hcL]; exact common_ge_apex hLz hz
      have hK' : K = lcp (lk L.1) (lk name) := by rw [← hK, ← hcL]; omega
      constructor
      · intro e he heg
        have hle : cmpOrder e.1 name ≤ 0 := by
          apply Classical.byContradiction
          intro hnot
          unfold rightN at hR
          rw [List.find?_eq_none] at hR
          have := hR e he
          simp only [heg, Bool.not_false, Bool.true_and, decide_eq_true_eq] at this
          omega
        rw [hK']; exact hleft e he heg hle
      · exact ⟨L, hLN, by simpa using hLng, hK'.symm⟩
    | some R =>
      rw [hR] at hK
      simp only at hK
      obtain ⟨hRN, hRp, hRmin⟩ := find?_min hN.1 hR
      simp only [Bool.and_eq_true, Bool.not_eq_true', decide_eq_true_eq] at hRp
      have hRz := hg.inzone R hRN
      have habR : isAbs R.1 = isAbs name := (sameAbs_of_inzone hRz).trans (sameAbs_of_inzone hz).symm
      have hcR : (fullcompare R.1 name).2.2 = lcp (lk R.1) (lk name) := common_same habR
      have hnR : cmpOrder name R.1 ≤ 0 := Int.le_of_lt (cmpOrder_gt_iff.mp hRp.2)
      constructor
      · intro e he heg
        by_cases hle : cmpOrder e.1 name ≤ 0
        · have := hleft e he heg hle
          rw [← hK, hcL]; omega
        · have hgt : cmpOrder e.1 name > 0 := by omega
          have hRe := hRmin e he (by simp [heg, hgt])
          have hez := hg.inzone e he
          have habe : isAbs R.1 = isAbs e.1 := (sameAbs_of_inzone hRz).trans (sameAbs_of_inzone hez).symm
          have := lcp_mono_right (kle_of_le habR.symm hnR) (kle_of_le habe hRe)
          rw [← hK, hcR]; omega
      · by_cases hcmp : (fullcompare R.1 name).2.2 ≤ (fullcompare L.1 name).2.2
        · exact ⟨L, hLN, by simpa using hLng, by rw [← hK, ← hcL]; omega⟩
        · exact ⟨R, hRN, hRp.1, by rw [← hK, ← hcR]; omega⟩
  obtain ⟨hub, ew, hewN, hewg, hewK⟩ := hbound
  have hKlen : K ≤ name.length := by
    rw [← hewK, lcp_comm]
    have := lcp_le_left (lk name) (lk ew.1)
    rwa [lk_length] at this
  -- in an absolute zone the common part is never empty
  have hK0 : 1 ≤ K ∨ isAbs name = false := by
    cases hab : isAbs name with
    | false => exact Or.inr rfl
    | true =>
      left
      have h1 := common_ge_apex (hg.inzone ew hewN) hz
      rw [hewK] at h1
      have h2 : isAbs (apex cfg) = true := by rw [← sameAbs_of_inzone hz]; exact hab
      have h3 : (apex cfg) ≠ [] := abs_nonempty h2
      have := List.length_pos_iff.mpr h3
      omega
  unfold ceLen
  have hfind : (List.range (name.length + 1)).reverse.find?
      (fun k => (visible cfg N).any (fun w => isSubdomain w (name.drop (name.length - k)))) = some K := by
    apply find?_range_rev hKlen
    · rw [List.any_eq_true]
      refine ⟨ew.1, (hvis ew.1).mpr ⟨ew, hewN, hewg, rfl⟩, ?_⟩
      have habw : isAbs ew.1 = isAbs name :=
        (sameAbs_of_inzone (hg.inzone ew hewN)).trans (sameAbs_of_inzone hz).symm
      rw [sub_suffix_iff habw hKlen hK0, lcp_comm, hewK]
      exact Nat.le_refl _
    · intro k hk1 hk2
      rw [List.any_eq_false]
      intro w hw
      obtain ⟨e, heN, heg, rfl⟩ := (hvis w).mp hw
      have habw : isAbs e.1 = isAbs name :=
        (sameAbs_of_inzone (hg.inzone e heN)).trans (sameAbs_of_inzone hz).symm
      have h0 : 1 ≤ k ∨ isAbs name = false := Or.inl (by omega)
      have := hub e heN heg
      intro hsub
      rw [sub_suffix_iff habw hk2 h0, lcp_comm] at hsub
      omega
  rw [hfind]

/-! ## assembly -/

theorem isDelegation_eq {cfg : Cfg} {N : Nodes} {D c : List Name} (hg : Good cfg ⟨N, D, c⟩) {name : Name} (hn : LC name) :
    (getDelegation D name).1.isSome = N.any (fun e => isDelegSpec cfg N e.1 && isSubdomain name e.1) := by
  apply bool_eq_of_iff
  rw [List.any_eq_true]
  constructor
  · intro h
    cases hc : (getDelegation D name).1 with
    | none => rw [hc] at h; cases h
    | some cut =>
      obtain ⟨hm, hs⟩ := getDelegation_some hg.dwf hc
      have hl := hg.dwf.2 cut hm
      have hd := (hg.index cut hl).mp hm
      obtain ⟨_, ⟨nd, hgn, _⟩, _⟩ := (isDelegSpec_iff hg.wf).mp hd
      exact ⟨(cut, nd), nget_some_mem hg.wf.2 hl hgn, by simp [hd, hs]⟩
  · rintro ⟨e, he, hp⟩
    simp only [Bool.and_eq_true] at hp
    have hm : e.1 ∈ D := (hg.index e.1 (hg.wf.2 e he)).mpr hp.1
    rw [getDelegation_hit hg.dwf hg.antichain hn hm hp.2]
    rfl

theorem isEqual_eq (a b : Name) : ((fullcompare a b).1 == 3) = nameEq a b := by
  apply bool_eq_of_iff
  rw [beq_iff_eq, rel_eq3_iff, nameEq_iff]

theorem boundsAt_eq_spec {v : Variant} {cfg : Cfg} {N : Nodes} {D c : List Name} (hg : Good cfg ⟨N, D, c⟩)
    (hc : WfCfg cfg) {name : Name} (hn : LC name) (hz : isSubdomain name (apex cfg) = true)
    (hgd : boundsGuard v cfg N D name = true) :
    boundsAt v cfg N D name =
      match boundsSpec cfg N name with
      | some b => .ok b
      | none => .error .assertion := by
  unfold boundsGuard at hgd
  simp only [Bool.and_eq_true, Bool.or_eq_true, bne_iff_ne, ne_eq] at hgd
  obtain ⟨g1, g2⟩ := hgd
  -- the neighbours found by the model are the normal forms
  have hnb : ∃ l? r?, l? = leftN N name ∧ r? = rightN N name ∧
      boundsAt v cfg N D name =
        (match l? with
         | none => .error .assertion
         | some left =>
           .ok { name := name, left := left.1, right := r?.map (·.1),
                 closestEncloser := lastLabels v name (max (fullcompare left.1 name).2.2
                   (match r? with
                    | some r => (fullcompare r.1 name).2.2
                    | none => if cfg.relativize then 0 else cfg.origin.length)),
                 isEqual := (fullcompare left.1 name).1 == 3,
                 isDelegation := (getDelegation D name).1.isSome }) := by
    cases hcut : (getDelegation D name).1 with
    | none =>
      have hguard : v.fixLeft = true ∨
          (match (N.takeWhile (fun e => decide (cmpOrder e.1 name ≤ 0))).getLast? with
           | some x => !x.2.flags.glue | none => true) = true := by
        rcases g1 with (h | h) | h
        · exact Or.inl h
        · rw [hcut] at h; cases h
        · exact Or.inr h
      obtain ⟨e1, e2⟩ := model_neighbours_nocut hg.wf name v.fixLeft hguard
      refine ⟨_, _, e1, e2, ?_⟩
      unfold boundsAt
      simp only [hcut]
      rfl
    | some cut =>
      obtain ⟨hm, hs⟩ := getDelegation_some hg.dwf hcut
      obtain ⟨e1, e2, _⟩ := model_neighbours_cut hg hn hm hs v.fixLeft
      refine ⟨_, _, e1, e2, ?_⟩
      unfold boundsAt
      simp only [hcut]
      rfl
  obtain ⟨l?, r?, hl, hr, hb⟩ := hnb
  rw [hb]
  subst hl; subst hr
  unfold boundsSpec
  simp only [spec_left_eq hg, spec_right_eq hg]
  cases hL : leftN N name with
  | none => rfl
  | some L =>
    simp only [Option.map_some]
    have hce := ceLen_eq hg hc hz hL
    congr 2
    · -- closest encloser
      rw [← hce]
      unfold lastLabels
      have : (ceLen (visible cfg N) name == 0 && !v.fixCE) = false := by
        rcases g2 with h | h
        · simp [h]
        · have : (ceLen (visible cfg N) name == 0) = false := by simpa using h
          simp [this]
      simp [this]
    · exact isEqual_eq L.1 name
    · exact isDelegation_eq hg hn

end BTZ
end Model

import Proofs.WritersInv
/-! Consequences of the invariant used by the theorems of record: FIFO position, readers, lock holds. -/
set_option linter.unusedSimpArgs false
namespace Model.Writers
variable {c : Cfg} {n : Nat} {s s' : State} {t : Tid}

/-- executions that start in `s` -/
inductive ReachFrom (c : Cfg) (n : Nat) (s : State) : State → Prop
  | refl : ReachFrom c n s s
  | step {s1 s2 : State} (t : Tid) : ReachFrom c n s s1 → t < n → step c s1 t = some s2 → ReachFrom c n s s2

theorem reach_of_reachFrom (h : Reach c n s) (h' : ReachFrom c n s s') : Reach c n s' := by
  induction h' with
  | refl => exact h
  | step t _ ht hs ih => exact .step t ih ht hs

theorem arrivals_trans (htr : Trans c s t s') : ∃ l, s'.arrivals = s.arrivals ++ l := by
  cases htr <;> first | (refine ⟨[], ?_⟩; simp; done) | (refine ⟨[t], ?_⟩; simp; done)

theorem arrivals_mono (h : ReachFrom c n s s') : ∃ l, s'.arrivals = s.arrivals ++ l := by
  induction h with
  | refl => exact ⟨[], by simp⟩
  | step t _ _ hs ih =>
    obtain ⟨l1, h1⟩ := ih
    obtain ⟨l2, h2⟩ := arrivals_trans (step_trans hs)
    exact ⟨l1 ++ l2, by rw [h2, h1, List.append_assoc]⟩

theorem fifo_of_inv (h : InvQ s) : s.admitted <+: s.arrivals := ⟨pending s, h.queue.symm⟩

/-- position in `arrivals` of the owner of the event at queue position `k` -/
theorem queue_position (h : InvQ s) {k : Nat} {e : Ev} (hk : s.waiters[k]? = some e) :
    s.arrivals[s.admitted.length + (tokPart s).length + k]? = some (s.owner e) := by
  rw [h.queue, pending]
  rw [List.getElem?_append_right (by omega)]
  rw [List.append_assoc, List.getElem?_append_right (by omega)]
  have : s.admitted.length + (tokPart s).length + k - s.admitted.length - (tokPart s).length = k := by omega
  rw [this]
  have hk' : k < s.waiters.length := by
    rcases Nat.lt_or_ge k s.waiters.length with h1 | h1
    · exact h1
    · rw [List.getElem?_eq_none h1] at hk; cases hk
  rw [List.getElem?_append_left (by simpa using hk')]
  simp [hk]

theorem bounded_bypass_aux (hr : Reach c n s) {k : Nat} {e : Ev} (hk : s.waiters[k]? = some e)
    (hs : ReachFrom c n s s') :
    s'.arrivals[s.admitted.length + (tokPart s).length + k]? = some (s.owner e) ∧
    (∀ h : s.admitted.length + (tokPart s).length + k < s'.admitted.length,
        s'.admitted[s.admitted.length + (tokPart s).length + k] = s.owner e) ∧
    s'.admitted.length = s'.ends + (if s'.writeTxn = none then 0 else 1) := by
  have hi := reach_inv hr
  have hi' := reach_inv (reach_of_reachFrom hr hs)
  have hp := queue_position hi.q hk
  obtain ⟨l, hl⟩ := arrivals_mono hs
  have hp' : s'.arrivals[s.admitted.length + (tokPart s).length + k]? = some (s.owner e) := by
    have hlt : s.admitted.length + (tokPart s).length + k < s.arrivals.length := by
      rcases Nat.lt_or_ge (s.admitted.length + (tokPart s).length + k) s.arrivals.length with h1 | h1
      · exact h1
      · rw [List.getElem?_eq_none h1] at hp; cases hp
    rw [hl, List.getElem?_append_left hlt]; exact hp
  refine ⟨hp', ?_, hi'.q.ends⟩
  intro hlt
  have hq := hi'.q.queue
  have : s'.arrivals[s.admitted.length + (tokPart s).length + k]? = some s'.admitted[s.admitted.length + (tokPart s).length + k] := by
    rw [hq, List.getElem?_append_left hlt]; simp
  rw [this] at hp'
  exact Option.some.inj hp'


/-- a reader thread only ever is at reader program points -/
theorem readerPc_trans (hr : c.role t = .reader) (h : readerPc (s.loc t).pc = true) (htr : Trans c s t s') :
    readerPc (s'.loc t).pc = true := by
  cases htr <;> simp_all

theorem readerPc_other {u : Tid} (hne : u ≠ t) (htr : Trans c s t s') : (s'.loc u) = (s.loc u) := by
  cases htr <;> simp [hne]

theorem reader_pcs (hr : Reach c n s) (u : Tid) (hu : c.role u = .reader) : readerPc (s.loc u).pc = true := by
  induction hr with
  | init => rfl
  | step t _ _ hs ih =>
    have htr := step_trans hs
    by_cases hut : u = t
    · subst hut; exact readerPc_trans hu ih htr
    · rw [readerPc_other hut htr]; exact ih

/-- every step of the lock holder brings the release closer; the holder keeps the lock until then -/
theorem holder_progress (h : InvLock s) (hl : s.lock = some t) (htr : Trans c s t s') :
    lockFuel (s'.loc t).pc < lockFuel (s.loc t).pc ∧
    ((s'.lock = some t ∧ 0 < lockFuel (s'.loc t).pc) ∨ (s'.lock = none ∧ lockFuel (s'.loc t).pc = 0)) := by
  have hh := (h.lock t).mpr hl
  cases htr <;> simp_all

/-- nobody else can take the lock away or move the holder -/
theorem holder_stable {u : Tid} (h : InvLock s) (hl : s.lock = some u) (hne : t ≠ u) (htr : Trans c s t s') :
    s'.lock = some u ∧ s'.loc u = s.loc u := by
  have hh := h.lock t
  have hne' : u ≠ t := fun e => hne e.symm
  rw [hl] at hh
  cases htr <;> simp_all

end Model.Writers

import Proofs.WritersInv
/-! Consequences of the invariant used by the theorems of record: FIFO position, readers, lock holds. -/
set_option linter.unusedSimpArgs false
namespace Model.Writers
variable {c : Cfg} {n : Nat} {s s' : State} {t : Tid}

/-- executions that start in `s` -/
inductive ReachFrom (c : Cfg) (n : Nat) (s : State) : State → Prop
  | refl : ReachFrom c n s s
  | step {s1 s2 : State} (t : Tid) : ReachFrom c n s s1 → t < n → step c s1 t = some s2 → ReachFrom c n s s2

theorem reach_of_reachFrom (h : Reach c n s) (h' : ReachFrom c n s s') : Reach c n s' := by
  induction h' with
  | refl => exact h
  | step t _ ht hs ih => exact .step t ih ht hs

theorem arrivals_trans (htr : Trans c s t s') : ∃ l, s'.arrivals = s.arrivals ++ l := by
  cases htr <;> first | (refine ⟨[], ?_⟩; simp; done) | (refine ⟨[t], ?_⟩; simp; done)

theorem arrivals_mono (h : ReachFrom c n s s') : ∃ l, s'.arrivals = s.arrivals ++ l := by
  induction h with
  | refl => exact ⟨[], by simp⟩
  | step t _ _ hs ih =>
    obtain ⟨l1, h1⟩ := ih
    obtain ⟨l2, h2⟩ := arrivals_trans (step_trans hs)
    exact ⟨l1 ++ l2, by rw [h2, h1, List.append_assoc]⟩

theorem fifo_of_inv (h : InvQ s) : s.admitted <+: s.arrivals := ⟨pending s, h.queue.symm⟩

/-- position in `arrivals` of the owner of the event at queue position `k` -/
theorem queue_position (h : InvQ s) {k : Nat} {e : Ev} (hk : s.waiters[k]? = some e) :
    s.arrivals[s.admitted.length + (tokPart s).length + k]? = some (s.owner e) := by
  rw [h.queue, pending]
  rw [List.getElem?_append_right (by omega)]
  rw [List.append_assoc, List.getElem?_append_right (by omega)]
  have : s.admitted.length + (tokPart s).length + k - s.admitted.length - (tokPart s).length = k := by omega
  rw [this]
  have hk' : k < s.waiters.length := by
    rcases Nat.lt_or_ge k s.waiters.length with h1 | h1
    · exact h1
    · rw [List.getElem?_eq_none h1] at hk; cases hk
  rw [List.getElem?_append_left (by simpa using hk')]
  simp [hk]

theorem bounded_bypass_aux (hr : Reach c n s) {k : Nat} {e : Ev} (hk : s.waiters[k]? = some e)
    (hs : ReachFrom c n s s') :
    s'.arrivals[s.admitted.length + (tokPart s).length + k]? = some (s.owner e) ∧
    (∀ h : s.admitted.length + (tokPart s).length + k < s'.admitted.length,
        s'.admitted[s.admitted.length + (tokPart s).length + k] = s.owner e) ∧
    s'.admitted.length = s'.ends + (if s'.writeTxn = none then 0 else 1) := by
  have hi := reach_inv hr
  have hi' := reach_inv (reach_of_reachFrom hr hs)
  have hp := queue_position hi.q hk
  obtain ⟨l, hl⟩ := arrivals_mono hs
  have hp' : s'.arrivals[s.admitted.length + (tokPart s).length + k]? = some (s.owner e) := by
    have hlt : s.admitted.length + (tokPart s).length + k < s.arrivals.length := by
      rcases Nat.lt_or_ge (s.admitted.length + (tokPart s).length + k) s.arrivals.length with h1 | h1
      · exact h1
      · rw [List.getElem?_eq_none h1] at hp; cases hp
    rw [hl, List.getElem?_append_left hlt]; exact hp
  refine ⟨hp', ?_, hi'.q.ends⟩
  intro hlt
  have hq := hi'.q.queue
  have : s'.arrivals[s.admitted.length + (tokPart s).length + k]? = some s'.admitted[s.admitted.length + (tokPart s).length + k] := by
    rw [hq, List.getElem?_append_left hlt]; simp
  rw [this] at hp'
  exact Option.some.inj hp'


/-- a reader thread only ever is at reader program points -/
theorem readerPc_trans (hr : c.role t = .reader) (h : readerPc (s.loc t).pc = true) (htr : Trans c s t s') :
    readerPc (s'.loc t).pc = true := by
  cases htr <;> simp_all

theorem readerPc_other {u : Tid} (hne : u ≠ t) (htr : Trans c s t s') : (s'.loc u) = (s.loc u) := by
  cases htr <;> simp [hne]

theorem reader_pcs (hr : Reach c n s) (u : Tid) (hu : c.role u = .reader) : readerPc (s.loc u).pc = true := by
  induction hr with
  | init => rfl
  | step t _ _ hs ih =>
    have htr := step_trans hs
    by_cases hut : u = t
    · subst hut; exact readerPc_trans hu ih htr
    · rw [readerPc_other hut htr]; exact ih

/-- every step of the lock holder brings the release closer; the holder keeps the lock until then -/
theorem holder_progress (h : InvLock s) (hl : s.lock = some t) (htr : Trans c s t s') :
    lockFuel (s'.loc t).pc < lockFuel (s.loc t).pc ∧
    ((s'.lock = some t ∧ 0 < lockFuel (s'.loc t).pc) ∨ (s'.lock = none ∧ lockFuel (s'.loc t).pc = 0)) := by
  have hh := (h.lock t).mpr hl
  cases htr <;> simp_all

/-- nobody else can take the lock away or move the holder -/
theorem holder_stable {u : Tid} (h : InvLock s) (hl : s.lock = some u) (hne : t ≠ u) (htr : Trans c s t s') :
    s'.lock = some u ∧ s'.loc u = s.loc u := by
  have hh := h.lock t
  have hne' : u ≠ t := fun e => hne e.symm
  rw [hl] at hh
  cases htr <;> simp_all

/-- the thread has been through its first `with self._version_lock` in `writer()` (or never will: readers) -/
def arrivedL (l : Local) : Prop := l.pc ≠ .idle ∧ l.pc ≠ .wInit ∧ ¬ (l.pc = .wAcq ∧ l.ev = none)

structure InvArr (s : State) : Prop where
  nodup : s.arrivals.Nodup
  mem : ∀ t, t ∈ s.arrivals → arrivedL (s.loc t)

theorem invArr_init : InvArr init := ⟨by simp [init], by simp [init]⟩

theorem invArr_trans (h : InvArr s) (htr : Trans c s t s') : InvArr s' := by
  constructor
  · have hn := h.nodup
    cases htr <;> simp only [setLoc_arrivals] <;> try exact hn
    case wAcqFirst hpc _ hev =>
      refine List.nodup_append.mpr ⟨hn, by simp, ?_⟩
      intro a ha b hb
      simp at hb; subst hb
      intro e; subst e
      exact (h.mem a ha).2.2 ⟨hpc, hev⟩
  · intro u
    have hu := h.mem u
    have ht := h.mem t
    unfold arrivedL at *
    cases htr <;> by_cases hut : u = t <;> simp_all

theorem reach_invArr (h : Reach c n s) : InvArr s := by
  induction h with
  | init => exact invArr_init
  | step t _ _ hs ih => exact invArr_trans ih (step_trans hs)

/-- with `bounded_bypass_aux`: the waiter is admitted in `s'` exactly when `p + 1` writers have been admitted -/
theorem admitted_iff_position (hr : Reach c n s') {p : Nat} {u : Tid} (hp : s'.arrivals[p]? = some u) :
    u ∈ s'.admitted ↔ p < s'.admitted.length := by
  have hq := (reach_inv hr).q.queue
  have hn := (reach_invArr hr).nodup
  have hplt : p < s'.arrivals.length := by
    rcases Nat.lt_or_ge p s'.arrivals.length with h1 | h1
    · exact h1
    · rw [List.getElem?_eq_none h1] at hp; cases hp
  constructor
  · intro hm
    obtain ⟨j, hj, hju⟩ := List.getElem_of_mem hm
    have hj' : j < s'.arrivals.length := by rw [hq, List.length_append]; omega
    have : s'.arrivals[j]? = some u := by
      rw [hq, List.getElem?_append_left hj, List.getElem?_eq_getElem hj, hju]
    have := (List.getElem?_inj hj' hn).mp (this.trans hp.symm)
    omega
  · intro hlt
    have : s'.arrivals[p]? = some s'.admitted[p] := by
      rw [hq, List.getElem?_append_left hlt, List.getElem?_eq_getElem hlt]
    rw [this] at hp
    have := Option.some.inj hp
    rw [← this]; exact List.getElem_mem _

theorem reachFrom_of_run {c : Cfg} {n : Nat} : ∀ (sched : List Tid) (s s' : State), (∀ t ∈ sched, t < n) →
    run c s sched = some s' → ReachFrom c n s s' := by
  intro sched
  induction sched with
  | nil => intro s s' _ h; simp [run] at h; subst h; exact .refl
  | cons t ts ih =>
    intro s s' hlt h
    simp only [run] at h
    cases hs : step c s t with
    | none => rw [hs] at h; cases h
    | some s1 =>
      rw [hs] at h
      have h1 := ih s1 s' (fun u hu => hlt u (List.mem_cons_of_mem _ hu)) h
      -- prepend the first step
      clear ih h
      induction h1 with
      | refl => exact .step t .refl (hlt t List.mem_cons_self) hs
      | step u _ hu hs2 ih2 => exact .step u ih2 hu hs2

theorem reach_of_run {c : Cfg} {n : Nat} (sched : List Tid) (s' : State) (hlt : ∀ t ∈ sched, t < n)
    (h : run c init sched = some s') : Reach c n s' :=
  reach_of_reachFrom .init (reachFrom_of_run sched init s' hlt h)

end Model.Writers

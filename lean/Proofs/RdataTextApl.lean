import Proofs.RdataTextIP6e
import Proofs.RdataTextField
import Proofs.RdataTextField2
/-! APL items `[!]family:address/prefix` (C05): characters of the printed addresses, `split(sep, 1)`, the item round trip. -/
namespace Model

/-- characters of a printed IPv4 / IPv6 address -/
def AddrCh (c : Nat) : Prop := isHexL c = true ∨ c = 58 ∨ c = 46

theorem natToDec_addrCh (n : Nat) : ∀ c ∈ natToDec n, AddrCh c := by
  intro c hc
  have := natToDec_digits n c hc
  left; simp [isHexL]; omega

theorem v4Text_addrCh (a b c d : Nat) : ∀ x ∈ v4Text a b c d, AddrCh x := by
  intro x hx
  unfold v4Text at hx
  simp only [List.mem_append, List.mem_cons] at hx
  have h46 : AddrCh 46 := Or.inr (Or.inr rfl)
  rcases hx with h | h | h | h | h | h | h
  · exact natToDec_addrCh a x h
  · subst h; exact h46
  · exact natToDec_addrCh b x h
  · subst h; exact h46
  · exact natToDec_addrCh c x h
  · subst h; exact h46
  · exact natToDec_addrCh d x h

theorem J_addrCh (L : List (List Nat)) (h : ∀ c ∈ L, HexChunk c) : ∀ x ∈ J L, AddrCh x := by
  induction L with
  | nil => intro c hc; simp [J, joinWith] at hc
  | cons x xs ih =>
    cases xs with
    | nil =>
      intro c hc
      simp [J, joinWith] at hc
      exact Or.inl ((h x (by simp)).2.2 c hc)
    | cons y ys =>
      intro c hc
      rw [show J (x :: y :: ys) = x ++ 58 :: J (y :: ys) from rfl] at hc
      simp only [List.mem_append, List.mem_cons] at hc
      rcases hc with hc | hc | hc
      · exact Or.inl ((h x (by simp)).2.2 c hc)
      · subst hc; exact Or.inr (Or.inl rfl)
      · exact ih (fun c hc => h c (by simp [hc])) c hc

theorem addrCh_append (a b : List Nat) (ha : ∀ x ∈ a, AddrCh x) (hb : ∀ x ∈ b, AddrCh x) : ∀ x ∈ a ++ b, AddrCh x := by
  intro c hc
  simp at hc
  rcases hc with h | h
  · exact ha c h
  · exact hb c h

theorem ip6Ntoa_addrCh (a : Bytes) (hlen : a.length = 16) (ha : ∀ x ∈ a, x < 256) (t : Text) (ht : ip6Ntoa a = some t) :
    ∀ x ∈ t, AddrCh x := by
  obtain ⟨hg, _, hglen⟩ := groupsOf_spec a ha
  have hglen : (groupsOf a).length = 8 := by omega
  rw [ntoa_unfold a hlen] at ht
  generalize groupsOf a = gs at *
  have hcs : ∀ c ∈ gs.map chunkOf, HexChunk c := by
    intro c hc
    simp at hc
    obtain ⟨g, hgm, rfl⟩ := hc
    exact (chunkOf_spec g (hg g hgm)).1
  have h5858 : ∀ x ∈ [58, 58], AddrCh x := by intro c hc; simp at hc; subst hc; exact Or.inr (Or.inl rfl)
  dsimp only at ht
  rcases hr : bestRun ((gs.map chunkOf).map fun c => c == [48]) with ⟨bs, bl⟩
  rw [hr] at ht
  dsimp only at ht
  by_cases hbl : bl > 1
  · simp only [hbl, if_true] at ht
    by_cases hemb : bs = 0 ∧ (bl = 6 ∨ (bl = 5 ∧ (gs.map chunkOf)[5]? = some [102, 102, 102, 102]))
    · rw [if_pos hemb] at ht
      have hdl : (a.drop 12).length = 4 := by simp [hlen]
      obtain ⟨b0, b1, b2, b3, hb⟩ := list4 _ hdl
      have hv4 : ip4Ntoa (a.drop 12) = some (v4Text b0 b1 b2 b3) := by rw [hb]; rfl
      simp only [hv4, Option.some.injEq] at ht
      have hv := v4Text_addrCh b0 b1 b2 b3
      subst ht
      apply addrCh_append _ _ _ hv
      split
      · exact h5858
      · intro c hc
        have : c = 58 ∨ c = 102 ∨ c = 58 := by simpa using hc
        rcases this with e | e | e <;> subst e
        · exact Or.inr (Or.inl rfl)
        · exact Or.inl (by decide)
        · exact Or.inr (Or.inl rfl)
    · rw [if_neg hemb] at ht
      simp only [Option.some.injEq] at ht
      subst ht
      have hpre : ∀ c ∈ (gs.map chunkOf).take bs, HexChunk c := fun c hc => hcs c (List.mem_of_mem_take hc)
      have hpost : ∀ c ∈ (gs.map chunkOf).drop (bs + bl), HexChunk c := fun c hc => hcs c (List.mem_of_mem_drop hc)
      exact addrCh_append _ _ (addrCh_append _ _ (J_addrCh _ hpre) h5858) (J_addrCh _ hpost)
  · simp only [hbl, if_false, Option.some.injEq] at ht
    subst ht
    exact J_addrCh _ hcs

theorem addrCh_plain (c : Nat) (h : AddrCh c) : isDelim c = false ∧ c ≠ 92 := by
  rcases h with h | h | h
  · exact isHexL_plain c h
  · subst h; decide
  · subst h; decide

theorem addrCh_ne47 (a : List Nat) (h : ∀ x ∈ a, AddrCh x) : 47 ∉ a := by
  intro hm
  rcases h 47 hm with h | h | h
  · revert h; decide
  · cases h
  · cases h

theorem natToDec_ne58 (n : Nat) : 58 ∉ natToDec n := by
  intro hm
  have := natToDec_digits n 58 hm
  omega

theorem splitFirst_append (c : Nat) (a b : List Nat) (h : c ∉ a) : splitFirst c (a ++ c :: b) = some (a, b) := by
  induction a with
  | nil => simp [splitFirst]
  | cons x xs ih =>
    have hx : x ≠ c := fun e => h (by simp [e])
    have := ih (fun hm => h (by simp [hm]))
    simp [splitFirst, hx, this]

theorem hexlify_addrCh (d : Bytes) (hd : ∀ x ∈ d, x < 256) : ∀ c ∈ hexlify d, AddrCh c := by
  intro c hc
  simp only [hexlify, List.mem_flatMap] at hc
  obtain ⟨x, hx, hc⟩ := hc
  have := hd x hx
  simp only [List.mem_cons, List.mem_nil_iff, or_false] at hc
  rcases hc with rfl | rfl
  · exact Or.inl (hexDigitLower_isHexL _ (by omega))
  · exact Or.inl (hexDigitLower_isHexL _ (by omega))

theorem aplBody_parse (f : Nat) (neg : Bool) (a : Text) (bytes : Bytes) (p : Nat) (ha : ∀ x ∈ a, AddrCh x)
    (hres : (f = 1 ∧ ip4Aton a = some bytes ∧ p ≤ 32) ∨ (f = 2 ∧ ip6Aton a = some bytes ∧ p ≤ 128) ∨
      (f ≠ 1 ∧ f ≠ 2 ∧ f ≤ 65535 ∧ a.length ≤ 127 ∧ unhexlify a = some bytes ∧ p ≤ 255)) :
    parseAplBody neg (natToDec f ++ 58 :: (a ++ 47 :: natToDec p)) = some (f, neg, bytes, p) := by
  unfold parseAplBody
  rw [splitFirst_append 58 _ _ (natToDec_ne58 f)]
  simp only [pyInt10_natToDec]
  rw [splitFirst_append 47 _ _ (addrCh_ne47 a ha)]
  simp only [pyInt10_natToDec]
  rcases hres with ⟨rfl, h4, hp⟩ | ⟨rfl, h6, hp⟩ | ⟨h1, h2, hf, hl, hu, hp⟩
  · simp [h4, hp]
  · simp [h6, hp]
  · have hf' : ¬ f > 65535 := by omega
    have hl' : ¬ a.length > 127 := by omega
    simp [h1, h2, hf', hl', hu, hp]

/-- an item with a text form: family 1 (4 octets, prefix ≤ 32), 2 (16 octets, prefix ≤ 128), or another 16-bit family
with at most 63 address octets (127 hex characters are the constructor's limit) and a prefix ≤ 255 -/
def AplItemOk (it : Nat × Bool × Bytes × Nat) : Prop :=
  (it.1 = 1 ∧ (∃ x0 x1 x2 x3, it.2.2.1 = [x0, x1, x2, x3] ∧ x0 < 256 ∧ x1 < 256 ∧ x2 < 256 ∧ x3 < 256) ∧ it.2.2.2 ≤ 32) ∨
  (it.1 = 2 ∧ it.2.2.1.length = 16 ∧ (∀ x ∈ it.2.2.1, x < 256) ∧ it.2.2.2 ≤ 128) ∨
  (it.1 ≠ 1 ∧ it.1 ≠ 2 ∧ it.1 ≤ 65535 ∧ it.2.2.1.length ≤ 63 ∧ (∀ x ∈ it.2.2.1, x < 256) ∧ it.2.2.2 ≤ 255)

theorem natToDec_head_ne33 (n : Nat) : ∃ d ds, natToDec n = d :: ds ∧ d ≠ 33 := by
  cases h : natToDec n with
  | nil =>
    have := natToDec_ne_nil n
    exact absurd h this
  | cons d ds =>
    have := natToDec_digits n d (by rw [h]; simp)
    exact ⟨d, ds, rfl, by omega⟩

theorem aplItem_rt (it : Nat × Bool × Bytes × Nat) (h : AplItemOk it) :
    ∃ t, printAplItem it = some t ∧ Plain t ∧ t ≠ [] ∧ parseAplItem ⟨.ident, t⟩ = some it := by
  obtain ⟨f, neg, bytes, p⟩ := it
  -- the address text and its facts
  have key : ∃ a, (if f = 1 then ip4Ntoa bytes else if f = 2 then ip6Ntoa bytes else some (hexlify bytes)) = some a ∧ (∀ x ∈ a, AddrCh x) ∧
      ((f = 1 ∧ ip4Aton a = some bytes ∧ p ≤ 32) ∨ (f = 2 ∧ ip6Aton a = some bytes ∧ p ≤ 128) ∨
        (f ≠ 1 ∧ f ≠ 2 ∧ f ≤ 65535 ∧ a.length ≤ 127 ∧ unhexlify a = some bytes ∧ p ≤ 255)) := by
    rcases h with ⟨hf, ⟨x0, x1, x2, x3, hb, h0, h1, h2, h3⟩, hp⟩ | ⟨hf, hlen, hb, hp⟩ | ⟨h1, h2, hf, hlen, hb, hp⟩
    rotate_left 2
    · simp only at h1 h2 hf hlen hb hp
      refine ⟨hexlify bytes, by simp [h1, h2], hexlify_addrCh bytes hb, Or.inr (Or.inr ⟨h1, h2, hf, ?_, unhexlify_hexlify bytes hb, hp⟩)⟩
      rw [hexlify_length]; omega
    · simp only at hf hb hp; subst hf; subst hb
      obtain ⟨t, ht, hat⟩ := ip4_roundtrip x0 x1 x2 x3 h0 h1 h2 h3
      have htext : t = v4Text x0 x1 x2 x3 := by
        simp [ip4Ntoa] at ht; exact ht.symm
      refine ⟨t, by simp [ht], ?_, Or.inl ⟨rfl, hat, hp⟩⟩
      rw [htext]; exact v4Text_addrCh x0 x1 x2 x3
    · simp only at hf hlen hb hp; subst hf
      obtain ⟨t, ht, hat⟩ := ip6_roundtrip bytes hlen hb
      exact ⟨t, by simp [ht], ip6Ntoa_addrCh bytes hlen hb t ht, Or.inr (Or.inl ⟨rfl, hat, hp⟩)⟩
  obtain ⟨a, hpa, hch, hres⟩ := key
  have hbody := aplBody_parse f neg a bytes p hch hres
  have hplbody : Plain (natToDec f ++ 58 :: (a ++ 47 :: natToDec p)) := by
    intro c hc
    simp only [List.mem_append, List.mem_cons] at hc
    rcases hc with hc | hc | hc | hc | hc
    · exact natToDec_plain f c hc
    · subst hc; decide
    · exact addrCh_plain c (hch c hc)
    · subst hc; decide
    · exact natToDec_plain p c hc
  obtain ⟨d, ds, hd, hd33⟩ := natToDec_head_ne33 f
  cases neg with
  | true =>
    refine ⟨33 :: (natToDec f ++ 58 :: (a ++ 47 :: natToDec p)), ?_, ?_, by simp, ?_⟩
    · simp only [printAplItem]; rw [hpa]; simp
    · intro c hc
      rcases List.mem_cons.mp hc with e | e
      · subst e; decide
      · exact hplbody c e
    · have hpl : Plain (33 :: (natToDec f ++ 58 :: (a ++ 47 :: natToDec p))) := by
        intro c hc
        rcases List.mem_cons.mp hc with e | e
        · subst e; decide
        · exact hplbody c e
      simp only [parseAplItem, unescapeCP_plain_all _ hpl, if_true]
      exact hbody
  | false =>
    refine ⟨natToDec f ++ 58 :: (a ++ 47 :: natToDec p), ?_, hplbody, by simp, ?_⟩
    · simp only [printAplItem]; rw [hpa]; simp
    · simp only [parseAplItem, unescapeCP_plain_all _ hplbody]
      rw [hd] at hbody ⊢
      simp only [List.cons_append, hd33, if_false]
      exact hbody

end Model

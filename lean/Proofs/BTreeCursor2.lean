import Proofs.BTreeCursor
/-!
Layer L5, part 2: `next()` and `prev()` of an unparked cursor are navigation in the in-order listing.
-/
namespace Model.BTree

/-- The resting state of a cursor on the tree `root` denotes the listing split at the cursor's position:
`done` are the elements before it, `rest` those after it. -/
def CurInv (t : Nat) (root : Node) (c : Cursor) (done rest : List Elt) : Prop :=
  match c.node with
  | none => c.parents = [] ∧ c.recurse = false ∧ done ++ rest = flat root ∧
      ((c.idx = 0 ∧ done = []) ∨ (c.idx = 1 ∧ rest = []))
  | some n => ∃ h, PathOk t root h n c.parents ∧ c.idx ≤ n.elts.length ∧ c.recurse = !n.isLeaf ∧
      done = (ctx c.parents).1 ++ upTo n c.idx (!c.increasing) ∧
      rest = fromPos n c.idx (!c.increasing) ++ (ctx c.parents).2

theorem curInv_split {t : Nat} {root : Node} {c : Cursor} {done rest : List Elt} (h : CurInv t root c done rest) :
    done ++ rest = flat root := by
  unfold CurInv at h
  split at h
  · exact h.2.2.1
  · obtain ⟨hh, hp, hi, _, rfl, rfl⟩ := h
    rw [zipper hp, ← upTo_fromPos (pathOk_shape hp) c.idx (!c.increasing) hi]
    simp

theorem upTo_leaf_flag (es : List Elt) (i : Nat) (a b : Bool) : upTo (.leaf es) i a = upTo (.leaf es) i b := rfl
theorem fromPos_leaf_flag (es : List Elt) (i : Nat) (a b : Bool) :
    fromPos (.leaf es) i a = fromPos (.leaf es) i b := rfl

theorem pathOk_height {t : Nat} {root : Node} {H : Nat} (hr : Shape t H root) :
    ∀ {ps : List (Node × Nat)} {h : Nat} {n : Node}, PathOk t root h n ps → h + ps.length = H := by
  intro ps
  induction ps with
  | nil =>
    intro h n hp
    obtain ⟨rfl, hs⟩ := hp
    have h1 := height_of_shape hs
    have h2 := height_of_shape hr
    simp; omega
  | cons pj ps ih =>
    intro h n hp
    obtain ⟨p, j⟩ := pj
    have := ih hp.2.2.2
    simp; omega

/-- reading the element at the position inside a node: the position one step further -/
theorem read_step {t h : Nat} {n : Node} {i : Nat} (hn : Shape t h n) (hi : i < n.elts.length) :
    fromPos n i true = eltAt n.elts i :: fromPos n (i + 1) false ∧
    upTo n (i + 1) false = upTo n i true ++ [eltAt n.elts i] := by
  cases h with
  | zero =>
    obtain ⟨es, rfl⟩ := shape_zero hn
    simp only [Node.elts] at hi
    exact ⟨drop_eq_eltAt_cons hi, take_succ_eltAt hi⟩
  | succ h =>
    obtain ⟨es, cs, rfl, hlen, _⟩ := shape_succ hn
    simp only [Node.elts] at hi
    obtain ⟨h1, h2⟩ := node_step hlen hi
    simp only [fromPos, upTo, Node.elts, if_true, List.nil_append, Bool.false_eq_true, if_false,
      List.append_nil]
    exact ⟨h1, by rw [h2]⟩

/-- at the end of a node nothing of it remains -/
theorem at_end {t h : Nat} {n : Node} (hn : Shape t h n) :
    fromPos n n.elts.length true = [] ∧ upTo n n.elts.length true = flat n := by
  cases h with
  | zero => obtain ⟨es, rfl⟩ := shape_zero hn; simp [fromPos, upTo, Node.elts]
  | succ h =>
    obtain ⟨es, cs, rfl, hlen, _⟩ := shape_succ hn
    simp only [fromPos, upTo, Node.elts, if_true, List.nil_append]
    exact ⟨nodeAfter_last hlen, nodeBefore_last hlen⟩

/-- at the start of a node nothing of it is behind -/
theorem at_start {t h : Nat} {n : Node} (hn : Shape t h n) :
    upTo n 0 false = [] ∧ fromPos n 0 false = flat n := by
  have h1 : upTo n 0 false = [] := by
    cases h with
    | zero => obtain ⟨es, rfl⟩ := shape_zero hn; simp [upTo]
    | succ h => obtain ⟨es, cs, rfl, _, _⟩ := shape_succ hn; simp [upTo, nodeBefore_zero]
  have := upTo_fromPos hn 0 false (by omega)
  rw [h1] at this
  exact ⟨h1, by simpa using this⟩

/-! ## `next()` -/

/-- the loop of `next()` entered without a pending descent (the position is after child `idx` when the node
is internal) -/
theorem nextLoop_up {t : Nat} {root : Node} (H : Nat) : ∀ (k : Nat) (c : Cursor) (n : Node) (h : Nat),
    ¬ (c.recurse = true ∧ c.increasing = true) → PathOk t root h n c.parents → c.idx ≤ n.elts.length →
    c.parents.length + 1 ≤ k →
    (nextLoop H k c n).2 = (fromPos n c.idx true ++ (ctx c.parents).2).head? ∧
    CurInv t root (nextLoop H k c n).1
      ((ctx c.parents).1 ++ upTo n c.idx true ++ (fromPos n c.idx true ++ (ctx c.parents).2).head?.toList)
      (fromPos n c.idx true ++ (ctx c.parents).2).tail ∧
    (nextLoop H k c n).1.parked = c.parked := by
  intro k
  induction k with
  | zero => intro c n h _ _ _ hk; omega
  | succ k ih =>
    intro c n h hnr hp hi hk
    have hs := pathOk_shape hp
    unfold nextLoop
    have hcond : (c.recurse = true ∧ c.increasing = true) = False := by simpa using hnr
    simp only [hcond, if_false]
    by_cases hlt : c.idx < n.elts.length
    · simp only [hlt, if_true]
      obtain ⟨r1, r2⟩ := read_step hs hlt
      rw [r1]
      refine ⟨by simp, ?_, by simp⟩
      simp only [CurInv, Bool.not_true, List.cons_append, List.head?_cons, Option.toList_some, List.tail_cons]
      refine ⟨h, hp, by omega, by simp, ?_, by simp⟩
      rw [r2]; simp
    · simp only [hlt, if_false]
      have hidx : c.idx = n.elts.length := by omega
      obtain ⟨e1, e2⟩ := at_end hs
      rw [hidx, e1, e2]
      cases hps : c.parents with
      | nil =>
        rw [hps] at hp
        obtain ⟨rfl, _⟩ := hp
        simp only [ctx, List.nil_append, List.head?_nil, Option.toList_none, List.append_nil, List.tail_nil]
        refine ⟨by simp, ?_, by simp⟩
        simp [CurInv]
      | cons pj ps' =>
        obtain ⟨pn, pj⟩ := pj
        rw [hps] at hp hk
        obtain ⟨hj, hkid, _, hpp⟩ := hp
        have hps' := pathOk_shape hpp
        obtain ⟨pes, pcs, rfl, plen, _⟩ := shape_succ hps'
        simp only [Node.children] at hj hkid
        have hpj : pj ≤ pes.length := by omega
        let c2 : Cursor :=
          { c with node := some (.node pes pcs), idx := pj, parents := ps', recurse := false, increasing := true }
        have hc2 := ih c2 (.node pes pcs) (h + 1) (by simp [c2]) hpp (by simpa [Node.elts, c2] using hpj)
          (by simp [c2] at hk ⊢; omega)
        simp only [c2, ctx, Node.elts, Node.children, upTo, fromPos, if_true, List.nil_append, hkid] at hc2
        simp only [ctx, Node.elts, Node.children, List.nil_append]
        simpa [List.append_assoc] using hc2

/-- the loop of `next()` from a resting state -/
theorem nextLoop_spec {t : Nat} {root : Node} {Hr : Nat} (hr : Shape t Hr root) (H : Nat) (hH : Hr ≤ H)
    (k : Nat) (c : Cursor) (n : Node) (done rest : List Elt) (hn : c.node = some n)
    (hinv : CurInv t root c done rest) (hk : c.parents.length + Hr + 1 ≤ k) :
    (nextLoop H k c n).2 = rest.head? ∧
    CurInv t root (nextLoop H k c n).1 (done ++ rest.head?.toList) rest.tail ∧
    (nextLoop H k c n).1.parked = c.parked := by
  simp only [CurInv, hn] at hinv
  obtain ⟨h, hp, hi, hrec, rfl, rfl⟩ := hinv
  have hs := pathOk_shape hp
  have hh := pathOk_height hr hp
  by_cases hdesc : c.recurse = true ∧ c.increasing = true
  · -- pending descent: before child `idx` of an internal node
    obtain ⟨l, ps', s1, s2, s3, s4, s5, s6⟩ := seekLeast_spec H h n c.idx c.parents (by omega) hp hi
    let c2 : Cursor := { c with idx := (if h = 0 then c.idx else 0), parents := ps', recurse := false }
    have hloop : nextLoop H k c n = nextLoop H k c2 l := by
      cases k with
      | zero => omega
      | succ k =>
        unfold nextLoop
        simp [hdesc, s1, c2]
    rw [hloop]
    obtain ⟨ls, rfl⟩ := shape_zero (pathOk_shape s2)
    have hidx : (if h = 0 then c.idx else 0) ≤ ls.length := by
      split
      · rename_i h0
        subst h0
        obtain ⟨es, rfl⟩ := shape_zero hs
        have : seekLeast H (.leaf es) c.idx c.parents = (.leaf es, c.idx, c.parents) := by
          cases H <;> simp [seekLeast]
        rw [this] at s1
        simp only [if_true, Prod.mk.injEq, Node.leaf.injEq] at s1
        rw [← s1.1]; exact hi
      · omega
    have hup := nextLoop_up (t := t) (root := root) H k c2 (.leaf ls) 0
      (by simp [c2]) s2 (by simpa [Node.elts, c2] using hidx) (by simp only [c2]; omega)
    simp only [hdesc.2, Bool.not_true] at s3 s4 ⊢
    simp only [c2] at hup
    rw [upTo_leaf_flag ls _ true false, fromPos_leaf_flag ls _ true false, s3, s4] at hup
    exact hup
  · have := nextLoop_up (t := t) (root := root) H k c n h hdesc hp hi (by omega)
    -- the flag of the resting state agrees with "after child" here
    have hflag : upTo n c.idx (!c.increasing) = upTo n c.idx true ∧
        fromPos n c.idx (!c.increasing) = fromPos n c.idx true := by
      cases h with
      | zero => obtain ⟨es, rfl⟩ := shape_zero hs; exact ⟨rfl, rfl⟩
      | succ h =>
        obtain ⟨es, cs, rfl, _, _⟩ := shape_succ hs
        simp only [Node.isLeaf, Bool.not_false] at hrec
        have : c.increasing = false := by
          cases hinc : c.increasing with
          | false => rfl
          | true => exact absurd ⟨hrec, hinc⟩ hdesc
        simp [this]
    rw [hflag.1, hflag.2]
    exact this

end Model.BTree

import Model.Resolver
/-!
# The documented behaviour of `Resolver.resolve`, written independently of the state machine

`spec` is a total function from the settings, the request, the clock, the cache and the script of nameserver
outcomes to the result of the resolution.  It is organised the way the documentation describes resolution —
*for each candidate name, round after round, server by server* — with plain nested recursion and no state flags:
there is no `phase`, `current_nameservers`, `retry_with_tcp` or `tcp_attempt` here.  It shares with the model of the
code only the primitives that describe the world (`doQuery`, `computeTimeout`, `sleepFor`, `mkAnswer`, the cache map,
`recordNx`).  `Props/C16.lean` proves `resolve = spec` for every script.
-/
namespace Model.Resolver
open Model

/-- the world a resolution acts on -/
structure World where
  now : Nat
  cache : Cache
  script : List ScriptStep
  nx : List Name              -- candidate names with NXDOMAIN evidence so far
  deriving Repr

/-- how the documented rules read one reply -/
inductive Verdict where
  | accept (a : Answer)       -- NOERROR response that survives validation: the answer
  | nxdomain (a : Answer)     -- validated NXDOMAIN: this candidate does not exist, go to the next one
  | yxdomain
  | broken                    -- this server is no good: never ask it again for this candidate
  | truncatedUdp              -- retry at once over TCP on the same server
  | soft                      -- no use, but keep the server (timeout, SERVFAIL with retry_servfail, other errors)
  deriving Repr

def verdict (env : Env) (q : Name) (s : Server) (tcp : Bool) (now : Nat) : Outcome → Verdict
  | .exc .formError => .broken
  | .exc .eof => .broken
  | .exc .os => .broken
  | .exc .notImpl => .broken
  | .exc .truncated => if tcp then .broken else .truncatedUdp
  | .exc .timeout => .soft
  | .exc .other => .soft
  | .resp r =>
    if r.rcode = rcNOERROR then
      match mkAnswer env.maxChain q env.rdtype env.rdclass env.rdclass env.rdtype r (some s.id) now with
      | .ok a => .accept a
      | .error _ => .broken
    else if r.rcode = rcNXDOMAIN then
      match mkAnswer env.maxChain q tyANY clsIN env.rdclass env.rdtype r none now with
      | .ok a => .nxdomain a
      | .error _ => .broken
    else if r.rcode = rcYXDOMAIN then .yxdomain
    else if r.rcode = rcSERVFAIL ∧ env.cfg.retryServfail = true then .soft
    else .broken

/-- one query: `none` when the lifetime has run out, else the verdict on the reply and the world after it -/
def specAsk (env : Env) (q : Name) (s : Server) (tcp : Bool) (w : World) : Option (Verdict × World) :=
  match computeTimeout env w.now with
  | none => none
  | some t =>
    let r := doQuery w.script t
    some (verdict env q s tcp (w.now + r.2.1) r.1, { w with now := w.now + r.2.1, script := r.2.2 })

/-- how work on one candidate can stop -/
inductive Stop where
  | result (r : Result) (w : World)
  | nextCandidate (w : World)

inductive Handled where
  | stop (s : Stop)
  | goOn (alive : List Server) (w : World)

def cachePutIf (env : Env) (w : World) (k : Key) (a : Answer) : World :=
  if env.cfg.cacheOn then { w with cache := cachePut w.cache k a } else w

/-- act on a verdict: answers are cached under (candidate, type, class), NXDOMAINs under (candidate, ANY, class) -/
def specVerdict (env : Env) (q : Name) (s : Server) (alive : List Server) (v : Verdict) (w : World) : Handled :=
  match v with
  | .accept a =>
    let w' := cachePutIf env w (mkKey q env.rdtype env.rdclass) a
    if !a.hasRRset && env.raiseOnNoAnswer then .stop (.result .noAnswer w') else .stop (.result (.answer a) w')
  | .nxdomain a =>
    .stop (.nextCandidate (cachePutIf env { w with nx := recordNx w.nx q } (mkKey q tyANY env.rdclass) a))
  | .yxdomain => .stop (.result .yxdomain w)
  | .broken => .goOn (alive.erase s) w
  | .truncatedUdp => .goOn (alive.erase s) w
  | .soft => .goOn alive w

/-- the single TCP retry after a truncated UDP reply -/
def specTcpRetry (env : Env) (q : Name) (s : Server) (alive : List Server) (w : World) : Handled :=
  match specAsk env q s true w with
  | none => .stop (.result .lifetimeTimeout w)
  | some (v, w') => specVerdict env q s alive v w'

/-- everything that happens with one server in one round -/
def specServer (env : Env) (q : Name) (s : Server) (alive : List Server) (w : World) : Handled :=
  match specAsk env q s (env.tcp || s.alwaysMax) w with
  | none => .stop (.result .lifetimeTimeout w)
  | some (.truncatedUdp, w') => specTcpRetry env q s alive w'
  | some (v, w') => specVerdict env q s alive v w'

inductive RoundEnd where
  | stop (s : Stop)
  | roundOver (alive : List Server) (w : World)

/-- one round: the servers of the round in order; `alive` are the servers still usable for this candidate -/
def specRound (env : Env) (q : Name) : List Server → List Server → World → RoundEnd
  | [], alive, w => .roundOver alive w
  | s :: rest, alive, w =>
    match specServer env q s alive w with
    | .stop e => .stop e
    | .goOn alive' w' => specRound env q rest alive' w'

/-- round after round: when a round is over and servers are left, sleep the back-off (it then grows, up to the cap)
and start again with all servers still alive; with none left the resolution fails.  `F` bounds the number of
re-armings (`specBudget` is enough: each one sleeps at least the first back-off or exhausts the lifetime). -/
def specRounds (env : Env) (q : Name) : Nat → Nat → List Server → List Server → World → Stop
  | F, b, round, alive, w =>
    match specRound env q round alive w with
    | .stop e => e
    | .roundOver alive' w' =>
      if alive' = [] then .result .noNameservers w'
      else
        match F with
        | 0 => .result .outOfFuel w'
        | F' + 1 =>
          specRounds env q F' (min (b * env.bo.factor) env.bo.cap) alive' alive'
            { w' with now := w'.now + sleepFor env b w'.now }

def specBudget (env : Env) : Nat := roundsLeft env.bo env.lifetime 0 + 1

/-- candidate after candidate: a live cache entry under (candidate, type, class) is the answer; a cached NXDOMAIN under
(candidate, ANY, class) counts as evidence and the candidate is skipped; otherwise the servers are asked.  When every
candidate has NXDOMAIN evidence the result is NXDOMAIN. -/
def specCands (env : Env) : List Name → World → Result × World
  | [], w => (.nxdomain env.qnamesToTry w.nx, w)
  | q :: rest, w =>
    let ask : Unit → Result × World := fun _ =>
      match specRounds env q (specBudget env) env.bo.init env.cfg.servers env.cfg.servers w with
      | .result r w' => (r, w')
      | .nextCandidate w' => specCands env rest w'
    if env.cfg.cacheOn then
      match cacheGet w.cache (mkKey q env.rdtype env.rdclass) w.now with
      | some a => if !a.hasRRset && env.raiseOnNoAnswer then (.noAnswer, w) else (.answer a, w)
      | none =>
        match cacheGet w.cache (mkKey q tyANY env.rdclass) w.now with
        | some a =>
          if a.rcode = rcNXDOMAIN then specCands env rest { w with nx := recordNx w.nx q } else ask ()
        | none => ask ()
    else ask ()

/-- the documented result of `Resolver.resolve` and the world it leaves behind -/
def spec (cfg : Config) (bo : Backoff) (clip : Bool) (maxChain : Nat) (req : Request) (now : Nat) (cache : Cache)
    (script : List ScriptStep) : Result × World :=
  let w0 : World := { now := now, cache := cache, script := script, nx := [] }
  if isMetatype req.rdtype || isMetaclass req.rdclass then (.noMetaqueries, w0)
  else
    match getQnamesToTry cfg req.qname req.search with
    | .error e => (.nameError e, w0)
    | .ok qnames => specCands (mkEnv cfg bo clip maxChain req now qnames) qnames w0

end Model.Resolver

import Model.RdataSchema
import Proofs.RdataBytes
import Proofs.RdataName
import Proofs.RdataCodec
/-! decoder soundness for the RDATA schema codec (C02): what `dec` returns is `valid`, and it consumed a prefix -/
namespace Model

theorem takeN_len {n : Nat} {pfx rem b p r : Bytes} (h : takeN n pfx rem = .ok (b, p, r)) :
    b.length = n ∧ b.length + r.length = rem.length ∧ rem = b ++ r ∧ p = pfx ++ b := by
  obtain ⟨h1, h2, h3, h4⟩ := takeN_ok h
  subst h2 h3 h4
  refine ⟨by simp; omega, by simp; omega, by simp, rfl⟩

theorem repLoop_len (o : Option Name) (s : Schema)
    (hf : ∀ pfx rem v p r, dec s o pfx rem = .ok (v, p, r) → (enc s o v).length + r.length ≤ rem.length) :
    ∀ fuel pfx rem vs p r, repLoop (dec s o) fuel pfx rem = .ok (vs, p, r) →
      (vs.flatMap (enc s o)).length + r.length ≤ rem.length := by
  intro fuel
  induction fuel with
  | zero =>
    intro pfx rem vs p r h
    cases rem with
    | nil => simp [repLoop] at h; obtain ⟨rfl, _, rfl⟩ := h; simp
    | cons x xs => simp [repLoop] at h
  | succ fuel ih =>
    intro pfx rem vs p r h
    cases rem with
    | nil => simp [repLoop] at h; obtain ⟨rfl, _, rfl⟩ := h; simp
    | cons x xs =>
      rw [repLoop] at h
      split at h
      · simp at h
      · rename_i v p1 r1 h1
        split at h
        · simp at h
        · rename_i vs' p2 r2 h2
          simp at h
          obtain ⟨rfl, _, rfl⟩ := h
          have a := hf _ _ _ _ _ h1
          have b := ih _ _ _ _ _ h2
          simp only [List.flatMap_cons, List.length_append]
          omega

theorem enc_len_le (o : Option Name) : ∀ s : Schema, growFree s = true →
    ∀ pfx rem v p r, dec s o pfx rem = .ok (v, p, r) → (enc s o v).length + r.length ≤ rem.length := by
  intro s
  induction s with
  | unit => intro _ pfx rem v p r h; simp [dec] at h; obtain ⟨rfl, _, rfl⟩ := h; simp [enc]
  | fail => intro _ pfx rem v p r h; simp [dec] at h
  | uint k =>
    intro _ pfx rem v p r h
    simp only [dec] at h
    split at h
    · simp at h
    · rename_i b p1 r1 h1
      simp at h; obtain ⟨rfl, _, rfl⟩ := h
      have := takeN_len h1
      simp [enc, natBE_length]; omega
  | fixed n =>
    intro _ pfx rem v p r h
    simp only [dec] at h
    split at h
    · simp at h
    · rename_i b p1 r1 h1
      simp at h; obtain ⟨rfl, _, rfl⟩ := h
      have := takeN_len h1
      simp [enc]; omega
  | counted k =>
    intro _ pfx rem v p r h
    simp only [dec] at h
    split at h
    · simp at h
    · rename_i lb p1 r1 h1
      split at h
      · simp at h
      · rename_i b p2 r2 h2
        simp at h; obtain ⟨rfl, _, rfl⟩ := h
        have a := takeN_len h1
        have b := takeN_len h2
        simp [enc, natBE_length]; omega
  | rest => intro _ pfx rem v p r h; simp [dec] at h; obtain ⟨rfl, _, rfl⟩ := h; simp [enc]
  | optCounted k =>
    intro _ pfx rem v p r h
    simp only [dec] at h
    split at h
    · simp at h; obtain ⟨rfl, _, rfl⟩ := h; simp [enc]
    · split at h
      · simp at h
      · rename_i lb p1 r1 h1
        split at h
        · simp at h
        · rename_i b p2 r2 h2
          simp at h; obtain ⟨rfl, _, rfl⟩ := h
          have a := takeN_len h1
          have b := takeN_len h2
          simp only [enc]
          split
          · simp; omega
          · simp [natBE_length]; omega
  | name rel => intro hg; simp [growFree] at hg
  | pair a b iha ihb =>
    intro hg pfx rem v p r h
    simp only [growFree, Bool.and_eq_true] at hg
    simp only [dec] at h
    split at h
    · simp at h
    · rename_i x p1 r1 h1
      split at h
      · simp at h
      · rename_i y p2 r2 h2
        simp at h; obtain ⟨rfl, _, rfl⟩ := h
        have a := iha hg.1 _ _ _ _ _ h1
        have b := ihb hg.2 _ _ _ _ _ h2
        simp [enc]; omega
  | rep s ih =>
    intro hg pfx rem v p r h
    simp only [growFree] at hg
    simp only [dec] at h
    split at h
    · simp at h
    · rename_i vs p1 r1 h1
      simp at h; obtain ⟨rfl, _, rfl⟩ := h
      simpa [enc] using repLoop_len o s (ih hg) _ _ _ _ _ _ h1
  | sub k s ih =>
    intro hg pfx rem v p r h
    simp only [growFree] at hg
    simp only [dec] at h
    split at h
    · simp at h
    · rename_i lb p1 r1 h1
      split at h
      · simp at h
      · rename_i inner p2 r2 h2
        split at h
        · simp at h
        · rename_i v' p3 left h3
          split at h
          · rename_i hl
            simp at h; obtain ⟨rfl, _, rfl⟩ := h
            have a := takeN_len h1
            have b := takeN_len h2
            have c := ih hg _ _ _ _ _ h3
            simp [enc, natBE_length]; omega
          · simp at h
  | check f s ih =>
    intro hg pfx rem v p r h
    simp only [growFree] at hg
    simp only [dec] at h
    split at h
    · simp at h
    · rename_i v' p1 r1 h1
      split at h
      · simp at h; obtain ⟨rfl, _, rfl⟩ := h
        simpa [enc] using ih hg _ _ _ _ _ h1
      · simp at h
  | bind hdr sel n alts ihh iha =>
    intro hg pfx rem v p r h
    simp only [growFree, Bool.and_eq_true] at hg
    simp only [dec] at h
    split at h
    · simp at h
    · rename_i x p1 r1 h1
      split at h
      · rename_i hlt
        split at h
        · simp at h
        · rename_i y p2 r2 h2
          simp at h; obtain ⟨rfl, _, rfl⟩ := h
          have a := ihh hg.1 _ _ _ _ _ h1
          have b := iha (sel x) (all_range_get hg.2 _ hlt) _ _ _ _ _ h2
          simp [enc]; omega
      · simp at h

/-! ## names -/

/-- a successfully decoded label list ends with the root label -/
theorem fwAux_root_last (w : Bytes) (endp cur bp f : Nat) (acc : List Label) :
    ∀ n f', fromWireAux w endp cur bp f acc = .ok (n, f') → ∃ m, n = acc ++ m ++ [[]] := by
  fun_induction fromWireAux w endp cur bp f acc with
  | case1 cur bp f acc h h0 =>
    intro n f' e
    simp at e
    obtain ⟨rfl, rfl⟩ := e
    exact ⟨[], by simp⟩
  | case2 => intro n f' e; simp at e
  | case3 cur bp f acc h h0 h1 h2 ih =>
    intro n f' e
    obtain ⟨m, hm⟩ := ih n f' e
    refine ⟨List.take w[cur] (List.drop (cur + 1) w) :: m, ?_⟩
    rw [hm]; simp
  | case4 => intro n f' e; simp at e
  | case5 cur bp f acc h h0 h1 h2 h3 h4 ih =>
    intro n f' e
    exact ih n f' e
  | case6 => intro n f' e; simp at e
  | case7 => intro n f' e; simp at e
  | case8 => intro n f' e; simp at e

def OriginOk (o : Option Name) : Prop :=
  match o with
  | none => True
  | some org => WfName org ∧ isAbs org = true

def NameSound (o : Option Name) : Prop :=
  ∀ rel pfx rem v p r, getName rel o pfx rem = .ok (v, p, r) →
    ∃ n, v = .name n ∧ nameValid rel o n = true ∧ ∃ c, rem = c ++ r ∧ p = pfx ++ c

/-- what `getName` does before relativizing -/
theorem getName_split {rel : Bool} {o : Option Name} {pfx rem : Bytes} {v : Val} {p r : Bytes}
    (h : getName rel o pfx rem = .ok (v, p, r)) :
    ∃ nabs n, WfName nabs ∧ isAbs nabs = true ∧ (if rel then relativizeO o nabs else .ok nabs) = .ok n ∧
      v = .name n ∧ ∃ c, rem = c ++ r ∧ p = pfx ++ c := by
  unfold getName at h
  split at h
  · simp at h
  · rename_i labels furthest h1
    split at h
    · simp at h
    · rename_i nabs h2
      split at h
      · simp at h
      · rename_i n h3
        simp at h
        obtain ⟨rfl, rfl, rfl⟩ := h
        obtain ⟨e, hw⟩ := wf_of_validate labels nabs h2
        subst e
        obtain ⟨m, hm⟩ := fwAux_root_last _ _ _ _ _ _ _ _ h1
        refine ⟨nabs, n, hw, ?_, h3, rfl, List.take (furthest - pfx.length) rem, by simp, rfl⟩
        rw [isAbs_iff, hm]; simp

theorem nameSound_none : NameSound none := by
  intro rel pfx rem v p r h
  obtain ⟨nabs, n, hw, ha, hrel, rfl, hc⟩ := getName_split h
  have : n = nabs := by
    cases rel <;> simp [relativizeO] at hrel <;> exact hrel.symm
  subst this
  refine ⟨n, rfl, ?_, hc⟩
  simp [nameValid, (wfNameB_iff n).2 hw, ha]

/-! ## names decoded against an origin -/

theorem cmpBytes_zero_len : ∀ a b : Bytes, cmpBytes a b = 0 → a.length = b.length := by
  intro a
  induction a with
  | nil => intro b h; cases b <;> simp [cmpBytes] at h ⊢
  | cons x xs ih =>
    intro b h
    cases b with
    | nil => simp [cmpBytes] at h
    | cons y ys =>
      simp only [cmpBytes] at h
      split at h
      · simp at h
      · split at h
        · simp at h
        · simp [ih ys h]

theorem cmpLabel_zero_len (a b : Label) (h : cmpLabel a b = 0) : a.length = b.length := by
  have := cmpBytes_zero_len _ _ h
  simpa [lowerLabel] using this

theorem fcLoop_none_wireLen : ∀ (xs ys : List Label) (k : Nat), fcLoop xs ys k = none →
    xs.length = ys.length → wireLen xs = wireLen ys := by
  intro xs
  induction xs with
  | nil => intro ys k _ hl; cases ys <;> simp at hl ⊢
  | cons x xs ih =>
    intro ys k h hl
    cases ys with
    | nil => simp at hl
    | cons y ys =>
      simp only [fcLoop] at h
      split at h
      · simp at h
      · split at h
        · simp at h
        · rename_i h1 h2
          have hc : cmpLabel x y = 0 := by omega
          have := cmpLabel_zero_len x y hc
          have := ih ys (k + 1) h (by simpa using hl)
          simp [wireLen] at *
          omega

theorem wireLen_reverse (n : Name) : wireLen n.reverse = wireLen n := by
  simp [wireLen]

theorem subdomain_facts (a org : Name) (ha : isAbs a = true) (ho : isAbs org = true)
    (h : isSubdomain a org = true) :
    org.length ≤ a.length ∧ wireLen (a.drop (a.length - org.length)) = wireLen org := by
  unfold isSubdomain fullcompare at h
  simp only [ha, ho, bne_self_eq_false, Bool.false_eq_true, if_false] at h
  split at h
  · rename_i o k _
    split at h <;> simp at h
  · rename_i hnone
    have hle : org.length ≤ a.length := by
      by_cases hlt : (a.length : Int) - (org.length : Int) < 0
      · simp [hlt] at h
      · omega
    refine ⟨hle, ?_⟩
    have hmin : min a.length org.length = org.length := by omega
    rw [hmin] at hnone
    have := fcLoop_none_wireLen _ _ _ hnone (by simp; omega)
    rw [List.take_reverse, List.take_reverse, wireLen_reverse, wireLen_reverse] at this
    simpa using this

theorem wireLen_take_drop (n : Name) (k : Nat) : wireLen (n.take k) + wireLen (n.drop k) = wireLen n := by
  rw [← wireLen_append, List.take_append_drop]

theorem nameSound_some (org : Name) (hwo : WfName org) (hao : isAbs org = true) : NameSound (some org) := by
  intro rel pfx rem v p r h
  obtain ⟨nabs, n, hw, ha, hrel, rfl, hc⟩ := getName_split h
  have hne : org ≠ [] := by intro h'; simp [h', isAbs] at hao
  have hlo : org.length ≠ 0 := fun h0 => hne (List.length_eq_zero_iff.mp h0)
  refine ⟨n, rfl, ?_, hc⟩
  unfold nameValid
  simp only [(wfNameB_iff org).2 hwo, hao, Bool.true_and]
  cases rel with
  | false =>
    simp at hrel; subst hrel
    simp [ha, (wfNameB_iff _).2 hw]
  | true =>
    simp only [if_true, relativizeO, hne, if_false, relativize] at hrel
    by_cases hs : isSubdomain nabs org = true
    · simp only [hs, if_true, sliceToNeg_pos _ _ hlo] at hrel
      obtain ⟨e, hwn⟩ := wf_of_validate _ _ hrel
      rw [← e] at hwn
      obtain ⟨hle, hwl⟩ := subdomain_facts nabs org ha hao hs
      -- labels of n are labels of nabs before its last one: none is empty
      have hsub : ∀ l ∈ n, l ≠ [] := by
        intro l hl
        apply hw.2.2 l
        rw [List.dropLast_eq_take]
        rw [e] at hl
        have hk : nabs.length - org.length ≤ nabs.length - 1 := by omega
        have : List.take (nabs.length - org.length) nabs
            = List.take (nabs.length - org.length) (List.take (nabs.length - 1) nabs) := by
          rw [List.take_take]; congr 1; omega
        rw [this] at hl
        exact List.mem_of_mem_take hl
      have hnabs : isAbs n = false := by
        cases hn : isAbs n with
        | false => rfl
        | true =>
          have hl := (isAbs_iff n).1 hn
          have hmem : ([] : Label) ∈ n := List.mem_of_getLast? hl
          exact absurd rfl (hsub [] hmem)
      have hwcat : WfName (n ++ org) := by
        refine ⟨?_, ?_, ?_⟩
        · intro l hl
          rcases List.mem_append.1 hl with h1 | h1
          · exact hwn.1 l h1
          · exact hwo.1 l h1
        · rw [wireLen_append, ← hwl, e, wireLen_take_drop]; exact hw.2.1
        · intro l hl
          rw [List.dropLast_append_of_ne_nil hne] at hl
          rcases List.mem_append.1 hl with h1 | h1
          · exact hsub l h1
          · exact hwo.2.2 l h1
      simp [hnabs, (wfNameB_iff _).2 hwcat]
    · simp only [hs, Bool.false_eq_true, if_false] at hrel
      simp at hrel; subst hrel
      simp at hs
      simp [ha, (wfNameB_iff _).2 hw, hs]

/-! ## soundness of `dec` -/

theorem OctetsOkB.right {a b : Bytes} (h : OctetsOkB (a ++ b)) : OctetsOkB b :=
  fun x hx => h x (by simp [hx])

theorem OctetsOkB.left {a b : Bytes} (h : OctetsOkB (a ++ b)) : OctetsOkB a :=
  fun x hx => h x (by simp [hx])

theorem nameOnly_len (o : Option Name) : ∀ s : Schema, nameOnly s = true → ∀ v, valid s o v = true →
    (enc s o v).length ≤ Consts.maxName := by
  intro s
  induction s with
  | name rel =>
    intro _ v hv
    cases v <;> simp [valid, validWith] at hv
    rename_i n
    simp only [enc, nameEnc, toWire_length]
    unfold nameValid at hv
    cases o with
    | none =>
      simp only [Bool.and_eq_true] at hv
      simp only [hv.2, if_true]
      exact ((wfNameB_iff n).1 hv.1).2.1
    | some org =>
      simp only [Bool.and_eq_true] at hv
      by_cases ha : isAbs n = true
      · simp only [ha, if_true, Bool.and_eq_true] at hv ⊢
        exact ((wfNameB_iff n).1 hv.2.1).2.1
      · simp only [ha, Bool.false_eq_true, if_false, Bool.and_eq_true, Option.getD_some] at hv ⊢
        exact ((wfNameB_iff _).1 hv.2.2).2.1
  | check f s ih =>
    intro h v hv
    simp only [nameOnly] at h
    simp only [valid, validWith, Bool.and_eq_true] at hv
    simpa [enc] using ih h v (by simpa [valid] using hv.1)
  | _ => intro h; simp [nameOnly] at h

def Sound (o : Option Name) (s : Schema) : Prop :=
  ∀ pfx rem v p r, OctetsOkB rem → dec s o pfx rem = .ok (v, p, r) →
    valid s o v = true ∧ ∃ c, rem = c ++ r ∧ p = pfx ++ c

theorem repLoop_sound (o : Option Name) (s : Schema) (hf : Sound o s) :
    ∀ fuel pfx rem vs p r, OctetsOkB rem → repLoop (dec s o) fuel pfx rem = .ok (vs, p, r) →
      (∀ v ∈ vs, valid s o v = true) ∧ ∃ c, rem = c ++ r ∧ p = pfx ++ c := by
  intro fuel
  induction fuel with
  | zero =>
    intro pfx rem vs p r _ h
    cases rem with
    | nil => simp [repLoop] at h; obtain ⟨rfl, rfl, rfl⟩ := h; exact ⟨by simp, [], by simp, by simp⟩
    | cons x xs => simp [repLoop] at h
  | succ fuel ih =>
    intro pfx rem vs p r hoct h
    cases rem with
    | nil => simp [repLoop] at h; obtain ⟨rfl, rfl, rfl⟩ := h; exact ⟨by simp, [], by simp, by simp⟩
    | cons x xs =>
      rw [repLoop] at h
      split at h
      · simp at h
      · rename_i v p1 r1 h1
        split at h
        · simp at h
        · rename_i vs' p2 r2 h2
          simp at h
          obtain ⟨rfl, rfl, rfl⟩ := h
          obtain ⟨hv, c1, e1, e1p⟩ := hf _ _ _ _ _ hoct h1
          have hoct1 : OctetsOkB r1 := by rw [e1] at hoct; exact hoct.right
          obtain ⟨hvs, c2, e2, e2p⟩ := ih _ _ _ _ _ hoct1 h2
          refine ⟨?_, c1 ++ c2, ?_, ?_⟩
          · intro w hw
            simp at hw
            rcases hw with rfl | hw
            · exact hv
            · exact hvs w hw
          · rw [e1, e2]; simp
          · rw [e2p, e1p]; simp

theorem dec_sound (o : Option Name) (hN : NameSound o) : ∀ s : Schema, wf s = true → Sound o s := by
  intro s
  induction s with
  | unit =>
    intro _ pfx rem v p r _ h
    simp [dec] at h; obtain ⟨rfl, rfl, rfl⟩ := h
    exact ⟨by simp [valid, validWith], [], by simp, by simp⟩
  | fail => intro _ pfx rem v p r _ h; simp [dec] at h
  | uint k =>
    intro _ pfx rem v p r hoct h
    simp only [dec] at h
    split at h
    · simp at h
    · rename_i b p1 r1 h1
      simp at h; obtain ⟨rfl, rfl, rfl⟩ := h
      obtain ⟨a1, a2, a3, a4⟩ := takeN_len h1
      refine ⟨?_, b, a3, a4⟩
      have hb : OctetsOkB b := by rw [a3] at hoct; exact hoct.left
      have := beNat_lt b hb
      rw [a1] at this
      simpa [valid, validWith] using this
  | fixed n =>
    intro _ pfx rem v p r hoct h
    simp only [dec] at h
    split at h
    · simp at h
    · rename_i b p1 r1 h1
      simp at h; obtain ⟨rfl, rfl, rfl⟩ := h
      obtain ⟨a1, a2, a3, a4⟩ := takeN_len h1
      exact ⟨by simpa [valid, validWith] using a1, b, a3, a4⟩
  | counted k =>
    intro _ pfx rem v p r hoct h
    simp only [dec] at h
    split at h
    · simp at h
    · rename_i lb p1 r1 h1
      split at h
      · simp at h
      · rename_i b p2 r2 h2
        simp at h; obtain ⟨rfl, rfl, rfl⟩ := h
        obtain ⟨a1, a2, a3, a4⟩ := takeN_len h1
        obtain ⟨b1, b2, b3, b4⟩ := takeN_len h2
        refine ⟨?_, lb ++ b, by rw [a3, b3]; simp, by rw [b4, a4]; simp⟩
        have hlb : OctetsOkB lb := by rw [a3] at hoct; exact hoct.left
        have := beNat_lt lb hlb
        rw [a1] at this
        simp only [valid, validWith, decide_eq_true_eq]
        omega
  | rest =>
    intro _ pfx rem v p r _ h
    simp [dec] at h; obtain ⟨rfl, rfl, rfl⟩ := h
    exact ⟨by simp [valid, validWith], rem, by simp, rfl⟩
  | optCounted k =>
    intro _ pfx rem v p r hoct h
    simp only [dec] at h
    split at h
    · rename_i hr
      simp at h; obtain ⟨rfl, rfl, rfl⟩ := h
      exact ⟨by simp [valid, validWith]; exact Nat.pow_pos (by omega), [], by simp [hr], by simp⟩
    · split at h
      · simp at h
      · rename_i lb p1 r1 h1
        split at h
        · simp at h
        · rename_i b p2 r2 h2
          simp at h; obtain ⟨rfl, rfl, rfl⟩ := h
          obtain ⟨a1, a2, a3, a4⟩ := takeN_len h1
          obtain ⟨b1, b2, b3, b4⟩ := takeN_len h2
          refine ⟨?_, lb ++ b, by rw [a3, b3]; simp, by rw [b4, a4]; simp⟩
          have hlb : OctetsOkB lb := by rw [a3] at hoct; exact hoct.left
          have := beNat_lt lb hlb
          rw [a1] at this
          simp only [valid, validWith, decide_eq_true_eq]
          omega
  | name rel =>
    intro _ pfx rem v p r _ h
    simp only [dec] at h
    obtain ⟨n, rfl, hv, hc⟩ := hN rel pfx rem v p r h
    exact ⟨by simpa [valid, validWith] using hv, hc⟩
  | pair a b iha ihb =>
    intro hwf pfx rem v p r hoct h
    simp only [wf, sdwf, Bool.and_eq_true] at hwf
    simp only [dec] at h
    split at h
    · simp at h
    · rename_i x p1 r1 h1
      split at h
      · simp at h
      · rename_i y p2 r2 h2
        simp at h; obtain ⟨rfl, rfl, rfl⟩ := h
        obtain ⟨hx, c1, e1, e1p⟩ := iha (sd_wf a hwf.1) _ _ _ _ _ hoct h1
        have hoct1 : OctetsOkB r1 := by rw [e1] at hoct; exact hoct.right
        obtain ⟨hy, c2, e2, e2p⟩ := ihb hwf.2 _ _ _ _ _ hoct1 h2
        refine ⟨?_, c1 ++ c2, by rw [e1, e2]; simp, by rw [e2p, e1p]; simp⟩
        simp only [valid] at hx hy
        simp [valid, validWith, hx, hy]
  | rep s ih =>
    intro hwf pfx rem v p r hoct h
    simp only [wf, sdwf, Bool.and_eq_true] at hwf
    simp only [dec] at h
    split at h
    · simp at h
    · rename_i vs p1 r1 h1
      simp at h; obtain ⟨rfl, rfl, rfl⟩ := h
      obtain ⟨hvs, hc⟩ := repLoop_sound o s (ih (sd_wf s hwf.1)) _ _ _ _ _ _ hoct h1
      refine ⟨?_, hc⟩
      simp only [valid, validWith, List.all_eq_true]
      intro w hw; simpa [valid] using hvs w hw
  | sub k s ih =>
    intro hwf pfx rem v p r hoct h
    simp only [wf, sdwf, Bool.and_eq_true, Bool.or_eq_true, decide_eq_true_eq] at hwf
    simp only [dec] at h
    split at h
    · simp at h
    · rename_i lb p1 r1 h1
      split at h
      · simp at h
      · rename_i inner p2 r2 h2
        split at h
        · simp at h
        · rename_i v' p3 left h3
          split at h
          · rename_i hl
            simp at h; obtain ⟨rfl, rfl, rfl⟩ := h
            subst hl
            obtain ⟨a1, a2, a3, a4⟩ := takeN_len h1
            obtain ⟨b1, b2, b3, b4⟩ := takeN_len h2
            have hoct1 : OctetsOkB r1 := by rw [a3] at hoct; exact hoct.right
            have hoi : OctetsOkB inner := by rw [b3] at hoct1; exact hoct1.left
            obtain ⟨hv, _⟩ := ih hwf.1 _ _ _ _ _ hoi h3
            refine ⟨?_, lb ++ inner, by rw [a3, b3]; simp, by rw [b4, a4]; simp⟩
            have hlb : OctetsOkB lb := by rw [a3] at hoct; exact hoct.left
            have hlt := beNat_lt lb hlb
            rw [a1] at hlt
            have hlen : (enc s o v').length < 256 ^ k := by
              rcases hwf.2 with hg | ⟨hno, hmax⟩
              · have := enc_len_le o s hg _ _ _ _ _ h3
                simp at this; omega
              · have := nameOnly_len o s hno v' hv
                omega
            simp only [valid] at hv
            simp [valid, validWith, hv, hlen]
          · simp at h
  | check f s ih =>
    intro hwf pfx rem v p r hoct h
    simp only [wf, sdwf] at hwf
    simp only [dec] at h
    split at h
    · simp at h
    · rename_i v' p1 r1 h1
      split at h
      · rename_i hf
        simp at h; obtain ⟨rfl, rfl, rfl⟩ := h
        obtain ⟨hv, hc⟩ := ih hwf _ _ _ _ _ hoct h1
        simp only [valid] at hv
        exact ⟨by simp [valid, validWith, hv, hf], hc⟩
      · simp at h
  | bind hdr sel n alts ihh iha =>
    intro hwf pfx rem v p r hoct h
    simp only [wf, sdwf, Bool.and_eq_true] at hwf
    simp only [dec] at h
    split at h
    · simp at h
    · rename_i x p1 r1 h1
      split at h
      · rename_i hlt
        split at h
        · simp at h
        · rename_i y p2 r2 h2
          simp at h; obtain ⟨rfl, rfl, rfl⟩ := h
          obtain ⟨hx, c1, e1, e1p⟩ := ihh (sd_wf hdr hwf.1) _ _ _ _ _ hoct h1
          have hoct1 : OctetsOkB r1 := by rw [e1] at hoct; exact hoct.right
          obtain ⟨hy, c2, e2, e2p⟩ := iha (sel x) (all_range_get hwf.2 _ hlt) _ _ _ _ _ hoct1 h2
          refine ⟨?_, c1 ++ c2, by rw [e1, e2]; simp, by rw [e2p, e1p]; simp⟩
          simp only [valid] at hx hy
          simp [valid, validWith, hx, hy, hlt]
      · simp at h

end Model

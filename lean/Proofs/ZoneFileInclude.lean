import Model.ZoneFile
import Proofs.ZoneFileGenLine
/-!
`$INCLUDE file [origin]`: the directive pushes the parent's state and switches to the included text (with the origin
given, completed with the current origin); the end of the included text pops it.  For an included file of record lines:
the whole episode adds the file's records — read under the include origin — and hands the parent back *exactly* its
state (current origin, last owner, last and default TTL), positioned after the `$INCLUDE` line.
-/
namespace Model

theorem init_eq_after (t : List Nat) : TState.init t = after 0 false t := by
  simp [TState.init, after]

/-- the state `$INCLUDE` pushes -/
def savedOf (r : PState) (rest : List Nat) : Saved :=
  ⟨after 0 false rest, r.currentOrigin, r.lastName, r.lastTTL, r.lastTTLKnown, r.defaultTTL, r.defaultTTLKnown⟩

private theorem include_facts :
    (identToken (s2l "$INCLUDE")).ttype ≠ .eof ∧ (identToken (s2l "$INCLUDE")).ttype ≠ .eol ∧
    (identToken (s2l "$INCLUDE")).ttype ≠ .comment ∧ (identToken (s2l "$INCLUDE")).value = s2l "$INCLUDE" ∧
    (s2l "$INCLUDE").head? = some 36 ∧ directiveOf (s2l "$INCLUDE") = s2l "$INCLUDE" ∧
    s2l "$INCLUDE" ≠ s2l "$TTL" ∧ s2l "$INCLUDE" ≠ s2l "$ORIGIN" ∧ s2l "$INCLUDE" ≠ s2l "$GENERATE" ∧
    s2l "$INCLUDE" ≠ s2l "$UNICODE" :=
  ⟨by simp [identToken], by simp [identToken], by simp [identToken], rfl, by decide, by decide, by decide, by decide,
    by decide, by decide⟩

/-- `$INCLUDE file origin⏎` -/
theorem lineStep_include_origin (r : PState) (fname ot rest content : List Nat) (o : Name)
    (hallow : r.allowInclude = true) (kf : TokOK fname) (ko : TokOK ot)
    (hname : fromText ot r.currentOrigin = .ok o) (hfile : lookupFile r.files fname = some content)
    (htok : r.tok = after 0 false (s2l "$INCLUDE" ++ (32 :: (fname ++ (32 :: (ot ++ 10 :: rest)))))) :
    lineStep r = .ok (.nothing, { r with tok := after 0 false content, currentOrigin := some o,
                                         saved := savedOf r rest :: r.saved }) := by
  obtain ⟨h1, h2, h3, hval, h4, h5, h6, h7, h8, h9⟩ := include_facts
  have hg := get_first_ident (s2l "$INCLUDE") (32 :: (fname ++ (32 :: (ot ++ 10 :: rest)))) (by decide) (by decide)
    (sp_startsDelim _)
  have g1 := get_field [32] fname (32 :: (ot ++ 10 :: rest)) sp_blank kf.ok kf.ne (sp_startsDelim _)
  have g2 := get_field [32] ot (10 :: rest) sp_blank ko.ok ko.ne ⟨10, rest, rfl, by decide⟩
  simp only [List.cons_append, List.nil_append] at g1 g2
  unfold lineStep
  simp only [bind, Except.bind, liftT, htok, hg]
  simp only [h1, h2, h3, hval, h4, h5, h6, h7, h8, h9, if_false, if_true, hallow, Bool.not_true, Bool.false_eq_true,
    g1, g2, identToken, Token.isIdentifier, beq_self_eq_true, hname, TState.getEol, bind, Except.bind, get_eol_after',
    Token.isEolOrEof, pure, Except.pure, hfile, init_eq_after, savedOf]
  simp

/-- `$INCLUDE file⏎`: the included file starts under the current origin -/
theorem lineStep_include_plain (r : PState) (fname rest content : List Nat)
    (hallow : r.allowInclude = true) (kf : TokOK fname) (hfile : lookupFile r.files fname = some content)
    (htok : r.tok = after 0 false (s2l "$INCLUDE" ++ (32 :: (fname ++ 10 :: rest)))) :
    lineStep r = .ok (.nothing, { r with tok := after 0 false content, saved := savedOf r rest :: r.saved }) := by
  obtain ⟨h1, h2, h3, hval, h4, h5, h6, h7, h8, h9⟩ := include_facts
  have hg := get_first_ident (s2l "$INCLUDE") (32 :: (fname ++ 10 :: rest)) (by decide) (by decide) (sp_startsDelim _)
  have g1 := get_field [32] fname (10 :: rest) sp_blank kf.ok kf.ne ⟨10, rest, rfl, by decide⟩
  simp only [List.cons_append, List.nil_append] at g1
  unfold lineStep
  simp only [bind, Except.bind, liftT, htok, hg]
  simp only [h1, h2, h3, hval, h4, h5, h6, h7, h8, h9, if_false, if_true, hallow, Bool.not_true, Bool.false_eq_true,
    g1, identToken, get_eol_after', Token.isIdentifier, Token.isEolOrEof, pure, Except.pure, hfile, init_eq_after, savedOf]
  simp

/-- the end of an included file -/
theorem lineStep_pop (r : PState) (sv : Saved) (rest : List Saved) (h : r.tok = after 0 false [])
    (hsv : r.saved = sv :: rest) : lineStep r = .ok (.nothing, r.restore sv rest) := by
  unfold lineStep
  simp [h, hsv, after, TState.get, skipWs, getLoop, stepEof, finishTok, liftT, bind, Except.bind, pure, Except.pure]

/-! ## an included file of record lines -/

theorem soaDefault_env (r : PState) (ty : Nat) (rd : Rdata) :
    (soaDefault r ty rd).files = r.files ∧ (soaDefault r ty rd).allowInclude = r.allowInclude := by
  unfold soaDefault
  split
  · cases rd <;> simp
  · simp

theorem afterG_env (r : PState) (l : GLine) (rest : List Nat) :
    (afterG r l rest).files = r.files ∧ (afterG r l rest).allowInclude = r.allowInclude := by
  unfold afterG
  obtain ⟨h1, h2⟩ := soaDefault_env
    (if l.hdr.hasTTL then
      { r with tok := after 0 false rest, lastName := some l.n, lastTTL := l.ttl, lastTTLKnown := true }
    else { r with tok := after 0 false rest, lastName := some l.n }) l.ty l.rd
  rw [h1, h2]
  cases l.hdr.hasTTL <;> simp

/-- what a run of record lines leaves untouched, and where the tokenizer stands after it -/
theorem finalStateR_fields (ls : List GLine) (rest : List Nat) (r : PState)
    (htok : r.tok = after 0 false (glinesText ls ++ rest)) :
    (finalStateR ls rest r).tok = after 0 false rest ∧ (finalStateR ls rest r).zoneOrigin = r.zoneOrigin ∧
    (finalStateR ls rest r).relativize = r.relativize ∧ (finalStateR ls rest r).gfix = r.gfix ∧
    (finalStateR ls rest r).saved = r.saved ∧ (finalStateR ls rest r).files = r.files ∧
    (finalStateR ls rest r).allowInclude = r.allowInclude := by
  induction ls generalizing r with
  | nil => exact ⟨by simpa [finalStateR, glinesText] using htok, rfl, rfl, rfl, rfl, rfl, rfl⟩
  | cons l ls ih =>
    obtain ⟨f1, _, f3, f4, f5, _, _⟩ := afterG_fields r l (glinesText ls ++ rest)
    obtain ⟨e1, e2⟩ := afterG_env r l (glinesText ls ++ rest)
    obtain ⟨a, b, c, d, e, f, g⟩ := ih (afterG r l (glinesText ls ++ rest)) f1
    simp only [finalStateR]
    exact ⟨a, b.trans f3, c.trans f4, d.trans f5, e.trans (afterG_saved r l _), f.trans e1, g.trans e2⟩

/-- popping the state `$INCLUDE` pushed gives the parent back exactly its state, after the `$INCLUDE` line -/
theorem restore_savedOf (x r : PState) (rest : List Nat)
    (h1 : x.zoneOrigin = r.zoneOrigin) (h2 : x.relativize = r.relativize) (h3 : x.gfix = r.gfix)
    (h4 : x.files = r.files) (h5 : x.allowInclude = r.allowInclude) :
    x.restore (savedOf r rest) r.saved = { r with tok := after 0 false rest } := by
  cases x; cases r
  simp only at h1 h2 h3 h4 h5
  subst h1 h2 h3 h4 h5
  rfl

private theorem readLoop_nothing' (f : Nat) (r r' : PState) (z : ZoneMap) (h : lineStep r = .ok (.nothing, r')) :
    readLoop (f + 1) r z = readLoop f r' z := by
  simp [readLoop, readStep, bind, Except.bind, h, pure, Except.pure]

/-- the episode from a state already switched to the included file: its lines are read under the state's origins, the
end of the file pops the parent -/
theorem readLoop_included_lines (f : Nat) (r1 r : PState) (z : ZoneMap) (co zo : Name) (rest : List Nat) (ls : List GLine)
    (d : Option Nat)
    (hco : r1.currentOrigin = some co) (hzo : r1.zoneOrigin = some zo) (htok : r1.tok = after 0 false (glinesText ls))
    (hsv : r1.saved = savedOf r rest :: r.saved)
    (e1 : r1.zoneOrigin = r.zoneOrigin) (e2 : r1.relativize = r.relativize) (e3 : r1.gfix = r.gfix)
    (e4 : r1.files = r.files) (e5 : r1.allowInclude = r.allowInclude)
    (hd : ∀ d', d = some d' → r1.defaultTTLKnown = true ∧ r1.defaultTTL = d')
    (hok : LinesOK co zo r1.relativize r1.gfix r1.lastName d ls) :
    readLoop (f + 1 + ls.length) r1 z =
      (addAll r1.effOrigin z (ls.map GLine.entry)).bind fun z' => readLoop f { r with tok := after 0 false rest } z' := by
  have htok' : r1.tok = after 0 false (glinesText ls ++ []) := by simpa using htok
  rw [readLoop_prefix_G ls [] r1 z co zo (f + 1) hco hzo htok' d hd hok]
  obtain ⟨a, b, c, dd, e, ff, g⟩ := finalStateR_fields ls [] r1 htok'
  have hpop := lineStep_pop (finalStateR ls [] r1) (savedOf r rest) r.saved a (e.trans hsv)
  have hres := restore_savedOf (finalStateR ls [] r1) r rest (b.trans e1) (c.trans e2) (dd.trans e3) (ff.trans e4)
    (g.trans e5)
  cases addAll r1.effOrigin z (ls.map GLine.entry) with
  | error err => rfl
  | ok z' =>
    simp only [Except.bind]
    rw [readLoop_nothing' f _ _ z' hpop, hres]

/-- **`$INCLUDE file origin⏎` for a file of record lines**: the file's records, read with relative names completed by
the include origin `o` (itself completed with the parent's current origin), are added, and the parent goes on after the
line with its own current origin, last owner, last and default TTL — none of what the included file did to them leaks -/
theorem include_origin_lines (f : Nat) (r : PState) (z : ZoneMap) (zo o : Name) (fname ot rest : List Nat)
    (ls : List GLine) (d : Option Nat)
    (hallow : r.allowInclude = true) (kf : TokOK fname) (ko : TokOK ot)
    (hname : fromText ot r.currentOrigin = .ok o) (hfile : lookupFile r.files fname = some (glinesText ls))
    (hzo : r.zoneOrigin = some zo)
    (htok : r.tok = after 0 false (s2l "$INCLUDE" ++ (32 :: (fname ++ (32 :: (ot ++ 10 :: rest))))))
    (hd : ∀ d', d = some d' → r.defaultTTLKnown = true ∧ r.defaultTTL = d')
    (hok : LinesOK o zo r.relativize r.gfix r.lastName d ls) :
    readLoop (f + 1 + ls.length + 1) r z =
      (addAll r.effOrigin z (ls.map GLine.entry)).bind fun z' => readLoop f { r with tok := after 0 false rest } z' := by
  rw [readLoop_nothing' _ _ _ z (lineStep_include_origin r fname ot rest (glinesText ls) o hallow kf ko hname hfile htok)]
  exact readLoop_included_lines f
    { r with tok := after 0 false (glinesText ls), currentOrigin := some o, saved := savedOf r rest :: r.saved } r z o zo
    rest ls d rfl hzo rfl rfl rfl rfl rfl rfl rfl hd hok

/-- **`$INCLUDE file⏎`**: the same with the included file read under the parent's current origin `co` -/
theorem include_plain_lines (f : Nat) (r : PState) (z : ZoneMap) (co zo : Name) (fname rest : List Nat)
    (ls : List GLine) (d : Option Nat)
    (hallow : r.allowInclude = true) (kf : TokOK fname) (hfile : lookupFile r.files fname = some (glinesText ls))
    (hco : r.currentOrigin = some co) (hzo : r.zoneOrigin = some zo)
    (htok : r.tok = after 0 false (s2l "$INCLUDE" ++ (32 :: (fname ++ 10 :: rest))))
    (hd : ∀ d', d = some d' → r.defaultTTLKnown = true ∧ r.defaultTTL = d')
    (hok : LinesOK co zo r.relativize r.gfix r.lastName d ls) :
    readLoop (f + 1 + ls.length + 1) r z =
      (addAll r.effOrigin z (ls.map GLine.entry)).bind fun z' => readLoop f { r with tok := after 0 false rest } z' := by
  rw [readLoop_nothing' _ _ _ z (lineStep_include_plain r fname rest (glinesText ls) hallow kf hfile htok)]
  exact readLoop_included_lines f
    { r with tok := after 0 false (glinesText ls), saved := savedOf r rest :: r.saved } r z co zo
    rest ls d hco hzo rfl rfl rfl rfl rfl rfl rfl hd hok

/-- `allow_include=False`: the directive is refused -/
theorem lineStep_include_refused (r : PState) (T : List Nat) (hT : startsDelim T) (hallow : r.allowInclude = false)
    (htok : r.tok = after 0 false (s2l "$INCLUDE" ++ T)) : lineStep r = .error .syntaxError := by
  obtain ⟨h1, h2, h3, hval, h4, h5, h6, h7, h8, h9⟩ := include_facts
  have hg := get_first_ident (s2l "$INCLUDE") T (by decide) (by decide) hT
  unfold lineStep
  simp only [bind, Except.bind, liftT, htok, hg]
  simp [h1, h2, h3, hval, h4, h5, h6, h7, h8, h9, hallow]

/-! ## the textually inlined spelling -/

theorem finalStateR_currentOrigin (ls : List GLine) (rest : List Nat) (r : PState) :
    (finalStateR ls rest r).currentOrigin = r.currentOrigin := by
  induction ls generalizing r with
  | nil => rfl
  | cons l ls ih =>
    simp only [finalStateR]
    rw [ih]
    exact (afterG_fields r l (glinesText ls ++ rest)).2.1

/-- `$ORIGIN ot⏎`, the lines of the file, `$ORIGIN pt⏎` (the parent's origin written back): the same records are added
and the reader goes on at the same place under the same origins — but with the last owner and the TTL bookkeeping the
inlined lines left behind, which `$INCLUDE` restores (`include_origin_lines`) -/
theorem inline_origin_lines (f : Nat) (r : PState) (z : ZoneMap) (co zo o : Name) (ot pt rest : List Nat)
    (ls : List GLine) (d : Option Nat)
    (hzo : r.zoneOrigin = some zo)
    (ko : TokOK ot) (hname : (identToken ot).asName r.currentOrigin false none = .ok o) (hoabs : isAbs o = true)
    (kp : TokOK pt) (hpname : (identToken pt).asName (some o) false none = .ok co) (hcabs : isAbs co = true)
    (htok : r.tok = after 0 false (originsText [(ot, o)] ++ (glinesText ls ++ (originsText [(pt, co)] ++ rest))))
    (hd : ∀ d', d = some d' → r.defaultTTLKnown = true ∧ r.defaultTTL = d')
    (hok : LinesOK o zo r.relativize r.gfix r.lastName d ls) :
    readLoop (f + 1 + ls.length + 1) r z =
      (addAll r.effOrigin z (ls.map GLine.entry)).bind fun z' =>
        readLoop f { finalStateR ls (originsText [(pt, co)] ++ rest)
                       { r with tok := after 0 false (glinesText ls ++ (originsText [(pt, co)] ++ rest)),
                                currentOrigin := some o } with
                     tok := after 0 false rest, currentOrigin := some co } z' := by
  have s1 := readLoop_origin_dirs [(ot, o)] (glinesText ls ++ (originsText [(pt, co)] ++ rest)) r z zo
    (f + 1 + ls.length) hzo htok ⟨ko.ok, ko.ne, hname, hoabs, trivial⟩
  simp only [List.length_cons, List.length_nil, Nat.zero_add, lastOrigin] at s1
  rw [s1]
  have s2 := readLoop_prefix_G ls (originsText [(pt, co)] ++ rest)
    { r with tok := after 0 false (glinesText ls ++ (originsText [(pt, co)] ++ rest)), currentOrigin := some o } z o zo
    (f + 1) rfl hzo rfl d hd hok
  rw [s2]
  have heff : ({ r with tok := after 0 false (glinesText ls ++ (originsText [(pt, co)] ++ rest)),
                        currentOrigin := some o } : PState).effOrigin = r.effOrigin := rfl
  rw [heff]
  cases addAll r.effOrigin z (ls.map GLine.entry) with
  | error err => rfl
  | ok z' =>
    simp only [Except.bind]
    obtain ⟨a, b, _, _, _, _, _⟩ := finalStateR_fields ls (originsText [(pt, co)] ++ rest)
      { r with tok := after 0 false (glinesText ls ++ (originsText [(pt, co)] ++ rest)), currentOrigin := some o } rfl
    have hcur := finalStateR_currentOrigin ls (originsText [(pt, co)] ++ rest)
      { r with tok := after 0 false (glinesText ls ++ (originsText [(pt, co)] ++ rest)), currentOrigin := some o }
    have s3 := readLoop_origin_dirs [(pt, co)] rest _ z' zo f (b.trans hzo) a
      (by rw [hcur]; exact ⟨kp.ok, kp.ne, hpname, hcabs, trivial⟩)
    simp only [List.length_cons, List.length_nil, Nat.zero_add, lastOrigin] at s3
    rw [s3]

end Model

import Proofs.BTreeDelete
import Proofs.BTreeInsert2
/-!
Layer L3, part 3: the recursion of `delete` and the root handling of `_delete` (root collapse).
-/
namespace Model.BTree

/-- deleting the successor `s` of `e0` and then putting `s` in the place of `e0` removes `e0` -/
theorem succ_replace {P Q : List Elt} {e0 s : Elt} (hs : Sorted (P ++ e0 :: s :: Q)) :
    lookup (P ++ e0 :: s :: Q) s.1 = some s ∧
    replKey e0.1 s (delKey s.1 (P ++ e0 :: s :: Q)) = delKey e0.1 (P ++ e0 :: s :: Q) ∧
    lookup (delKey s.1 (P ++ e0 :: s :: Q)) e0.1 = some e0 ∧
    lookup (P ++ e0 :: s :: Q) e0.1 = some e0 := by
  have ⟨_, hs2, hcross⟩ := sorted_append_iff.mp hs
  have ⟨he0, hs3⟩ := sorted_cons_iff.mp hs2
  have ⟨hsq, _⟩ := sorted_cons_iff.mp hs3
  have hes : e0.1 < s.1 := he0 s (by simp)
  have hP0 : ∀ x ∈ P, x.1 < e0.1 := fun x hx => hcross x hx e0 (by simp)
  have hQs : ∀ x ∈ Q, s.1 < x.1 := hsq
  have hQ0 : ∀ x ∈ Q, e0.1 < x.1 := fun x hx => by have := hQs x hx; omega
  have hPe : ∀ x ∈ P ++ [e0], x.1 < s.1 := by
    intro x hx
    rcases List.mem_append.mp hx with hx | hx
    · have := hP0 x hx; omega
    · simp at hx; subst hx; exact hes
  have e1 : P ++ e0 :: s :: Q = (P ++ [e0]) ++ s :: Q := by simp
  have hdel : delKey s.1 (P ++ e0 :: s :: Q) = P ++ e0 :: Q := by
    rw [e1, delKey_found rfl hPe hQs]; simp
  refine ⟨?_, ?_, ?_, ?_⟩
  · rw [e1]; exact lookup_found hPe
  · rw [hdel, replKey_found rfl hP0 hQ0, delKey_found rfl hP0]
    intro x hx
    rcases List.mem_cons.mp hx with rfl | hx
    · exact hes
    · exact hQ0 x hx
  · rw [hdel]; exact lookup_found hP0
  · exact lookup_found hP0

/-- L3 core: `delete` on a well-shaped sorted subtree whose top node may lose one element -/
theorem delete_spec {t : Nat} (ht : 2 ≤ t) : ∀ (h : Nat) (n : Node) (k : Nat), Shape t h n → Sorted (flat n) →
    (h ≠ 0 → 1 ≤ n.elts.length ∨ ∀ c ∈ n.children, c.elts.length ≠ minKeys t) →
    DelSpec t h n k (delete t h n k none) := by
  intro h
  induction h with
  | zero =>
    intro n k hn hs _
    obtain ⟨es, rfl⟩ := shape_zero hn
    simp only [flat_leaf] at hs
    unfold delete
    simp only [Node.elts]
    rcases search_cases k hs with ⟨el, er, rfl, hl, hr, hres⟩ | ⟨el, e0, er, rfl, h0, hl, hr, hres⟩
    · simp only [hres, Bool.false_eq_true, false_and, if_false, Option.isSome_none]
      exact ⟨by simp, by simp [delKey_gap hl hr], by simp [lookup_none_of_gap hl hr], by simp [Node.elts],
        by simp [Node.elts]⟩
    · simp only [hres, true_and, Option.isSome_none, Bool.false_eq_true, false_and, if_false, if_true,
        popAt_at rfl, eltAt_at rfl]
      refine ⟨by simp, by simp [delKey_found h0 hl hr], ?_, by simp [Node.elts] <;> omega,
        by simp [Node.elts]⟩
      simp only [flat_leaf]
      rw [← h0, lookup_found (by intro x hx; have := hl x hx; omega)]
  | succ h ih =>
    intro n k hn hs hpos
    obtain ⟨es, cs, rfl, hlen, hkids⟩ := shape_succ hn
    have hk : Kids t h es cs := ⟨hlen, hkids⟩
    have hes := sorted_elts hs
    have hpos' : 1 ≤ es.length ∨ ∀ c ∈ cs, c.elts.length ≠ minKeys t := by
      simpa [Node.elts, Node.children] using hpos (by omega)
    unfold delete
    simp only [Node.elts]
    rcases search_cases k hes with ⟨el, er, rfl, hl, hr, hres⟩ | ⟨el, e0, er, rfl, h0, hl, hr, hres⟩
    · -- not in this node: descend
      obtain ⟨cl, c, cr, rfl, hcl, hcr⟩ := kids_split hk.1
      simp only [hres, Bool.false_eq_true, false_and, if_false]
      obtain ⟨el1, er1, cl1, c1, cr1, hprep, hcl1, hk1, hflat1, hwl1, hwr1, hc1, hlo, hhi⟩ :=
        delPrep_spec ht hk hcl hs (fun hm => by
          rcases hpos' with h1 | h2
          · exact h1
          · exact absurd hm (h2 c (by simp))) hl hr
      rw [hprep]
      simp only [kidAt_at hcl1, setAt_at hcl1]
      have hs1 : Sorted (flat (.node (el1 ++ er1) (cl1 ++ c1 :: cr1))) := by rw [hflat1]; exact hs
      have hsc1 : Sorted (flat c1) := by
        have := hs1
        rw [flat_node_split el1 er1 cl1 c1 cr1 hcl1] at this
        exact (sorted_append_iff.mp (sorted_append_iff.mp this).1).2.1
      have hc := ih c1 k (hk1.2 c1 (by simp)).1 hsc1 (fun _ => Or.inl (by omega))
      rcases hdc : delete t h c1 k none with ⟨c1', r⟩
      rw [hdc] at hc
      obtain ⟨d1, d2, d3⟩ := del_descend hk1 hcl1 hs1 hwl1 hwr1 hc hc1
      subst d3
      simp only [delFinish, Bool.false_eq_true, if_false]
      refine ⟨d1, by rw [d2, hflat1], by rw [hflat1], ?_, ?_⟩
      · simp only [Node.elts]; omega
      · simp only [Node.elts]; omega
    · -- found in this internal node: delete the least successor, then put it in the key's place
      obtain ⟨cl, c, cr, rfl, hcl, hcr⟩ := kids_split (el := el) (er := e0 :: er) hk.1
      cases cr with
      | nil => simp at hcr
      | cons c' cr' =>
        simp only [hres, true_and, Option.isSome_none, Bool.false_eq_true, false_and, if_false, if_true,
          kidAt_at_succ hcl]
        obtain ⟨rest, hmin⟩ := minimum_head t ht h c' (hk.2 c' (by simp)).1 (hk.2 c' (by simp)).2
        generalize minimum h c' = s at hmin ⊢
        have hflatn : flat (.node (el ++ e0 :: er) (cl ++ c :: c' :: cr')) =
            (LF cl el ++ flat c) ++ e0 :: s :: (rest ++ RF cr' er) := by
          rw [flat_node_split el (e0 :: er) cl c (c' :: cr') hcl, RF_cons, hmin]; simp
        have hsn := hs
        rw [hflatn] at hsn
        obtain ⟨q1, q2, q3, q4⟩ := succ_replace hsn
        have hk2 : Kids t h ((el ++ [e0]) ++ er) ((cl ++ [c]) ++ c' :: cr') := by simpa using hk
        have hs2 : Sorted (flat (.node ((el ++ [e0]) ++ er) ((cl ++ [c]) ++ c' :: cr'))) := by simpa using hs
        have hcl2 : (cl ++ [c]).length = (el ++ [e0]).length := by simp [hcl]
        have hes' : e0.1 < s.1 := by
          have := (sorted_append_iff.mp hsn).2.1
          exact (sorted_cons_iff.mp this).1 s (by simp)
        have hwl2 : ∀ x ∈ el ++ [e0], x.1 < s.1 := by
          intro x hx
          rcases List.mem_append.mp hx with hx | hx
          · have := hl x hx; omega
          · simp at hx; subst hx; exact hes'
        have hwr2 : ∀ x ∈ er, s.1 < x.1 := by
          intro x hx
          have hsq := (sorted_cons_iff.mp (sorted_cons_iff.mp (sorted_append_iff.mp hsn).2.1).2).1
          exact hsq x (List.mem_append.mpr (Or.inr (mem_RF_of_mem (cr := cr') hx)))
        obtain ⟨el1, er1, cl1, c1, cr1, hprep, hcl1, hk1, hflat1, hwl1, hwr1, hc1, hlo, hhi⟩ :=
          delPrep_spec ht hk2 hcl2 hs2 (fun _ => by simp <;> omega) hwl2 hwr2
        simp only [List.append_assoc, List.singleton_append, List.length_append, List.length_cons,
          List.length_nil, Nat.zero_add] at hprep hflat1 hlo hhi
        rw [hprep]
        simp only [kidAt_at hcl1, setAt_at hcl1]
        have hs1 : Sorted (flat (.node (el1 ++ er1) (cl1 ++ c1 :: cr1))) := by rw [hflat1]; exact hs
        have hsc1 : Sorted (flat c1) := by
          have := hs1
          rw [flat_node_split el1 er1 cl1 c1 cr1 hcl1] at this
          exact (sorted_append_iff.mp (sorted_append_iff.mp this).1).2.1
        have hc := ih c1 s.1 (hk1.2 c1 (by simp)).1 hsc1 (fun _ => Or.inl (by omega))
        rcases hdc : delete t h c1 s.1 none with ⟨c1', r⟩
        rw [hdc] at hc
        obtain ⟨d1, d2, d3⟩ := del_descend hk1 hcl1 hs1 hwl1 hwr1 hc hc1
        rw [hflat1] at d2 d3
        rw [hflatn] at d2 d3
        rw [q1] at d3
        subst d3
        simp only [delFinish, if_true]
        have hsn1 : Sorted (flat (.node (el1 ++ er1) (cl1 ++ c1' :: cr1))) := by
          rw [d2]; exact delKey_sorted _ hsn
        have hrp := replaceAt_spec (t := t) k s (h + 1) _ d1 hsn1
        rcases hrc : replaceAt (h + 1) (.node (el1 ++ er1) (cl1 ++ c1' :: cr1)) k s with ⟨n2, old⟩
        rw [hrc] at hrp
        have r1 : flat n2 = replKey k s (flat (.node (el1 ++ er1) (cl1 ++ c1' :: cr1))) := hrp.flat_eq
        have r2 : old = lookup (flat (.node (el1 ++ er1) (cl1 ++ c1' :: cr1))) k := hrp.ret
        have r3 : n2.elts.length = (el1 ++ er1).length := hrp.len
        simp only []
        refine ⟨hrp.shape, ?_, ?_, ?_, ?_⟩
        · show flat n2 = _
          rw [r1, d2, hflatn, ← h0, q2]
        · show DelRes.ok old = _
          rw [r2, d2, hflatn, ← h0, q3, q4]
        · show (el ++ e0 :: er).length ≤ n2.elts.length + 1
          rw [r3]; simp only [List.length_append, List.length_cons] at hlo ⊢; omega
        · show n2.elts.length ≤ (el ++ e0 :: er).length
          rw [r3]; simp only [List.length_append, List.length_cons] at hhi ⊢; omega

end Model.BTree

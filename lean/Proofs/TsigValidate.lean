import Model.Tsig
import Proofs.TsigDigest
/-! `validate`: decision list, and acceptance of what `sign` produced. -/
namespace Model.Tsig
open Model

theorem cmpBytes_self (x : Bytes) : cmpBytes x x = 0 := by
  induction x with
  | nil => rfl
  | cons a as ih => simp [cmpBytes, ih]

theorem fcLoop_self (xs : List Label) (k : Nat) : fcLoop xs xs k = none := by
  induction xs generalizing k with
  | nil => rfl
  | cons a as ih => simp [fcLoop, cmpLabel, cmpBytes_self, ih]

theorem nameEq_refl (n : Name) : nameEq n n = true := by
  simp [nameEq, cmpOrder, fullcompare, fcLoop_self]

/-! ### octets and 16-bit fields -/

def OctetsOk (w : Bytes) : Prop := ∀ x ∈ w, x < 256

theorem getD_lt (w : Bytes) (h : OctetsOk w) (i : Nat) : w.getD i 0 < 256 := by
  unfold List.getD
  cases hi : w[i]? with
  | none => simp
  | some x => simp; exact h x (List.mem_of_getElem? hi)

theorem rd16_lt (w : Bytes) (h : OctetsOk w) (i : Nat) : rd16 w i < 65536 := by
  have a := getD_lt w h i
  have b := getD_lt w h (i + 1)
  unfold rd16; omega

theorem rd16_u16 (n : Nat) (hn : n < 65536) (a b : Bytes) : rd16 (a ++ u16 n ++ b) a.length = n := by
  unfold rd16 u16
  simp [List.getD]
  omega

/-- `w[a:b]` pieces of a list -/
theorem take_drop_split (w : Bytes) (a b : Nat) (hab : a ≤ b) (hb : b ≤ w.length) :
    w = w.take a ++ slice w a b ++ w.drop b := by
  unfold slice
  have h1 : w.take a = (w.take b).take a := by rw [List.take_take]; congr 1; omega
  rw [h1, List.take_append_drop, List.take_append_drop]

theorem u16_rd16 (w : Bytes) (h : OctetsOk w) (i : Nat) (hi : i + 2 ≤ w.length) : u16 (rd16 w i) = slice w i (i + 2) := by
  have a := getD_lt w h i
  have b := getD_lt w h (i + 1)
  have e : slice w i (i + 2) = [w.getD i 0, w.getD (i + 1) 0] := by
    unfold slice
    apply List.ext_getElem
    · simp; omega
    · intro k h1 h2
      simp at h2
      have : k = 0 ∨ k = 1 := by omega
      rcases this with rfl | rfl
      · simp [List.getD, List.getElem?_eq_getElem (show i < w.length by omega)]
      · simp [List.getD, List.getElem?_eq_getElem (show i + 1 < w.length by omega)]
  rw [e]
  unfold u16 rd16
  generalize w.getD i 0 = x at *
  generalize w.getD (i + 1) 0 = y at *
  simp only [List.cons.injEq, and_true]
  omega

/-! ### the rejection decision list of `validate` -/

/-- every way `validate` can end, in the order the code tests them -/
theorem validateV_spec (V : Verifier) (tbl : List AlgEntry) (wire : Bytes) (key : Key) (owner : Name) (rd : Rdata)
    (now : Nat) (rm : Bytes) (s : Nat) (ctx : Option Ctx) (multi : Bool) :
    validateV V tbl wire key owner rd now rm s ctx multi =
      if rd16 wire 10 = 0 then .error .formError
      else if rd.error ≠ 0 then .error (peerErr rd.error)
      else if absDiff rd.timeSigned now > rd.fudge then .error .badTime
      else if nameEq key.name owner = false then .error .badKey
      else if nameEq key.algorithm rd.algorithm = false then .error .badAlgorithm
      else match digest tbl (newWire wire s) key rd none rm ctx multi with
        | .error e => .error e
        | .ok c =>
          if V c rd.mac = false then .error .badSignature
          else match maybeStartDigest tbl key rd.mac multi with
            | .error e => .error e
            | .ok c' => .ok (c, c') := by
  unfold validateV
  simp only [ConstsC14.arcountOff, Bool.not_eq_true']
  rfl

theorem getContext_ok_of_digest (tbl : List AlgEntry) (wire : Bytes) (key : Key) (rd : Rdata) (t : Option Nat) (rm : Bytes)
    (c : Ctx) (h : digest tbl wire key rd t rm none false = .ok c) : ∃ c0, getContext tbl key = .ok c0 := by
  unfold digest at h
  simp only [Bool.false_eq_true, if_false] at h
  split at h
  · cases h
  · exact ⟨_, by assumption⟩

/-! ### `sign` then `validate` -/

theorem setArcount_length (w : Bytes) (n : Nat) (h : 12 ≤ w.length) : (setArcount w n).length = w.length := by
  unfold setArcount; simp [u16]; omega

theorem appendTsig_length (body o : Bytes) (rd : Rdata) (h : 12 ≤ body.length) :
    (appendTsig body o rd).length = body.length + (tsigRR o rd).length := by
  unfold appendTsig
  rw [setArcount_length _ _ (by simp; omega)]
  simp

/-- cutting the signed message at the TSIG RR and decrementing ARCOUNT gives back what was signed -/
theorem newWire_appendTsig (body o : Bytes) (rd : Rdata) (hl : 12 ≤ body.length) (ho : OctetsOk body)
    (hc : rd16 body 10 + 1 < 65536) : newWire (appendTsig body o rd) body.length = body := by
  have hsplit := take_drop_split body 10 12 (by omega) hl
  have h1012 : slice body 10 12 = u16 (rd16 body 10) := (u16_rd16 body ho 10 (by omega)).symm
  unfold newWire appendTsig setArcount slice
  simp only [ConstsC14.arcountOff, ConstsC14.arcountEnd]
  have e1 : (List.take 10 (body ++ tsigRR o rd) ++ u16 (rd16 body 10 + 1) ++ List.drop 12 (body ++ tsigRR o rd)).take 10
      = body.take 10 := by
    rw [List.append_assoc, List.take_append_of_le_length (by simp; omega)]
    rw [List.take_take]; simp
    rw [List.take_append_of_le_length (by omega)]
  have e2 : rd16 (List.take 10 (body ++ tsigRR o rd) ++ u16 (rd16 body 10 + 1) ++ List.drop 12 (body ++ tsigRR o rd)) 10
      = rd16 body 10 + 1 := by
    have hlen : (List.take 10 (body ++ tsigRR o rd)).length = 10 := by simp; omega
    have := rd16_u16 (rd16 body 10 + 1) hc (List.take 10 (body ++ tsigRR o rd)) (List.drop 12 (body ++ tsigRR o rd))
    rw [hlen] at this
    exact this
  have e3 : ((List.take 10 (body ++ tsigRR o rd) ++ u16 (rd16 body 10 + 1) ++ List.drop 12 (body ++ tsigRR o rd)).take
      body.length).drop 12 = body.drop 12 := by
    have hlen : (List.take 10 (body ++ tsigRR o rd) ++ u16 (rd16 body 10 + 1)).length = 12 := by simp [u16]; omega
    rw [List.take_append, hlen]
    rw [List.drop_append, List.length_take, hlen]
    have : List.drop 12 (List.take body.length (List.take 10 (body ++ tsigRR o rd) ++ u16 (rd16 body 10 + 1))) = [] := by
      apply List.drop_eq_nil_of_le; simp [u16]; omega
    rw [this, List.nil_append]
    have : 12 - min body.length 12 = 0 := by omega
    rw [this, List.drop_zero, List.drop_append_of_le_length (by omega), List.take_append_of_le_length (by simp)]
    rw [List.take_of_length_le (by simp)]
  rw [e1, e2, e3]
  simp only [Nat.add_sub_cancel]
  rw [← h1012]
  exact hsplit.symm

theorem lookupAlg_mem (tbl : List AlgEntry) (e : AlgEntry) (he : e ∈ tbl) : ∃ e', lookupAlg tbl e.name = some e' := by
  unfold lookupAlg
  have : (tbl.find? fun x => nameEq x.name e.name).isSome = true := by
    rw [List.find?_isSome]
    exact ⟨e, he, nameEq_refl e.name⟩
  exact Option.isSome_iff_exists.mp this

theorem digest_congr (tbl : List AlgEntry) (wire : Bytes) (key : Key) (rd rd' : Rdata) (t : Nat) (rm : Bytes)
    (ctx : Option Ctx) (multi : Bool)
    (h1 : rd'.originalId = rd.originalId) (h2 : rd'.fudge = rd.fudge) (h3 : rd'.error = rd.error)
    (h4 : rd'.other = rd.other) (h5 : rd'.timeSigned = t) :
    digest tbl wire key rd' none rm ctx multi = digest tbl wire key rd (some t) rm ctx multi := by
  unfold digest
  simp [h1, h2, h3, h4, h5]

theorem rd16_appendTsig (body o : Bytes) (rd : Rdata) (hl : 12 ≤ body.length) (hc : rd16 body 10 + 1 < 65536) :
    rd16 (appendTsig body o rd) 10 = rd16 body 10 + 1 := by
  unfold appendTsig setArcount
  have hlen : (List.take 10 (body ++ tsigRR o rd)).length = 10 := by simp; omega
  have := rd16_u16 (rd16 body 10 + 1) hc (List.take 10 (body ++ tsigRR o rd)) (List.drop 12 (body ++ tsigRR o rd))
  rw [hlen] at this
  exact this


end Model.Tsig

import Proofs.BTreeSearch
/-!
The shape invariant of the B-tree model, the in-order flattening of a node split at a child index, and
layer L1 (`get`, `height`, `minimum`).
-/
namespace Model.BTree

/-! ## flattening -/

theorem flatL_eq_map (cs : List Node) : flatL cs = cs.map flat := by
  induction cs with
  | nil => simp [flatL]
  | cons c cs ih => simp [flatL, ih]

@[simp] theorem flat_leaf (es : List Elt) : flat (.leaf es) = es := by simp [flat]

@[simp] theorem flat_node (es : List Elt) (cs : List Node) : flat (.node es cs) = inter (cs.map flat) es := by
  simp [flat, flatL_eq_map]

/-- flattened left part: children `cl` interleaved with as many elements `el` -/
abbrev LF (cl : List Node) (el : List Elt) : List Elt := inter (cl.map flat) el
/-- flattened right part: elements `er` each followed by a child of `cr` -/
abbrev RF (cr : List Node) (er : List Elt) : List Elt := tailI (cr.map flat) er

theorem flat_node_split (el er : List Elt) (cl : List Node) (c : Node) (cr : List Node)
    (h : cl.length = el.length) :
    flat (.node (el ++ er) (cl ++ c :: cr)) = LF cl el ++ flat c ++ RF cr er := by
  simp [inter_append, inter_cons, h]

theorem RF_cons (c : Node) (cr : List Node) (e : Elt) (er : List Elt) :
    RF (c :: cr) (e :: er) = e :: (flat c ++ RF cr er) := by
  simp [RF, tailI_cons]

theorem LF_snoc (cl : List Node) (c : Node) (el : List Elt) (e : Elt) (h : cl.length = el.length) :
    LF (cl ++ [c]) (el ++ [e]) = LF cl el ++ flat c ++ [e] := by
  simp [LF, inter_append, h, inter]

theorem kids_split {cs : List Node} {el er : List Elt} (h : cs.length = (el ++ er).length + 1) :
    ∃ cl c cr, cs = cl ++ c :: cr ∧ cl.length = el.length ∧ cr.length = er.length := by
  obtain ⟨cl, c, cr, rfl, hcl⟩ := split_at_lt cs el.length (by simp at h; omega)
  refine ⟨cl, c, cr, rfl, hcl, ?_⟩
  simp at h; omega

theorem elts_sublist (cls : List (List Elt)) (es : List Elt) : es.Sublist (inter cls es) := by
  induction cls generalizing es with
  | nil => simp [inter]
  | cons c cls ih =>
    cases es with
    | nil => simp
    | cons e es =>
      simp only [inter]
      exact List.Sublist.trans ((ih es).cons_cons e) (List.sublist_append_right c _)

theorem sorted_elts {es : List Elt} {cs : List Node} (h : Sorted (flat (.node es cs))) : Sorted es := by
  rw [flat_node] at h
  exact h.sublist (elts_sublist _ _)

theorem LF_lt {cl : List Node} {el : List Elt} {k : Nat} (hlen : cl.length = el.length)
    (hs : Sorted (LF cl el)) (h : ∀ x ∈ el, x.1 < k) : ∀ x ∈ LF cl el, x.1 < k := by
  by_cases hne : el = []
  · subst hne
    have : cl = [] := by cases cl <;> simp_all
    subst this
    simp [LF]
  · obtain ⟨A, hA⟩ := inter_eq_getLast (cl.map flat) el (by simpa using hlen) hne
    intro x hx
    simp only [LF] at hs hx
    rw [hA] at hs hx
    have hlast := h _ (List.getLast_mem hne)
    rcases List.mem_append.mp hx with hx | hx
    · have := sorted_concat_lt hs x hx; omega
    · simp at hx; subst hx; exact hlast

theorem RF_gt {cr : List Node} {er : List Elt} {k : Nat} (hlen : cr.length = er.length)
    (hs : Sorted (RF cr er)) (h : ∀ x ∈ er, k < x.1) : ∀ x ∈ RF cr er, k < x.1 := by
  cases er with
  | nil =>
    have : cr = [] := by cases cr <;> simp_all
    subst this
    simp [RF]
  | cons e er =>
    cases cr with
    | nil => simp at hlen
    | cons c cr =>
      rw [RF_cons] at hs ⊢
      have ⟨h1, _⟩ := sorted_cons_iff.mp hs
      have he := h e (by simp)
      intro x hx
      rcases List.mem_cons.mp hx with rfl | hx
      · exact he
      · have := h1 x hx; omega

/-! ## the shape invariant -/

/-- occupancy of a non-root node -/
def Occ (t : Nat) (c : Node) : Prop := minKeys t ≤ c.elts.length ∧ c.elts.length ≤ maxKeys t

/-- `Shape t h n`: `n` is a tree of height `h` (all leaves at depth `h`), every internal node has one more
child than elements, and every node below `n` holds between `t-1` and `2t-1` elements. -/
def Shape (t : Nat) : Nat → Node → Prop
  | 0, .leaf _ => True
  | 0, .node _ _ => False
  | _ + 1, .leaf _ => False
  | h + 1, .node es cs => cs.length = es.length + 1 ∧ ∀ c ∈ cs, Shape t h c ∧ Occ t c

@[simp] theorem shape_zero_leaf (t : Nat) (es : List Elt) : Shape t 0 (.leaf es) := by simp [Shape]
@[simp] theorem shape_zero_node (t : Nat) (es : List Elt) (cs : List Node) : ¬ Shape t 0 (.node es cs) := by
  simp [Shape]
@[simp] theorem shape_succ_leaf (t h : Nat) (es : List Elt) : ¬ Shape t (h + 1) (.leaf es) := by simp [Shape]
theorem shape_succ_node (t h : Nat) (es : List Elt) (cs : List Node) :
    Shape t (h + 1) (.node es cs) ↔ cs.length = es.length + 1 ∧ ∀ c ∈ cs, Shape t h c ∧ Occ t c := by
  simp [Shape]

theorem shape_zero {t : Nat} {n : Node} (h : Shape t 0 n) : ∃ es, n = .leaf es := by
  cases n with
  | leaf es => exact ⟨es, rfl⟩
  | node es cs => simp at h

theorem shape_succ {t h : Nat} {n : Node} (hn : Shape t (h + 1) n) :
    ∃ es cs, n = .node es cs ∧ cs.length = es.length + 1 ∧ ∀ c ∈ cs, Shape t h c ∧ Occ t c := by
  cases n with
  | leaf es => simp at hn
  | node es cs => exact ⟨es, cs, rfl, (shape_succ_node t h es cs).mp hn⟩

theorem height_of_shape {t : Nat} : ∀ {h : Nat} {n : Node}, Shape t h n → height n = h := by
  intro h
  induction h with
  | zero => intro n hn; obtain ⟨es, rfl⟩ := shape_zero hn; simp [height]
  | succ h ih =>
    intro n hn
    obtain ⟨es, cs, rfl, hlen, hc⟩ := shape_succ hn
    cases cs with
    | nil => simp at hlen
    | cons c cs => simp [height, heightL, ih (hc c (by simp)).1]

/-- the well-formedness of a whole tree with root `n` -/
structure Wf (t : Nat) (n : Node) : Prop where
  shape : ∃ h, Shape t h n
  top : n.elts.length ≤ maxKeys t
  sorted : Sorted (flat n)

/-! ## L1: `get` -/

theorem lookup_found {A B : List Elt} {e : Elt} (hA : ∀ x ∈ A, x.1 < e.1) :
    lookup (A ++ e :: B) e.1 = some e := by
  rw [lookup_append_left (fun x hx => Nat.ne_of_lt (hA x hx))]
  simp [lookup]

theorem get_refines_aux (t : Nat) (k : Nat) : ∀ (h : Nat) (n : Node), Shape t h n → Sorted (flat n) →
    get h n k = lookup (flat n) k := by
  intro h
  induction h with
  | zero =>
    intro n hn hs
    obtain ⟨es, rfl⟩ := shape_zero hn
    simp only [flat_leaf] at hs ⊢
    unfold get
    rcases search_cases k hs with ⟨el, er, rfl, hl, hr, hres⟩ | ⟨el, e, er, rfl, rfl, hl, hr, hres⟩
    · simp only [Node.elts, hres]
      have : lookup (el ++ er) k = none := lookup_eq_none (by
        intro x hx
        rcases List.mem_append.mp hx with hx | hx
        · have := hl x hx; omega
        · have := hr x hx; omega)
      simp [this]
    · simp [Node.elts, hres, lookup_found hl]
  | succ h ih =>
    intro n hn hs
    obtain ⟨es, cs, rfl, hlen, hc⟩ := shape_succ hn
    have hes := sorted_elts hs
    unfold get
    rcases search_cases k hes with ⟨el, er, rfl, hl, hr, hres⟩ | ⟨el, e, er, rfl, rfl, hl, hr, hres⟩
    · obtain ⟨cl, c, cr, rfl, hcl, hcr⟩ := kids_split hlen
      rw [flat_node_split el er cl c cr hcl] at hs ⊢
      have ⟨hs1, hsR, _⟩ := sorted_append_iff.mp hs
      have ⟨hsL, hsc, _⟩ := sorted_append_iff.mp hs1
      simp only [Node.elts, hres, Bool.false_eq_true, if_false]
      rw [← hcl, kidAt_append_cons, ih c (hc c (by simp)).1 hsc]
      exact (lookup_window (LF_lt hcl hsL hl) (RF_gt hcr hsR hr) (flat c)).symm
    · obtain ⟨cl, c, cr, rfl, hcl, hcr⟩ := kids_split hlen
      rw [flat_node_split el (e :: er) cl c cr hcl] at hs ⊢
      cases cr with
      | nil => simp at hcr
      | cons c' cr' =>
        rw [RF_cons] at hs ⊢
        simp only [Node.elts, hres, if_true, eltAt_append_cons]
        have := (sorted_append_iff.mp hs).2.2
        exact (lookup_found (fun x hx => this x hx e (by simp))).symm

/-! ## `minimum` is the head of the flattening -/

theorem minimum_head (t : Nat) (ht : 2 ≤ t) : ∀ (h : Nat) (n : Node), Shape t h n → Occ t n →
    ∃ rest, flat n = minimum h n :: rest := by
  intro h
  induction h with
  | zero =>
    intro n hn ho
    obtain ⟨es, rfl⟩ := shape_zero hn
    cases es with
    | nil => simp [Occ, Node.elts, minKeys] at ho; omega
    | cons e es => exact ⟨es, by simp [minimum]⟩
  | succ h ih =>
    intro n hn ho
    obtain ⟨es, cs, rfl, hlen, hc⟩ := shape_succ hn
    cases cs with
    | nil => simp at hlen
    | cons c cs =>
      obtain ⟨rest, hrest⟩ := ih c (hc c (by simp)).1 (hc c (by simp)).2
      refine ⟨rest ++ tailI (cs.map flat) es, ?_⟩
      simp [minimum, inter_cons, hrest]

end Model.BTree

import Proofs.RenderRel
import Proofs.RenderTrunc
import Proofs.MessageCounts
import Proofs.NameCompress
import Proofs.RelSpec
/-! Compression soundness lifted from one name (`loop_sound`, C01) to the whole rendering: in every state the
renderer reaches, every compression-table entry decodes — in the buffer, whatever the twelve header octets are —
to its key up to ASCII case. -/
namespace Model

variable {Rs : RelSpec}

/-- a name the renderer can write: absolute, possibly after appending the origin, within the DNS limits, and in the
class of names the relation `Rs` can handle -/
def NameOk (Rs : RelSpec) (origin : Option Name) (n : Name) : Prop :=
  ∃ full, wireName n origin = some full ∧ WfName full ∧ isAbs full = true ∧ Rs.Good full

theorem nameExt_sound (A : Bytes) (t : CTable) (n : Name) (origin : Option Name) (q : Bytes × CTable)
    (hok : NameOk Rs origin n) (hs : TableSound Rs.R A t) (h : nameExt A.length t n origin = some q) :
    TableSound Rs.R (A ++ q.1) (t ++ q.2) := by
  obtain ⟨full, hw, hwf, habs, hg⟩ := hok
  unfold nameExt at h
  rw [hw] at h
  simp at h
  rw [← h]
  exact (Rs.sound A t full hwf habs hg hs).1

def RData.namesOk (Rs : RelSpec) (origin : Option Name) : RData → Prop
  | .raw _ => True
  | .name1 n => NameOk Rs origin n
  | .mx _ n => NameOk Rs origin n
  | .soa m r _ _ _ _ _ => NameOk Rs origin m ∧ NameOk Rs origin r

def RRset.namesOk (Rs : RelSpec) (origin : Option Name) (r : RRset) : Prop :=
  NameOk Rs origin r.name ∧ ∀ rd ∈ r.rdatas, rd.namesOk Rs origin

def Item.namesOk (Rs : RelSpec) (origin : Option Name) : Item → Prop
  | .q n _ _ => NameOk Rs origin n
  | .rr _ r => r.namesOk Rs origin

theorem rdataExt_sound (A : Bytes) (t : CTable) (origin : Option Name) (rd : RData) (q : Bytes × CTable)
    (hok : rd.namesOk Rs origin) (hs : TableSound Rs.R A t) (h : rdataExt A.length t origin rd = some q) :
    TableSound Rs.R (A ++ q.1) (t ++ q.2) := by
  cases rd with
  | raw b =>
    simp [rdataExt] at h; rw [← h]; simpa using hs.mono b
  | name1 n => exact nameExt_sound A t n origin q hok hs h
  | mx p n =>
    simp only [rdataExt] at h
    cases h1 : nameExt (A.length + 2) t n origin with
    | none => rw [h1] at h; simp at h
    | some q1 =>
      rw [h1] at h; simp at h; rw [← h]
      have hl : (A ++ u16 p).length = A.length + 2 := by simp [u16]
      have := nameExt_sound (A ++ u16 p) t n origin q1 hok (hs.mono _) (by rw [hl]; exact h1)
      simpa [List.append_assoc] using this
  | soa m r a b c d e =>
    simp only [rdataExt] at h
    cases h1 : nameExt A.length t m origin with
    | none => rw [h1] at h; simp at h
    | some q1 =>
      rw [h1] at h; simp only at h
      cases h2 : nameExt (A.length + q1.1.length) (t ++ q1.2) r origin with
      | none => rw [h2] at h; simp at h
      | some q2 =>
        rw [h2] at h; simp at h; rw [← h]
        have s1 := nameExt_sound A t m origin q1 hok.1 hs h1
        have hl : (A ++ q1.1).length = A.length + q1.1.length := by simp
        have s2 := nameExt_sound (A ++ q1.1) (t ++ q1.2) r origin q2 hok.2 s1 (by rw [hl]; exact h2)
        have := s2.mono (u32 a ++ u32 b ++ u32 c ++ u32 d ++ u32 e)
        simpa [List.append_assoc] using this

theorem rrExt_sound (owner : Name) (rdtype rdclass ttl : Nat) (origin : Option Name) (A : Bytes) (t : CTable)
    (rd : RData) (q : Bytes × CTable) (hown : NameOk Rs origin owner) (hrd : rd.namesOk Rs origin)
    (hs : TableSound Rs.R A t) (h : rrExt owner rdtype rdclass ttl origin A.length t rd = .ok q) :
    TableSound Rs.R (A ++ q.1) (t ++ q.2) := by
  unfold rrExt at h
  cases h1 : nameExt A.length t owner origin with
  | none => rw [h1] at h; simp at h
  | some q1 =>
    rw [h1] at h; simp only at h
    cases h3 : rdataExt (A.length + q1.1.length + 10) (t ++ q1.2) origin rd with
    | none => rw [h3] at h; simp at h
    | some q3 =>
      rw [h3] at h; simp only at h
      split at h
      · simp at h
      · simp at h; rw [← h]
        have s1 := nameExt_sound A t owner origin q1 hown hs h1
        have s2 := s1.mono (u16 rdtype ++ u16 rdclass ++ u32 ttl ++ u16 q3.1.length)
        have hl : (A ++ q1.1 ++ (u16 rdtype ++ u16 rdclass ++ u32 ttl ++ u16 q3.1.length)).length
            = A.length + q1.1.length + 10 := by simp [u16, u32]; omega
        have s3 := rdataExt_sound _ (t ++ q1.2) origin rd q3 hrd s2 (by rw [hl]; exact h3)
        simpa [List.append_assoc] using s3

theorem rdsExt_sound (owner : Name) (rdtype rdclass ttl : Nat) (origin : Option Name) (rds : List RData) :
    ∀ (A : Bytes) (t : CTable) (q : Bytes × CTable), NameOk Rs origin owner → (∀ rd ∈ rds, rd.namesOk Rs origin) →
      TableSound Rs.R A t → rdsExt owner rdtype rdclass ttl origin A.length t rds = .ok q →
      TableSound Rs.R (A ++ q.1) (t ++ q.2) := by
  induction rds with
  | nil => intro A t q _ _ hs h; simp [rdsExt] at h; rw [← h]; simpa using hs
  | cons rd rest ih =>
    intro A t q hown hall hs h
    unfold rdsExt at h
    cases h1 : rrExt owner rdtype rdclass ttl origin A.length t rd with
    | error e => rw [h1] at h; simp at h
    | ok q1 =>
      rw [h1] at h; simp only at h
      cases h2 : rdsExt owner rdtype rdclass ttl origin (A.length + q1.1.length) (t ++ q1.2) rest with
      | error e => rw [h2] at h; simp at h
      | ok q2 =>
        rw [h2] at h; simp at h; rw [← h]
        have s1 := rrExt_sound owner rdtype rdclass ttl origin A t rd q1 hown (hall rd (by simp)) hs h1
        have hl : (A ++ q1.1).length = A.length + q1.1.length := by simp
        have s2 := ih (A ++ q1.1) (t ++ q1.2) q2 hown (fun x hx => hall x (by simp [hx])) s1 (by rw [hl]; exact h2)
        simpa [List.append_assoc] using s2

theorem rrsetExt_sound (A : Bytes) (t : CTable) (origin : Option Name) (r : RRset) (q : Bytes × CTable × Nat)
    (hok : r.namesOk Rs origin) (hs : TableSound Rs.R A t) (h : rrsetExt A.length t origin r = .ok q) :
    TableSound Rs.R (A ++ q.1) (t ++ q.2.1) := by
  unfold rrsetExt at h
  simp only at h
  split at h
  · cases h1 : nameExt A.length t r.name origin with
    | none => rw [h1] at h; simp at h
    | some q1 =>
      rw [h1] at h; simp at h; rw [← h]
      have s1 := nameExt_sound A t r.name origin q1 hok.1 hs h1
      have := s1.mono (u16 r.rdtype ++ u16 r.wireClass ++ u32 0 ++ u16 0)
      simpa [List.append_assoc] using this
  · cases h1 : rdsExt r.name r.rdtype r.wireClass r.ttl origin A.length t r.rdatas with
    | error e => rw [h1] at h; simp at h
    | ok q1 =>
      rw [h1] at h; simp at h; rw [← h]
      exact rdsExt_sound _ _ _ _ _ _ A t q1 hok.1 hok.2 hs h1

theorem itemExt_sound (A : Bytes) (t : CTable) (origin : Option Name) (it : Item) (q : Bytes × CTable × Nat)
    (hok : it.namesOk Rs origin) (hs : TableSound Rs.R A t) (h : itemExt A.length t origin it = .ok q) :
    TableSound Rs.R (A ++ q.1) (t ++ q.2.1) := by
  cases it with
  | q n rdtype rdclass =>
    simp only [itemExt] at h
    cases h1 : nameExt A.length t n origin with
    | none => rw [h1] at h; simp at h
    | some q1 =>
      rw [h1] at h; simp at h; rw [← h]
      have s1 := nameExt_sound A t n origin q1 hok hs h1
      have := s1.mono (u16 rdtype ++ u16 rdclass)
      simpa [List.append_assoc] using this
  | rr sec r => exact rrsetExt_sound A t origin r q hok hs h

/-! ### the renderer state -/

/-- the table is sound in the buffer whatever the twelve header octets are (they are written last) -/
def SoundSt (Rs : RelSpec) (s : RState) : Prop :=
  12 ≤ s.out.length ∧ ∀ H : Bytes, H.length = 12 → TableSound Rs.R (H ++ s.out.drop 12) s.tbl

theorem addItem_sound (s : RState) (it : Item) (hok : it.namesOk Rs s.origin) (hb : TblBelow s) (hs : SoundSt Rs s) :
    match s.addItem it with
    | .ok s' => SoundSt Rs s'
    | .tooBig s' => SoundSt Rs s'
    | .err _ => True := by
  have hspec := addItem_spec s it hb
  rw [addItem_rel] at hspec ⊢
  cases hsec : s.setSection it.sec with
  | error e => trivial
  | ok s1 =>
    obtain ⟨rfl, _⟩ := setSection_ok hsec
    rw [hsec] at hspec
    simp only at hspec ⊢
    cases hext : itemExt s.out.length s.tbl s.origin it with
    | error e => trivial
    | ok q =>
      rw [hext] at hspec
      simp only at hspec ⊢
      unfold RState.endTrack at hspec ⊢
      by_cases hbig : (s.out ++ q.1).length > s.maxSize
      · simp only [hbig, if_true] at hspec ⊢
        obtain ⟨e, _⟩ := hspec.tooBig_eq
        rw [e]; exact hs
      · simp only [hbig, if_false]
        refine ⟨by simp; have := hs.1; omega, ?_⟩
        intro H hH
        have hl : (H ++ s.out.drop 12).length = s.out.length := by
          have := hs.1
          simp [hH]; omega
        have := itemExt_sound (H ++ s.out.drop 12) s.tbl s.origin it q hok (hs.2 H hH) (by rw [hl]; exact hext)
        have hd : (s.out ++ q.1).drop 12 = s.out.drop 12 ++ q.1 := by
          rw [List.drop_append_of_le_length hs.1]
        simp only [hd]
        simpa [List.append_assoc] using this

end Model

namespace Model

def Message.namesOk (Rs : RelSpec) (m : Message) : Prop :=
  (∀ it ∈ m.items, it.namesOk Rs m.origin) ∧ (∀ t, m.tsig = some t → NameOk Rs m.origin t.name)

theorem addItems_sound (items : List Item) : ∀ (s s' : RState) (big : Bool),
    (∀ it ∈ items, it.namesOk Rs s.origin) → RInv s → SoundSt Rs s → s.addItems items = .ok (s', big) →
    SoundSt Rs s' := by
  induction items with
  | nil => intro s s' big _ _ hs h; simp [RState.addItems] at h; rw [← h.1]; exact hs
  | cons it rest ih =>
    intro s s' big hall hi hs h
    unfold RState.addItems at h
    have hsnd := addItem_sound s it (hall it (by simp)) hi.below hs
    have hspec := addItem_spec s it hi.below
    cases hr : s.addItem it with
    | err e => rw [hr] at h; simp at h
    | tooBig s1 =>
      rw [hr] at h hsnd; simp at h; rw [← h.1]; exact hsnd
    | ok s1 =>
      rw [hr] at h hsnd hspec
      simp only at h
      obtain ⟨hi1, _, _, _, _, ho, _⟩ := hspec.inv_ok hi
      exact ih s1 s' big (fun x hx => by rw [ho]; exact hall x (by simp [hx])) hi1 hsnd h

theorem rootOk (origin : Option Name) : NameOk Rs origin [[]] := by
  refine ⟨[[]], by simp [wireName, isAbs], ?_, by simp [isAbs], Rs.goodRoot⟩
  refine ⟨?_, ?_, ?_⟩ <;> simp [wireLen] <;> decide

theorem writeHeader_sound (s : RState) (hs : SoundSt Rs s) : SoundSt Rs s.writeHeader := by
  obtain ⟨h12, h⟩ := hs
  refine ⟨by rw [writeHeader_length s h12]; exact h12, ?_⟩
  intro H hH
  have : s.writeHeader.out.drop 12 = s.out.drop 12 := by
    simp only [RState.writeHeader]
    rw [List.drop_append_of_le_length (by simp [u16])]
    simp [u16]
  rw [this]
  exact h H hH

theorem addRRset_sound (s : RState) (sec : Nat) (r : RRset) (s' : RState) (hok : r.namesOk Rs s.origin)
    (hb : TblBelow s) (hs : SoundSt Rs s) (h : stepToExcept (s.addRRset sec r) = .ok s') : SoundSt Rs s' := by
  have := addItem_sound s (.rr sec r) hok hb hs
  simp only [RState.addItem] at this
  cases hr : s.addRRset sec r with
  | ok s1 => rw [hr] at this h; simp [stepToExcept] at h; rw [← h]; exact this
  | tooBig s1 => rw [hr] at h; simp [stepToExcept] at h
  | err e => rw [hr] at h; simp [stepToExcept] at h

theorem optRRset_namesOk (origin : Option Name) (o : EOpt) : (optRRset o).namesOk Rs origin := by
  refine ⟨rootOk origin, ?_⟩
  intro rd hrd
  simp [optRRset] at hrd
  subst hrd
  trivial

theorem tsigRRset_namesOk (origin : Option Name) (t : Tsig) (h : NameOk Rs origin t.name) : (tsigRRset t).namesOk Rs origin := by
  refine ⟨h, ?_⟩
  intro rd hrd
  simp [tsigRRset] at hrd
  subst hrd
  trivial

theorem finish_sound (r : RState) (opt : Option EOpt) (tsig : Option Tsig) (pad a b : Nat) (r' : RState)
    (hi : RInv r) (hs : SoundSt Rs r) (ht : ∀ t, tsig = some t → NameOk Rs r.origin t.name)
    (h : r.finish opt tsig pad a b = .ok r') : SoundSt Rs r' ∧ TblBelow r' := by
  unfold RState.finish at h
  simp only at h
  have hrel_below : TblBelow r.releaseReserved := hi.below
  have hrel_s : SoundSt Rs r.releaseReserved := hs
  have key : ∀ r5 : RState, (match opt with
      | none => (Except.ok r.releaseReserved : Except RErr RState)
      | some o => stepToExcept (r.releaseReserved.addOpt o pad a b)) = .ok r5 →
      SoundSt Rs r5 ∧ TblBelow r5 ∧ r5.origin = r.origin := by
    intro r5 h5
    cases opt with
    | none => simp at h5; subst h5; exact ⟨hrel_s, hrel_below, rfl⟩
    | some o =>
      simp only at h5
      replace h5 := addOpt_core_of_ok h5
      unfold RState.addOptCore at h5
      split at h5
      · have s5 := addRRset_sound { r.releaseReserved with wasPadded := true } _ _ r5
          (optRRset_namesOk _ _) hrel_below hrel_s h5
        have b5 := addRRset_ok_bound { r.releaseReserved with wasPadded := true } _ _ r5 hrel_below hi.hdr h5
        have o5 := (addRRset_ok_fields (stepOk_addRRset h5))
        refine ⟨s5, b5.2.1, ?_⟩
        have := addRRset_spec { r.releaseReserved with wasPadded := true } ConstsC03.secADDITIONAL
          (optRRset { o with options := o.options ++ [(ConstsC03.optPADDING,
            if (r.releaseReserved.out.length + a + b) % pad ≠ 0 then List.replicate (pad - (r.releaseReserved.out.length + a + b) % pad) 0 else [])] })
          hrel_below
        rw [stepOk_addRRset h5] at this
        cases this with
        | ok o t n ha hsz hle => rfl
      · have s5 := addRRset_sound r.releaseReserved _ _ r5 (optRRset_namesOk _ _) hrel_below hrel_s h5
        have b5 := addRRset_ok_bound r.releaseReserved _ _ r5 hrel_below hi.hdr h5
        refine ⟨s5, b5.2.1, ?_⟩
        have := addRRset_spec r.releaseReserved ConstsC03.secADDITIONAL (optRRset o) hrel_below
        rw [stepOk_addRRset h5] at this
        cases this with
        | ok o t n ha hsz hle => rfl
  split at h
  · simp at h
  · rename_i r5 h5
    obtain ⟨k1, k2, k3⟩ := key r5 h5
    cases tsig with
    | none =>
      simp at h; subst h
      exact ⟨writeHeader_sound r5 k1, writeHeader_below r5 k1.1 k2⟩
    | some t =>
      simp only at h
      split at h
      · simp at h
      · rename_i r6 h6
        simp at h; subst h
        have hb5 : TblBelow ({ r5.writeHeader with tbl := [] } : RState) := by
          intro p hp; simp at hp
        have hs5w := writeHeader_sound r5 k1
        have hs5 : SoundSt Rs ({ r5.writeHeader with tbl := [] } : RState) :=
          ⟨hs5w.1, fun H _ p hp => by simp at hp⟩
        have hok : (tsigRRset t).namesOk Rs ({ r5.writeHeader with tbl := [] } : RState).origin := by
          have : ({ r5.writeHeader with tbl := [] } : RState).origin = r.origin := k3
          rw [this]; exact tsigRRset_namesOk _ _ (ht t rfl)
        have s6 := addRRset_sound ({ r5.writeHeader with tbl := [] } : RState) _ _ r6 hok hb5 hs5 h6
        have b6 := addRRset_ok_bound ({ r5.writeHeader with tbl := [] } : RState) _ _ r6 hb5 hs5.1 h6
        exact ⟨writeHeader_sound r6 s6, writeHeader_below r6 s6.1 b6.2.1⟩

/-- every compression-table entry of a finished rendering is sound in the final message -/
theorem render_sound (m : Message) (lim : Nat) (pt : Bool) (r : RState) (hok : m.namesOk Rs)
    (h : m.render lim pt = .ok r) : TableSound Rs.R r.out r.tbl ∧ TblBelow r := by
  unfold Message.render at h
  cases hb : m.tsigReserve with
  | error e => rw [hb] at h; simp at h
  | ok b =>
    rw [hb] at h
    simp only at h
    cases hs : m.renderSections (clampSize lim m.requestPayload) pt m.optReserve b with
    | error e => rw [hs] at h; simp at h
    | ok r3 =>
      rw [hs] at h
      simp only at h
      obtain ⟨hi3, _, _⟩ := renderSections_inv m _ _ _ _ r3 hs
      rw [renderSections_eq] at hs
      cases hbase : m.base (clampSize lim m.requestPayload) m.optReserve b with
      | error e => rw [hbase] at hs; simp at hs
      | ok r2 =>
        rw [hbase] at hs
        simp only at hs
        obtain ⟨hi2, _, _⟩ := base_inv m _ _ _ r2 hbase
        have ho2 : r2.origin = m.origin := by
          have hbase := base_ok hbase
          unfold Message.base0 at hbase
          split at hbase
          · simp at hbase
          · rename_i r1 h1
            obtain ⟨rfl, _⟩ := reserve_ok h1
            obtain ⟨rfl, _⟩ := reserve_ok hbase
            rfl
        have hs2 : SoundSt Rs r2 := by
          have hbase := base_ok hbase
          unfold Message.base0 at hbase
          split at hbase
          · simp at hbase
          · rename_i r1 h1
            obtain ⟨rfl, _⟩ := reserve_ok h1
            obtain ⟨rfl, _⟩ := reserve_ok hbase
            refine ⟨by simp [RState.init], ?_⟩
            intro H _ p hp
            simp [RState.init] at hp
        cases hit : r2.addItems m.items with
        | error e => rw [hit] at hs; simp at hs
        | ok p =>
          obtain ⟨r3', big⟩ := p
          rw [hit] at hs
          simp only at hs
          have hs3' := addItems_sound _ _ _ _ (by rw [ho2]; exact hok.1) hi2 hs2 hit
          obtain ⟨_, _, _, _, _, ho3', _⟩ := addItems_inv _ _ _ _ hi2 hit
          obtain ⟨f1, f2, _, _, _, _, f7, _, _⟩ := afterItems_ok hs
          have hs3 : SoundSt Rs r3 := by
            refine ⟨by rw [f1]; exact hs3'.1, ?_⟩
            intro H hH; rw [f1, f2]; exact hs3'.2 H hH
          have ho3 : r3.origin = m.origin := by rw [f7, ho3', ho2]
          obtain ⟨hsr, hbr⟩ := finish_sound r3 m.opt m.tsig m.pad _ _ r hi3 hs3
            (by intro t ht; rw [ho3]; exact hok.2 t ht) h
          refine ⟨?_, hbr⟩
          have := hsr.2 (r.out.take 12) (by simp; have := hsr.1; omega)
          rwa [List.take_append_drop] at this

end Model

import Proofs.ZoneTxnSim
/-! Every call of the transaction API refines the reference model (C10): step simulation and its induction. -/
namespace Model.ZT
open Model

/-- the intended variant of the decision points (for `d09`, `d10`: the code as it now is) -/
structure GoodCfg (cfg : Cfg) : Prop where
  d09 : cfg.d09 = false
  d10 : cfg.d10 = false
  gn : cfg.gn = false

/-- a node of the code's version and the owner's entries in the reference map hold the same rdatasets -/
def NodeRel (cls : Nat) (k : Name) : Option Node → Option SZone → Prop
  | none, none => True
  | some nd, some zs => ∀ t c, nd.find cls t c = SZone.get zs (k, t, c)
  | _, _ => False

/-- results agree: equal — or, for iteration and `get_node`, the same content whatever the order
(`Sim`: the same rdataset under every key and the same owner names, so no empty node either) -/
def ResRel (cls : Nat) (a b : Res) : Prop :=
  a = b ∨
    match a, b with
    | .ok (.nodes v), .ok (.szone z) => Sim cls v z
    | .ok (.node k nd), .ok (.snode k' zs) => k = k' ∧ NodeRel cls k nd zs
    | _, _ => False

/-- pointwise relation of two result lists of the same length -/
def AllRel {α β : Type} (R : α → β → Prop) : List α → List β → Prop
  | [], [] => True
  | a :: as, b :: bs => R a b ∧ AllRel R as bs
  | _, _ => False

theorem ResRel.of_eq {cls : Nat} {a b : Res} (h : a = b) : ResRel cls a b := Or.inl h

/-- the simulation between an open transaction and the reference transaction -/
structure TSim (cfg : Cfg) (s : Txn) (t : STxn) : Prop where
  zone : Sim cfg.rdclass s.zone t.zone
  ver : Sim cfg.rdclass s.ver t.ver
  izone : Inv cfg.rdclass s.zone
  iver : Inv cfg.rdclass s.ver
  ro : s.readOnly = t.readOnly
  ended : s.ended = t.ended
  changed : s.changed = t.touched

/-! ### value layer: headers are preserved -/

theorem updateTtl_hdr (s : Rdataset) (ttl : Nat) :
    (s.updateTtl ttl).rdclass = s.rdclass ∧ (s.updateTtl ttl).rdtype = s.rdtype ∧ (s.updateTtl ttl).covers = s.covers := by
  unfold Rdataset.updateTtl
  split
  · exact ⟨rfl, rfl, rfl⟩
  · split <;> exact ⟨rfl, rfl, rfl⟩

theorem add_hdr (s : Rdataset) (rd : Rdata) :
    (s.add rd).rdclass = s.rdclass ∧ (s.add rd).rdtype = s.rdtype ∧ (s.add rd).covers = s.covers := by
  unfold Rdataset.add
  dsimp only
  split <;> split <;> exact ⟨rfl, rfl, rfl⟩

theorem foldl_add_hdr (items : List Rdata) (s : Rdataset) :
    (items.foldl Rdataset.add s).rdclass = s.rdclass ∧ (items.foldl Rdataset.add s).rdtype = s.rdtype ∧
      (items.foldl Rdataset.add s).covers = s.covers := by
  induction items generalizing s with
  | nil => simp
  | cons x xs ih =>
    simp only [List.foldl_cons]
    have h1 := ih (s.add x)
    have h2 := add_hdr s x
    exact ⟨h1.1.trans h2.1, h1.2.1.trans h2.2.1, h1.2.2.trans h2.2.2⟩

theorem union_hdr (a b : Rdataset) :
    (a.union b).rdclass = a.rdclass ∧ (a.union b).rdtype = a.rdtype ∧ (a.union b).covers = a.covers := by
  unfold Rdataset.union Rdataset.unionUpdate
  have h1 := foldl_add_hdr b.items (a.updateTtl b.ttl)
  have h2 := updateTtl_hdr a b.ttl
  exact ⟨h1.1.trans h2.1, h1.2.1.trans h2.2.1, h1.2.2.trans h2.2.2⟩

/-! ### the version API in terms of `getM` / `nodesGet` -/

theorem getRdataset_eq (cfg : Cfg) (v : Nodes) (name : Name) (t c : Nat) :
    getRdataset cfg v name t c =
      match validateName cfg name with
      | .error e => .error e
      | .ok k => .ok (getM cfg.rdclass v k t c) := by
  unfold getRdataset getM
  cases validateName cfg name with
  | error e => rfl
  | ok k => simp only; cases nodesGet v k <;> rfl

theorem soaNameOk_spec (cfg : Cfg) (hg : GoodCfg cfg) (n : Name) : soaNameOk (specCfg cfg) n = soaNameOk cfg n := by
  unfold soaNameOk specCfg effectiveOrigin; simp [hg.d10]

theorem Sim.congr {cls : Nat} {v v' : Nodes} {z : SZone} (h : ∀ k, nodesGet v' k = nodesGet v k) (hs : Sim cls v z) :
    Sim cls v' z := by
  constructor
  · intro k t c; unfold getM; rw [h k]; exact hs.1 k t c
  · intro k; rw [h k]; exact hs.2 k

theorem Inv.congr {cls : Nat} {v v' : Nodes} (h : ∀ k, nodesGet v' k = nodesGet v k) (hi : Inv cls v) : Inv cls v' := by
  intro k nd hk; rw [h k] at hk; exact hi k nd hk

/-! ### stores -/

theorem put_refines (cfg : Cfg) (s : Txn) (t : STxn) (k : Name) (r : Rdataset) (h : TSim cfg s t)
    (hr : r.rdclass = cfg.rdclass) :
    TSim cfg { s with ver := nodesSet s.ver k (((nodesGet s.ver k).getD []).replace r), changed := true }
      { t with ver := t.ver.put k r, touched := true } :=
  { zone := h.zone, ver := sim_put _ _ _ k r h.ver h.iver hr, izone := h.izone,
    iver := inv_put _ _ k r h.iver hr, ro := h.ro, ended := h.ended, changed := rfl }

theorem addCore_refines (cfg : Cfg) (hg : GoodCfg cfg) (s : Txn) (t : STxn) (h : TSim cfg s t)
    (replace : Bool) (name : Name) (rds : Rdataset) (extra veto : Bool) :
    TSim cfg (addCore cfg s replace name rds extra veto).1 (sPut cfg t name rds extra (!replace) veto).1 ∧
      (addCore cfg s replace name rds extra veto).2 = (sPut cfg t name rds extra (!replace) veto).2 := by
  unfold addCore sPut
  rw [soaNameOk_spec cfg hg]
  by_cases h1 : rds.rdclass ≠ cfg.rdclass
  · rw [if_pos h1, if_pos h1]; first | exact ⟨h, rfl⟩ | exact ⟨h, trivial⟩ | exact h
  rw [if_neg h1, if_neg h1]
  by_cases h2 : rds.rdtype = ConstsC10.soa ∧ (!soaNameOk cfg name) = true
  · rw [if_pos h2, if_pos h2]; first | exact ⟨h, rfl⟩ | exact ⟨h, trivial⟩ | exact h
  rw [if_neg h2, if_neg h2]
  by_cases h3 : extra = true
  · rw [if_pos h3, if_pos h3]; first | exact ⟨h, rfl⟩ | exact ⟨h, trivial⟩ | exact h
  rw [if_neg h3, if_neg h3]
  have hcls : rds.rdclass = cfg.rdclass := by simpa using h1
  cases replace with
  | true =>
    simp only [if_true, Bool.not_true, checkedPut, putRdataset]
    cases hv : validateName cfg name with
    | error e =>
      cases veto <;> simp <;> first | exact ⟨h, rfl⟩ | exact ⟨h, trivial⟩ | exact h
    | ok k =>
      cases veto with
      | true => simp; first | exact ⟨h, rfl⟩ | exact ⟨h, trivial⟩ | exact h
      | false =>
        simp
        first | exact ⟨put_refines cfg s t k rds h hcls, rfl⟩ | exact ⟨put_refines cfg s t k rds h hcls, trivial⟩ | exact put_refines cfg s t k rds h hcls
  | false =>
    simp only [Bool.not_false, getRdataset_eq, Bool.false_eq_true, if_false]
    cases hv : validateName cfg name with
    | error e => simp; first | exact ⟨h, rfl⟩ | exact ⟨h, trivial⟩ | exact h
    | ok k =>
      simp only [h.ver.1 k rds.rdtype rds.covers]
      cases hgq : t.ver.get (k, rds.rdtype, rds.covers) with
      | none =>
        simp only [checkedPut, putRdataset, hv]
        cases veto with
        | true => simp; first | exact ⟨h, rfl⟩ | exact ⟨h, trivial⟩ | exact h
        | false => simp; first | exact ⟨put_refines cfg s t k rds h hcls, rfl⟩ | exact ⟨put_refines cfg s t k rds h hcls, trivial⟩ | exact put_refines cfg s t k rds h hcls
      | some ex =>
        simp only [checkedPut, putRdataset, hv]
        cases veto with
        | true => simp; first | exact ⟨h, rfl⟩ | exact ⟨h, trivial⟩ | exact h
        | false =>
          simp
          have hex : ex.rdclass = cfg.rdclass := by
            have hq := h.ver.1 k rds.rdtype rds.covers
            rw [hgq, getM_eq_find] at hq
            exact (find_mem hq).2.1
          first | exact ⟨put_refines cfg s t k (ex.union rds) h ((union_hdr ex rds).1.trans hex), rfl⟩ | exact ⟨put_refines cfg s t k (ex.union rds) h ((union_hdr ex rds).1.trans hex), trivial⟩ | exact put_refines cfg s t k (ex.union rds) h ((union_hdr ex rds).1.trans hex)

/-! ### deletions -/

theorem deleteRdataset_good (cfg : Cfg) (hg : GoodCfg cfg) (v : Nodes) (name k : Name) (t c : Nat)
    (hv : validateName cfg name = .ok k) :
    deleteRdataset cfg v name t c = (delRdsM cfg.rdclass v k t c, none) := by
  unfold deleteRdataset delRdsM
  simp only [hv, hg.d09]
  by_cases hl : (((nodesGet v k).getD []).delete cfg.rdclass t c).length = 0 <;> simp [hl]

theorem checkedDeleteRdataset_refines (cfg : Cfg) (hg : GoodCfg cfg) (s : Txn) (t : STxn) (h : TSim cfg s t)
    (name k : Name) (ty c : Nat) (hv : validateName cfg name = .ok k) :
    checkedDeleteRdataset cfg s name ty c false =
        ({ s with ver := delRdsM cfg.rdclass s.ver k ty c, changed := true }, .ok .unit) ∧
      TSim cfg { s with ver := delRdsM cfg.rdclass s.ver k ty c, changed := true }
        { t with ver := t.ver.delRds k ty c, touched := true } := by
  constructor
  · unfold checkedDeleteRdataset
    simp [hv, deleteRdataset_good cfg hg s.ver name k ty c hv]
  · exact { zone := h.zone, ver := sim_delRds _ _ _ k ty c h.ver h.iver, izone := h.izone,
            iver := inv_delRds _ _ k ty c h.iver, ro := h.ro, ended := h.ended, changed := rfl }

theorem deleteAll_refines (cfg : Cfg) (s : Txn) (t : STxn) (h : TSim cfg s t) (exact : Bool) (name : Name) (veto : Bool) :
    let sp : STxn × Res :=
      match validateName cfg name with
      | .error e => if veto ∧ exact = false then (t, .error .veto) else (t, .error e)
      | .ok k =>
        if exact ∧ !t.ver.has k then (t, .error .deleteNotExact)
        else if veto then (t, .error .veto)
        else ({ t with ver := t.ver.delName k, touched := t.touched || t.ver.has k }, .ok .unit)
    TSim cfg (deleteAll cfg s exact name veto).1 sp.1 ∧ (deleteAll cfg s exact name veto).2 = sp.2 := by
  intro sp
  have key : ∀ k, validateName cfg name = .ok k →
      TSim cfg (checkedDeleteName cfg s name false).1
          { t with ver := t.ver.delName k, touched := t.touched || t.ver.has k } ∧
        (checkedDeleteName cfg s name false).2 = .ok .unit := by
    intro k hv
    unfold checkedDeleteName deleteNode
    simp only [hv, Bool.false_eq_true, if_false]
    by_cases hp : (nodesGet s.ver k).isSome = true
    · rw [if_pos hp]
      refine ⟨?_, rfl⟩
      exact { zone := h.zone, ver := sim_delName _ _ _ k h.ver, izone := h.izone, iver := h.iver.erase k,
              ro := h.ro, ended := h.ended, changed := by simp [← h.ver.2 k, hp, h.changed] }
    · rw [if_neg hp]
      have hnone : nodesGet s.ver k = none := by
        cases hq : nodesGet s.ver k with
        | none => rfl
        | some x => rw [hq] at hp; simp at hp
      have hc : ∀ k', nodesGet s.ver k' = nodesGet (nodesErase s.ver k) k' := by
        intro k'; rw [nodesGet_erase]
        by_cases hk : k' = k
        · subst hk; simp [hnone]
        · simp [hk]
      refine ⟨?_, rfl⟩
      exact { zone := h.zone, ver := Sim.congr hc (sim_delName _ _ _ k h.ver), izone := h.izone, iver := h.iver,
              ro := h.ro, ended := h.ended,
              changed := by simp [← h.ver.2 k, hnone, h.changed] }
  show TSim cfg (deleteAll cfg s exact name veto).1 sp.1 ∧ (deleteAll cfg s exact name veto).2 = sp.2
  simp only [sp]
  unfold deleteAll
  cases exact with
  | true =>
    simp only [if_true, getNode]
    cases hv : validateName cfg name with
    | error e => simp; first | exact ⟨h, rfl⟩ | exact ⟨h, trivial⟩ | exact h
    | ok k =>
      simp only
      have hh := h.ver.2 k
      cases hq : nodesGet s.ver k with
      | none =>
        rw [hq] at hh
        simp [← hh]; first | exact ⟨h, rfl⟩ | exact ⟨h, trivial⟩ | exact h
      | some nd =>
        rw [hq] at hh
        simp only [← hh]
        cases veto with
        | true => simp [checkedDeleteName]; first | exact ⟨h, rfl⟩ | exact ⟨h, trivial⟩ | exact h
        | false =>
          obtain ⟨h1, h2⟩ := key k hv
          rw [← hh] at h1
          simp only [Option.isSome_some, Bool.or_true] at h1
          simp
          exact ⟨h1, h2⟩
  | false =>
    simp only [Bool.false_eq_true, if_false]
    cases veto with
    | true =>
      simp only [checkedDeleteName, if_true]
      cases hv : validateName cfg name <;> simp <;> first | exact ⟨h, rfl⟩ | exact ⟨h, trivial⟩ | exact h
    | false =>
      cases hv : validateName cfg name with
      | error e =>
        simp [checkedDeleteName, deleteNode, hv]; first | exact ⟨h, rfl⟩ | exact ⟨h, trivial⟩ | exact h
      | ok k =>
        obtain ⟨h1, h2⟩ := key k hv
        simp
        exact ⟨h1, h2⟩

theorem deleteCore_refines (cfg : Cfg) (hg : GoodCfg cfg) (s : Txn) (t : STxn) (h : TSim cfg s t)
    (exact : Bool) (name : Name) (sel : Sel) (veto : Bool) :
    TSim cfg (deleteCore cfg s exact name sel veto).1 (sDelete cfg t name sel exact veto).1 ∧
      (deleteCore cfg s exact name sel veto).2 = (sDelete cfg t name sel exact veto).2 := by
  have hall := deleteAll_refines cfg s t h exact name veto
  cases sel with
  | all =>
    unfold deleteCore sDelete
    exact hall
  | type ty c =>
    unfold deleteCore sDelete
    simp only [getRdataset_eq]
    cases hv : validateName cfg name with
    | error e => first | exact ⟨h, rfl⟩ | exact ⟨h, trivial⟩ | exact h
    | ok k =>
      simp only [h.ver.1 k ty c]
      cases hgq : t.ver.get (k, ty, c) with
      | none => cases exact <;> first | exact ⟨h, rfl⟩ | exact ⟨h, trivial⟩ | exact h
      | some ex =>
        cases veto with
        | true => simp [checkedDeleteRdataset]; first | exact ⟨h, rfl⟩ | exact ⟨h, trivial⟩ | exact h
        | false =>
          obtain ⟨h1, h2⟩ := checkedDeleteRdataset_refines cfg hg s t h name k ty c hv
          simp only [h1, Bool.false_eq_true, if_false]
          first | exact ⟨h2, rfl⟩ | exact ⟨h2, trivial⟩ | exact h2
  | rds r =>
    unfold deleteCore sDelete
    dsimp only
    by_cases h0 : r.items.length = 0
    · rw [if_pos h0, if_pos h0]; exact hall
    rw [if_neg h0, if_neg h0]
    by_cases h1 : r.rdclass ≠ cfg.rdclass
    · rw [if_pos h1, if_pos h1]; first | exact ⟨h, rfl⟩ | exact ⟨h, trivial⟩ | exact h
    rw [if_neg h1, if_neg h1]
    simp only [getRdataset_eq]
    cases hv : validateName cfg name with
    | error e => first | exact ⟨h, rfl⟩ | exact ⟨h, trivial⟩ | exact h
    | ok k =>
      simp only [h.ver.1 k r.rdtype r.covers]
      cases hgq : t.ver.get (k, r.rdtype, r.covers) with
      | none => cases exact <;> first | exact ⟨h, rfl⟩ | exact ⟨h, trivial⟩ | exact h
      | some ex =>
        simp only
        by_cases h2 : exact = true ∧ (!(ex.intersection r).eq r) = true
        · rw [if_pos h2, if_pos h2]; first | exact ⟨h, rfl⟩ | exact ⟨h, trivial⟩ | exact h
        rw [if_neg h2, if_neg h2]
        have hex : ex.rdclass = cfg.rdclass := by
          have hq := h.ver.1 k r.rdtype r.covers
          rw [hgq, getM_eq_find] at hq
          exact (find_mem hq).2.1
        cases veto with
        | true =>
          simp only [if_true]
          by_cases h3 : (ex.difference r).items.length = 0
          · rw [if_pos h3]; simp [checkedDeleteRdataset]; first | exact ⟨h, rfl⟩ | exact ⟨h, trivial⟩ | exact h
          · rw [if_neg h3]; simp [checkedPut]; first | exact ⟨h, rfl⟩ | exact ⟨h, trivial⟩ | exact h
        | false =>
          simp only [Bool.false_eq_true, if_false]
          by_cases h3 : (ex.difference r).items.length = 0
          · rw [if_pos h3, if_pos h3]
            obtain ⟨e1, e2⟩ := checkedDeleteRdataset_refines cfg hg s t h name k (ex.difference r).rdtype (ex.difference r).covers hv
            rw [e1]; first | exact ⟨e2, rfl⟩ | exact ⟨e2, trivial⟩ | exact e2
          · rw [if_neg h3, if_neg h3]
            simp only [checkedPut, putRdataset, hv, Bool.false_eq_true, if_false]
            first | exact ⟨put_refines cfg s t k (ex.difference r) h hex, rfl⟩ | exact ⟨put_refines cfg s t k (ex.difference r) h hex, trivial⟩ | exact put_refines cfg s t k (ex.difference r) h hex

/-! ### ending -/

theorem end_refines (cfg : Cfg) (s : Txn) (t : STxn) (h : TSim cfg s t) (commit : Bool) :
    TSim cfg (endTxn s commit).1 (sEnd t commit).1 ∧ (endTxn s commit).2 = (sEnd t commit).2 := by
  unfold endTxn sEnd
  rw [← h.ended, ← h.ro]
  by_cases he : s.ended = true
  · rw [if_pos he, if_pos he]; exact ⟨h, rfl⟩
  rw [if_neg he, if_neg he]
  by_cases hr : s.readOnly = true
  · rw [if_pos hr, if_pos hr]
    exact ⟨{ zone := h.zone, ver := h.ver, izone := h.izone, iver := h.iver, ro := rfl, ended := rfl, changed := h.changed }, by first | rfl | trivial⟩
  rw [if_neg hr, if_neg hr]
  cases commit with
  | false =>
    simp only [Bool.false_eq_true, false_and, if_false]
    exact ⟨{ zone := h.zone, ver := h.ver, izone := h.izone, iver := h.iver, ro := rfl, ended := rfl, changed := h.changed }, by first | rfl | trivial⟩
  | true =>
    simp only [true_and, if_true]
    rw [← h.changed]
    by_cases hc : s.changed = true
    · rw [if_pos hc, if_pos hc]
      exact ⟨{ zone := h.ver, ver := h.ver, izone := h.iver, iver := h.iver, ro := rfl, ended := rfl, changed := rfl }, by first | rfl | trivial⟩
    · rw [if_neg hc, if_neg hc]
      exact ⟨{ zone := h.zone, ver := h.ver, izone := h.izone, iver := h.iver, ro := rfl, ended := rfl, changed := rfl }, by first | rfl | trivial⟩

/-! ### one call -/

theorem step_refines (cfg : Cfg) (hg : GoodCfg cfg) (s : Txn) (t : STxn) (h : TSim cfg s t) (op : Op) :
    TSim cfg (step cfg s op).1 (sStep cfg t (toSOp op)).1 ∧
      ResRel cfg.rdclass (step cfg s op).2 (sStep cfg t (toSOp op)).2 := by
  have lift : ∀ {a : Txn × Res} {b : STxn × Res}, (TSim cfg a.1 b.1 ∧ a.2 = b.2) →
      TSim cfg a.1 b.1 ∧ ResRel cfg.rdclass a.2 b.2 := fun h => ⟨h.1, ResRel.of_eq h.2⟩
  cases op with
  | commit => exact lift (end_refines cfg s t h true)
  | rollback => exact lift (end_refines cfg s t h false)
  | commitRaise =>
    simp only [step, toSOp, sStep, endTxnRaise, sEndRaise, ← h.ended, ← h.ro, ← h.changed]
    by_cases he : s.ended = true
    · rw [if_pos he, if_pos he]; exact ⟨h, ResRel.of_eq rfl⟩
    rw [if_neg he, if_neg he]
    by_cases hr : s.readOnly = true
    · rw [if_pos hr, if_pos hr]
      exact ⟨{ zone := h.zone, ver := h.ver, izone := h.izone, iver := h.iver, ro := rfl, ended := rfl, changed := rfl },
             ResRel.of_eq rfl⟩
    rw [if_neg hr, if_neg hr]
    by_cases hc : s.changed = true
    · rw [if_pos hc, if_pos hc]
      exact ⟨{ zone := h.zone, ver := h.ver, izone := h.izone, iver := h.iver, ro := rfl, ended := rfl, changed := rfl },
             ResRel.of_eq rfl⟩
    · rw [if_neg hc, if_neg hc]
      exact ⟨{ zone := h.zone, ver := h.ver, izone := h.izone, iver := h.iver, ro := rfl, ended := rfl, changed := rfl },
             ResRel.of_eq rfl⟩
  | add args veto =>
    unfold step toSOp
    cases hp : parseAddArgs args with
    | error e =>
      simp only [sStep, txnAdd, hp, ← h.ended, ← h.ro]
      by_cases he : s.ended = true
      · rw [if_pos he, if_pos he]; exact ⟨h, ResRel.of_eq rfl⟩
      rw [if_neg he, if_neg he]
      by_cases hr : s.readOnly = true
      · rw [if_pos hr, if_pos hr]; exact ⟨h, ResRel.of_eq rfl⟩
      rw [if_neg hr, if_neg hr]; exact ⟨h, ResRel.of_eq rfl⟩
    | ok x =>
      obtain ⟨n, r, extra⟩ := x
      simp only [sStep, txnAdd, hp, ← h.ended, ← h.ro]
      by_cases he : s.ended = true
      · rw [if_pos he, if_pos he]; exact ⟨h, ResRel.of_eq rfl⟩
      rw [if_neg he, if_neg he]
      by_cases hr : s.readOnly = true
      · rw [if_pos hr, if_pos hr]; exact ⟨h, ResRel.of_eq rfl⟩
      rw [if_neg hr, if_neg hr]
      exact lift <| addCore_refines cfg hg s t h false n r extra veto
  | replace args veto =>
    unfold step toSOp
    cases hp : parseAddArgs args with
    | error e =>
      simp only [sStep, txnAdd, hp, ← h.ended, ← h.ro]
      by_cases he : s.ended = true
      · rw [if_pos he, if_pos he]; exact ⟨h, ResRel.of_eq rfl⟩
      rw [if_neg he, if_neg he]
      by_cases hr : s.readOnly = true
      · rw [if_pos hr, if_pos hr]; exact ⟨h, ResRel.of_eq rfl⟩
      rw [if_neg hr, if_neg hr]; exact ⟨h, ResRel.of_eq rfl⟩
    | ok x =>
      obtain ⟨n, r, extra⟩ := x
      simp only [sStep, txnAdd, hp, ← h.ended, ← h.ro]
      by_cases he : s.ended = true
      · rw [if_pos he, if_pos he]; exact ⟨h, ResRel.of_eq rfl⟩
      rw [if_neg he, if_neg he]
      by_cases hr : s.readOnly = true
      · rw [if_pos hr, if_pos hr]; exact ⟨h, ResRel.of_eq rfl⟩
      rw [if_neg hr, if_neg hr]
      exact lift <| addCore_refines cfg hg s t h true n r extra veto
  | delete args veto =>
    unfold step toSOp
    cases hp : parseDeleteArgs args with
    | error e =>
      simp only [sStep, txnDelete, hp, ← h.ended, ← h.ro]
      by_cases he : s.ended = true
      · rw [if_pos he, if_pos he]; exact ⟨h, ResRel.of_eq rfl⟩
      rw [if_neg he, if_neg he]
      by_cases hr : s.readOnly = true
      · rw [if_pos hr, if_pos hr]; exact ⟨h, ResRel.of_eq rfl⟩
      rw [if_neg hr, if_neg hr]; exact ⟨h, ResRel.of_eq rfl⟩
    | ok x =>
      obtain ⟨n, sel⟩ := x
      simp only [sStep, txnDelete, hp, ← h.ended, ← h.ro]
      by_cases he : s.ended = true
      · rw [if_pos he, if_pos he]; exact ⟨h, ResRel.of_eq rfl⟩
      rw [if_neg he, if_neg he]
      by_cases hr : s.readOnly = true
      · rw [if_pos hr, if_pos hr]; exact ⟨h, ResRel.of_eq rfl⟩
      rw [if_neg hr, if_neg hr]
      exact lift <| deleteCore_refines cfg hg s t h false n sel veto
  | deleteExact args veto =>
    unfold step toSOp
    cases hp : parseDeleteArgs args with
    | error e =>
      simp only [sStep, txnDelete, hp, ← h.ended, ← h.ro]
      by_cases he : s.ended = true
      · rw [if_pos he, if_pos he]; exact ⟨h, ResRel.of_eq rfl⟩
      rw [if_neg he, if_neg he]
      by_cases hr : s.readOnly = true
      · rw [if_pos hr, if_pos hr]; exact ⟨h, ResRel.of_eq rfl⟩
      rw [if_neg hr, if_neg hr]; exact ⟨h, ResRel.of_eq rfl⟩
    | ok x =>
      obtain ⟨n, sel⟩ := x
      simp only [sStep, txnDelete, hp, ← h.ended, ← h.ro]
      by_cases he : s.ended = true
      · rw [if_pos he, if_pos he]; exact ⟨h, ResRel.of_eq rfl⟩
      rw [if_neg he, if_neg he]
      by_cases hr : s.readOnly = true
      · rw [if_pos hr, if_pos hr]; exact ⟨h, ResRel.of_eq rfl⟩
      rw [if_neg hr, if_neg hr]
      exact lift <| deleteCore_refines cfg hg s t h true n sel veto
  | updateSerial value relative name veto =>
    unfold step toSOp
    simp only [sStep, ← h.ended, ← h.ro]
    by_cases he : s.ended = true
    · rw [if_pos he, if_pos he]; exact ⟨h, ResRel.of_eq rfl⟩
    rw [if_neg he, if_neg he]
    unfold txnUpdateSerial
    by_cases hneg : value < 0
    · rw [if_pos hneg, if_pos hneg]; exact ⟨h, ResRel.of_eq rfl⟩
    rw [if_neg hneg, if_neg hneg]
    simp only [getRdataset_eq]
    cases hv : validateName cfg name with
    | error e => exact ⟨h, ResRel.of_eq rfl⟩
    | ok k =>
      simp only [h.ver.1 k ConstsC10.soa 0]
      cases hgq : t.ver.get (k, ConstsC10.soa, 0) with
      | none => exact ⟨h, ResRel.of_eq rfl⟩
      | some rds =>
        simp only
        cases hit : rds.items with
        | nil => exact ⟨h, ResRel.of_eq rfl⟩
        | cons rd0 rest =>
          simp only
          cases hns : newSerial rd0.val value relative with
          | error e => exact ⟨h, ResRel.of_eq rfl⟩
          | ok serial =>
            simp only
            by_cases hr : s.readOnly = true
            · rw [if_pos hr, if_pos hr]; exact ⟨h, ResRel.of_eq rfl⟩
            rw [if_neg hr, if_neg hr]
            have hparse : parseAddArgs [.name name, .rds (Rdataset.fromRdata rds.ttl { rd0 with val := serial })] =
                .ok (name, Rdataset.fromRdata rds.ttl { rd0 with val := serial }, false) := by
              simp [parseAddArgs, rdsFromArgs]
            unfold txnAdd
            rw [hparse]
            exact lift <| addCore_refines cfg hg s t h true name _ false veto
  | get name ty c =>
    unfold step toSOp
    simp only [sStep, ← h.ended, getRdataset_eq]
    by_cases he : s.ended = true
    · rw [if_pos he, if_pos he]; exact ⟨h, ResRel.of_eq rfl⟩
    rw [if_neg he, if_neg he]
    cases hv : validateName cfg name with
    | error e => exact ⟨h, ResRel.of_eq rfl⟩
    | ok k => simp only [h.ver.1 k ty c]; exact ⟨h, ResRel.of_eq rfl⟩
  | nameExists name =>
    unfold step toSOp
    simp only [sStep, ← h.ended, getNode]
    by_cases he : s.ended = true
    · rw [if_pos he, if_pos he]; exact ⟨h, ResRel.of_eq rfl⟩
    rw [if_neg he, if_neg he]
    cases hv : validateName cfg name with
    | error e => exact ⟨h, ResRel.of_eq rfl⟩
    | ok k => simp only [h.ver.2 k]; exact ⟨h, ResRel.of_eq rfl⟩
  | changed =>
    unfold step toSOp
    simp only [sStep, ← h.ended, ← h.ro, ← h.changed]
    by_cases he : s.ended = true
    · rw [if_pos he, if_pos he]; exact ⟨h, ResRel.of_eq rfl⟩
    rw [if_neg he, if_neg he]; exact ⟨h, ResRel.of_eq rfl⟩
  | dump =>
    unfold step toSOp
    simp only [sStep, ← h.ended]
    by_cases he : s.ended = true
    · rw [if_pos he, if_pos he]; exact ⟨h, ResRel.of_eq rfl⟩
    rw [if_neg he, if_neg he]; exact ⟨h, Or.inr h.ver⟩
  | getNode name =>
    unfold step toSOp
    simp only [sStep, ← h.ended, hg.gn, Bool.not_false, Bool.and_true, decide_eq_true_eq, and_true]
    by_cases he : s.ended = true
    · rw [if_pos he, if_pos he]; exact ⟨h, ResRel.of_eq rfl⟩
    rw [if_neg he, if_neg he]
    cases hv : validateName cfg name with
    | error e => exact ⟨h, ResRel.of_eq rfl⟩
    | ok k =>
      refine ⟨h, Or.inr ⟨rfl, ?_⟩⟩
      have hh := h.ver.2 k
      cases hq : nodesGet s.ver k with
      | none =>
        rw [hq] at hh
        simp [← hh, NodeRel]
      | some nd =>
        rw [hq] at hh
        simp only [← hh, Option.isSome_some, if_true, NodeRel]
        intro ty c
        have this : nd.find cfg.rdclass ty c = t.ver.get (k, ty, c) := by
          simpa [getM, hq] using h.ver.1 k ty c
        rw [this]
        unfold SZone.atName
        rw [sget_filter t.ver (fun key => decide (key.1 = k)) (k, ty, c)]
        simp

/-- `get` and `name_exists` answer exactly as the reference model does -/
theorem reads_refine (cfg : Cfg) (s : Txn) (t : STxn) (h : TSim cfg s t) (n : Name) (ty c : Nat) :
    (step cfg s (.get n ty c)).2 = (sStep cfg t (.get n ty c)).2 ∧
      (step cfg s (.nameExists n)).2 = (sStep cfg t (.nameExists n)).2 := by
  constructor
  · simp only [step, sStep, ← h.ended, getRdataset_eq]
    by_cases he : s.ended = true
    · rw [if_pos he, if_pos he]
    rw [if_neg he, if_neg he]
    cases hv : validateName cfg n with
    | error e => rfl
    | ok k => simp only [h.ver.1 k ty c]
  · simp only [step, sStep, ← h.ended, getNode]
    by_cases he : s.ended = true
    · rw [if_pos he, if_pos he]
    rw [if_neg he, if_neg he]
    cases hv : validateName cfg n with
    | error e => rfl
    | ok k => simp only [h.ver.2 k]

/-! ### histories -/

theorem run_refines (cfg : Cfg) (hg : GoodCfg cfg) (ops : List Op) (s : Txn) (t : STxn) (h : TSim cfg s t) :
    TSim cfg (run cfg s ops).1 (sRun cfg t (ops.map toSOp)).1 ∧
      AllRel (ResRel cfg.rdclass) (run cfg s ops).2 (sRun cfg t (ops.map toSOp)).2 := by
  induction ops generalizing s t with
  | nil => exact ⟨h, trivial⟩
  | cons op rest ih =>
    obtain ⟨h1, h2⟩ := step_refines cfg hg s t h op
    obtain ⟨h3, h4⟩ := ih (step cfg s op).1 (sStep cfg t (toSOp op)).1 h1
    simp only [run, sRun, List.map_cons]
    exact ⟨h3, h2, h4⟩

theorem exit_refines (cfg : Cfg) (s : Txn) (t : STxn) (h : TSim cfg s t) (exc : Bool) :
    TSim cfg (exitTxn s exc) (sExit t exc) := by
  unfold exitTxn sExit
  rw [← h.ended]
  by_cases he : s.ended = true
  · rw [if_pos he, if_pos he]; exact h
  · rw [if_neg he, if_neg he]; exact (end_refines cfg s t h (!exc)).1

end Model.ZT

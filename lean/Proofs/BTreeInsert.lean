import Proofs.BTreeRebalance
/-!
Layer L2 (and L4): `insert_nonfull` with pre-emptive split/adopt, the re-search loop and
`optimize_in_order_insertion` refine insertion into a sorted association list and preserve the shape
invariant, for every `t ≥ 2`, in-order optimisation on or off.
-/
namespace Model.BTree

/-! ## list operations at an index given by a length hypothesis -/

theorem kidAt_at {l r : List Node} {x : Node} {n : Nat} (h : l.length = n) : kidAt (l ++ x :: r) n = x := by
  subst h; exact kidAt_append_cons _ _ _
theorem kidAt_at_succ {l r : List Node} {x y : Node} {n : Nat} (h : l.length = n) :
    kidAt (l ++ x :: y :: r) (n + 1) = y := by
  subst h; exact kidAt_append_cons_succ _ _ _ _
theorem eltAt_at {l r : List Elt} {x : Elt} {n : Nat} (h : l.length = n) : eltAt (l ++ x :: r) n = x := by
  subst h; exact eltAt_append_cons _ _ _
theorem setAt_at {α} {l r : List α} {x y : α} {n : Nat} (h : l.length = n) :
    setAt (l ++ x :: r) n y = l ++ y :: r := by
  subst h; exact setAt_append_cons _ _ _ _
theorem setAt_at_succ {α} {l r : List α} {x y z : α} {n : Nat} (h : l.length = n) :
    setAt (l ++ x :: y :: r) (n + 1) z = l ++ x :: z :: r := by
  subst h; exact setAt_append_cons_succ _ _ _ _ _
theorem popAt_at {α} {l r : List α} {x : α} {n : Nat} (h : l.length = n) : popAt (l ++ x :: r) n = l ++ r := by
  subst h; exact popAt_append_cons _ _ _
theorem popAt_at_succ {α} {l r : List α} {x y : α} {n : Nat} (h : l.length = n) :
    popAt (l ++ x :: y :: r) (n + 1) = l ++ x :: r := by
  subst h; exact popAt_append_cons_succ _ _ _ _
theorem insAt_at {α} {l r : List α} {x : α} {n : Nat} (h : l.length = n) : insAt (l ++ r) n x = l ++ x :: r := by
  subst h; exact insAt_append _ _ _
theorem insAt_at_succ {α} {l r : List α} {x y : α} {n : Nat} (h : l.length = n) :
    insAt (l ++ x :: r) (n + 1) y = l ++ x :: y :: r := by
  subst h; exact insAt_append_cons_succ _ _ _ _

/-! ## sorted-list facts for insertion -/

theorem insSorted_found {A B : List Elt} {e e0 : Elt} (hA : ∀ x ∈ A, x.1 < e.1) (h0 : e0.1 = e.1) :
    insSorted e (A ++ e0 :: B) = A ++ e :: B := by
  rw [insSorted_append_left hA]
  simp [insSorted, h0]

theorem insSorted_gap {A B : List Elt} {e : Elt} (hA : ∀ x ∈ A, x.1 < e.1) (hB : ∀ x ∈ B, e.1 < x.1) :
    insSorted e (A ++ B) = A ++ e :: B := by
  have := insSorted_window hA hB []
  simpa [insSorted] using this

theorem mem_insSorted {e x : Elt} {l : List Elt} (h : x ∈ insSorted e l) : x = e ∨ x ∈ l := by
  induction l with
  | nil => simp [insSorted] at h; exact Or.inl h
  | cons a l ih =>
    simp only [insSorted] at h
    split at h
    · rcases List.mem_cons.mp h with rfl | h
      · exact Or.inl rfl
      · exact Or.inr h
    · split at h
      · rcases List.mem_cons.mp h with rfl | h
        · exact Or.inl rfl
        · exact Or.inr (by simp [h])
      · rcases List.mem_cons.mp h with rfl | h
        · exact Or.inr (by simp)
        · rcases ih h with h | h
          · exact Or.inl h
          · exact Or.inr (by simp [h])

theorem insSorted_sorted {e : Elt} {l : List Elt} (hs : Sorted l) : Sorted (insSorted e l) := by
  induction l with
  | nil => simp [insSorted]
  | cons a l ih =>
    have ⟨h1, h2⟩ := sorted_cons_iff.mp hs
    simp only [insSorted]
    split
    · rename_i hlt
      refine sorted_cons_iff.mpr ⟨?_, hs⟩
      intro b hb
      rcases List.mem_cons.mp hb with rfl | hb
      · exact hlt
      · have := h1 b hb; omega
    · split
      · rename_i heq
        refine sorted_cons_iff.mpr ⟨?_, h2⟩
        intro b hb
        have := h1 b hb; omega
      · rename_i hnlt hne
        refine sorted_cons_iff.mpr ⟨?_, ih h2⟩
        intro b hb
        rcases mem_insSorted hb with rfl | hb
        · omega
        · exact h1 b hb

theorem lookup_none_of_gap {A B : List Elt} {k : Nat} (hA : ∀ x ∈ A, x.1 < k) (hB : ∀ x ∈ B, k < x.1) :
    lookup (A ++ B) k = none := by
  apply lookup_eq_none
  intro x hx
  rcases List.mem_append.mp hx with hx | hx
  · have := hA x hx; omega
  · have := hB x hx; omega

theorem length_insSorted {e : Elt} {l : List Elt} (hs : Sorted l) :
    (insSorted e l).length = if (lookup l e.1).isNone then l.length + 1 else l.length := by
  induction l with
  | nil => simp [insSorted, lookup]
  | cons a l ih =>
    have ⟨h1, h2⟩ := sorted_cons_iff.mp hs
    simp only [insSorted, lookup]
    split
    · rename_i hlt
      have hne : ¬ a.1 = e.1 := by omega
      have : lookup l e.1 = none := lookup_eq_none (fun x hx => by have := h1 x hx; omega)
      simp [hne, this]
    · split
      · rename_i heq
        simp [heq.symm]
      · rename_i hnlt hne
        have hne' : ¬ a.1 = e.1 := fun h => hne h.symm
        simp only [hne', if_false, List.length_cons, ih h2]
        split <;> rfl

/-! ## `try_right_steal` and `optimize_in_order_insertion` -/

theorem tryRightSteal_eq (t : Nat) (el er : List Elt) (p : Elt) (cl : List Node) (s r : Node) (cr : List Node)
    (h : cl.length = el.length) :
    tryRightSteal t (el ++ p :: er) (cl ++ s :: r :: cr) el.length =
      if isMinimal t r then none
      else some (el ++ (stealFromRight s r p).2.1 :: er,
                 cl ++ (stealFromRight s r p).1 :: (stealFromRight s r p).2.2 :: cr) := by
  have hlt : el.length + 1 < (cl ++ s :: r :: cr).length := by simp; omega
  simp only [tryRightSteal, hlt, if_true, kidAt_at_succ h, kidAt_at h, eltAt_at rfl, setAt_at rfl, setAt_at h]
  cases isMinimal t r
  · simp [setAt_at_succ h]
  · simp

theorem tryRightSteal_none_of_short (t : Nat) (es : List Elt) (cs : List Node) (idx : Nat)
    (h : ¬ idx + 1 < cs.length) : tryRightSteal t es cs idx = none := by
  simp [tryRightSteal, h]

/-- a successful right steal keeps the parent's shape and flattening -/
theorem tryRightSteal_preserves {t h : Nat} {es es' : List Elt} {cs cs' : List Node} {li : Nat}
    (hk : Kids t h es cs) (hleft : (kidAt cs li).elts.length < maxKeys t)
    (hst : tryRightSteal t es cs li = some (es', cs')) :
    Kids t h es' cs' ∧ es'.length = es.length ∧ flat (.node es' cs') = flat (.node es cs) ∧
      (kidAt cs' li).elts.length = (kidAt cs li).elts.length + 1 := by
  by_cases hlt : li + 1 < cs.length
  · obtain ⟨cl, s, rest, rfl, hcl⟩ := split_at_lt cs li (by omega)
    cases rest with
    | nil => simp at hlt; omega
    | cons r cr =>
      have hlen := hk.1
      obtain ⟨el, p, er, rfl, hel⟩ := split_at_lt es li (by simp at hlen; omega)
      have hcl' : cl.length = el.length := by omega
      subst hel
      rw [tryRightSteal_eq t el er p cl s r cr hcl'] at hst
      cases hmin : isMinimal t r with
      | true => simp [hmin] at hst
      | false =>
        simp only [hmin, Bool.false_eq_true, if_false, Option.some.injEq, Prod.mk.injEq] at hst
        obtain ⟨rfl, rfl⟩ := hst
        have hs := hk.2 s (by simp)
        have hr := hk.2 r (by simp)
        rw [kidAt_at hcl'] at hleft
        have hrmin : r.elts.length ≠ minKeys t := by simpa [isMinimal] using hmin
        have hrpos : 0 < r.elts.length := by have := hr.2.1; omega
        obtain ⟨h1, h2, h3, h4, h5⟩ := stealFromRight_spec p hs.1 hr.1 hrpos
        refine ⟨kids_replace2 hk ⟨h1, ?_⟩ ⟨h2, ?_⟩, by simp, ?_, ?_⟩
        · have := hs.2; simp only [Occ] at this ⊢; omega
        · have := hr.2; simp only [Occ] at this ⊢; omega
        · rw [flat_node_split2 _ _ _ _ _ _ _ hcl', flat_node_split2 _ _ _ _ _ _ _ hcl', h5]
        · rw [kidAt_at hcl', kidAt_at hcl', h3]
  · rw [tryRightSteal_none_of_short t es cs li hlt] at hst
    simp at hst

theorem optLoop_spec {t h : Nat} (li : Nat) : ∀ (k : Nat) (es : List Elt) (cs : List Node), Kids t h es cs →
    Kids t h (optLoop t k es cs li).1 (optLoop t k es cs li).2 ∧
    (optLoop t k es cs li).1.length = es.length ∧
    flat (.node (optLoop t k es cs li).1 (optLoop t k es cs li).2) = flat (.node es cs) := by
  intro k
  induction k with
  | zero => intro es cs hk; simp [optLoop, hk]
  | succ k ih =>
    intro es cs hk
    unfold optLoop
    by_cases hl : (kidAt cs li).elts.length < maxKeys t
    · simp only [hl, if_true]
      cases hst : tryRightSteal t es cs li with
      | none => simp [hk]
      | some r =>
        obtain ⟨es', cs'⟩ := r
        obtain ⟨hk', hlen', hflat', _⟩ := tryRightSteal_preserves hk hl hst
        obtain ⟨a, b, c⟩ := ih es' cs' hk'
        exact ⟨a, by simp only []; omega, by simp only []; rw [c, hflat']⟩
    · simp [hl, hk]

theorem optimize_spec {t h : Nat} (es : List Elt) (cs : List Node) (i : Nat) (hk : Kids t h es cs) :
    Kids t h (optimizeInOrder t es cs i).1 (optimizeInOrder t es cs i).2 ∧
    (optimizeInOrder t es cs i).1.length = es.length ∧
    flat (.node (optimizeInOrder t es cs i).1 (optimizeInOrder t es cs i).2) = flat (.node es cs) := by
  unfold optimizeInOrder
  by_cases h0 : i = 0
  · simp [h0, hk]
  · simp only [h0, if_false]
    by_cases h1 : (kidAt cs (i - 1)).elts.length = maxKeys t
    · simp [h1, hk]
    · simp only [h1, if_false]
      exact optLoop_spec (i - 1) _ es cs hk

/-! ## the specification of one insertion into a subtree -/

structure InsSpec (t h : Nat) (n : Node) (e : Elt) (r : Node × Option Elt) : Prop where
  shape : Shape t h r.1
  flat_eq : flat r.1 = insSorted e (flat n)
  ret : r.2 = lookup (flat n) e.1
  len_lo : n.elts.length ≤ r.1.elts.length
  len_hi : r.1.elts.length ≤ n.elts.length + 1

theorem ins_leaf_spec (t : Nat) (io : Bool) (f : Nat) (es : List Elt) (e : Elt) (hs : Sorted es) :
    InsSpec t 0 (.leaf es) e (insertNonfull t io f (.leaf es) e) := by
  unfold insertNonfull
  rcases search_cases e.1 hs with ⟨el, er, rfl, hl, hr, hres⟩ | ⟨el, e0, er, rfl, h0, hl, hr, hres⟩
  · simp only [hres, Bool.false_eq_true, if_false, insAt_at rfl]
    exact ⟨by simp, by simp [insSorted_gap hl hr], by simp [lookup_none_of_gap hl hr], by simp [Node.elts],
      by simp [Node.elts] <;> omega⟩
  · simp only [hres, if_true, setAt_at rfl, eltAt_at rfl]
    refine ⟨by simp, by simp [insSorted_found hl h0], ?_, by simp [Node.elts], by simp [Node.elts]⟩
    simp only [flat_leaf]
    rw [← h0, lookup_found (by intro x hx; have := hl x hx; omega)]

/-- the element is found in this internal node: replace it -/
theorem ins_found_spec {t h : Nat} {el er : List Elt} {e e0 : Elt} {cs : List Node}
    (hk : Kids t h (el ++ e0 :: er) cs) (hs : Sorted (flat (.node (el ++ e0 :: er) cs))) (h0 : e0.1 = e.1) :
    InsSpec t (h + 1) (.node (el ++ e0 :: er) cs) e (.node (el ++ e :: er) cs, some e0) := by
  obtain ⟨cl, c, cr, rfl, hcl, hcr⟩ := kids_split (el := el) (er := e0 :: er) hk.1
  cases cr with
  | nil => simp at hcr
  | cons c' cr' =>
    rw [flat_node_split el (e0 :: er) cl c (c' :: cr') hcl, RF_cons] at hs
    have hlt := (sorted_append_iff.mp hs).2.2
    have hA : ∀ x ∈ LF cl el ++ flat c, x.1 < e.1 := fun x hx => by
      have := hlt x hx e0 (by simp); omega
    refine ⟨?_, ?_, ?_, by simp [Node.elts], by simp [Node.elts]⟩
    · exact shape_node_iff.mpr ⟨by simpa using hk.1, hk.2⟩
    · show flat (.node (el ++ e :: er) (cl ++ c :: c' :: cr')) = _
      rw [flat_node_split el (e :: er) cl c (c' :: cr') hcl, RF_cons,
        flat_node_split el (e0 :: er) cl c (c' :: cr') hcl, RF_cons, insSorted_found hA h0]
    · show some e0 = _
      rw [flat_node_split el (e0 :: er) cl c (c' :: cr') hcl, RF_cons, ← h0,
        lookup_found (by intro x hx; have := hA x hx; omega)]

/-- descending into the child at the search index -/
theorem ins_descend_spec {t h : Nat} {el er : List Elt} {cl cr : List Node} {c c' : Node} {e : Elt}
    {old : Option Elt} (hk : Kids t h (el ++ er) (cl ++ c :: cr)) (hcl : cl.length = el.length)
    (hs : Sorted (flat (.node (el ++ er) (cl ++ c :: cr))))
    (hl : ∀ x ∈ el, x.1 < e.1) (hr : ∀ x ∈ er, e.1 < x.1)
    (hc : InsSpec t h c e (c', old)) (hnm : c.elts.length < maxKeys t) :
    InsSpec t (h + 1) (.node (el ++ er) (cl ++ c :: cr)) e (.node (el ++ er) (cl ++ c' :: cr), old) := by
  have hcr : cr.length = er.length := by have := hk.1; simp at this; omega
  rw [flat_node_split el er cl c cr hcl] at hs
  have ⟨hs1, hsR, _⟩ := sorted_append_iff.mp hs
  have ⟨hsL, hsc, _⟩ := sorted_append_iff.mp hs1
  have hA := LF_lt hcl hsL hl
  have hB := RF_gt hcr hsR hr
  have hocc := (hk.2 c (by simp)).2
  refine ⟨?_, ?_, ?_, by simp [Node.elts], by simp [Node.elts]⟩
  · refine shape_node_iff.mpr (kids_replace1 hk ⟨hc.shape, ?_⟩)
    have h1 : c.elts.length ≤ c'.elts.length := hc.len_lo
    have h2 : c'.elts.length ≤ c.elts.length + 1 := hc.len_hi
    simp only [Occ] at hocc ⊢; omega
  · show flat (.node (el ++ er) (cl ++ c' :: cr)) = _
    have hfl : flat c' = insSorted e (flat c) := hc.flat_eq
    rw [flat_node_split el er cl c' cr hcl, flat_node_split el er cl c cr hcl, hfl,
      insSorted_window hA hB]
  · show old = _
    have hret : old = lookup (flat c) e.1 := hc.ret
    rw [flat_node_split el er cl c cr hcl, lookup_window hA hB, hret]

end Model.BTree

import Model.RdataSchema
import Model.RdataIrregular
import Model.RdataTable
import Proofs.RdataBytes
import Proofs.RdataCodec
import Proofs.RdataSound
/-! LOC (C02): the object-level view `locPost` / `locPre` — sizes `base·10^exp`, coordinates as
(degrees, minutes, seconds, milliseconds, hemisphere) — re-encodes to a raw record with the same object-level view. -/
namespace Model

set_option maxRecDepth 1000000 in
/-- every valid size octet decodes to a value whose re-encoding is a valid size octet decoding to the same value -/
theorem locSize_fix : ∀ b, b < 256 → locSizeOk b = true →
    (locSizeOk (locEncodeSize (locDecodeSize b)) && decide (locEncodeSize (locDecodeSize b) < 256) &&
      locDecodeSize (locEncodeSize (locDecodeSize b)) == locDecodeSize b) = true := by
  decide

theorem locCoord_wire (w : Nat) (h : w < 2 ^ 32) : locCoordWire (locCoord w) = w := by
  unfold locCoord locCoordWire
  by_cases hp : w ≥ 2147483648
  · simp [locCoord.seqV, Val.fst, Val.snd, Val.toNat, hp]
    omega
  · simp [locCoord.seqV, Val.fst, Val.snd, Val.toNat, hp]
    omega

theorem valid_uint {np : Bool → Name → Bool} {k : Nat} {o : Option Name} {r : Val}
    (h : validWith np (.uint k) o r = true) : ∃ n, r = .nat n ∧ n < 256 ^ k := by
  cases r <;> simp [validWith] at h
  exact ⟨_, rfl, h⟩

theorem valid_pair_uint {np : Bool → Name → Bool} {k : Nat} {s : Schema} {o : Option Name} {r : Val}
    (h : validWith np (.pair (.uint k) s) o r = true) :
    ∃ n r', r = .pair (.nat n) r' ∧ n < 256 ^ k ∧ validWith np s o r' = true := by
  cases r <;> simp [validWith] at h
  rename_i a b
  obtain ⟨n, rfl, hn⟩ := valid_uint h.1
  exact ⟨n, b, rfl, hn, h.2⟩

theorem loc_shape (o : Option Name) (r : Val) (h : valid locSchema o r = true) :
    ∃ ver sz hp vp lat lon alt,
      r = seqV [.nat ver, .nat sz, .nat hp, .nat vp, .nat lat, .nat lon, .nat alt] ∧
      ver < 256 ∧ sz < 256 ∧ hp < 256 ∧ vp < 256 ∧ lat < 2 ^ 32 ∧ lon < 2 ^ 32 ∧ alt < 2 ^ 32 ∧
      locRawOk r = true := by
  simp only [locSchema, valid, validWith, Schema.seq, Bool.and_eq_true] at h
  obtain ⟨hs, hr⟩ := h
  obtain ⟨ver, r1, rfl, h1, hs⟩ := valid_pair_uint hs
  obtain ⟨sz, r2, rfl, h2, hs⟩ := valid_pair_uint hs
  obtain ⟨hp, r3, rfl, h3, hs⟩ := valid_pair_uint hs
  obtain ⟨vp, r4, rfl, h4, hs⟩ := valid_pair_uint hs
  obtain ⟨lat, r5, rfl, h5, hs⟩ := valid_pair_uint hs
  obtain ⟨lon, r6, rfl, h6, hs⟩ := valid_pair_uint hs
  obtain ⟨alt, rfl, h7⟩ := valid_uint hs
  exact ⟨ver, sz, hp, vp, lat, lon, alt, rfl, by simpa using h1, by simpa using h2, by simpa using h3,
    by simpa using h4, by simpa using h5, by simpa using h6, by simpa using h7, hr⟩

/-- the raw record rebuilt from the object-level view of a valid raw record is valid and has the same view -/
theorem loc_pre_post (o : Option Name) (r v : Val) (h : valid locSchema o r = true) (hv : locPost r = some v) :
    valid locSchema o (locPre v) = true ∧ locPost (locPre v) = some v := by
  obtain ⟨ver, sz, hp, vp, lat, lon, alt, rfl, h1, h2, h3, h4, h5, h6, h7, hr⟩ := loc_shape o r h
  simp only [locPost, locCoord.seqV, seqV, Val.fst, Val.snd, Val.toNat, Option.some.injEq] at hv
  subst hv
  simp only [locRawOk, locCoord.seqV, seqV, Val.fst, Val.snd, Val.toNat, Bool.and_eq_true] at hr
  obtain ⟨⟨⟨⟨⟨⟨⟨hver, hla1⟩, hla2⟩, hlo1⟩, hlo2⟩, hs1⟩, hs2⟩, hs3⟩ := hr
  have f1 := locSize_fix sz h2 hs1
  have f2 := locSize_fix hp h3 hs2
  have f3 := locSize_fix vp h4 hs3
  simp only [Bool.and_eq_true, decide_eq_true_eq, beq_iff_eq] at f1 f2 f3
  have c1 := locCoord_wire lat h5
  have c2 := locCoord_wire lon h6
  constructor
  · simp only [locPre, locSchema, valid, validWith, Schema.seq, locCoord.seqV, seqV, Val.fst, Val.snd, Val.toNat,
      locRawOk, c1, c2, Bool.and_eq_true, decide_eq_true_eq]
    refine ⟨⟨by omega, by omega, by omega, by omega, by omega, by omega, by omega⟩, ?_⟩
    exact ⟨⟨⟨⟨⟨⟨⟨trivial, hla1⟩, hla2⟩, hlo1⟩, hlo2⟩, f1.1.1⟩, f2.1.1⟩, f3.1.1⟩
  · simp only [locPre, locPost, locCoord.seqV, seqV, Val.fst, Val.snd, Val.toNat, c1, c2, f1.2, f2.2, f3.2]

end Model

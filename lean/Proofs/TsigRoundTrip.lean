import Model.Tsig
import Proofs.TsigCodec
/-! What the model's `to_wire` signs, the model's reader accepts: the walk over the body replayed inside the
signed message, the TSIG RR decoded back, `validate` accepting (`sign_then_validate`). -/
namespace Model.Tsig
open Model Model.NameOrder Rfc8945

/-! ### bodies the skeleton reader walks through without meeting a TSIG record -/

def skipRRnt (w : Bytes) (cur : Nat) : Option Nat :=
  match skipName w w.length (w.length + 1) cur with
  | none => none
  | some p =>
    if p + 10 > w.length then none
    else if rd16 w p = ConstsC14.typeTsig then none
    else if p + 10 + rd16 w (p + 8) > w.length then none
    else some (p + 10 + rd16 w (p + 8))

def skipRRsNT (w : Bytes) : Nat → Nat → Option Nat
  | 0, cur => some cur
  | n + 1, cur =>
    match skipRRnt w cur with
    | none => none
    | some q => skipRRsNT w n q

theorem skipRRnt_bounds (w : Bytes) (cur q : Nat) (h : skipRRnt w cur = some q) : cur < q ∧ q ≤ w.length := by
  unfold skipRRnt at h
  split at h
  · cases h
  · rename_i p hp
    have := skipName_bounds _ _ _ _ _ hp
    split at h
    · cases h
    · split at h
      · cases h
      · split at h
        · cases h
        · cases h; omega

theorem skipRRnt_transfer (w w' : Bytes) (cur q : Nat) (h : skipRRnt w cur = some q) (hl : q ≤ w'.length)
    (hag : ∀ i, cur ≤ i → i < q → w'.getD i 0 = w.getD i 0) : skipRRnt w' cur = some q := by
  unfold skipRRnt at h ⊢
  split at h
  · cases h
  · rename_i p hp
    have hb := skipName_bounds _ _ _ _ _ hp
    split at h
    · cases h
    · split at h
      · cases h
      · rename_i hty
        split at h
        · cases h
        · cases h
          have hn : skipName w' w'.length (w'.length + 1) cur = some p :=
            skipName_transfer w w' _ _ _ _ cur p hp (by omega) (fun i h1 h2 => hag i h1 (by omega)) (by omega)
          have hr : rd16 w' (p + 8) = rd16 w (p + 8) := rd16_agree w w' _ (hag _ (by omega) (by omega)) (hag _ (by omega) (by omega))
          have ht : rd16 w' p = rd16 w p := rd16_agree w w' _ (hag _ (by omega) (by omega)) (hag _ (by omega) (by omega))
          rw [hn]
          simp only [hr, ht, hty, if_false]
          have a : ¬ p + 10 > w'.length := by omega
          have b : ¬ p + 10 + rd16 w (p + 8) > w'.length := by omega
          simp [a, b]

theorem skipRRsNT_bounds (w : Bytes) : ∀ (n cur q : Nat), skipRRsNT w n cur = some q → cur ≤ q ∧ (q = cur ∨ q ≤ w.length) := by
  intro n
  induction n with
  | zero => intro cur q h; simp [skipRRsNT] at h; omega
  | succ n ih =>
    intro cur q h
    unfold skipRRsNT at h
    split at h
    · cases h
    · rename_i q1 h1
      have := skipRRnt_bounds w cur q1 h1
      have := ih q1 q h
      omega

theorem skipRRsNT_transfer (w w' : Bytes) : ∀ (n cur q : Nat), skipRRsNT w n cur = some q → q ≤ w'.length →
    (∀ i, cur ≤ i → i < q → w'.getD i 0 = w.getD i 0) → skipRRsNT w' n cur = some q := by
  intro n
  induction n with
  | zero => intro cur q h _ _; simpa [skipRRsNT] using h
  | succ n ih =>
    intro cur q h hl hag
    unfold skipRRsNT at h ⊢
    split at h
    · cases h
    · rename_i q1 h1
      have b1 := skipRRnt_bounds w cur q1 h1
      have b2 := skipRRsNT_bounds w n q1 q h
      rw [skipRRnt_transfer w w' cur q1 h1 (by omega) (fun i a b => hag i a (by omega))]
      exact ih q1 q h hl (fun i a b => hag i (by omega) b)

/-- the reader skips such a record and changes nothing else -/
theorem readRR_of_skipRRnt (V : Verifier) (tbl : List AlgEntry) (strict : Bool) (w : Bytes) (kr : Keyring) (now : Nat)
    (rm : Bytes) (multi : Bool) (sec count i cur q : Nat) (t : Option Found) (c : Option Ctx)
    (h : skipRRnt w cur = some q) :
    readRR V tbl strict w kr now rm multi sec count i ⟨cur, t, c⟩ = .ok ⟨q, t, c⟩ := by
  unfold skipRRnt at h
  unfold readRR
  split at h
  · cases h
  · rename_i p hp
    simp only [hp]
    split at h
    · cases h
    · rename_i h10
      split at h
      · cases h
      · rename_i hty
        split at h
        · cases h
        · rename_i hlen
          cases h
          simp [h10, hty, hlen]

theorem readSection_skip (V : Verifier) (tbl : List AlgEntry) (strict : Bool) (w : Bytes) (kr : Keyring) (now : Nat)
    (rm : Bytes) (multi : Bool) (sec count m : Nat) (t : Option Found) (c : Option Ctx) :
    ∀ (n cur q : Nat), skipRRsNT w n cur = some q →
      readSection V tbl strict w kr now rm multi sec count (n + m) ⟨cur, t, c⟩
        = readSection V tbl strict w kr now rm multi sec count m ⟨q, t, c⟩ := by
  intro n
  induction n with
  | zero => intro cur q h; simp [skipRRsNT] at h; subst h; simp
  | succ n ih =>
    intro cur q h
    unfold skipRRsNT at h
    split at h
    · cases h
    · rename_i q1 h1
      have e : n + 1 + m = (n + m) + 1 := by omega
      rw [e]
      simp only [readSection]
      rw [readRR_of_skipRRnt V tbl strict w kr now rm multi sec count _ cur q1 t c h1]
      exact ih q1 q h

/-! ### the signed message -/

/-- a message body as `Message.to_wire` hands it to `dns.tsig.sign`: header written, walkable, no TSIG record -/
structure BodyOk (body : Bytes) : Prop where
  len : 12 ≤ body.length
  oct : OctetsOk body
  walk : ∃ p0 p1 p2, skipQuestions body (rd16 body 4) 12 = some p0 ∧ skipRRsNT body (rd16 body 6) p0 = some p1
      ∧ skipRRsNT body (rd16 body 8) p1 = some p2 ∧ skipRRsNT body (rd16 body 10) p2 = some body.length

/-- the renderer's encoding `o` of the TSIG owner name, standing right after `pre`, reads back as `n` and is
skipped as a whole, whatever follows (an uncompressed name; or a compressed one whose pointers stay in `pre`) -/
structure OwnerEncodes (pre o : Bytes) (n : Name) : Prop where
  skip : ∀ post, skipName (pre ++ o ++ post) (pre ++ o ++ post).length ((pre ++ o ++ post).length + 1) pre.length
      = some (pre.length + o.length)
  dec : ∀ post, decodeName (pre ++ o ++ post) pre.length = .ok n

theorem appendTsig_split (body o : Bytes) (rd : Rdata) (hl : 12 ≤ body.length) :
    appendTsig body o rd = setArcount body (rd16 body 10 + 1) ++ tsigRR o rd := by
  unfold appendTsig setArcount
  rw [List.take_append_of_le_length (by omega), List.drop_append_of_le_length (by omega)]
  simp [List.append_assoc]

theorem setArcount_getElem (w : Bytes) (n i : Nat) (hl : 12 ≤ w.length) (hi : i < 10 ∨ 12 ≤ i) :
    (setArcount w n)[i]? = w[i]? := by
  unfold setArcount
  rcases hi with hi | hi
  · rw [List.append_assoc, List.getElem?_append_left (by simp; omega)]
    exact List.getElem?_take_of_lt hi
  · rw [List.getElem?_append_right (by simp [u16]; omega)]
    simp only [List.length_append, List.length_take, u16, List.length_cons, List.length_nil, List.getElem?_drop]
    congr 1; omega

theorem setArcount_rd16_10 (w : Bytes) (n : Nat) (hl : 12 ≤ w.length) (hn : n < 65536) (b : Bytes) :
    rd16 (setArcount w n ++ b) 10 = n := by
  unfold setArcount
  have hlen : (List.take 10 w).length = 10 := by simp; omega
  have := rd16_u16 n hn (List.take 10 w) (List.drop 12 w ++ b)
  rw [hlen] at this
  simpa [List.append_assoc] using this

/-- octets of the signed message below the TSIG RR are the body's, except ARCOUNT -/
theorem signed_getElem (body T : Bytes) (n i : Nat) (hl : 12 ≤ body.length) (hi : i < 10 ∨ 12 ≤ i) (hib : i < body.length) :
    (setArcount body n ++ T)[i]? = body[i]? := by
  rw [List.getElem?_append_left (by rw [setArcount_length _ _ hl]; exact hib)]
  exact setArcount_getElem body n i hl hi

theorem u32_zero : u32 0 = u16 0 ++ u16 0 := by decide

/-- the TSIG RR of a signed message goes through `readRR`, whatever octets follow the message -/
theorem readRR_signed_post (V : Verifier) (tbl : List AlgEntry) (strict : Bool) (B o : Bytes) (rd : Rdata) (k : Key) (owner : Name)
    (now : Nat) (rm : Bytes) (ctx : Option Ctx) (multi : Bool) (ar : Nat) (c : Ctx) (c' : Option Ctx) (post : Bytes)
    (hown : OwnerEncodes B o owner) (hrd : RdataOk rd) (hL : (rdataWire rd).length < 65536)
    (hv : validateV V tbl (B ++ tsigRR o rd ++ post) k owner rd now rm B.length ctx multi = .ok (c, c')) :
    readRR V tbl strict (B ++ tsigRR o rd ++ post) (.key k) now rm multi 3 (ar + 1) ar ⟨B.length, none, ctx⟩
      = .ok ⟨(B ++ tsigRR o rd).length, some ⟨owner, rd, some (c, rd.mac)⟩, c'⟩ := by
  -- shapes of the message
  have sh0 : B ++ tsigRR o rd ++ post = B ++ o ++ (u16 ConstsC14.typeTsig ++ (u16 ConstsC14.classAny ++ (u16 0 ++ (u16 0 ++
      (u16 (rdataWire rd).length ++ (rdataWire rd ++ post)))))) := by
    unfold tsigRR; rw [u32_zero]; simp [List.append_assoc]
  have hlenT : (B ++ tsigRR o rd).length = B.length + o.length + 10 + (rdataWire rd).length := by
    unfold tsigRR; simp [u16, u32]; omega
  generalize hW : B ++ tsigRR o rd ++ post = W at *
  have hlenW : W.length = B.length + o.length + 10 + (rdataWire rd).length + post.length := by
    rw [sh0]; simp [u16]; omega
  have hskip : skipName W W.length (W.length + 1) B.length = some (B.length + o.length) := by
    have := hown.skip (u16 ConstsC14.typeTsig ++ (u16 ConstsC14.classAny ++ (u16 0 ++ (u16 0 ++
      (u16 (rdataWire rd).length ++ (rdataWire rd ++ post))))))
    rwa [← sh0] at this
  have hdec : decodeName W B.length = .ok owner := by
    have := hown.dec (u16 ConstsC14.typeTsig ++ (u16 ConstsC14.classAny ++ (u16 0 ++ (u16 0 ++
      (u16 (rdataWire rd).length ++ (rdataWire rd ++ post))))))
    rwa [← sh0] at this
  generalize hp : B.length + o.length = p at *
  have hpl : (B ++ o).length = p := by simp; omega
  have f1 : rd16 W p = ConstsC14.typeTsig := by
    rw [sh0]; exact rd16_mid' _ _ _ _ (by decide) hpl.symm
  have f2 : rd16 W (p + 2) = ConstsC14.classAny := by
    have e : W = (B ++ o ++ u16 ConstsC14.typeTsig) ++ (u16 ConstsC14.classAny ++ (u16 0 ++ (u16 0 ++
        (u16 (rdataWire rd).length ++ (rdataWire rd ++ post))))) := by rw [sh0]; simp [List.append_assoc]
    rw [e]; exact rd16_mid' _ _ _ _ (by decide) (by simp [u16]; omega)
  have f3 : rd16 W (p + 4) = 0 := by
    have e : W = (B ++ o ++ u16 ConstsC14.typeTsig ++ u16 ConstsC14.classAny) ++ (u16 0 ++ (u16 0 ++
        (u16 (rdataWire rd).length ++ (rdataWire rd ++ post)))) := by rw [sh0]; simp [List.append_assoc]
    rw [e]; exact rd16_mid' _ _ _ _ (by decide) (by simp [u16]; omega)
  have f4 : rd16 W (p + 4 + 2) = 0 := by
    have e : W = (B ++ o ++ u16 ConstsC14.typeTsig ++ u16 ConstsC14.classAny ++ u16 0) ++ (u16 0 ++
        (u16 (rdataWire rd).length ++ (rdataWire rd ++ post))) := by rw [sh0]; simp [List.append_assoc]
    rw [e]; exact rd16_mid' _ _ _ _ (by decide) (by simp [u16]; omega)
  have f5 : rd16 W (p + 8) = (rdataWire rd).length := by
    have e : W = (B ++ o ++ u16 ConstsC14.typeTsig ++ u16 ConstsC14.classAny ++ u16 0 ++ u16 0) ++
        (u16 (rdataWire rd).length ++ (rdataWire rd ++ post)) := by rw [sh0]; simp [List.append_assoc]
    rw [e]; exact rd16_mid' _ _ _ _ hL (by simp [u16]; omega)
  have f6 : rdataParse W (p + 10) (p + 10 + (rdataWire rd).length) = .ok rd := by
    have e : W = (B ++ o ++ u16 ConstsC14.typeTsig ++ u16 ConstsC14.classAny ++ u16 0 ++ u16 0 ++
        u16 (rdataWire rd).length) ++ rdataWire rd ++ post := by rw [sh0]; simp [List.append_assoc]
    have hA : (B ++ o ++ u16 ConstsC14.typeTsig ++ u16 ConstsC14.classAny ++ u16 0 ++ u16 0 ++
        u16 (rdataWire rd).length).length = p + 10 := by simp [u16]; omega
    have := rdataParse_rdataWire_post (B ++ o ++ u16 ConstsC14.typeTsig ++ u16 ConstsC14.classAny ++ u16 0 ++ u16 0 ++
        u16 (rdataWire rd).length) rd post hrd
    rw [← e, hA] at this
    exact this
  unfold readRR
  simp only [hskip]
  have g1 : ¬ p + 10 > W.length := by omega
  have g2 : ¬ (3 ≠ 3 ∨ rd16 W (p + 2) ≠ ConstsC14.classAny ∨ ar + 1 ≠ ar + 1) := by simp [f2]
  have g3 : ¬ (strict = true ∧ rd32 W (p + 4) ≠ 0) := by unfold rd32; simp [f3, f4]
  have g4 : ¬ p + 10 + (rdataWire rd).length > W.length := by omega
  simp only [g1, if_false, f1, if_true, g2, g3, f5, g4, hdec, f6, resolveKey, hv]
  congr 2
  omega

theorem readRR_signed (V : Verifier) (tbl : List AlgEntry) (strict : Bool) (B o : Bytes) (rd : Rdata) (k : Key) (owner : Name)
    (now : Nat) (rm : Bytes) (ctx : Option Ctx) (multi : Bool) (ar : Nat) (c : Ctx) (c' : Option Ctx)
    (hown : OwnerEncodes B o owner) (hrd : RdataOk rd) (hL : (rdataWire rd).length < 65536)
    (hv : validateV V tbl (B ++ tsigRR o rd) k owner rd now rm B.length ctx multi = .ok (c, c')) :
    readRR V tbl strict (B ++ tsigRR o rd) (.key k) now rm multi 3 (ar + 1) ar ⟨B.length, none, ctx⟩
      = .ok ⟨(B ++ tsigRR o rd).length, some ⟨owner, rd, some (c, rd.mac)⟩, c'⟩ := by
  have := readRR_signed_post V tbl strict B o rd k owner now rm ctx multi ar c c' [] hown hrd hL (by simpa using hv)
  simpa using this

theorem readSection_all (V : Verifier) (tbl : List AlgEntry) (strict : Bool) (w : Bytes) (kr : Keyring) (now : Nat)
    (rm : Bytes) (multi : Bool) (sec n cur q : Nat) (t : Option Found) (c : Option Ctx)
    (h : skipRRsNT w n cur = some q) :
    readSection V tbl strict w kr now rm multi sec n n ⟨cur, t, c⟩ = .ok ⟨q, t, c⟩ := by
  have := readSection_skip V tbl strict w kr now rm multi sec n 0 t c n cur q h
  simpa [readSection] using this

/-- a message without TSIG goes through the reader; with `multi` and a running context it is digested whole -/
theorem readV_unsigned_ok (V : Verifier) (tbl : List AlgEntry) (strict : Bool) (body : Bytes) (kr : Keyring) (now : Nat)
    (rm : Bytes) (ctx : Option Ctx) (multi : Bool) (hb : BodyOk body) :
    readV V tbl strict body kr now rm ctx multi
      = .ok ⟨none, if multi then ctx.map (·.update body) else ctx⟩ := by
  obtain ⟨p0, p1, p2, h0, h1, h2, h3⟩ := hb.walk
  unfold readV readVI
  have hl : ¬ body.length < 12 := by have := hb.len; omega
  simp only [hl, if_false, h0]
  rw [readSection_all V tbl strict body kr now rm multi 1 _ p0 p1 none ctx h1]
  simp only
  rw [readSection_all V tbl strict body kr now rm multi 2 _ p1 p2 none ctx h2]
  simp only
  rw [readSection_all V tbl strict body kr now rm multi 3 _ p2 body.length none ctx h3]
  simp only [ne_eq, not_true_eq_false, and_false, if_false, List.take_length]
  cases multi <;> cases ctx <;> rfl

/-- **the reader accepts what the signing tail of `to_wire` produced**, given that `validate` does -/
theorem readV_signed_ok (V : Verifier) (tbl : List AlgEntry) (strict : Bool) (body o : Bytes) (rd : Rdata) (k : Key)
    (owner : Name) (now : Nat) (rm : Bytes) (ctx : Option Ctx) (multi : Bool) (c : Ctx) (c' : Option Ctx)
    (hb : BodyOk body) (hcnt : rd16 body 10 + 1 < 65536)
    (hown : OwnerEncodes (setArcount body (rd16 body 10 + 1)) o owner) (hrd : RdataOk rd)
    (hL : (rdataWire rd).length < 65536)
    (hv : validateV V tbl (appendTsig body o rd) k owner rd now rm body.length ctx multi = .ok (c, c')) :
    readV V tbl strict (appendTsig body o rd) (.key k) now rm ctx multi
      = .ok ⟨some ⟨owner, rd, some (c, rd.mac)⟩, c'⟩ := by
  obtain ⟨p0, p1, p2, h0, h1, h2, h3⟩ := hb.walk
  have hl := hb.len
  rw [appendTsig_split body o rd hl] at hv ⊢
  generalize hB : setArcount body (rd16 body 10 + 1) = B at *
  have hBl : B.length = body.length := by rw [← hB]; exact setArcount_length _ _ hl
  have hge : ∀ i, (i < 10 ∨ 12 ≤ i) → i < body.length → (B ++ tsigRR o rd)[i]? = body[i]? := by
    intro i h1 h2; rw [← hB]; exact signed_getElem body _ _ i hl h1 h2
  have hgd : ∀ i, 12 ≤ i → i < body.length → (B ++ tsigRR o rd).getD i 0 = body.getD i 0 :=
    fun i a b => getD_of_getElem? body _ i (hge i (Or.inr a) b)
  have c4 : rd16 (B ++ tsigRR o rd) 4 = rd16 body 4 := rd16_congr _ _ 4 (hge 4 (by omega) (by omega)) (hge 5 (by omega) (by omega))
  have c6 : rd16 (B ++ tsigRR o rd) 6 = rd16 body 6 := rd16_congr _ _ 6 (hge 6 (by omega) (by omega)) (hge 7 (by omega) (by omega))
  have c8 : rd16 (B ++ tsigRR o rd) 8 = rd16 body 8 := rd16_congr _ _ 8 (hge 8 (by omega) (by omega)) (hge 9 (by omega) (by omega))
  have c10 : rd16 (B ++ tsigRR o rd) 10 = rd16 body 10 + 1 := by
    rw [← hB]; exact setArcount_rd16_10 body _ hl hcnt _
  have b0 := skipQuestions_bounds body _ _ _ h0
  have b1 := skipRRsNT_bounds body _ _ _ h1
  have b2 := skipRRsNT_bounds body _ _ _ h2
  have hWl : body.length ≤ (B ++ tsigRR o rd).length := by simp [hBl]
  have t0 := skipQuestions_transfer body (B ++ tsigRR o rd) _ _ _ h0 (by omega) (fun i a b => hgd i a (by omega))
  have t1 := skipRRsNT_transfer body (B ++ tsigRR o rd) _ _ _ h1 (by omega) (fun i a b => hgd i (by omega) (by omega))
  have t2 := skipRRsNT_transfer body (B ++ tsigRR o rd) _ _ _ h2 (by omega) (fun i a b => hgd i (by omega) (by omega))
  have t3 := skipRRsNT_transfer body (B ++ tsigRR o rd) _ _ _ h3 (by omega) (fun i a b => hgd i (by omega) (by omega))
  have hrr := readRR_signed V tbl strict B o rd k owner now rm ctx multi (rd16 body 10) c c' hown hrd hL
    (by rw [hBl]; exact hv)
  rw [hBl] at hrr
  unfold readV readVI
  have hl12 : ¬ (B ++ tsigRR o rd).length < 12 := by omega
  simp only [hl12, if_false, c4, c6, c8, c10, t0]
  rw [readSection_all V tbl strict _ (.key k) now rm multi 1 _ p0 p1 none ctx t1]
  simp only
  rw [readSection_all V tbl strict _ (.key k) now rm multi 2 _ p1 p2 none ctx t2]
  simp only
  rw [readSection_skip V tbl strict _ (.key k) now rm multi 3 (rd16 body 10 + 1) 1 none ctx (rd16 body 10) p2 body.length t3]
  simp only [readSection, Nat.zero_add, Nat.add_sub_cancel, hrr, ne_eq, not_true_eq_false, and_false, if_false]

/-! ### octets after the message (`ignore_trailing=True`) -/

theorem rd16_append_left (w junk : Bytes) (i : Nat) (h : i + 2 ≤ w.length) : rd16 (w ++ junk) i = rd16 w i :=
  rd16_congr _ _ i (List.getElem?_append_left (by omega)) (List.getElem?_append_left (by omega))

theorem newWire_append (w junk : Bytes) (s : Nat) (hl : 12 ≤ w.length) (hs : s ≤ w.length) :
    newWire (w ++ junk) s = newWire w s := by
  unfold newWire slice
  simp only [ConstsC14.arcountOff, ConstsC14.arcountEnd]
  rw [rd16_append_left w junk 10 (by omega), List.take_append_of_le_length (by omega),
    List.take_append_of_le_length hs]

/-- `validate` does not see octets after the message -/
theorem validateV_append (V : Verifier) (tbl : List AlgEntry) (w junk : Bytes) (k : Key) (owner : Name) (rd : Rdata)
    (now : Nat) (rm : Bytes) (s : Nat) (ctx : Option Ctx) (multi : Bool) (hl : 12 ≤ w.length) (hs : s ≤ w.length) :
    validateV V tbl (w ++ junk) k owner rd now rm s ctx multi = validateV V tbl w k owner rd now rm s ctx multi := by
  rw [validateV_spec, validateV_spec, rd16_append_left w junk 10 (by omega), newWire_append w junk s hl hs]

/-- an unsigned envelope followed by any octets, read with `ignore_trailing`: only the message is digested -/
theorem readVI_unsigned_junk (V : Verifier) (tbl : List AlgEntry) (strict : Bool) (body junk : Bytes) (kr : Keyring) (now : Nat)
    (rm : Bytes) (ctx : Option Ctx) (multi : Bool) (hb : BodyOk body) :
    readVI true V tbl strict (body ++ junk) kr now rm ctx multi
      = .ok ⟨none, if multi then ctx.map (·.update body) else ctx⟩ := by
  obtain ⟨p0, p1, p2, h0, h1, h2, h3⟩ := hb.walk
  have hl := hb.len
  have hgd : ∀ i, i < body.length → (body ++ junk).getD i 0 = body.getD i 0 :=
    fun i a => getD_of_getElem? body _ i (List.getElem?_append_left a)
  have b0 := skipQuestions_bounds body _ _ _ h0
  have b1 := skipRRsNT_bounds body _ _ _ h1
  have b2 := skipRRsNT_bounds body _ _ _ h2
  have hWl : body.length ≤ (body ++ junk).length := by simp
  have t0 := skipQuestions_transfer body (body ++ junk) _ _ _ h0 (by omega) (fun i a b => hgd i (by omega))
  have t1 := skipRRsNT_transfer body (body ++ junk) _ _ _ h1 (by omega) (fun i a b => hgd i (by omega))
  have t2 := skipRRsNT_transfer body (body ++ junk) _ _ _ h2 (by omega) (fun i a b => hgd i (by omega))
  have t3 := skipRRsNT_transfer body (body ++ junk) _ _ _ h3 (by omega) (fun i a b => hgd i (by omega))
  unfold readVI
  have hl12 : ¬ (body ++ junk).length < 12 := by omega
  simp only [hl12, if_false, rd16_append_left body junk 4 (by omega), rd16_append_left body junk 6 (by omega),
    rd16_append_left body junk 8 (by omega), rd16_append_left body junk 10 (by omega), t0]
  rw [readSection_all V tbl strict _ kr now rm multi 1 _ p0 p1 none ctx t1]
  simp only
  rw [readSection_all V tbl strict _ kr now rm multi 2 _ p1 p2 none ctx t2]
  simp only
  rw [readSection_all V tbl strict _ kr now rm multi 3 _ p2 body.length none ctx t3]
  simp only [Bool.true_eq_false, false_and, if_false, List.take_left']
  cases multi <;> cases ctx <;> simp

/-- a signed envelope followed by any octets, read with `ignore_trailing`: accepted exactly as without them -/
theorem readVI_signed_junk (V : Verifier) (tbl : List AlgEntry) (strict : Bool) (body o junk : Bytes) (rd : Rdata) (k : Key)
    (owner : Name) (now : Nat) (rm : Bytes) (ctx : Option Ctx) (multi : Bool) (c : Ctx) (c' : Option Ctx)
    (hb : BodyOk body) (hcnt : rd16 body 10 + 1 < 65536)
    (hown : OwnerEncodes (setArcount body (rd16 body 10 + 1)) o owner) (hrd : RdataOk rd)
    (hL : (rdataWire rd).length < 65536)
    (hv : validateV V tbl (appendTsig body o rd) k owner rd now rm body.length ctx multi = .ok (c, c')) :
    readVI true V tbl strict (appendTsig body o rd ++ junk) (.key k) now rm ctx multi
      = .ok ⟨some ⟨owner, rd, some (c, rd.mac)⟩, c'⟩ := by
  obtain ⟨p0, p1, p2, h0, h1, h2, h3⟩ := hb.walk
  have hl := hb.len
  rw [appendTsig_split body o rd hl] at hv ⊢
  generalize hB : setArcount body (rd16 body 10 + 1) = B at *
  have hBl : B.length = body.length := by rw [← hB]; exact setArcount_length _ _ hl
  have hge : ∀ i, (i < 10 ∨ 12 ≤ i) → i < body.length → (B ++ tsigRR o rd ++ junk)[i]? = body[i]? := by
    intro i h1 h2
    rw [List.getElem?_append_left (by simp [hBl]; omega), ← hB]
    exact signed_getElem body _ _ i hl h1 h2
  have hgd : ∀ i, 12 ≤ i → i < body.length → (B ++ tsigRR o rd ++ junk).getD i 0 = body.getD i 0 :=
    fun i a b => getD_of_getElem? body _ i (hge i (Or.inr a) b)
  have c4 : rd16 (B ++ tsigRR o rd ++ junk) 4 = rd16 body 4 := rd16_congr _ _ 4 (hge 4 (by omega) (by omega)) (hge 5 (by omega) (by omega))
  have c6 : rd16 (B ++ tsigRR o rd ++ junk) 6 = rd16 body 6 := rd16_congr _ _ 6 (hge 6 (by omega) (by omega)) (hge 7 (by omega) (by omega))
  have c8 : rd16 (B ++ tsigRR o rd ++ junk) 8 = rd16 body 8 := rd16_congr _ _ 8 (hge 8 (by omega) (by omega)) (hge 9 (by omega) (by omega))
  have c10 : rd16 (B ++ tsigRR o rd ++ junk) 10 = rd16 body 10 + 1 := by
    rw [List.append_assoc, ← hB]; exact setArcount_rd16_10 body _ hl hcnt _
  have b0 := skipQuestions_bounds body _ _ _ h0
  have b1 := skipRRsNT_bounds body _ _ _ h1
  have b2 := skipRRsNT_bounds body _ _ _ h2
  have hWl : body.length ≤ (B ++ tsigRR o rd ++ junk).length := by simp [hBl] <;> omega
  have t0 := skipQuestions_transfer body (B ++ tsigRR o rd ++ junk) _ _ _ h0 (by omega) (fun i a b => hgd i a (by omega))
  have t1 := skipRRsNT_transfer body (B ++ tsigRR o rd ++ junk) _ _ _ h1 (by omega) (fun i a b => hgd i (by omega) (by omega))
  have t2 := skipRRsNT_transfer body (B ++ tsigRR o rd ++ junk) _ _ _ h2 (by omega) (fun i a b => hgd i (by omega) (by omega))
  have t3 := skipRRsNT_transfer body (B ++ tsigRR o rd ++ junk) _ _ _ h3 (by omega) (fun i a b => hgd i (by omega) (by omega))
  have hv' : validateV V tbl (B ++ tsigRR o rd ++ junk) k owner rd now rm B.length ctx multi = .ok (c, c') := by
    rw [validateV_append V tbl (B ++ tsigRR o rd) junk k owner rd now rm B.length ctx multi (by simp [hBl]; omega) (by simp), hBl]
    exact hv
  have hrr := readRR_signed_post V tbl strict B o rd k owner now rm ctx multi (rd16 body 10) c c' junk hown hrd hL hv'
  rw [hBl] at hrr
  unfold readVI
  have hl12 : ¬ (B ++ tsigRR o rd ++ junk).length < 12 := by omega
  simp only [hl12, if_false, c4, c6, c8, c10, t0]
  rw [readSection_all V tbl strict _ (.key k) now rm multi 1 _ p0 p1 none ctx t1]
  simp only
  rw [readSection_all V tbl strict _ (.key k) now rm multi 2 _ p1 p2 none ctx t2]
  simp only
  rw [readSection_skip V tbl strict _ (.key k) now rm multi 3 (rd16 body 10 + 1) 1 none ctx (rd16 body 10) p2 body.length t3]
  simp only [readSection, Nat.zero_add, Nat.add_sub_cancel, hrr, Bool.true_eq_false, false_and, if_false]

/-! ### an uncompressed owner name -/

theorem skipName_plain (ls : List Label) (hp : PlainLabels ls) (post : Bytes) (e : Nat) :
    ∀ (pre : Bytes) (f : Nat), pre.length + (toWire (ls ++ [[]])).length ≤ e → (toWire (ls ++ [[]])).length ≤ f →
      skipName (pre ++ toWire (ls ++ [[]]) ++ post) e f pre.length = some (pre.length + (toWire (ls ++ [[]])).length) := by
  induction ls with
  | nil =>
    intro pre f he hf
    simp only [List.nil_append, toWire_root, List.length_cons, List.length_nil] at he hf ⊢
    cases f with
    | zero => omega
    | succ f =>
      unfold skipName
      have hlt : pre.length < e := by omega
      have hg : (pre ++ [0] ++ post).getD pre.length 0 = 0 := by simp [List.getD]
      simp [hlt, hg]
  | cons l rest ih =>
    intro pre f he hf
    have hl := hp l (by simp)
    have hrest : PlainLabels rest := fun x hx => hp x (by simp [hx])
    have e1 : pre ++ toWire (l :: rest ++ [[]]) ++ post = (pre ++ l.length :: l) ++ toWire (rest ++ [[]]) ++ post := by
      simp [toWire]
    have hlen : (toWire (l :: rest ++ [[]])).length = 1 + l.length + (toWire (rest ++ [[]])).length := by
      simp [toWire]; omega
    have h64 : Consts.ptrLabelMin = 64 := by decide
    cases f with
    | zero => omega
    | succ f =>
      unfold skipName
      have hlt : pre.length < e := by omega
      have hg : (pre ++ toWire (l :: rest ++ [[]]) ++ post).getD pre.length 0 = l.length := by simp [List.getD, toWire]
      have h0 : ¬ l.length = 0 := by omega
      have h1 : l.length < 64 := by omega
      have h2 : pre.length + 1 + l.length ≤ e := by omega
      simp only [hlt, if_true, hg, h0, if_false, h1, h2]
      have := ih hrest (pre ++ l.length :: l) f (by simp; omega) (by omega)
      rw [← e1] at this
      have hc : (pre ++ l.length :: l).length = pre.length + 1 + l.length := by simp; omega
      rw [hc] at this
      rw [this, hlen]
      congr 1; omega

theorem ownerEncodes_plain (pre : Bytes) (n : Name) (hw : WfName n) (ha : isAbs n = true) :
    OwnerEncodes pre (toWire n) n := by
  constructor
  · intro post
    obtain ⟨ls, rfl, hp⟩ := abs_split n hw ha
    exact skipName_plain ls hp post _ pre _ (by simp) (by simp; omega)
  · intro post
    exact decodeName_toWire n hw ha pre post

/-! ### sign, then validate / read -/

/-- what `sign` hands back, field by field -/
structure SignedFields (H : Hmac) (rd rd' : Rdata) (now : Nat) : Prop where
  alg : rd'.algorithm = rd.algorithm
  time : rd'.timeSigned = now
  fudge : rd'.fudge = rd.fudge
  oid : rd'.originalId = rd.originalId
  err : rd'.error = rd.error
  other : rd'.other = rd.other
  mac : ∃ c : Ctx, rd'.mac = c.sign H

/-- `sign` succeeds for every algorithm of the table and `validate` accepts the rendered message, for any owner
name equal to the key's (the library's case-insensitive equality) -/
theorem sign_then_validate_gen (H : Hmac) (e : AlgEntry) (he : e ∈ algTable) (key : Key) (hk : key.algorithm = e.name)
    (body ownerEnc : Bytes) (owner : Name) (rd : Rdata) (now vnow : Nat) (rm : Bytes) (ctx : Option Ctx) (multi : Bool)
    (hl : 12 ≤ body.length) (ho : OctetsOk body) (hc : rd16 body 10 + 1 < 65536)
    (hown : nameEq key.name owner = true)
    (halg : rd.algorithm = key.algorithm) (herr : rd.error = 0) (hother : rd.other.length ≤ 65535)
    (hwin : absDiff now vnow ≤ rd.fudge) :
    ∃ wire rd' ctx' c, signMessage H algTable body ownerEnc key rd now rm ctx multi = .ok (wire, rd', ctx')
      ∧ wire = appendTsig body ownerEnc rd' ∧ SignedFields H rd rd' now
      ∧ validateV (verifyWith H) algTable wire key owner rd' vnow rm body.length ctx multi = .ok (c, ctx') := by
  obtain ⟨e', he'⟩ := lookupAlg_mem algTable e he
  have hgc : ∃ c0, getContext algTable key = .ok c0 := by
    unfold getContext; rw [hk, he']; exact ⟨_, rfl⟩
  obtain ⟨c0, hc0⟩ := hgc
  have hdig : ∃ c, digest algTable body key rd (some now) rm ctx multi = .ok c := by
    unfold digest
    have hnot : ¬ rd.other.length > ConstsC14.otherMax := by simp [ConstsC14.otherMax]; omega
    cases hm : (if multi then ctx else none) with
    | none => simp only [hc0, hnot, if_false]; exact ⟨_, rfl⟩
    | some c => simp only [hnot, if_false]; exact ⟨_, rfl⟩
  obtain ⟨c, hd⟩ := hdig
  have hms : ∃ c', maybeStartDigest algTable key (c.sign H) multi = .ok c' := by
    unfold maybeStartDigest
    cases multi <;> simp [hc0]
  obtain ⟨c', hm⟩ := hms
  refine ⟨_, { rd with timeSigned := now, mac := c.sign H }, c', c, ?_, rfl, ⟨rfl, rfl, rfl, rfl, rfl, rfl, c, rfl⟩, ?_⟩
  · simp [signMessage, sign, hd, hm]
  · rw [validateV_spec]
    have h10 := rd16_appendTsig body ownerEnc { rd with timeSigned := now, mac := c.sign H } hl hc
    have hnw := newWire_appendTsig body ownerEnc { rd with timeSigned := now, mac := c.sign H } hl ho hc
    have hdc := digest_congr algTable body key rd { rd with timeSigned := now, mac := c.sign H } now rm ctx multi
      rfl rfl rfl rfl rfl
    simp only [h10, hnw, hdc, hd]
    have : ¬ absDiff now vnow > rd.fudge := by omega
    simp [this, hm, herr, halg, hown, nameEq_refl, verifyWith]

/-- everything the round trip needs to know about one signed envelope -/
structure SignedOk (H : Hmac) (key : Key) (body o : Bytes) (owner : Name) (rd : Rdata) (now vnow : Nat) : Prop where
  alg : ∃ e ∈ algTable, key.algorithm = e.name
  bodyOk : BodyOk body
  cnt : rd16 body 10 + 1 < 65536
  enc : OwnerEncodes (setArcount body (rd16 body 10 + 1)) o owner
  own : nameEq key.name owner = true
  rdalg : rd.algorithm = key.algorithm
  algWf : WfName key.algorithm
  algAbs : isAbs key.algorithm = true
  err : rd.error = 0
  time : now < 281474976710656
  fudge : rd.fudge < 65536
  oid : rd.originalId < 65536
  hmac : ∀ h k d, (H h k d).length ≤ 64
  size : (toWire key.algorithm).length + rd.other.length + 80 < 65536
  win : absDiff now vnow ≤ rd.fudge

theorem sign_length_le (H : Hmac) (c : Ctx) : (c.sign H).length ≤ (H c.hash c.secret c.data).length := by
  unfold Ctx.sign
  split
  · simp; omega
  · exact Nat.le_refl _

/-- **sign, render, read**: the reader accepts what the signing tail of `to_wire` produced, reports the TSIG
that was written, and hands on the signer's next context -/
theorem sign_then_read_core (H : Hmac) (strict : Bool) (key : Key) (body o : Bytes) (owner : Name) (rd : Rdata)
    (now vnow : Nat) (rm : Bytes) (ctx : Option Ctx) (multi : Bool)
    (hok : SignedOk H key body o owner rd now vnow) :
    ∃ wire rd' ctx' c, signMessage H algTable body o key rd now rm ctx multi = .ok (wire, rd', ctx')
      ∧ wire = appendTsig body o rd' ∧ SignedFields H rd rd' now
      ∧ newWire wire body.length = body
      ∧ read H algTable strict wire (.key key) vnow rm ctx multi
          = .ok ⟨some ⟨owner, rd', some (c, rd'.mac)⟩, ctx'⟩ := by
  obtain ⟨e, he, hk⟩ := hok.alg
  have hsz := hok.size
  obtain ⟨wire, rd', ctx', c, hs, hw, hf, hv⟩ := sign_then_validate_gen H e he key hk body o owner rd now vnow rm ctx multi
    hok.bodyOk.len hok.bodyOk.oct hok.cnt hok.own hok.rdalg hok.err (by omega) hok.win
  refine ⟨wire, rd', ctx', c, hs, hw, hf, ?_, ?_⟩
  · rw [hw]; exact newWire_appendTsig body o rd' hok.bodyOk.len hok.bodyOk.oct hok.cnt
  · obtain ⟨c0, hmac⟩ := hf.mac
    have hml : rd'.mac.length ≤ 64 := by
      rw [hmac]; exact Nat.le_trans (sign_length_le H c0) (hok.hmac _ _ _)
    have hrd : RdataOk rd' := by
      refine ⟨?_, ?_, ?_, ?_, by omega, ?_, ?_, ?_⟩
      · rw [hf.alg, hok.rdalg]; exact hok.algWf
      · rw [hf.alg, hok.rdalg]; exact hok.algAbs
      · rw [hf.time]; exact hok.time
      · rw [hf.fudge]; exact hok.fudge
      · rw [hf.oid]; exact hok.oid
      · rw [hf.err, hok.err]; exact Nat.zero_le _
      · rw [hf.other]; omega
    have hL : (rdataWire rd').length < 65536 := by
      unfold rdataWire timeEncoded
      simp only [List.length_append, u16, u32, List.length_cons, List.length_nil, hf.alg, hok.rdalg, hf.other]
      omega
    unfold read
    rw [hw] at hv ⊢
    exact readV_signed_ok (verifyWith H) algTable strict body o rd' key owner vnow rm ctx multi c ctx' hok.bodyOk hok.cnt
      hok.enc hrd hL hv

/-- the same with octets after the message and `ignore_trailing=True` -/
theorem sign_then_read_core_junk (H : Hmac) (strict : Bool) (junk : Bytes) (key : Key) (body o : Bytes) (owner : Name) (rd : Rdata)
    (now vnow : Nat) (rm : Bytes) (ctx : Option Ctx) (multi : Bool)
    (hok : SignedOk H key body o owner rd now vnow) :
    ∃ wire rd' ctx' c, signMessage H algTable body o key rd now rm ctx multi = .ok (wire, rd', ctx')
      ∧ wire = appendTsig body o rd' ∧ SignedFields H rd rd' now
      ∧ newWire wire body.length = body
      ∧ readI true H algTable strict (wire ++ junk) (.key key) vnow rm ctx multi
          = .ok ⟨some ⟨owner, rd', some (c, rd'.mac)⟩, ctx'⟩ := by
  obtain ⟨e, he, hk⟩ := hok.alg
  have hsz := hok.size
  obtain ⟨wire, rd', ctx', c, hs, hw, hf, hv⟩ := sign_then_validate_gen H e he key hk body o owner rd now vnow rm ctx multi
    hok.bodyOk.len hok.bodyOk.oct hok.cnt hok.own hok.rdalg hok.err (by omega) hok.win
  refine ⟨wire, rd', ctx', c, hs, hw, hf, ?_, ?_⟩
  · rw [hw]; exact newWire_appendTsig body o rd' hok.bodyOk.len hok.bodyOk.oct hok.cnt
  · obtain ⟨c0, hmac⟩ := hf.mac
    have hml : rd'.mac.length ≤ 64 := by
      rw [hmac]; exact Nat.le_trans (sign_length_le H c0) (hok.hmac _ _ _)
    have hrd : RdataOk rd' := by
      refine ⟨?_, ?_, ?_, ?_, by omega, ?_, ?_, ?_⟩
      · rw [hf.alg, hok.rdalg]; exact hok.algWf
      · rw [hf.alg, hok.rdalg]; exact hok.algAbs
      · rw [hf.time]; exact hok.time
      · rw [hf.fudge]; exact hok.fudge
      · rw [hf.oid]; exact hok.oid
      · rw [hf.err, hok.err]; exact Nat.zero_le _
      · rw [hf.other]; omega
    have hL : (rdataWire rd').length < 65536 := by
      unfold rdataWire timeEncoded
      simp only [List.length_append, u16, u32, List.length_cons, List.length_nil, hf.alg, hok.rdalg, hf.other]
      omega
    unfold readI
    rw [hw] at hv ⊢
    exact readVI_signed_junk (verifyWith H) algTable strict body o junk rd' key owner vnow rm ctx multi c ctx' hok.bodyOk hok.cnt
      hok.enc hrd hL hv

/-! ### whole exchanges -/

/-- an envelope of a multi-message response as the sender builds it -/
inductive SEnv where
  | signed (body o : Bytes) (owner : Name) (rd : Rdata) (now vnow : Nat)
  | unsigned (body : Bytes) (vnow : Nat)

def SEnv.isSigned : SEnv → Bool
  | .signed .. => true
  | .unsigned .. => false

def SEnv.vnow : SEnv → Nat
  | .signed _ _ _ _ _ v => v
  | .unsigned _ v => v

/-- the sending side: `to_wire(multi=True, tsig_ctx=…)` for a signed envelope, and for an unsigned one the
message as it is, digested whole into the running context (RFC 8945 §5.3.1) -/
def signExchange (H : Hmac) (key : Key) (rm : Bytes) : Option Ctx → List SEnv → Except Err (List Bytes)
  | _, [] => .ok []
  | ctx, .signed body o _ rd now _ :: rest =>
    match signMessage H algTable body o key rd now rm ctx true with
    | .error e => .error e
    | .ok (w, _, ctx') =>
      match signExchange H key rm ctx' rest with
      | .error e => .error e
      | .ok ws => .ok (w :: ws)
  | ctx, .unsigned body _ :: rest =>
    match signExchange H key rm (ctx.map (·.update body)) rest with
    | .error e => .error e
    | .ok ws => .ok (body :: ws)

/-- the receiving side: `from_wire(keyring=key, request_mac, multi=True, tsig_ctx=…)` message after message -/
def readExchange (H : Hmac) (strict : Bool) (key : Key) (rm : Bytes) : Option Ctx → List (Bytes × Nat) → Except Err (List ReadOk)
  | _, [] => .ok []
  | ctx, (w, vnow) :: rest =>
    match read H algTable strict w (.key key) vnow rm ctx true with
    | .error e => .error e
    | .ok r =>
      match readExchange H strict key rm r.ctx rest with
      | .error e => .error e
      | .ok rs => .ok (r :: rs)

def SEnv.Ok (H : Hmac) (key : Key) : SEnv → Prop
  | .signed body o owner rd now vnow => SignedOk H key body o owner rd now vnow
  | .unsigned body _ => BodyOk body

theorem sign_then_read_exchange_core (H : Hmac) (strict : Bool) (key : Key) (rm : Bytes) (envs : List SEnv) :
    ∀ (ctx : Option Ctx), (∀ e ∈ envs, SEnv.Ok H key e) →
      ∃ ws rs, signExchange H key rm ctx envs = .ok ws
        ∧ readExchange H strict key rm ctx (ws.zip (envs.map SEnv.vnow)) = .ok rs
        ∧ ws.length = envs.length
        ∧ rs.map (fun r => r.tsig.isSome) = envs.map SEnv.isSigned := by
  induction envs with
  | nil => intro ctx _; exact ⟨[], [], rfl, rfl, rfl, rfl⟩
  | cons e rest ih =>
    intro ctx hall
    have he := hall e (by simp)
    have hrest : ∀ x ∈ rest, SEnv.Ok H key x := fun x hx => hall x (by simp [hx])
    cases e with
    | signed body o owner rd now vnow =>
      obtain ⟨wire, rd', ctx', c, hs, _, _, _, hr⟩ := sign_then_read_core H strict key body o owner rd now vnow rm ctx true he
      obtain ⟨ws, rs, h1, h2, h3, h4⟩ := ih ctx' hrest
      refine ⟨wire :: ws, ⟨some ⟨owner, rd', some (c, rd'.mac)⟩, ctx'⟩ :: rs, ?_, ?_, by simp [h3], ?_⟩
      · simp [signExchange, hs, h1]
      · simp [readExchange, SEnv.vnow, hr, h2]
      · simp [SEnv.isSigned, h4]
    | unsigned body vnow =>
      obtain ⟨ws, rs, h1, h2, h3, h4⟩ := ih (ctx.map (·.update body)) hrest
      have hr := readV_unsigned_ok (verifyWith H) algTable strict body (.key key) vnow rm ctx true he
      refine ⟨body :: ws, ⟨none, ctx.map (·.update body)⟩ :: rs, ?_, ?_, by simp [h3], ?_⟩
      · simp [signExchange, h1]
      · simp only [List.map_cons, List.zip_cons_cons, readExchange, SEnv.vnow, read]
        rw [hr]
        simp [h2]
      · simp [SEnv.isSigned, h4]

/-- the receiving side with `ignore_trailing=True`: every envelope may be followed by octets that are not part of it -/
def readExchangeJ (H : Hmac) (strict : Bool) (key : Key) (rm : Bytes) :
    Option Ctx → List (Bytes × Bytes × Nat) → Except Err (List ReadOk)
  | _, [] => .ok []
  | ctx, (w, junk, vnow) :: rest =>
    match readI true H algTable strict (w ++ junk) (.key key) vnow rm ctx true with
    | .error e => .error e
    | .ok r =>
      match readExchangeJ H strict key rm r.ctx rest with
      | .error e => .error e
      | .ok rs => .ok (r :: rs)

theorem sign_then_read_exchange_junk_core (H : Hmac) (strict : Bool) (key : Key) (rm : Bytes) (envs : List SEnv) :
    ∀ (ctx : Option Ctx) (junks : List Bytes), junks.length = envs.length → (∀ e ∈ envs, SEnv.Ok H key e) →
      ∃ ws rs, signExchange H key rm ctx envs = .ok ws
        ∧ readExchangeJ H strict key rm ctx (ws.zip (junks.zip (envs.map SEnv.vnow))) = .ok rs
        ∧ ws.length = envs.length
        ∧ rs.map (fun r => r.tsig.isSome) = envs.map SEnv.isSigned := by
  induction envs with
  | nil =>
    intro ctx junks hj _
    cases junks with
    | nil => exact ⟨[], [], rfl, rfl, rfl, rfl⟩
    | cons _ _ => simp at hj
  | cons e rest ih =>
    intro ctx junks hj hall
    cases junks with
    | nil => simp at hj
    | cons junk junks =>
    have hj' : junks.length = rest.length := by simpa using hj
    have he := hall e (by simp)
    have hrest : ∀ x ∈ rest, SEnv.Ok H key x := fun x hx => hall x (by simp [hx])
    cases e with
    | signed body o owner rd now vnow =>
      obtain ⟨wire, rd', ctx', c, hs, _, _, _, hr⟩ :=
        sign_then_read_core_junk H strict junk key body o owner rd now vnow rm ctx true he
      obtain ⟨ws, rs, h1, h2, h3, h4⟩ := ih ctx' junks hj' hrest
      refine ⟨wire :: ws, ⟨some ⟨owner, rd', some (c, rd'.mac)⟩, ctx'⟩ :: rs, ?_, ?_, by simp [h3], ?_⟩
      · simp [signExchange, hs, h1]
      · simp [readExchangeJ, SEnv.vnow, hr, h2]
      · simp [SEnv.isSigned, h4]
    | unsigned body vnow =>
      obtain ⟨ws, rs, h1, h2, h3, h4⟩ := ih (ctx.map (·.update body)) junks hj' hrest
      have hr := readVI_unsigned_junk (verifyWith H) algTable strict body junk (.key key) vnow rm ctx true he
      refine ⟨body :: ws, ⟨none, ctx.map (·.update body)⟩ :: rs, ?_, ?_, by simp [h3], ?_⟩
      · simp [signExchange, h1]
      · simp only [List.map_cons, List.zip_cons_cons, readExchangeJ, SEnv.vnow, readI]
        rw [hr]
        simp [h2]
      · simp [SEnv.isSigned, h4]

end Model.Tsig

import Proofs.WritersFair
import Proofs.WritersStageOther
import Proofs.WritersStageSelf
/-!
Liveness under bounded fairness: along every `k`-fair execution a writer that has arrived is admitted within an explicit
number of steps (`eventually_admitted_aux`), and a started reader finishes within an explicit number of steps whatever
the writers do (`reader_finishes`).
-/
set_option linter.unusedSimpArgs false
set_option linter.unusedVariables false
namespace Model.Writers
variable {c : Cfg} {n k : Nat} {s s' : State} {t : Tid}

/-- admissions still needed until `w` is admitted (0 once it is) -/
def needD (s : State) (w : Tid) : Nat := s.arrivals.idxOf w + 1 - s.admitted.length

def stageM (s : State) (w : Tid) : Nat := needD s w * 40 + stageFuel (s.loc (stageThread s)).pc

theorem arrivals_getElem_idxOf {w : Tid} (hw : w ∈ s.arrivals) : s.arrivals[s.arrivals.idxOf w]? = some w := by
  have h := List.idxOf_lt_length_of_mem hw
  rw [List.getElem?_eq_getElem h, List.getElem_idxOf h]

theorem needD_pos (hr : Reach c n s) {w : Tid} (hw : w ∈ s.arrivals) (hna : w ∉ s.admitted) : 1 ≤ needD s w := by
  have h := admitted_iff_position hr (arrivals_getElem_idxOf hw)
  have : ¬ s.arrivals.idxOf w < s.admitted.length := fun h' => hna (h.mpr h')
  unfold needD; omega

theorem pending_ne_nil (hr : Reach c n s) {w : Tid} (hw : w ∈ s.arrivals) (hna : w ∉ s.admitted) : pending s ≠ [] := by
  intro e
  have := (reach_inv hr).q.queue
  rw [e, List.append_nil] at this
  rw [this] at hw; exact hna hw

theorem idxOf_trans {w : Tid} (hw : w ∈ s.arrivals) (htr : Trans c s t s') : s'.arrivals.idxOf w = s.arrivals.idxOf w := by
  obtain ⟨l, hl⟩ := arrivals_trans htr
  rw [hl, List.idxOf_append, if_pos hw]

theorem mem_arrivals_trans {w : Tid} (hw : w ∈ s.arrivals) (htr : Trans c s t s') : w ∈ s'.arrivals := by
  obtain ⟨l, hl⟩ := arrivals_trans htr
  rw [hl]; exact List.mem_append_left _ hw

theorem admitted_trans (htr : Trans c s t s') : ∃ l, s'.admitted = s.admitted ++ l := by
  cases htr <;> first | (refine ⟨[], ?_⟩; simp; done) | (refine ⟨[t], ?_⟩; simp; done)

theorem mem_admitted_trans {w : Tid} (hw : w ∈ s.admitted) (htr : Trans c s t s') : w ∈ s'.admitted := by
  obtain ⟨l, hl⟩ := admitted_trans htr
  rw [hl]; exact List.mem_append_left _ hw

theorem isOwner_stageFuel (p : Pc) : isOwner p = true → 0 < stageFuel p := by cases p <;> simp
theorem endPc_stageFuel (p : Pc) : endPc p = true → 0 < stageFuel p := by cases p <;> simp
theorem tokenPc_stageFuel (p : Pc) : tokenPc p = true → 0 < stageFuel p := by cases p <;> simp
theorem stageFuel_not_idle (p : Pc) : 0 < stageFuel p → p ≠ .idle ∧ p ≠ .done := by cases p <;> simp

theorem stage_pc (hi : Inv c n s) (hp : pending s ≠ []) : 0 < stageFuel (s.loc (stageThread s)).pc := by
  have hpc := pending_cases hi hp
  unfold stageThread
  rcases hwt : s.writeTxn with _ | u
  · rcases hl : s.lock with _ | v
    · rcases hwe : s.writeEvent with _ | e
      · simp [hwt, hl, hwe] at hpc
      · simp only []
        exact tokenPc_stageFuel _ (hi.ev.tok e hwe).2.2.1
    · by_cases hend : endPc (s.loc v).pc = true
      · simp only [hend, if_true]; exact endPc_stageFuel _ hend
      · simp only [hend]
        rcases hwe : s.writeEvent with _ | e
        · have hf : firstCS (s.loc v) = true := by
            rcases hpc with h1 | h1 | ⟨v', hv', h1 | h1⟩
            · exact absurd hwt h1
            · exact absurd hwe h1
            · rw [hl] at hv'; cases hv'; exact absurd h1 hend
            · rw [hl] at hv'; cases hv'; exact h1
          have hfl := hi.ev.failed v
          simp only [hwt, hwe] at hfl
          unfold firstCS at hf
          cases hpcv : (s.loc v).pc <;> simp_all
        · exact tokenPc_stageFuel _ (hi.ev.tok e hwe).2.2.1
  · exact isOwner_stageFuel _ ((hi.lk.own u).mpr hwt)

theorem stage_enabled (hi : Inv c n s) (hp : pending s ≠ []) :
    enabled s (stageThread s) ∨ ∃ v, s.lock = some v ∧ v ≠ stageThread s := by
  have hpos := stage_pc hi hp
  have hnd := (stageFuel_not_idle _ hpos).2
  rcases hl : s.lock with _ | v
  · left
    apply free_enabled hi hl hnd
    intro hw
    -- at `wait` with the lock free: the stage thread is the token holder and the token is set
    have hown := hi.lk.own (stageThread s)
    rw [hw] at hown
    unfold stageThread at hw hown ⊢
    rcases hwt : s.writeTxn with _ | u
    · rcases hwe : s.writeEvent with _ | e
      · have := pending_cases hi hp; simp [hwt, hl, hwe] at this
      · simp only [hwt, hl, hwe] at hw ⊢
        obtain ⟨_, hev, _, _, hset, _⟩ := hi.ev.tok e hwe
        refine ⟨e, hev, ?_⟩
        rcases hset with h1 | h1
        · exact h1
        · exact absurd hl h1.2.1
    · simp [hwt] at hown
  · by_cases hv : v = stageThread s
    · left; rw [← hv]; exact holder_enabled hi hl
    · exact .inr ⟨v, rfl, hv⟩

/-- the ranking step for a waiting writer -/
theorem writer_rank_step {sk sk' : Tid → Nat} {w : Tid} (hr : Reach c n s) (hw : w ∈ s.arrivals) (hna : w ∉ s.admitted)
    (hst : FStep c k s sk t s' sk') :
    rank k s' sk' (stageThread s') (stageM s' w) < rank k s sk (stageThread s) (stageM s w) := by
  have hi := reach_inv hr
  have hp := pending_ne_nil hr hw hna
  have htr := step_trans hst.step
  have hD := needD_pos hr hw hna
  have hidx := idxOf_trans hw htr
  apply rank_step hi hst
  · intro e
    rcases stage_self hi hp htr e.symm with h | ⟨h1, h2⟩
    · have hf := stageFuel_lt (s'.loc (stageThread s')).pc
      unfold stageM needD at *
      rw [hidx, h, List.length_append, List.length_singleton]
      omega
    · unfold stageM needD
      rw [hidx, h1]; omega
  · intro hne
    obtain ⟨h1, h2⟩ := stage_other hi hp htr hne
    refine ⟨h1, ?_⟩
    have hloc : s'.loc (stageThread s) = s.loc (stageThread s) := readerPc_other (fun e => hne e.symm) htr
    unfold stageM needD
    rw [hidx, h2, h1, hloc]
  · exact stage_enabled hi hp
  · exact (stageFuel_not_idle _ (stage_pc hi hp)).1

theorem rank_pos {sk : Tid → Nat} {σ : Tid} {m : Nat} (hm : 0 < m) : 0 < rank k s sk σ m := by
  unfold rank
  have h1 : 0 < m * (k + 1) := Nat.mul_pos hm (by omega)
  refine Nat.lt_of_lt_of_le (Nat.mul_pos ?_ (show 0 < k + 1 by omega)) (Nat.le_add_right _ _)
  omega

theorem writer_step_or {sk sk' : Tid → Nat} {w : Tid} (hr : Reach c n s) (hw : w ∈ s.arrivals)
    (hst : FStep c k s sk t s' sk') :
    w ∈ s'.admitted ∨
      rank k s' sk' (stageThread s') (stageM s' w) < rank k s sk (stageThread s) (stageM s w) := by
  by_cases hna : w ∈ s.admitted
  · exact .inl (mem_admitted_trans hna (step_trans hst.step))
  · exact .inr (writer_rank_step hr hw hna hst)

/-- along a fair execution a waiting writer is admitted, or the rank has gone down by the length of the execution -/
theorem writer_admitted_or_rank {sk sk' : Tid → Nat} {w : Tid} {L : Nat} (hr : Reach c n s) (hw : w ∈ s.arrivals)
    (hx : FairExec c n k s sk L s' sk') :
    w ∈ s'.admitted ∨
      (w ∈ s'.arrivals ∧ L + rank k s' sk' (stageThread s') (stageM s' w) ≤ rank k s sk (stageThread s) (stageM s w)) := by
  induction hx with
  | refl => exact .inr ⟨hw, by omega⟩
  | step t hx1 ht hst ih =>
    have hr1 := reach_of_reachFrom hr (reachFrom_of_fairExec hx1)
    have htr := step_trans hst.step
    rcases ih with ih | ⟨ihw, ih⟩
    · exact .inl (mem_admitted_trans ih htr)
    · rcases writer_step_or hr1 ihw hst with h | h
      · exact .inl h
      · exact .inr ⟨mem_arrivals_trans ihw htr, by omega⟩

/-- explicit bound: `360 * (d + 1) * (k + 1)^2` steps of a `k`-fair scheduler, where `d` is the number of admissions
still needed (queue position + token holder + 1) -/
def admitBound (k d : Nat) : Nat := 360 * (d + 1) * (k + 1) * (k + 1)

theorem eventually_admitted_aux {sk sk' : Tid → Nat} {w : Tid} {L : Nat} (hr : Reach c n s) (hw : w ∈ s.arrivals)
    (hx : FairExec c n k s sk L s' sk') (hL : admitBound k (needD s w) ≤ L) : w ∈ s'.admitted := by
  rcases writer_admitted_or_rank hr hw hx with h | ⟨hw', h⟩
  · exact h
  · apply Classical.byContradiction
    intro hna
    have hr' := reach_of_reachFrom hr (reachFrom_of_fairExec hx)
    have hD := needD_pos hr' hw' hna
    have hpos : 0 < rank k s' sk' (stageThread s') (stageM s' w) := rank_pos (by unfold stageM; omega)
    have hle := rank_le k s sk (stageThread s) (stageM s w)
    have hf := stageFuel_lt (s.loc (stageThread s)).pc
    have hm : stageM s w + 1 ≤ 40 * (needD s w + 1) := by unfold stageM; omega
    have h1 : 9 * (stageM s w + 1) * (k + 1) * (k + 1) ≤ admitBound k (needD s w) := by
      unfold admitBound
      have : 9 * (stageM s w + 1) ≤ 360 * (needD s w + 1) := by omega
      exact Nat.mul_le_mul_right _ (Nat.mul_le_mul_right _ this)
    omega

theorem not_idle_trans {u : Tid} (h : (s.loc u).pc ≠ .idle) (htr : Trans c s t s') : (s'.loc u).pc ≠ .idle := by
  cases htr <;> by_cases hu : u = t <;> simp_all

theorem done_trans {u : Tid} (h : (s.loc u).pc = .done) (htr : Trans c s t s') : (s'.loc u).pc = .done := by
  cases htr <;> by_cases hu : u = t <;> simp_all

/-- every own step of a reader uses up at least one unit of `readerFuel` (exactly one, except that a failed lookup
`reader(id=..)` skips to the release): no loop, no retry -/
theorem reader_step_fuel (hr : c.role t = .reader) (hp : readerPc (s.loc t).pc = true) (htr : Trans c s t s') :
    readerFuel (s'.loc t).pc + 1 ≤ readerFuel (s.loc t).pc := by
  cases htr <;> simp_all

/-- a reader that has started and is not finished can move unless somebody else holds the lock right now: nothing
about write transactions, the token or the queue appears -/
theorem reader_enabled (hi : Inv c n s) {r : Tid} (hp : readerPc (s.loc r).pc = true) (hd : (s.loc r).pc ≠ .done) :
    enabled s r ∨ ∃ v, s.lock = some v ∧ v ≠ r := by
  rcases hl : s.lock with _ | v
  · left
    apply free_enabled hi hl hd
    intro hw; rw [hw] at hp; cases hp
  · by_cases hv : v = r
    · subst hv; exact .inl (holder_enabled hi hl)
    · exact .inr ⟨v, rfl, hv⟩

theorem reader_rank_step {sk sk' : Tid → Nat} {r : Tid} (hr : Reach c n s) (hrole : c.role r = .reader)
    (hidle : (s.loc r).pc ≠ .idle) (hd : (s.loc r).pc ≠ .done) (hst : FStep c k s sk t s' sk') :
    rank k s' sk' r (readerFuel (s'.loc r).pc) < rank k s sk r (readerFuel (s.loc r).pc) := by
  have hi := reach_inv hr
  have hp := reader_pcs hr r hrole
  have htr := step_trans hst.step
  apply rank_step hi hst
  · intro e; subst e
    have := reader_step_fuel hrole hp htr; omega
  · intro hne
    exact ⟨rfl, by rw [readerPc_other (fun e => hne e.symm) htr]⟩
  · exact reader_enabled hi hp hd
  · exact hidle

theorem reader_step_or {sk sk' : Tid → Nat} {r : Tid} (hr : Reach c n s) (hrole : c.role r = .reader)
    (hidle : (s.loc r).pc ≠ .idle) (hst : FStep c k s sk t s' sk') :
    (s'.loc r).pc = .done ∨
      rank k s' sk' r (readerFuel (s'.loc r).pc) < rank k s sk r (readerFuel (s.loc r).pc) := by
  by_cases hd : (s.loc r).pc = .done
  · exact .inl (done_trans hd (step_trans hst.step))
  · exact .inr (reader_rank_step hr hrole hidle hd hst)

theorem not_idle_reachFrom {u : Tid} (h : (s.loc u).pc ≠ .idle) (hx : ReachFrom c n s s') : (s'.loc u).pc ≠ .idle := by
  induction hx with
  | refl => exact h
  | step v _ _ hs ih => exact not_idle_trans ih (step_trans hs)

/-- `readers_wait_free`, finitary form: along every `k`-fair execution a started reader is finished after at most
`rank` steps of the whole system, whatever the writers do -/
theorem reader_finishes {sk sk' : Tid → Nat} {r : Tid} {L : Nat} (hr : Reach c n s) (hrole : c.role r = .reader)
    (hidle : (s.loc r).pc ≠ .idle) (hx : FairExec c n k s sk L s' sk') :
    (s'.loc r).pc = .done ∨ L + rank k s' sk' r (readerFuel (s'.loc r).pc) ≤ rank k s sk r (readerFuel (s.loc r).pc) := by
  induction hx with
  | refl => right; omega
  | step t hx1 ht hst ih =>
    have hr1 := reach_of_reachFrom hr (reachFrom_of_fairExec hx1)
    have hidle1 := not_idle_reachFrom hidle (reachFrom_of_fairExec hx1)
    rcases ih with ih | ih
    · exact .inl (done_trans ih (step_trans hst.step))
    · rcases reader_step_or hr1 hrole hidle1 hst with h | h
      · exact .inl h
      · right; omega

/-- writer program points past the first `with self._version_lock` of `writer()` (the re-acquire `wAcq` apart) -/
def arrivedPc : Pc → Bool
  | .wTest | .wMkTxn | .wClrEv | .wRelA | .wNewEv | .wAppend | .wRelB | .wWait | .wSetupId | .wSetupCopy | .wReturn | .wBody | .cAcq | .cAppend | .cPrune | .cNodes | .cUndo | .rAcq | .eTxnNone | .eTestW | .ePop | .eSet | .eRel => true
  | _ => false

@[simp] theorem arrivedPc_idle : arrivedPc .idle = false := rfl
@[simp] theorem arrivedPc_wInit : arrivedPc .wInit = false := rfl
@[simp] theorem arrivedPc_wAcq : arrivedPc .wAcq = false := rfl
@[simp] theorem arrivedPc_wTest : arrivedPc .wTest = true := rfl
@[simp] theorem arrivedPc_wMkTxn : arrivedPc .wMkTxn = true := rfl
@[simp] theorem arrivedPc_wClrEv : arrivedPc .wClrEv = true := rfl
@[simp] theorem arrivedPc_wRelA : arrivedPc .wRelA = true := rfl
@[simp] theorem arrivedPc_wNewEv : arrivedPc .wNewEv = true := rfl
@[simp] theorem arrivedPc_wAppend : arrivedPc .wAppend = true := rfl
@[simp] theorem arrivedPc_wRelB : arrivedPc .wRelB = true := rfl
@[simp] theorem arrivedPc_wWait : arrivedPc .wWait = true := rfl
@[simp] theorem arrivedPc_wSetupId : arrivedPc .wSetupId = true := rfl
@[simp] theorem arrivedPc_wSetupCopy : arrivedPc .wSetupCopy = true := rfl
@[simp] theorem arrivedPc_wReturn : arrivedPc .wReturn = true := rfl
@[simp] theorem arrivedPc_wBody : arrivedPc .wBody = true := rfl
@[simp] theorem arrivedPc_cAcq : arrivedPc .cAcq = true := rfl
@[simp] theorem arrivedPc_cAppend : arrivedPc .cAppend = true := rfl
@[simp] theorem arrivedPc_cPrune : arrivedPc .cPrune = true := rfl
@[simp] theorem arrivedPc_cNodes : arrivedPc .cNodes = true := rfl
@[simp] theorem arrivedPc_cUndo : arrivedPc .cUndo = true := rfl
@[simp] theorem arrivedPc_rAcq : arrivedPc .rAcq = true := rfl
@[simp] theorem arrivedPc_eTxnNone : arrivedPc .eTxnNone = true := rfl
@[simp] theorem arrivedPc_eTestW : arrivedPc .eTestW = true := rfl
@[simp] theorem arrivedPc_ePop : arrivedPc .ePop = true := rfl
@[simp] theorem arrivedPc_eSet : arrivedPc .eSet = true := rfl
@[simp] theorem arrivedPc_eRel : arrivedPc .eRel = true := rfl
@[simp] theorem arrivedPc_rdAcq : arrivedPc .rdAcq = false := rfl
@[simp] theorem arrivedPc_rdPick : arrivedPc .rdPick = false := rfl
@[simp] theorem arrivedPc_rdFail : arrivedPc .rdFail = false := rfl
@[simp] theorem arrivedPc_rdAdd : arrivedPc .rdAdd = false := rfl
@[simp] theorem arrivedPc_rdRel : arrivedPc .rdRel = false := rfl
@[simp] theorem arrivedPc_rdRet : arrivedPc .rdRet = false := rfl
@[simp] theorem arrivedPc_rdBody : arrivedPc .rdBody = false := rfl
@[simp] theorem arrivedPc_xAcq : arrivedPc .xAcq = false := rfl
@[simp] theorem arrivedPc_xRemove : arrivedPc .xRemove = false := rfl
@[simp] theorem arrivedPc_xPrune : arrivedPc .xPrune = false := rfl
@[simp] theorem arrivedPc_xRel : arrivedPc .xRel = false := rfl
@[simp] theorem arrivedPc_done : arrivedPc .done = false := rfl

/-- the thread is a writer past its first critical section in `writer()` and not finished -/
def arrivedB (l : Local) : Prop := arrivedPc l.pc = true ∨ (l.pc = .wAcq ∧ l.ev ≠ none)

theorem arrived_trans (h : ∀ u, arrivedB (s.loc u) → u ∈ s.arrivals) (htr : Trans c s t s') :
    ∀ u, arrivedB (s'.loc u) → u ∈ s'.arrivals := by
  intro u
  have hu := h u
  have ht := h t
  unfold arrivedB at *
  cases htr <;> by_cases hut : u = t <;> simp_all

theorem arrived_mem (hr : Reach c n s) : ∀ u, arrivedB (s.loc u) → u ∈ s.arrivals := by
  induction hr with
  | init => intro u h; simp [init, arrivedB] at h
  | step t _ _ hs ih => exact arrived_trans ih (step_trans hs)

/-- a writer parked in `event.wait()` (or anywhere between its first critical section and its end) has arrived -/
theorem waiting_mem_arrivals (hr : Reach c n s) {w : Tid} (hw : (s.loc w).pc = .wWait) : w ∈ s.arrivals :=
  arrived_mem hr w (by simp [arrivedB, hw])

/-- for the owner of the event at queue position `j`, the admissions still needed are `j + 1` plus the token holder -/
theorem needD_of_queue (hr : Reach c n s) {j : Nat} {e : Ev} (hj : s.waiters[j]? = some e) :
    s.owner e ∈ s.arrivals ∧ needD s (s.owner e) = (tokPart s).length + j + 1 := by
  have hi := reach_inv hr
  have hp := queue_position hi.q hj
  have hn := (reach_invArr hr).nodup
  have hlt : s.admitted.length + (tokPart s).length + j < s.arrivals.length := by
    rcases Nat.lt_or_ge (s.admitted.length + (tokPart s).length + j) s.arrivals.length with h1 | h1
    · exact h1
    · rw [List.getElem?_eq_none h1] at hp; cases hp
  rw [List.getElem?_eq_getElem hlt] at hp
  have he := Option.some.inj hp
  refine ⟨he ▸ List.getElem_mem hlt, ?_⟩
  have := hn.idxOf_getElem _ hlt
  rw [he] at this
  unfold needD; rw [this]; omega

theorem tokPart_length_le (s : State) : (tokPart s).length ≤ 1 := by
  unfold tokPart; split <;> (try split) <;> simp

theorem admitBound_mono {k d d' : Nat} (h : d ≤ d') : admitBound k d ≤ admitBound k d' := by
  unfold admitBound
  exact Nat.mul_le_mul_right _ (Nat.mul_le_mul_right _ (Nat.mul_le_mul_left _ (by omega)))

/-! executable fair runs (for examples) -/
def fairRun (c : Cfg) (n k : Nat) : State → (Tid → Nat) → List Tid → Option (State × (Tid → Nat))
  | s, sk, [] => some (s, sk)
  | s, sk, t :: ts =>
    match step c s t with
    | some s' =>
      if t < n ∧ (List.range n).all (fun u => decide (skipUpd c s sk t u ≤ k)) then fairRun c n k s' (skipUpd c s sk t) ts
      else none
    | none => none

theorem FairExec.cons {sk sk1 sk' : Tid → Nat} {s1 : State} {L : Nat} (ht : t < n) (hst : FStep c k s sk t s1 sk1)
    (hx : FairExec c n k s1 sk1 L s' sk') : FairExec c n k s sk (L + 1) s' sk' := by
  induction hx with
  | refl => exact .step t (.refl s sk) ht hst
  | step u _ hu hsu ih => exact .step u (ih hst) hu hsu

theorem fairExec_of_fairRun : ∀ (sched : List Tid) (s : State) (sk : Tid → Nat) (s' : State) (sk' : Tid → Nat),
    (∀ u, n ≤ u → (s.loc u).pc = .idle ∧ sk u = 0) → fairRun c n k s sk sched = some (s', sk') →
    FairExec c n k s sk sched.length s' sk' := by
  intro sched
  induction sched with
  | nil => intro s sk s' sk' _ h; simp [fairRun] at h; obtain ⟨rfl, rfl⟩ := h; exact .refl s sk
  | cons t ts ih =>
    intro s sk s' sk' hpool h
    simp only [fairRun] at h
    cases hs : step c s t with
    | none => rw [hs] at h; cases h
    | some s1 =>
      rw [hs] at h
      simp only at h
      split at h
      · rename_i hc
        obtain ⟨htn, hall⟩ := hc
        have htr := step_trans hs
        have hpool' : ∀ u, n ≤ u → (s1.loc u).pc = .idle ∧ skipUpd c s sk t u = 0 := by
          intro u hu
          have hne : u ≠ t := by intro e; subst e; exact absurd htn (Nat.not_lt.mpr hu)
          refine ⟨by rw [readerPc_other hne htr]; exact (hpool u hu).1, ?_⟩
          simp [skipUpd, hne, (hpool u hu).1, (hpool u hu).2]
        have hfair : ∀ u, skipUpd c s sk t u ≤ k := by
          intro u
          rcases Nat.lt_or_ge u n with h1 | h1
          · have := List.all_eq_true.mp hall u (List.mem_range.mpr h1)
            simpa using this
          · rw [(hpool' u h1).2]; omega
        exact FairExec.cons htn ⟨hs, rfl, hfair⟩ (ih s1 _ s' sk' hpool' h)
      · cases h

theorem fairRun_pool : ∀ (sched : List Tid) (s : State) (sk : Tid → Nat) (s' : State) (sk' : Tid → Nat),
    (∀ u, n ≤ u → (s.loc u).pc = .idle ∧ sk u = 0) → fairRun c n k s sk sched = some (s', sk') →
    ∀ u, n ≤ u → (s'.loc u).pc = .idle ∧ sk' u = 0 := by
  intro sched
  induction sched with
  | nil => intro s sk s' sk' hp h; simp [fairRun] at h; obtain ⟨rfl, rfl⟩ := h; exact hp
  | cons t ts ih =>
    intro s sk s' sk' hpool h
    simp only [fairRun] at h
    cases hs : step c s t with
    | none => rw [hs] at h; cases h
    | some s1 =>
      rw [hs] at h
      simp only at h
      split at h
      · rename_i hc
        have htr := step_trans hs
        have hpool' : ∀ u, n ≤ u → (s1.loc u).pc = .idle ∧ skipUpd c s sk t u = 0 := by
          intro u hu
          have hne : u ≠ t := by intro e; subst e; exact absurd hc.1 (Nat.not_lt.mpr hu)
          refine ⟨by rw [readerPc_other hne htr]; exact (hpool u hu).1, ?_⟩
          simp [skipUpd, hne, (hpool u hu).1, (hpool u hu).2]
        exact ih s1 _ s' sk' hpool' h
      · cases h

end Model.Writers

import Model.ZoneFile
import Proofs.ZoneFileGenText
/-!
`_format_index` for the bases `o`, `x`, `X` of a `$GENERATE` modifier: the text is the index written in radix 8 / 16
(lower / upper case digits), zero-filled to the width; for `n` / `N` the reversed hex digits separated by dots, cut to
the width.
-/
namespace Model

/-- the value of a digit character `0-9a-fA-F` -/
def charDigit (c : Nat) : Nat :=
  if 48 ≤ c ∧ c ≤ 57 then c - 48 else if 97 ≤ c ∧ c ≤ 102 then c - 87 else if 65 ≤ c ∧ c ≤ 70 then c - 55 else 0

/-- the number a digit string denotes in radix `b` (`int(s, b)`) -/
def radixVal (b : Nat) : List Nat → Nat → Nat
  | [], acc => acc
  | c :: cs, acc => radixVal b cs (acc * b + charDigit c)

theorem charDigit_digitChar (u : Bool) (d : Nat) (h : d < 16) : charDigit (digitChar u d) = d := by
  unfold digitChar
  by_cases h10 : d < 10
  · simp only [h10, if_true]
    unfold charDigit
    have a : 48 ≤ 48 + d ∧ 48 + d ≤ 57 := by omega
    rw [if_pos a]; omega
  · cases u
    · simp only [h10, if_false, Bool.false_eq_true]
      unfold charDigit
      have a : ¬(48 ≤ 87 + d ∧ 87 + d ≤ 57) := by omega
      have b : 97 ≤ 87 + d ∧ 87 + d ≤ 102 := by omega
      rw [if_neg a, if_pos b]; omega
    · simp only [h10, if_false, if_true]
      unfold charDigit
      have a : ¬(48 ≤ 55 + d ∧ 55 + d ≤ 57) := by omega
      have b : ¬(97 ≤ 55 + d ∧ 55 + d ≤ 102) := by omega
      have c : 65 ≤ 55 + d ∧ 55 + d ≤ 70 := by omega
      rw [if_neg a, if_neg b, if_pos c]; omega

theorem digitChar_not_sign (u : Bool) (d : Nat) : digitChar u d ≠ 45 ∧ digitChar u d ≠ 43 := by
  unfold digitChar
  cases u <;> by_cases h10 : d < 10 <;> simp [h10] <;> omega

/-- the digits `toBaseAux` produces denote the number, continuing whatever was accumulated -/
theorem radixVal_toBaseAux (b : Nat) (hb : 2 ≤ b) (hb16 : b ≤ 16) (u : Bool) (f n : Nat) (acc : List Nat) (hf : n < f) :
    radixVal b (toBaseAux b u f n acc) 0 = radixVal b acc n := by
  induction f generalizing n acc with
  | zero => omega
  | succ f ih =>
    unfold toBaseAux
    by_cases h : n < b
    · simp only [h, if_true, radixVal, Nat.zero_mul, Nat.zero_add]
      rw [charDigit_digitChar u n (by omega)]
    · simp only [h, if_false]
      have hdiv : n / b < f := by
        have : n / b < n := Nat.div_lt_self (by omega) (by omega)
        omega
      rw [ih (n / b) _ hdiv]
      simp only [radixVal]
      rw [charDigit_digitChar u (n % b) (by have := Nat.mod_lt n (show b > 0 by omega); omega)]
      rw [Nat.div_add_mod' n b]

theorem toBaseAux_head (b : Nat) (hb : 2 ≤ b) (u : Bool) (f n : Nat) (acc : List Nat) (hf : n < f)
    (hacc : acc.head? ≠ some 45 ∧ acc.head? ≠ some 43) :
    (toBaseAux b u f n acc).head? ≠ some 45 ∧ (toBaseAux b u f n acc).head? ≠ some 43 ∧ toBaseAux b u f n acc ≠ [] := by
  induction f generalizing n acc with
  | zero => omega
  | succ f ih =>
    unfold toBaseAux
    by_cases h : n < b
    · have := digitChar_not_sign u n
      simp [h, this.1, this.2]
    · simp only [h, if_false]
      have hn : n / b < f := by
        have : n / b < n := Nat.div_lt_self (by omega) (by omega)
        omega
      have := digitChar_not_sign u (n % b)
      exact ih (n / b) _ hn (by simp [this.1, this.2])

theorem radixVal_zeros (b k : Nat) (ds : List Nat) : radixVal b (List.replicate k 48 ++ ds) 0 = radixVal b ds 0 := by
  induction k with
  | zero => rfl
  | succ k ih => simpa [List.replicate_succ, radixVal, charDigit] using ih

/-- the radix of a modifier base letter: `o` ↦ 8, `x`/`X` ↦ 16 -/
def radixOf (base : Nat) : Nat := if base = 111 then 8 else 16

/-- **bases `o`, `x`, `X`**: a non-negative index is printed in radix 8 / 16, left-filled with `0` up to the width: the
text denotes the index and is at least `width` long -/
theorem formatIndex_radix (base n w : Nat) (hbase : base = 111 ∨ base = 120 ∨ base = 88) :
    formatIndex (n : Int) base w =
      List.replicate (w - (formatInt (n : Int) base).length) 48 ++ formatInt (n : Int) base ∧
    radixVal (radixOf base) (formatIndex (n : Int) base w) 0 = n ∧ w ≤ (formatIndex (n : Int) base w).length := by
  have hmem : [100, 111, 120, 88].contains base = true := by
    rcases hbase with h | h | h <;> subst h <;> decide
  have hfi : formatInt (n : Int) base = toBaseAux (radixOf base) (base = 88) (n + 1) n [] := by
    unfold formatInt radixOf
    have hneg : ¬ ((n : Int) < 0) := by omega
    rcases hbase with h | h | h <;> subst h <;> simp [hneg]
  have hr : 2 ≤ radixOf base ∧ radixOf base ≤ 16 := by
    unfold radixOf; rcases hbase with h | h | h <;> subst h <;> decide
  obtain ⟨h1, h2, _⟩ := toBaseAux_head (radixOf base) hr.1 (base = 88) (n + 1) n [] (by omega) (by simp)
  have hz : formatIndex (n : Int) base w =
      List.replicate (w - (formatInt (n : Int) base).length) 48 ++ formatInt (n : Int) base := by
    unfold formatIndex
    simp only [hmem, if_true]
    rw [hfi]
    exact zfill_unsigned _ _ h1 h2
  refine ⟨hz, ?_, ?_⟩
  · rw [hz, radixVal_zeros, hfi, radixVal_toBaseAux _ hr.1 hr.2 _ _ _ _ (by omega)]
    rfl
  · rw [hz]; simp; omega

/-- **bases `n`, `N`** (nibble format, for `ip6.arpa` owners): the hex text of the index, zero-filled to the width,
reversed, its digits separated by dots and the result cut to `width` characters (upper-cased for `N`) -/
theorem formatIndex_nibble (i : Int) (w : Nat) :
    formatIndex i 110 w = (joinWith [46] ((zfill (formatInt i 120) w).reverse.map fun c => [c])).take w ∧
    formatIndex i 78 w = (formatIndex i 110 w).map upperAscii := by
  constructor <;> rfl

end Model

import Proofs.BTreeCowSess
/-!
Mechanism-level proofs, part 14: every operation of a session refines the persistent reference.
-/
namespace Model.BTreeCow
open Model.BTree

/-- the operations covered by the refinement theorem: a new tree needs `t ≥ 3` (the constructor's guard) and the
repaired `_delete` -/
def OpOk : Op → Prop
  | .new t _ ca => 3 ≤ t ∧ ca = true
  | _ => True

theorem abs_getElem? (s : Sess) (i : Nat) : s.abs[i]? = (s.hs[i]?).map (Handle.toTree s.w) := by
  simp [Sess.abs]

theorem treeWf_of_ok {w : World} {hd : Handle} (ok : TreeOk w hd) {h : Nat} (ht : HT w.heap h hd.root)
    (nd : (reach w.heap h hd.root).Nodup) (hw : Wf hd.t (absN w.heap h hd.root))
    (hsz : hd.size = (flat (absN w.heap h hd.root)).length) : TreeWf (Handle.toTree w hd) := by
  refine ⟨ok.t_ok, ?_, ?_⟩
  · simp only [Handle.toTree, handle_abs_eq ht nd]; exact hw
  · simp only [Handle.toTree, handle_abs_eq ht nd]; exact hsz

/-! ## `insert_element` -/

theorem step_insert {s : Sess} (ok : SessOk s) (i : Nat) (e : Elt) :
    SessOk (s.step (.insert i e)) ∧ (s.step (.insert i e)).abs = refStep s.abs (.insert i e) := by
  simp only [Sess.step, refStep]
  rw [abs_getElem?]
  cases hi : s.hs[i]? with
  | none => exact ⟨ok, rfl⟩
  | some hd =>
    simp only [Option.map_some]
    have okd := ok.trees hd (List.mem_of_getElem? hi)
    obtain ⟨h, t1, t2, t3, t4, t5⟩ := okd.tree
    have htr := handle_abs_eq t1 t2
    cases hm : hd.immutable with
    | true =>
      have e1 : hd.insert s.w e = (s.w, hd, .immutableErr) := by simp [Handle.insert, hm]
      have e2 : (Handle.toTree s.w hd).insert e = (Handle.toTree s.w hd, .immutableErr) :=
        frozen_insert e (by simp [Handle.toTree, hm])
      rw [e1, e2]
      simp only []
      rw [set_getElem?_self _ _ _ hi, set_getElem?_self _ _ _ (by rw [abs_getElem?, hi]; rfl)]
      exact ⟨ok, rfl⟩
    | false =>
      have ht2 : 2 ≤ hd.t := by have := okd.t_ok; omega
      have hsh := shape_of_wf t3 t1
      have htop : (rd s.w.heap hd.root).elts.length ≤ maxKeys hd.t := by
        have := t3.top; rwa [absN_elts] at this
      obtain ⟨h', u, hsh', hold, hcr⟩ := insertRoot_sim (c := hd.creator) ht2 hd.inOrder e t1 t2 hsh htop t3.sorted
      obtain ⟨p1, p2, p3⟩ := insertRoot_spec ht2 hd.inOrder e t3
      have p4 := insertRoot_rootOk ht2 hd.inOrder e t3 t4
      rcases hir : hInsertRoot hd.t hd.inOrder s.w.heap hd.creator hd.root e with ⟨H', r, old⟩
      rw [hir] at u hold hcr
      simp only [] at u hold hcr
      have e1 : hd.insert s.w e = ({ s.w with heap := H' },
          { hd with root := r, size := if old.isNone then hd.size + 1 else hd.size }, .ok old) := by
        simp [Handle.insert, hm, hir]
      rw [e1]
      simp only []
      -- the persistent side
      have e2 : ((Handle.toTree s.w hd).insert e).1 =
          ⟨hd.t, (insertRoot hd.t hd.inOrder (absN s.w.heap h hd.root) e).1,
            if old.isNone then hd.size + 1 else hd.size, hd.immutable, hd.inOrder, hd.collapseAlways, hd.collapseOnError⟩ := by
        simp only [Tree.insert, Handle.toTree, hm, Bool.false_eq_true, if_false, htr, hold]
      rw [e2]
      have hsz : (if old.isNone = true then hd.size + 1 else hd.size) =
          (flat (insertRoot hd.t hd.inOrder (absN s.w.heap h hd.root) e).1).length := by
        rw [p2, hold, p3]
        exact size_insert t3.sorted t5
      exact step_mut (hd' := { hd with root := r, size := if old.isNone then hd.size + 1 else hd.size })
        (tr' := ⟨hd.t, (insertRoot hd.t hd.inOrder (absN s.w.heap h hd.root) e).1,
            if old.isNone then hd.size + 1 else hd.size, hd.immutable, hd.inOrder, hd.collapseAlways, hd.collapseOnError⟩)
        ok hi hm t1 u ⟨rfl, rfl, rfl, rfl, rfl, rfl⟩ ⟨p1, p4, hsz⟩ rfl

/-! ## `_delete` -/

theorem step_delete {s : Sess} (ok : SessOk s) (i : Nat) (k : Nat) :
    SessOk (s.step (.delete i k)) ∧ (s.step (.delete i k)).abs = refStep s.abs (.delete i k) := by
  simp only [Sess.step, refStep]
  rw [abs_getElem?]
  cases hi : s.hs[i]? with
  | none => exact ⟨ok, rfl⟩
  | some hd =>
    simp only [Option.map_some]
    have okd := ok.trees hd (List.mem_of_getElem? hi)
    obtain ⟨h, t1, t2, t3, t4, t5⟩ := okd.tree
    have htr := handle_abs_eq t1 t2
    cases hm : hd.immutable with
    | true =>
      have e1 : hd.delete s.w k none = (s.w, hd, .immutableErr) := by simp [Handle.delete, hm]
      have e2 : (Handle.toTree s.w hd).delete k none = (Handle.toTree s.w hd, .immutableErr) :=
        frozen_delete k none (by simp [Handle.toTree, hm])
      rw [e1, e2]
      simp only []
      rw [set_getElem?_self _ _ _ hi, set_getElem?_self _ _ _ (by rw [abs_getElem?, hi]; rfl)]
      exact ⟨ok, rfl⟩
    | false =>
      have ht2 : 2 ≤ hd.t := by have := okd.t_ok; omega
      have hpos : h ≠ 0 → 1 ≤ (rd s.w.heap hd.root).elts.length := by
        intro h0
        rcases t4 with hl | hp
        · have hsh := shape_of_wf t3 t1
          have := (shape_isLeaf hsh).mp hl
          omega
        · rwa [absN_elts] at hp
      obtain ⟨h', u, hres⟩ := deleteRoot_sim (c := hd.creator) ht2 hd.collapseAlways k t1 t2 t3 hpos
      rw [okd.ca] at u hres
      obtain ⟨p1, p2, p3, p4⟩ := deleteRoot_intended ht2 k t3 t4
      rcases hdr : hDeleteRoot true hd.t s.w.heap hd.creator hd.root k none with ⟨H', r, res⟩
      rw [hdr] at u hres
      simp only [] at u hres
      rw [p4] at hres
      subst hres
      have e1 : hd.delete s.w k none = ({ s.w with heap := H' },
          { hd with root := r, size := if (lookup (flat (absN s.w.heap h hd.root)) k).isSome then hd.size - 1 else hd.size },
          .ok (lookup (flat (absN s.w.heap h hd.root)) k)) := by
        simp [Handle.delete, hm, okd.ca, hdr]
      rw [e1]
      simp only []
      have e2 : ((Handle.toTree s.w hd).delete k none).1 =
          ⟨hd.t, (deleteRoot true hd.t (absN s.w.heap h hd.root) k none).1,
            if (lookup (flat (absN s.w.heap h hd.root)) k).isSome then hd.size - 1 else hd.size,
            hd.immutable, hd.inOrder, hd.collapseAlways, hd.collapseOnError⟩ := by
        have hx : deleteRoot true hd.t (absN s.w.heap h hd.root) k none =
            ((deleteRoot true hd.t (absN s.w.heap h hd.root) k none).1, .ok (lookup (flat (absN s.w.heap h hd.root)) k)) := by
          rw [← p4]
        simp only [Tree.delete, Handle.toTree, hm, Bool.false_eq_true, if_false, htr, okd.ca]
        rw [hx]
      rw [e2]
      have hsz : (if (lookup (flat (absN s.w.heap h hd.root)) k).isSome = true then hd.size - 1 else hd.size) =
          (flat (deleteRoot true hd.t (absN s.w.heap h hd.root) k none).1).length := by
        rw [p3]
        exact size_delete t3.sorted t5
      exact step_mut
        (hd' := { hd with root := r, size := if (lookup (flat (absN s.w.heap h hd.root)) k).isSome then hd.size - 1 else hd.size })
        (tr' := ⟨hd.t, (deleteRoot true hd.t (absN s.w.heap h hd.root) k none).1,
            if (lookup (flat (absN s.w.heap h hd.root)) k).isSome then hd.size - 1 else hd.size,
            hd.immutable, hd.inOrder, hd.collapseAlways, hd.collapseOnError⟩)
        ok hi hm t1 u ⟨rfl, rfl, rfl, rfl, rfl, rfl⟩ ⟨p1, p2, hsz⟩ rfl

end Model.BTreeCow

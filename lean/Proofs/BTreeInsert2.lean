import Proofs.BTreeInsert
/-!
Layer L2, continued: the `while True` loop of `insert_nonfull` (pre-emptive split + adopt + search again),
the recursion, and the root handling of `insert_element`.
-/
namespace Model.BTree

theorem mem_LF_of_mem {cl : List Node} {el : List Elt} {x : Elt} (h : x ∈ el) : x ∈ LF cl el :=
  (elts_sublist (cl.map flat) el).subset h

theorem mem_RF_of_mem {cr : List Node} {er : List Elt} {x : Elt} (h : x ∈ er) : x ∈ RF cr er :=
  (elts_sublist ([] :: cr.map flat) er).subset h

/-- `adopt(*child.split())` for the maximal child at the search index: the separator goes to the same
index, the right half right after the left half; the parent's flattening is unchanged. -/
theorem adopt_after_split {t h : Nat} {el er : List Elt} {cl cr : List Node} {c : Node} (ht : 1 ≤ t)
    (hk : Kids t h (el ++ er) (cl ++ c :: cr)) (hcl : cl.length = el.length)
    (hs : Sorted (flat (.node (el ++ er) (cl ++ c :: cr)))) (hmax : c.elts.length = maxKeys t) :
    adopt (el ++ er) (setAt (cl ++ c :: cr) el.length (split t c).1) (split t c).1 (split t c).2.1 (split t c).2.2
      = (el ++ (split t c).2.1 :: er, cl ++ (split t c).1 :: (split t c).2.2 :: cr) ∧
    Kids t h (el ++ (split t c).2.1 :: er) (cl ++ (split t c).1 :: (split t c).2.2 :: cr) ∧
    flat (.node (el ++ (split t c).2.1 :: er) (cl ++ (split t c).1 :: (split t c).2.2 :: cr))
      = flat (.node (el ++ er) (cl ++ c :: cr)) ∧
    (split t c).1.elts.length = minKeys t ∧ (split t c).2.2.elts.length = minKeys t := by
  obtain ⟨hl, hr, hll, hrl, hflat⟩ := split_spec ht (hk.2 c (by simp)).1 hmax
  generalize split t c = sp at *
  obtain ⟨l, m, r⟩ := sp
  simp only at hl hr hll hrl hflat ⊢
  have hes := sorted_elts hs
  rw [flat_node_split el er cl c cr hcl] at hs
  have ⟨hs1, _, hcross⟩ := sorted_append_iff.mp hs
  have ⟨_, _, hcrossL⟩ := sorted_append_iff.mp hs1
  have hm : m ∈ flat c := by rw [hflat]; simp
  have hel : ∀ x ∈ el, x.1 < m.1 := fun x hx => hcrossL x (mem_LF_of_mem hx) m hm
  have her : ∀ x ∈ er, m.1 < x.1 := fun x hx => hcross m (by simp [hm]) x (mem_RF_of_mem hx)
  have hsearch := search_unique_lt hes hel her
  have hocc : ∀ x : Node, x.elts.length = minKeys t → Occ t x := by
    intro x hx; simp only [Occ, hx, minKeys, maxKeys]; omega
  refine ⟨?_, kids_split2 hk ⟨hl, hocc l hll⟩ ⟨hr, hocc r hrl⟩, ?_, hll, hrl⟩
  · simp only [adopt, hsearch, insAt_at rfl, setAt_at hcl]
    have : (cl ++ l :: cr).isEmpty = false := by simp
    simp [this, insAt_at_succ hcl]
  · rw [flat_node_split2 _ _ _ _ _ _ _ hcl, flat_node_split el er cl c cr hcl, hflat]

/-- the result of one pass of the loop that does not split: found and replaced, or descended -/
structure PassSpec (t h : Nat) (es : List Elt) (cs : List Node) (e : Elt) (r : Node × Option Elt) : Prop where
  shape : Shape t (h + 1) r.1
  flat_eq : flat r.1 = insSorted e (flat (.node es cs))
  ret : r.2 = lookup (flat (.node es cs)) e.1
  len : r.1.elts.length = es.length

theorem insLoop_pass {t h : Nat} {io : Bool} {rec : Node → Node × Option Elt} {e : Elt} {es : List Elt}
    {cs : List Node} (k : Nat) (hk : Kids t h es cs) (hs : Sorted (flat (.node es cs)))
    (hrec : ∀ c, Shape t h c → Sorted (flat c) → c.elts.length < maxKeys t → InsSpec t h c e (rec c))
    (hgood : ∀ i, searchInNode es e.1 = (i, false) → (kidAt cs i).elts.length < maxKeys t) :
    PassSpec t h es cs e (insLoop t io rec e (k + 1) es cs) := by
  have hes := sorted_elts hs
  unfold insLoop
  rcases search_cases e.1 hes with ⟨el, er, rfl, hl, hr, hres⟩ | ⟨el, e0, er, rfl, h0, hl, hr, hres⟩
  · obtain ⟨cl, c, cr, rfl, hcl, hcr⟩ := kids_split hk.1
    have hnm := hgood _ hres
    rw [kidAt_at hcl] at hnm
    have hnotmax : isMaximal t c = false := by simp [isMaximal]; omega
    simp only [hres, Bool.false_eq_true, if_false, kidAt_at hcl, hnotmax, setAt_at hcl]
    have hs' := hs
    rw [flat_node_split el er cl c cr hcl] at hs'
    have hsc := (sorted_append_iff.mp (sorted_append_iff.mp hs').1).2.1
    have hc := hrec c (hk.2 c (by simp)).1 hsc hnm
    rcases hrc : rec c with ⟨c', old⟩
    rw [hrc] at hc
    have hd := ins_descend_spec hk hcl hs hl hr hc hnm
    simp only []
    cases io with
    | false =>
      exact ⟨hd.shape, hd.flat_eq, hd.ret, by simp [Node.elts]⟩
    | true =>
      simp only [if_true]
      have hk' : Kids t h (el ++ er) (cl ++ c' :: cr) := shape_node_iff.mp hd.shape
      obtain ⟨o1, o2, o3⟩ := optimize_spec (el ++ er) (cl ++ c' :: cr) el.length hk'
      refine ⟨shape_node_iff.mpr o1, ?_, hd.ret, by simpa [Node.elts] using o2⟩
      rw [o3]; exact hd.flat_eq
  · have hf := ins_found_spec hk hs h0
    simp only [hres, if_true, setAt_at rfl, eltAt_at rfl]
    exact ⟨hf.shape, hf.flat_eq, hf.ret, by simp [Node.elts]⟩

/-- no key of a node equals a key that the search does not find -/
theorem search_false_not_mem {es : List Elt} {k i : Nat} (hs : Sorted es) (h : searchInNode es k = (i, false)) :
    ∀ x ∈ es, x.1 ≠ k := by
  rcases search_cases k hs with ⟨el, er, rfl, hl, hr, _⟩ | ⟨el, e0, er, rfl, h0, hl, hr, hres⟩
  · intro x hx
    rcases List.mem_append.mp hx with hx | hx
    · have := hl x hx; omega
    · have := hr x hx; omega
  · rw [hres] at h; simp at h

theorem insLoop_spec {t h : Nat} {io : Bool} {rec : Node → Node × Option Elt} {e : Elt} {es : List Elt}
    {cs : List Node} (ht : 2 ≤ t) (hk : Kids t h es cs) (hs : Sorted (flat (.node es cs)))
    (hnf : es.length < maxKeys t)
    (hrec : ∀ c, Shape t h c → Sorted (flat c) → c.elts.length < maxKeys t → InsSpec t h c e (rec c)) :
    InsSpec t (h + 1) (.node es cs) e (insLoop t io rec e 2 es cs) := by
  have hes := sorted_elts hs
  by_cases hgood : ∀ i, searchInNode es e.1 = (i, false) → (kidAt cs i).elts.length < maxKeys t
  · have hp : PassSpec t h es cs e (insLoop t io rec e 2 es cs) := insLoop_pass (io := io) 1 hk hs hrec hgood
    have hlen := hp.len
    exact ⟨hp.shape, hp.flat_eq, hp.ret, by rw [hlen]; simp [Node.elts], by rw [hlen]; simp [Node.elts]⟩
  · -- the child at the search index is maximal: split, adopt, search again
    rcases search_cases e.1 hes with ⟨el, er, rfl, hl, hr, hres⟩ | ⟨el, e0, er, rfl, h0, hl, hr, hres⟩
    · obtain ⟨cl, c, cr, rfl, hcl, hcr⟩ := kids_split hk.1
      have hmax : c.elts.length = maxKeys t := by
        have hocc := (hk.2 c (by simp)).2.2
        apply Nat.le_antisymm hocc
        apply Nat.le_of_not_lt
        intro hlt
        apply hgood
        intro i hi
        rw [hres] at hi
        simp only [Prod.mk.injEq, and_true] at hi
        subst hi
        rw [kidAt_at hcl]; exact hlt
      obtain ⟨had, hk', hflat', hll, hrl⟩ := adopt_after_split (by omega) hk hcl hs hmax
      have hismax : isMaximal t c = true := by simp [isMaximal, hmax]
      unfold insLoop
      simp only [hres, Bool.false_eq_true, if_false, kidAt_at hcl, hismax, if_true]
      generalize split t c = sp at *
      obtain ⟨l, m, r⟩ := sp
      simp only at had hk' hflat' hll hrl ⊢
      rw [had]
      simp only []
      have hs2 : Sorted (flat (.node (el ++ m :: er) (cl ++ l :: r :: cr))) := by rw [hflat']; exact hs
      have hes2 := sorted_elts hs2
      have hgood2 : ∀ i, searchInNode (el ++ m :: er) e.1 = (i, false) →
          (kidAt (cl ++ l :: r :: cr) i).elts.length < maxKeys t := by
        intro i hi
        have hne := search_false_not_mem hes2 hi m (by simp)
        have hsm := sorted_append_iff.mp hes2
        rcases Nat.lt_or_gt_of_ne hne with hlt | hgt
        · -- m.1 < e.1: the index is |el| + 1, the child is r
          have h1 : ∀ x ∈ el ++ [m], x.1 < e.1 := by
            intro x hx
            rcases List.mem_append.mp hx with hx | hx
            · exact hl x hx
            · simp at hx; subst hx; exact hlt
          have := search_unique_lt (el := el ++ [m]) (er := er) (by simpa using hes2) h1 hr
          simp only [List.append_assoc, List.singleton_append, List.length_append, List.length_cons,
            List.length_nil] at this
          rw [this] at hi
          simp only [Prod.mk.injEq, and_true] at hi
          subst hi
          rw [kidAt_at_succ hcl, hrl]; simp only [minKeys, maxKeys]; omega
        · have h2 : ∀ x ∈ m :: er, e.1 < x.1 := by
            intro x hx
            rcases List.mem_cons.mp hx with rfl | hx
            · exact hgt
            · exact hr x hx
          have := search_unique_lt (el := el) (er := m :: er) hes2 hl h2
          rw [this] at hi
          simp only [Prod.mk.injEq, and_true] at hi
          subst hi
          rw [kidAt_at hcl, hll]; simp only [minKeys, maxKeys]; omega
      have hp : PassSpec t h (el ++ m :: er) (cl ++ l :: r :: cr) e
          (insLoop t io rec e 1 (el ++ m :: er) (cl ++ l :: r :: cr)) := insLoop_pass (io := io) 0 hk' hs2 hrec hgood2
      have hlen := hp.len
      refine ⟨hp.shape, ?_, ?_, ?_, ?_⟩
      · rw [hp.flat_eq, hflat']
      · rw [hp.ret, hflat']
      · rw [hlen]; simp [Node.elts]
      · rw [hlen]; simp [Node.elts]; omega
    · exfalso
      apply hgood
      intro i hi
      rw [hres] at hi
      simp at hi

/-- L2 core: `insert_nonfull` on a non-full well-shaped sorted subtree -/
theorem insertNonfull_spec {t : Nat} (ht : 2 ≤ t) (io : Bool) (e : Elt) : ∀ (h : Nat) (n : Node),
    Shape t h n → Sorted (flat n) → n.elts.length < maxKeys t →
    InsSpec t h n e (insertNonfull t io h n e) := by
  intro h
  induction h with
  | zero =>
    intro n hn hs _
    obtain ⟨es, rfl⟩ := shape_zero hn
    exact ins_leaf_spec t io 0 es e (by simpa using hs)
  | succ h ih =>
    intro n hn hs hnf
    obtain ⟨es, cs, rfl, hlen, hkids⟩ := shape_succ hn
    unfold insertNonfull
    exact insLoop_spec ht ⟨hlen, hkids⟩ hs (by simpa [Node.elts] using hnf) (fun c hc hsc hcn => ih c hc hsc hcn)

/-! ## the root: `insert_element` -/

theorem searchInNode_nil (k : Nat) : searchInNode [] k = (0, false) := by
  simp [searchInNode, bsearch]

theorem growRoot_spec {t h : Nat} {n : Node} (ht : 2 ≤ t) (hn : Shape t h n) (htop : n.elts.length ≤ maxKeys t) :
    ∃ h', Shape t h' (growRoot t n) ∧ (growRoot t n).elts.length < maxKeys t ∧ flat (growRoot t n) = flat n := by
  unfold growRoot
  by_cases hmax : n.elts.length = maxKeys t
  · have : isMaximal t n = true := by simp [isMaximal, hmax]
    simp only [this, if_true]
    obtain ⟨hl, hr, hll, hrl, hflat⟩ := split_spec (by omega) hn hmax
    generalize split t n = sp at *
    obtain ⟨l, m, r⟩ := sp
    simp only at hl hr hll hrl hflat ⊢
    have hocc : ∀ x : Node, x.elts.length = minKeys t → Occ t x := by
      intro x hx; simp only [Occ, hx, minKeys, maxKeys]; omega
    refine ⟨h + 1, ?_, ?_, ?_⟩
    · simp only [adopt, searchInNode_nil, insAt, List.isEmpty_nil, if_true, List.take_nil, List.drop_nil,
        List.nil_append]
      refine shape_node_iff.mpr ⟨by simp, ?_⟩
      intro c hc
      simp at hc
      rcases hc with rfl | rfl
      · exact ⟨hl, hocc _ hll⟩
      · exact ⟨hr, hocc _ hrl⟩
    · simp [adopt, searchInNode_nil, insAt, Node.elts, maxKeys]; omega
    · simp [adopt, searchInNode_nil, insAt, inter, hflat]
  · have : isMaximal t n = false := by simp [isMaximal, hmax]
    simp only [this, Bool.false_eq_true, if_false]
    exact ⟨h, hn, by omega, trivial⟩

/-- L2 at the root: `insert_element` preserves well-formedness and refines sorted insertion -/
theorem insertRoot_spec {t : Nat} (ht : 2 ≤ t) (io : Bool) (e : Elt) {n : Node} (hw : Wf t n) :
    Wf t (insertRoot t io n e).1 ∧
    flat (insertRoot t io n e).1 = insSorted e (flat n) ∧
    (insertRoot t io n e).2 = lookup (flat n) e.1 := by
  obtain ⟨h, hn⟩ := hw.shape
  obtain ⟨h', hg, hlt, hfl⟩ := growRoot_spec ht hn hw.top
  unfold insertRoot
  simp only []
  rw [height_of_shape hg]
  have hsp := insertNonfull_spec ht io e h' (growRoot t n) hg (by rw [hfl]; exact hw.sorted) hlt
  refine ⟨⟨⟨h', hsp.shape⟩, ?_, ?_⟩, ?_, ?_⟩
  · have := hsp.len_hi; omega
  · rw [hsp.flat_eq, hfl]; exact insSorted_sorted hw.sorted
  · rw [hsp.flat_eq, hfl]
  · rw [hsp.ret, hfl]

end Model.BTree

import Proofs.WritersBase
/-!
Serial equivalence: the zone content is the fold of the committed transaction bodies in admission order; every element of
`versions` is the result of applying a prefix of the admitted committing transactions; readers hold elements of `versions`.
-/
set_option linter.unusedSimpArgs false
namespace Model.Writers

/-- the thread's transaction changes the zone and its commit goes through (the pruning policy does not raise) -/
def willCommit (c : Cfg) (t : Tid) : Bool := c.role t == .writer true && !c.pruneFails t

/-- what a transaction starts from: the zone as of its admission, or nothing for `writer(replacement=True)` -/
def baseOf (c : Cfg) (t : Tid) (zone : Content) : Content := if c.repl t then [] else zone

/-- serial application of transaction bodies, starting from the empty zone (a replacement transaction discards what
was there) -/
def applyTxns (c : Cfg) (ts : List Tid) : Content := ts.foldl (fun acc t => c.body t (baseOf c t acc)) []

/-- admitted transactions that commit, in admission order -/
def admittedCommitters (c : Cfg) (s : State) : List Tid := s.admitted.filter (willCommit c)

/-- the open transaction, if it will commit and has not yet published its nodes -/
def curCommitter (c : Cfg) (s : State) : List Tid :=
  match s.writeTxn with
  | some u => if willCommit c u && preCommitPc (s.loc u).pc then [u] else []
  | none => []

/-- 1 while the new version is appended but `zone.nodes` is not yet replaced -/
def nAppended (s : State) : Nat :=
  match s.writeTxn with
  | some u => if appendedPc (s.loc u).pc then 1 else 0
  | none => 0

structure InvSer (c : Cfg) (s : State) : Prop where
  nodes : s.nodes = applyTxns c s.committed
  ac : admittedCommitters c s = s.committed ++ curCommitter c s
  snapA : ∀ t, snapAPc (s.loc t).pc = true → (s.loc t).snap = baseOf c t s.nodes
  snapB : ∀ t, commitPc (s.loc t).pc = true → (s.loc t).snap = c.body t (baseOf c t s.nodes)
  vid : ∀ t, vidPc (s.loc t).pc = true → (s.loc t).vid = s.versions.length + 1
  role : ∀ t, commitPc (s.loc t).pc = true → c.role t = .writer true
  /-- only a commit whose pruning went through reaches `self.nodes = version.nodes` -/
  okC : ∀ t, (s.loc t).pc = .cNodes → c.pruneFails t = false
  undoF : ∀ t, (s.loc t).pc = .cUndo → c.pruneFails t = true
  /-- the published versions: the first `committed.length + 1` elements -/
  versions : ∀ i v, i ≤ s.committed.length → s.versions[i]? = some v →
    v = (i + 1, applyTxns c ((admittedCommitters c s).take i))
  /-- the element appended by a commit in progress (it is withdrawn again if the pruning policy raises) -/
  lastV : ∀ t, appendedPc (s.loc t).pc = true →
    s.versions[s.committed.length + 1]? = some (s.committed.length + 2, c.body t (baseOf c t s.nodes))
  vlen : s.versions.length = s.committed.length + 1 + nAppended s
  /-- readers hold published versions only -/
  rver : ∀ t, readerHasPc (s.loc t).pc = true → (s.loc t).rver ∈ s.versions.take (s.committed.length + 1)

theorem invSer_init (c : Cfg) : InvSer c init := by
  constructor <;> simp [init, applyTxns, admittedCommitters, curCommitter, nAppended]
  intro i v hi h
  cases i <;> simp_all

variable {c : Cfg} {s s' : State} {t : Tid}

macro "ser_facts " s:ident hL:ident h:ident u:term : tactic =>
  `(tactic| (have := ($hL).lock $u; have := ($hL).own $u;
             have := ($h).snapA $u; have := ($h).snapB $u; have := ($h).vid $u; have := ($h).role $u;
             have := ($h).okC $u; have := ($h).undoF $u; have := ($h).lastV $u; have := appendedPc_owner (State.loc $s $u).pc;
             have := snapAPc_owner (State.loc $s $u).pc; have := commitPc_owner (State.loc $s $u).pc;
             have := vidPc_owner (State.loc $s $u).pc))

macro "pres_ser " s:ident hL:ident h:ident t:ident u:ident old:term : tactic =>
  `(tactic| (by_cases hu : $u = $t <;>
    first
    | (subst hu; simp; done)
    | (simp only [setLoc_loc, if_neg hu, setLoc_nodes, setLoc_versions, setLoc_committed]; exact $old)
    | (ser_facts $s $hL $h $t; ser_facts $s $hL $h $u; (simp_all [willCommit, baseOf] <;> grind))))

theorem own_ne_of_pc (hL : InvLock s) (hp : isOwner (s.loc t).pc = false) : s.writeTxn ≠ some t := by
  intro h; have := (hL.own t).mpr h; simp [hp] at this

theorem own_eq_of_pc (hL : InvLock s) (hp : isOwner (s.loc t).pc = true) : s.writeTxn = some t := (hL.own t).mp hp

theorem nAppended_setLoc_ne {x : State} {t : Tid} (l : Local) (hne : x.writeTxn ≠ some t) :
    nAppended (x.setLoc t l) = nAppended x := by
  unfold nAppended
  rcases hw : x.writeTxn with _ | u
  · simp [hw]
  · have : u ≠ t := by intro e; apply hne; rw [hw, e]
    simp [hw, this]

theorem nAppended_setLoc_self {x : State} {t : Tid} (l : Local) (hw : x.writeTxn = some t) :
    nAppended (x.setLoc t l) = if appendedPc l.pc then 1 else 0 := by
  simp [nAppended, hw]

theorem nAppended_of_own {x : State} {t : Tid} (hw : x.writeTxn = some t) :
    nAppended x = if appendedPc (x.loc t).pc then 1 else 0 := by
  simp [nAppended, hw]

theorem versions_ne_nil (h : InvSer c s) : s.versions ≠ [] := by
  intro e; have hl := h.vlen; rw [e] at hl; simp at hl; omega

theorem getLastD_eq {α} (l : List α) (d : α) (hne : l ≠ []) : l.getLastD d = l.getLast hne := by
  cases l with
  | nil => exact absurd rfl hne
  | cons a t => simp [List.getLastD_eq_getLast?, List.getLast?_eq_some_getLast]

theorem lastVersion_mem (h : InvSer c s) : s.lastVersion ∈ s.versions := by
  unfold State.lastVersion
  rw [getLastD_eq _ _ (versions_ne_nil h)]
  exact List.getLast_mem _

/-- when no commit is in progress the newest version is the last published one and its id is the length -/
theorem lastId_eq (h : InvSer c s) (h0 : nAppended s = 0) : s.lastId = s.versions.length := by
  have hne := versions_ne_nil h
  have hpos := List.length_pos_iff.mpr hne
  have hl := h.vlen
  unfold State.lastId State.lastVersion
  rw [getLastD_eq _ _ hne, List.getLast_eq_getElem]
  have hi : s.versions[s.versions.length - 1]? = some (s.versions[s.versions.length - 1]'(by omega)) := by simp
  rw [h.versions _ _ (by omega) hi]
  simp; omega

theorem take_all_of_idle (h : InvSer c s) (h0 : nAppended s = 0) : s.versions.take (s.committed.length + 1) = s.versions := by
  have hl := h.vlen
  exact List.take_of_length_le (by omega)

set_option maxHeartbeats 1000000 in
theorem snapA_step (hL : InvLock s) (h : InvSer c s) (htr : Trans c s t s') :
    ∀ u, snapAPc (s'.loc u).pc = true → (s'.loc u).snap = baseOf c u s'.nodes := by
  cases htr <;> intro u <;> pres_ser s hL h t u (h.snapA u)

set_option maxHeartbeats 1000000 in
theorem snapB_step (hL : InvLock s) (h : InvSer c s) (htr : Trans c s t s') :
    ∀ u, commitPc (s'.loc u).pc = true → (s'.loc u).snap = c.body u (baseOf c u s'.nodes) := by
  cases htr <;> intro u <;> pres_ser s hL h t u (h.snapB u)

set_option maxHeartbeats 1000000 in
theorem vid_step (hL : InvLock s) (h : InvSer c s) (htr : Trans c s t s') :
    ∀ u, vidPc (s'.loc u).pc = true → (s'.loc u).vid = s'.versions.length + 1 := by
  cases htr
  case wSetupId hpc =>
    intro u
    have hw := own_eq_of_pc hL (t := t) (by simp [hpc])
    have hn : nAppended s = 0 := by simp [nAppended, hw, hpc]
    have := lastId_eq h hn
    pres_ser s hL h t u (h.vid u)
  all_goals (intro u; pres_ser s hL h t u (h.vid u))

set_option maxHeartbeats 1000000 in
theorem role_step (hL : InvLock s) (h : InvSer c s) (htr : Trans c s t s') :
    ∀ u, commitPc (s'.loc u).pc = true → c.role u = .writer true := by
  cases htr <;> intro u <;> pres_ser s hL h t u (h.role u)

set_option maxHeartbeats 1000000 in
theorem undoF_step (hL : InvLock s) (h : InvSer c s) (htr : Trans c s t s') :
    ∀ u, (s'.loc u).pc = .cUndo → c.pruneFails u = true := by
  cases htr <;> intro u <;> pres_ser s hL h t u (h.undoF u)

set_option maxHeartbeats 1000000 in
theorem okC_step (hL : InvLock s) (h : InvSer c s) (htr : Trans c s t s') :
    ∀ u, (s'.loc u).pc = .cNodes → c.pruneFails u = false := by
  cases htr <;> intro u <;> pres_ser s hL h t u (h.okC u)

theorem applyTxns_snoc (c : Cfg) (ts : List Tid) (t : Tid) :
    applyTxns c (ts ++ [t]) = c.body t (baseOf c t (applyTxns c ts)) := by
  simp [applyTxns, List.foldl_append]

theorem nodes_step (hL : InvLock s) (h : InvSer c s) (htr : Trans c s t s') : s'.nodes = applyTxns c s'.committed := by
  have h0 := h.nodes
  cases htr <;> simp only [setLoc_nodes, setLoc_committed] <;> try exact h0
  case cNodes hpc =>
    rw [applyTxns_snoc, ← h0]
    exact h.snapB t (by simp [hpc])

/-- `curCommitter` only looks at the owner -/
theorem curCommitter_setLoc_ne {x : State} {t : Tid} (l : Local) (hne : x.writeTxn ≠ some t) :
    curCommitter c (x.setLoc t l) = curCommitter c x := by
  unfold curCommitter
  rcases hw : x.writeTxn with _ | u
  · simp [hw]
  · have : u ≠ t := by intro e; apply hne; rw [hw, e]
    simp [hw, this]

theorem curCommitter_setLoc_self {x : State} {t : Tid} (l : Local) (hw : x.writeTxn = some t) :
    curCommitter c (x.setLoc t l) = if willCommit c t && preCommitPc l.pc then [t] else [] := by
  simp [curCommitter, hw]

theorem curCommitter_of_own {x : State} {t : Tid} (hw : x.writeTxn = some t) :
    curCommitter c x = if willCommit c t && preCommitPc (x.loc t).pc then [t] else [] := by
  simp [curCommitter, hw]

set_option maxHeartbeats 1000000 in
theorem ac_step (hL : InvLock s) (h : InvSer c s) (htr : Trans c s t s') :
    admittedCommitters c s' = s'.committed ++ curCommitter c s' := by
  have h0 := h.ac
  unfold admittedCommitters at h0 ⊢
  cases htr <;> simp only [setLoc_admitted, setLoc_committed]
  -- not the owner before and after: nothing relevant changes
  case idleW hpc _ | idleR hpc _ | wInit hpc | wAcqFirst hpc _ _ | wAcqAgain hpc _ _ | wTestOk hpc _ _ | wTestFail hpc _
      | wNewEv hpc | wAppend _ hpc _ | wRelB hpc | wWait _ hpc _ _ | eTestWSome hpc _ | eTestWNone hpc _ | ePop _ _ hpc _
      | eSet _ hpc _ | eRel hpc | rdAcq hpc _ | rdPick hpc _ | rdPickId _ _ hpc _ _ | rdPickMiss hpc | rdFail hpc | rdAdd hpc | rdRel hpc | rdRet hpc | rdBody hpc | xAcq hpc _
      | xRemove hpc | xPrune hpc | xRel hpc =>
    rw [curCommitter_setLoc_ne]
    · exact h0
    · show s.writeTxn ≠ some t
      exact own_ne_of_pc hL (by simp [hpc])
  -- the owner moves along, still before publishing (or never publishing)
  case wClrEv hpc | wRelA hpc | wSetupId hpc | wSetupCopy hpc | wReturn hpc | wBodyC hpc _ | cAcq hpc _ | cAppend hpc
      | cPrune hpc _ | rAcq hpc _ =>
    have hw := own_eq_of_pc hL (t := t) (by simp [hpc])
    rw [curCommitter_of_own hw] at h0
    rw [curCommitter_setLoc_self]
    · simpa [hpc] using h0
    · exact hw
  case cPruneFail hpc hf =>
    have hw := own_eq_of_pc hL (t := t) (by simp [hpc])
    have : willCommit c t = false := by simp [willCommit, hf]
    rw [curCommitter_of_own hw] at h0
    rw [curCommitter_setLoc_self]
    · simpa [hpc, this] using h0
    · exact hw
  case cUndo hpc =>
    have hw := own_eq_of_pc hL (t := t) (by simp [hpc])
    have : willCommit c t = false := by simp [willCommit, h.undoF t hpc]
    rw [curCommitter_of_own hw] at h0
    rw [curCommitter_setLoc_self]
    · simpa [hpc, this] using h0
    · exact hw
  case wBodyR hpc hr =>
    have hw := own_eq_of_pc hL (t := t) (by simp [hpc])
    have : willCommit c t = false := by simp [willCommit]; intro h; exact absurd h hr
    rw [curCommitter_of_own hw] at h0
    rw [curCommitter_setLoc_self]
    · simpa [hpc, this] using h0
    · exact hw
  case wMkTxn hpc =>
    have hw := hL.mkTxn t hpc
    rw [curCommitter_setLoc_self _ rfl]
    simp only [curCommitter, hw] at h0
    cases hc : willCommit c t <;> simp_all [List.filter_append]
  case cNodes hpc =>
    have hw := own_eq_of_pc hL (t := t) (by simp [hpc])
    have hr : willCommit c t = true := by simp [willCommit, h.role t (by simp [hpc]), h.okC t hpc]
    rw [curCommitter_of_own hw] at h0
    rw [curCommitter_setLoc_self]
    · simpa [hpc, hr] using h0
    · exact hw
  case eTxnNone hpc =>
    have hw := own_eq_of_pc hL (t := t) (by simp [hpc])
    rw [curCommitter_of_own hw] at h0
    rw [curCommitter_setLoc_ne]
    · simpa [hpc, curCommitter] using h0
    · simp

set_option maxHeartbeats 1000000 in
theorem vlen_step (hL : InvLock s) (h : InvSer c s) (htr : Trans c s t s') :
    s'.versions.length = s'.committed.length + 1 + nAppended s' := by
  have h0 := h.vlen
  cases htr <;> simp only [setLoc_versions, setLoc_committed]
  case idleW hpc _ | idleR hpc _ | wInit hpc | wAcqFirst hpc _ _ | wAcqAgain hpc _ _ | wTestOk hpc _ _ | wTestFail hpc _
      | wNewEv hpc | wAppend _ hpc _ | wRelB hpc | wWait _ hpc _ _ | eTestWSome hpc _ | eTestWNone hpc _ | ePop _ _ hpc _
      | eSet _ hpc _ | eRel hpc | rdAcq hpc _ | rdPick hpc _ | rdPickId _ _ hpc _ _ | rdPickMiss hpc | rdFail hpc | rdAdd hpc | rdRel hpc | rdRet hpc | rdBody hpc | xAcq hpc _
      | xRemove hpc | xPrune hpc | xRel hpc =>
    rw [nAppended_setLoc_ne]
    · exact h0
    · show s.writeTxn ≠ some t
      exact own_ne_of_pc hL (by simp [hpc])
  case wClrEv hpc | wRelA hpc | wSetupId hpc | wSetupCopy hpc | wReturn hpc | wBodyC hpc _ | wBodyR hpc _ | cAcq hpc _
      | cAppend hpc | cPrune hpc _ | cPruneFail hpc _ | cNodes hpc | cUndo hpc | rAcq hpc _ =>
    have hw := own_eq_of_pc hL (t := t) (by simp [hpc])
    rw [nAppended_of_own hw] at h0
    rw [nAppended_setLoc_self]
    · simp [hpc] at h0 ⊢; omega
    · exact hw
  case wMkTxn hpc =>
    have hw := hL.mkTxn t hpc
    rw [nAppended_setLoc_self _ rfl]
    simp only [nAppended, hw] at h0
    simpa using h0
  case eTxnNone hpc =>
    have hw := own_eq_of_pc hL (t := t) (by simp [hpc])
    rw [nAppended_of_own hw] at h0
    rw [nAppended_setLoc_ne]
    · simpa [hpc, nAppended] using h0
    · simp

set_option maxHeartbeats 1000000 in
theorem versions_step (hL : InvLock s) (h : InvSer c s) (htr : Trans c s t s') :
    ∀ i v, i ≤ s'.committed.length → s'.versions[i]? = some v →
      v = (i + 1, applyTxns c ((admittedCommitters c s').take i)) := by
  have h0 := h.versions
  have hlen := h.vlen
  unfold admittedCommitters at h0 ⊢
  cases htr <;> simp only [setLoc_versions, setLoc_admitted, setLoc_committed] <;> try exact h0
  case wMkTxn hpc =>
    intro i v hic hi
    have hw := hL.mkTxn t hpc
    have hac := h.ac
    simp only [curCommitter, admittedCommitters, hw] at hac
    rw [h0 i v hic hi, List.filter_append, List.take_append_of_le_length]
    rw [hac]; simp; omega
  case cAppend hpc =>
    intro i v hic hi
    rw [List.getElem?_append_left (by omega)] at hi
    exact h0 i v hic hi
  case cUndo hpc =>
    intro i v hic hi
    have hw := own_eq_of_pc hL (t := t) (by simp [hpc])
    rw [nAppended_of_own hw] at hlen
    simp [hpc] at hlen
    rw [List.getElem?_dropLast, if_pos (by omega)] at hi
    exact h0 i v hic hi
  case cNodes hpc =>
    intro i v hic hi
    rw [List.length_append, List.length_singleton] at hic
    rcases Nat.lt_or_ge i (s.committed.length + 1) with h1 | h1
    · exact h0 i v (by omega) hi
    · have hie : i = s.committed.length + 1 := by omega
      subst hie
      have hw := own_eq_of_pc hL (t := t) (by simp [hpc])
      have hl := h.lastV t (by simp [hpc])
      rw [hl] at hi
      have hac := h.ac
      rw [curCommitter_of_own hw] at hac
      have hr : willCommit c t = true := by simp [willCommit, h.role t (by simp [hpc]), h.okC t hpc]
      simp only [hpc, hr, admittedCommitters] at hac
      simp at hac
      rw [← Option.some.inj hi, hac, h.nodes]
      rw [List.take_of_length_le (by simp), applyTxns_snoc]

set_option maxHeartbeats 1000000 in
theorem lastV_step (hL : InvLock s) (h : InvSer c s) (htr : Trans c s t s') :
    ∀ u, appendedPc (s'.loc u).pc = true →
      s'.versions[s'.committed.length + 1]? = some (s'.committed.length + 2, c.body u (baseOf c u s'.nodes)) := by
  cases htr
  case cAppend hpc =>
    intro u
    have hw := own_eq_of_pc hL (t := t) (by simp [hpc])
    have hlen := h.vlen
    rw [nAppended_of_own hw] at hlen
    simp [hpc] at hlen
    by_cases hu : u = t
    · subst hu
      intro _
      simp only [setLoc_versions, setLoc_committed, setLoc_nodes]
      rw [List.getElem?_append_right (by omega)]
      simp [hlen, h.vid u (by simp [hpc]), h.snapB u (by simp [hpc])]
    · intro hp
      simp only [setLoc_loc, if_neg hu] at hp
      have := (hL.own u).mp (appendedPc_owner _ hp)
      rw [hw] at this
      exact absurd (Option.some.inj this).symm hu
  all_goals (intro u; pres_ser s hL h t u (h.lastV u))

/-- a thread at a reader program point that holds the lock excludes a commit in progress -/
theorem nAppended_zero_of_reader_lock (hL : InvLock s) {u : Tid} (hl : s.lock = some u) (hr : readerPc (s.loc u).pc = true) :
    nAppended s = 0 := by
  unfold nAppended
  rcases hw : s.writeTxn with _ | v
  · rfl
  · simp only
    by_cases hv : appendedPc (s.loc v).pc = true
    · exfalso
      have h1 : holdsLock (s.loc v).pc = true := by
        revert hv; cases (s.loc v).pc <;> simp
      have := (hL.lock v).mp h1
      rw [hl] at this
      have hvu : u = v := Option.some.inj this
      rw [← hvu] at hv
      revert hv hr; cases (s.loc u).pc <;> simp
    · simp [hv]

theorem mem_take_succ {α} {l : List α} {x : α} {k : Nat} (h : x ∈ l.take k) : x ∈ l.take (k + 1) := by
  rw [List.take_add_one]
  exact List.mem_append_left _ h

set_option maxHeartbeats 1000000 in
theorem rver_step (hL : InvLock s) (h : InvSer c s) (htr : Trans c s t s') :
    ∀ u, readerHasPc (s'.loc u).pc = true → (s'.loc u).rver ∈ s'.versions.take (s'.committed.length + 1) := by
  have hlen := h.vlen
  cases htr
  case rdPick hpc _ =>
    intro u
    by_cases hu : u = t
    · subst hu
      intro _
      have hl := (hL.lock u).mp (by simp [hpc])
      have hn := nAppended_zero_of_reader_lock hL hl (by simp [hpc])
      simp only [setLoc_loc, if_true, setLoc_versions, setLoc_committed]
      rw [take_all_of_idle h hn]
      exact lastVersion_mem h
    · intro hp
      simp only [setLoc_loc, if_neg hu] at hp ⊢
      exact h.rver u hp
  case rdPickId k v hpc _ hf =>
    intro u
    by_cases hu : u = t
    · subst hu
      intro _
      have hl := (hL.lock u).mp (by simp [hpc])
      have hn := nAppended_zero_of_reader_lock hL hl (by simp [hpc])
      simp only [setLoc_loc, if_true, setLoc_versions, setLoc_committed]
      rw [take_all_of_idle h hn]
      exact List.mem_of_find?_eq_some hf
    · intro hp
      simp only [setLoc_loc, if_neg hu] at hp ⊢
      exact h.rver u hp
  case cAppend hpc =>
    intro u hp
    have hut : u ≠ t := by intro e; subst e; simp at hp
    simp only [setLoc_loc, if_neg hut, setLoc_versions, setLoc_committed] at hp ⊢
    rw [List.take_append_of_le_length (by omega)]
    exact h.rver u hp
  case cUndo hpc =>
    intro u hp
    have hut : u ≠ t := by intro e; subst e; simp at hp
    have hw := own_eq_of_pc hL (t := t) (by simp [hpc])
    rw [nAppended_of_own hw] at hlen
    simp [hpc] at hlen
    simp only [setLoc_loc, if_neg hut, setLoc_versions, setLoc_committed] at hp ⊢
    have : s.versions.dropLast.take (s.committed.length + 1) = s.versions.take (s.committed.length + 1) := by
      rw [List.dropLast_eq_take, List.take_take]
      congr 1; omega
    rw [this]
    exact h.rver u hp
  case cNodes hpc =>
    intro u hp
    have hut : u ≠ t := by intro e; subst e; simp at hp
    simp only [setLoc_loc, if_neg hut, setLoc_versions, setLoc_committed] at hp ⊢
    rw [List.length_append, List.length_singleton]
    exact mem_take_succ (h.rver u hp)
  all_goals
    intro u
    have hu0 := h.rver u
    have ht0 := h.rver t
    by_cases hu : u = t <;> simp_all

theorem invSer_trans (hL : InvLock s) (h : InvSer c s) (htr : Trans c s t s') : InvSer c s' where
  nodes := nodes_step hL h htr
  ac := ac_step hL h htr
  snapA := snapA_step hL h htr
  snapB := snapB_step hL h htr
  vid := vid_step hL h htr
  role := role_step hL h htr
  okC := okC_step hL h htr
  undoF := undoF_step hL h htr
  versions := versions_step hL h htr
  lastV := lastV_step hL h htr
  vlen := vlen_step hL h htr
  rver := rver_step hL h htr

end Model.Writers

import Model.Parse
import Proofs.NameText
import Proofs.NameWire
/-! Helper lemmas for C04 -/
namespace Model

/-! ### TTL -/
theorem ttlFromText_le (t : List Nat) (v : Nat) (h : ttlFromText t = .ok v) : v ≤ Consts.maxTTL := by
  unfold ttlFromText at h
  simp only at h
  split at h
  · simp at h
  · split at h
    · simp at h
    · simp at h; omega

/-! ### the reader skeleton: continue_on_error vs strict -/

/-- errors recorded only grow -/
theorem readSection_errs_prefix (w : Bytes) (cont : Bool) (sec n : Nat) (s s' : RState)
    (h : readSection w cont sec n s = .ok s') : ∃ more, s'.errs = s.errs ++ more := by
  induction n generalizing s with
  | zero => simp [readSection] at h; exact ⟨[], by simp [h]⟩
  | succ n ih =>
    unfold readSection at h
    split at h
    · simp at h
    · split at h
      · simp at h
      · simp only at h
        split at h
        · simp at h
        · split at h
          · simp at h
          · split at h
            · obtain ⟨more, hm⟩ := ih _ h
              exact ⟨more, by simpa using hm⟩
            · split at h
              · split at h
                · simp at h
                · obtain ⟨more, hm⟩ := ih _ h
                  exact ⟨_ :: more, by simpa using hm⟩
              · simp at h

/-- strict success implies identical success in continue mode -/
theorem readSection_strict_imp_cont (w : Bytes) (sec n : Nat) (s s' : RState)
    (h : readSection w false sec n s = .ok s') : readSection w true sec n s = .ok s' := by
  induction n generalizing s with
  | zero => simpa [readSection] using h
  | succ n ih =>
    unfold readSection at h ⊢
    split at h
    · simp at h
    · rename_i nm c hname
      split at h
      · simp at h
      · rename_i hdr c2 hhdr
        simp only at h ⊢
        split at h
        · simp at h
        · rename_i hspecial
          split at h
          · simp at h
          · rename_i hkind
            rw [if_neg hspecial, if_neg hkind]
            split at h
            · rename_i hbody
              exact ih _ h
            · simp at h

/-- continue mode finishing a section without recording anything is a strict success -/
theorem readSection_cont_clean_imp_strict (w : Bytes) (sec n : Nat) (s s' : RState)
    (h : readSection w true sec n s = .ok s') (hclean : s'.errs = s.errs) :
    readSection w false sec n s = .ok s' := by
  induction n generalizing s with
  | zero => simpa [readSection] using h
  | succ n ih =>
    unfold readSection at h ⊢
    split at h
    · simp at h
    · rename_i nm c hname
      split at h
      · simp at h
      · rename_i hdr c2 hhdr
        simp only at h ⊢
        split at h
        · simp at h
        · rename_i hspecial
          split at h
          · simp at h
          · rename_i hkind
            rw [if_neg hspecial, if_neg hkind]
            split at h
            · rename_i hbody
              exact ih _ h (by simpa using hclean)
            · rename_i e f hbody
              exfalso
              simp only [if_true] at h
              split at h
              · simp at h
              · obtain ⟨more, hm⟩ := readSection_errs_prefix _ _ _ _ _ _ h
                simp at hm
                rw [hclean] at hm
                have := congrArg List.length hm
                simp at this

end Model

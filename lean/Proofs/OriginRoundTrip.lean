import Proofs.OriginParse
import Proofs.ParsePad
import Proofs.ParseUpdateFull
/-! Render with an origin, parse with the same origin: equal after relativisation. -/
namespace Model

theorem RData.sim_relF (o : Name) {a b : RData} (h : a.sim eqvSpec b) :
    (a.mapNames (relF o)).sim eqvSpec (b.mapNames (relF o)) := by
  cases a <;> cases b <;> simp only [RData.sim] at h <;> (try exact h.elim) <;> simp only [RData.mapNames, RData.sim]
  · exact h
  · exact relF_congr o _ _ h
  · exact ⟨h.1, relF_congr o _ _ h.2⟩
  · obtain ⟨h1, h2, h3⟩ := h
    exact ⟨relF_congr o _ _ h1, relF_congr o _ _ h2, h3⟩

theorem SimList.map {α : Type} {R : α → α → Prop} (f : α → α) (hf : ∀ a b, R a b → R (f a) (f b)) {l l' : List α}
    (h : SimList R l l') : SimList R (l.map f) (l'.map f) := by
  induction h with
  | nil => exact SimList.nil
  | cons hab _ ih => exact SimList.cons (hf _ _ hab) ih

theorem RRset.sim_relF (o : Name) {a b : RRset} (h : a.sim eqvSpec b) :
    (a.mapNames (relF o)).sim eqvSpec (b.mapNames (relF o)) := by
  obtain ⟨h1, h2, h3, h4, h5, h6, h7⟩ := h
  exact ⟨relF_congr o _ _ h1, h2, h3, h4, h5, h6, SimList.map _ (fun _ _ h => RData.sim_relF o h) h7⟩

theorem Message.simT_relF (o : Name) {a b : Message} (h : a.simT eqvSpec b) :
    (a.mapNames (relF o)).simT eqvSpec (b.mapNames (relF o)) := by
  obtain ⟨h1, h2, h3, h4, h5, h6, h7, h8⟩ := h
  exact ⟨h1, h2, SimList.map _ (fun _ _ h => RRset.sim_relF o h) h3, SimList.map _ (fun _ _ h => RRset.sim_relF o h) h4,
    SimList.map _ (fun _ _ h => RRset.sim_relF o h) h5, SimList.map _ (fun _ _ h => RRset.sim_relF o h) h6, h7, h8⟩

/-- the message as it looks after a trip through the wire with origin `o`: every name of the four sections made
absolute against `o`, then relativized against `o` -/
def Message.relNorm (o : Name) (m : Message) : Message := (m.absolutize o).mapNames (relF o)

/-- render with origin `o`, parse with origin `o` (not an update; OPT, padding, TSIG allowed) -/
theorem parse_toWire_origin (m : Message) (o : Name) (hm : m.origin = some o) (ho : isAbs o = true) (lim : Nat) (w : Bytes)
    (hok : MsgOkP eqvSpec (m.absolutize o)) (h : m.toWire lim false = .ok w)
    (cfg : PCfg) (horg : cfg.origin = none) (hnorr : cfg.oneRRPerRRset = false) (hkey : cfg.hasKey = true) :
    ∃ m' opt', parseMessage { cfg with origin := some o } w = .ok m' ∧ m'.origin = some o ∧
      m'.simT eqvSpec { m.relNorm o with opt := opt' } ∧ OptPadRel m.pad m.opt opt' := by
  rw [← toWire_absolutize m o hm ho] at h
  obtain ⟨m0, opt', hp, hs, hrel⟩ := parse_toWire_pad (m.absolutize o) lim w hok h cfg horg hnorr hkey
  refine ⟨{ m0.mapNames (relF o) with origin := some o }, opt', ?_, rfl, ?_, hrel⟩
  · rw [parseMessage_relF cfg o ho horg w, hp]
  · exact Message.simT_relF o hs

/-- the same for dynamic updates (in the parser's representation `canonUpdate`; OPT and TSIG allowed) -/
theorem parse_toWire_update_origin (m : Message) (o : Name) (hm : m.origin = some o) (ho : isAbs o = true) (zc lim : Nat)
    (w : Bytes) (hok : UMsgOkT eqvSpec ((m.absolutize o).canonUpdate zc)) (h : m.toWire lim false = .ok w)
    (cfg : PCfg) (horg : cfg.origin = none) (hkey : cfg.hasKey = true) :
    ∃ m', parseMessage { cfg with origin := some o } w = .ok m' ∧ m'.origin = some o ∧
      m'.simT eqvSpec (((m.absolutize o).canonUpdate zc).mapNames (relF o)) := by
  rw [← toWire_absolutize m o hm ho] at h
  obtain ⟨m0, hp, hs⟩ := parse_toWire_update_canon (m.absolutize o) zc lim w hok h cfg horg hkey
  refine ⟨{ m0.mapNames (relF o) with origin := some o }, ?_, rfl, ?_⟩
  · rw [parseMessage_relF cfg o ho horg w, hp]
  · exact Message.simT_relF o hs

/-- a name the trip leaves alone: relative, or absolute and not at or below the origin -/
def NormalName (o n : Name) : Prop := isAbs n = false ∨ isSubdomain n o = false

theorem relF_absN_normal (o n : Name) (ho : isAbs o = true) (h : NormalName o n) : relF o (absN o n) = n := by
  by_cases hn : isAbs n = true
  · rcases h with h | h
    · rw [hn] at h; cases h
    · exact relF_absN_abs o n hn h
  · exact relF_absN_rel o n ho (by simpa using hn)

def RRset.Normal (o : Name) (r : RRset) : Prop := NormalName o r.name ∧ ∀ rd ∈ r.rdatas, ∀ n ∈ rd.names, NormalName o n

def Message.Normal (o : Name) (m : Message) : Prop :=
  (∀ r ∈ m.q, r.Normal o) ∧ (∀ r ∈ m.an, r.Normal o) ∧ (∀ r ∈ m.au, r.Normal o) ∧ (∀ r ∈ m.ad, r.Normal o)

theorem RData.relNorm_normal (o : Name) (ho : isAbs o = true) (rd : RData) (h : ∀ n ∈ rd.names, NormalName o n) :
    (rd.mapNames (absN o)).mapNames (relF o) = rd := by
  cases rd with
  | raw b => rfl
  | name1 n => simp only [RData.mapNames]; rw [relF_absN_normal o n ho (h n (by simp [RData.names]))]
  | mx p n => simp only [RData.mapNames]; rw [relF_absN_normal o n ho (h n (by simp [RData.names]))]
  | soa a b _ _ _ _ _ =>
    simp only [RData.mapNames]
    rw [relF_absN_normal o a ho (h a (by simp [RData.names])), relF_absN_normal o b ho (h b (by simp [RData.names]))]

theorem map_id_of_forall {α : Type} (f : α → α) (l : List α) (h : ∀ a ∈ l, f a = a) : l.map f = l := by
  induction l with
  | nil => rfl
  | cons x rest ih => simp only [List.map_cons]; rw [h x (by simp), ih (fun a ha => h a (by simp [ha]))]

theorem RRset.relNorm_normal (o : Name) (ho : isAbs o = true) (r : RRset) (h : r.Normal o) :
    (r.mapNames (absN o)).mapNames (relF o) = r := by
  cases r with
  | mk name rdclass rdtype covers deleting ttl rdatas =>
    simp only [RRset.mapNames, List.map_map]
    rw [relF_absN_normal o name ho h.1]
    rw [map_id_of_forall (RData.mapNames (relF o) ∘ RData.mapNames (absN o)) rdatas (fun rd hrd => RData.relNorm_normal o ho rd (h.2 rd hrd))]

/-- for messages whose names are all normal the trip is the identity (the origin aside) -/
theorem Message.relNorm_normal (o : Name) (ho : isAbs o = true) (m : Message) (h : m.Normal o) :
    m.relNorm o = { m with origin := none } := by
  cases m with
  | mk id flags origin requestPayload pad q an au ad opt tsig =>
    obtain ⟨h1, h2, h3, h4⟩ := h
    simp only at h1 h2 h3 h4
    simp only [Message.relNorm, Message.absolutize, Message.mapNames, List.map_map]
    rw [map_id_of_forall (RRset.mapNames (relF o) ∘ RRset.mapNames (absN o)) q (fun r hr => RRset.relNorm_normal o ho r (h1 r hr)),
      map_id_of_forall (RRset.mapNames (relF o) ∘ RRset.mapNames (absN o)) an (fun r hr => RRset.relNorm_normal o ho r (h2 r hr)),
      map_id_of_forall (RRset.mapNames (relF o) ∘ RRset.mapNames (absN o)) au (fun r hr => RRset.relNorm_normal o ho r (h3 r hr)),
      map_id_of_forall (RRset.mapNames (relF o) ∘ RRset.mapNames (absN o)) ad (fun r hr => RRset.relNorm_normal o ho r (h4 r hr))]

end Model

import Proofs.ZoneTxnNode
/-! The node map of a version simulates the flat finite map of the reference model (C10). -/
namespace Model.ZT
open Model

/-- the rdataset the version holds for (owner key, type, covers) -/
def getM (cls : Nat) (v : Nodes) (k : Name) (t c : Nat) : Option Rdataset :=
  match nodesGet v k with
  | none => none
  | some nd => nd.find cls t c

def Inv (cls : Nat) (v : Nodes) : Prop := ∀ k nd, nodesGet v k = some nd → NodeInv cls nd

/-- the simulation relation: same rdataset under every key, same set of owner names -/
def Sim (cls : Nat) (v : Nodes) (z : SZone) : Prop :=
  (∀ k t c, getM cls v k t c = z.get (k, t, c)) ∧ (∀ k, (nodesGet v k).isSome = z.has k)

/-! ### the node map -/

theorem nodesGet_erase (v : Nodes) (k k' : Name) :
    nodesGet (nodesErase v k) k' = if k' = k then none else nodesGet v k' := by
  induction v with
  | nil => simp [nodesErase, nodesGet]
  | cons e rest ih =>
    obtain ⟨ke, nd⟩ := e
    unfold nodesErase at ih ⊢
    by_cases h : ke = k
    · subst h
      rw [filter_cons_neg' _ _ _ (by simp)]
      rw [ih]
      by_cases h2 : k' = ke
      · simp [h2]
      · have : ¬ ke = k' := fun e => h2 e.symm
        simp [h2, nodesGet, this]
    · rw [filter_cons_pos' _ _ _ (by simpa using h)]
      by_cases h3 : ke = k'
      · subst h3
        simp [nodesGet, h]
      · simp only [nodesGet, h3, if_false]
        exact ih

theorem nodesGet_set (v : Nodes) (k k' : Name) (nd : Node) :
    nodesGet (nodesSet v k nd) k' = if k' = k then some nd else nodesGet v k' := by
  unfold nodesSet
  by_cases h : k' = k
  · subst h; simp [nodesGet]
  · have : ¬ k = k' := fun e => h e.symm
    simp only [nodesGet, this, if_false, h]
    rw [nodesGet_erase]; simp [h]

theorem getM_set (cls : Nat) (v : Nodes) (k k' : Name) (nd : Node) (t c : Nat) :
    getM cls (nodesSet v k nd) k' t c = if k' = k then nd.find cls t c else getM cls v k' t c := by
  unfold getM; rw [nodesGet_set]
  by_cases h : k' = k <;> simp [h]

theorem getM_erase (cls : Nat) (v : Nodes) (k k' : Name) (t c : Nat) :
    getM cls (nodesErase v k) k' t c = if k' = k then none else getM cls v k' t c := by
  unfold getM; rw [nodesGet_erase]
  by_cases h : k' = k <;> simp [h]

theorem getM_eq_find (cls : Nat) (v : Nodes) (k : Name) (t c : Nat) :
    getM cls v k t c = ((nodesGet v k).getD []).find cls t c := by
  unfold getM
  cases nodesGet v k <;> simp [Node.find]

theorem Inv.getD {cls : Nat} {v : Nodes} (h : Inv cls v) (k : Name) : NodeInv cls ((nodesGet v k).getD []) := by
  cases hk : nodesGet v k with
  | none => exact NodeInv.nil cls
  | some nd => exact h k nd hk

theorem Inv.set {cls : Nat} {v : Nodes} (h : Inv cls v) (k : Name) (nd : Node) (hn : NodeInv cls nd) :
    Inv cls (nodesSet v k nd) := by
  intro k' nd' hk
  rw [nodesGet_set] at hk
  by_cases h2 : k' = k
  · simp [h2] at hk; rw [← hk]; exact hn
  · simp [h2] at hk; exact h k' nd' hk

theorem Inv.erase {cls : Nat} {v : Nodes} (h : Inv cls v) (k : Name) : Inv cls (nodesErase v k) := by
  intro k' nd' hk
  rw [nodesGet_erase] at hk
  by_cases h2 : k' = k
  · simp [h2] at hk
  · simp [h2] at hk; exact h k' nd' hk

theorem Inv.nil (cls : Nat) : Inv cls [] := by intro k nd h; simp [nodesGet] at h

/-! ### the flat map -/

theorem sget_filter (z : SZone) (f : Key → Bool) (k : Key) :
    SZone.get (z.filter (fun e => f e.1)) k = if f k then SZone.get z k else none := by
  induction z with
  | nil => simp [SZone.get]
  | cons e rest ih =>
    obtain ⟨ke, r⟩ := e
    by_cases hf : f ke = true
    · rw [filter_cons_pos' _ _ _ (by simpa using hf)]
      by_cases hk : ke = k
      · subst hk; simp [SZone.get, hf]
      · simp only [SZone.get, hk, if_false]; exact ih
    · rw [filter_cons_neg' _ _ _ (by simpa using hf)]
      rw [ih]
      by_cases hk : ke = k
      · subst hk; simp [hf]
      · simp [SZone.get, hk]

theorem sget_some_mem {z : SZone} {k : Key} {r : Rdataset} (h : SZone.get z k = some r) : (k, r) ∈ z := by
  induction z with
  | nil => simp [SZone.get] at h
  | cons e rest ih =>
    obtain ⟨ke, re⟩ := e
    by_cases hk : ke = k
    · subst hk; simp [SZone.get] at h; subst h; simp
    · simp only [SZone.get, hk, if_false] at h
      exact List.mem_cons_of_mem _ (ih h)

theorem sget_isSome_of_mem {z : SZone} {k : Key} {r : Rdataset} (h : (k, r) ∈ z) : (SZone.get z k).isSome = true := by
  induction z with
  | nil => simp at h
  | cons e rest ih =>
    obtain ⟨ke, re⟩ := e
    by_cases hk : ke = k
    · subst hk; simp [SZone.get]
    · simp only [SZone.get, hk, if_false]
      rcases List.mem_cons.mp h with h | h
      · exact absurd (congrArg Prod.fst h).symm hk
      · exact ih h

theorem shas_iff (z : SZone) (n : Name) : SZone.has z n = true ↔ ∃ e ∈ z, e.1.1 = n := by
  unfold SZone.has; rw [List.any_eq_true]; simp

theorem shas_filter (z : SZone) (f : Key → Bool) (n : Name) :
    SZone.has (z.filter (fun e => f e.1)) n = true ↔ ∃ e ∈ z, e.1.1 = n ∧ f e.1 = true := by
  rw [shas_iff]
  constructor
  · rintro ⟨e, he, hn⟩
    rw [List.mem_filter] at he
    exact ⟨e, he.1, hn, he.2⟩
  · rintro ⟨e, he, hn, hf⟩
    exact ⟨e, List.mem_filter.mpr ⟨he, hf⟩, hn⟩

theorem bool_eq_iff {a b : Bool} (h : a = true ↔ b = true) : a = b := by
  cases a <;> cases b <;> simp_all

/-! ### the three mutations -/

theorem sim_put (cls : Nat) (v : Nodes) (z : SZone) (k : Name) (r : Rdataset)
    (hs : Sim cls v z) (hi : Inv cls v) (hr : r.rdclass = cls) :
    Sim cls (nodesSet v k (((nodesGet v k).getD []).replace r)) (z.put k r) := by
  constructor
  · intro k' t' c'
    rw [getM_set]
    unfold SZone.put
    by_cases hk : k' = k
    · subst hk
      simp only [if_true]
      rw [find_replace cls t' c' _ r (hi.getD k') hr, ← getM_eq_find, hs.1]
      by_cases hkey : t' = r.rdtype ∧ c' = r.covers
      · obtain ⟨h1, h2⟩ := hkey; subst h1; subst h2
        simp [SZone.get]
      · have hne : ¬ ((k', r.rdtype, r.covers) : Key) = (k', t', c') := by
          intro e; simp at e; exact hkey ⟨e.1.symm, e.2.symm⟩
        simp only [hkey, if_false, SZone.get, hne]
        rw [sget_filter z (fun key => !(decide (key.1 = k') &&
          (decide (key.2 = (r.rdtype, r.covers)) || SZone.excluded r.kind (classify key.2.1 key.2.2)))) (k', t', c')]
        have : decide ((t', c') = (r.rdtype, r.covers)) = false := by
          simp; intro h1 h2; exact hkey ⟨h1, h2⟩
        simp only [decide_true, Bool.true_and, this, Bool.false_or]
        cases SZone.excluded r.kind (classify t' c') <;> simp
    · have hne : ¬ ((k, r.rdtype, r.covers) : Key) = (k', t', c') := by
        intro e; simp at e; exact hk e.1.symm
      simp only [hk, if_false, SZone.get, hne]
      rw [sget_filter z (fun key => !(decide (key.1 = k) &&
          (decide (key.2 = (r.rdtype, r.covers)) || SZone.excluded r.kind (classify key.2.1 key.2.2)))) (k', t', c')]
      simp [hk, hs.1]
  · intro k'
    rw [nodesGet_set]
    apply bool_eq_iff
    unfold SZone.put
    by_cases hk : k' = k
    · subst hk
      simp [SZone.has]
    · simp only [hk, if_false]
      rw [hs.2 k', shas_iff, shas_iff]
      constructor
      · rintro ⟨e, he, hn⟩
        refine ⟨e, List.mem_cons_of_mem _ (List.mem_filter.mpr ⟨he, ?_⟩), hn⟩
        have : ¬ e.1.1 = k := by rw [hn]; exact hk
        simp [this]
      · rintro ⟨e, he, hn⟩
        rcases List.mem_cons.mp he with he | he
        · rw [he] at hn; exact absurd hn.symm hk
        · exact ⟨e, (List.mem_filter.mp he).1, hn⟩

theorem inv_put (cls : Nat) (v : Nodes) (k : Name) (r : Rdataset) (hi : Inv cls v) (hr : r.rdclass = cls) :
    Inv cls (nodesSet v k (((nodesGet v k).getD []).replace r)) :=
  hi.set k _ ((hi.getD k).replace r hr)

theorem sim_delName (cls : Nat) (v : Nodes) (z : SZone) (k : Name) (hs : Sim cls v z) :
    Sim cls (nodesErase v k) (z.delName k) := by
  constructor
  · intro k' t' c'
    rw [getM_erase]
    unfold SZone.delName
    rw [sget_filter z (fun key => decide (key.1 ≠ k)) (k', t', c')]
    by_cases hk : k' = k
    · simp [hk]
    · simp [hk, hs.1]
  · intro k'
    rw [nodesGet_erase]
    apply bool_eq_iff
    unfold SZone.delName
    rw [shas_filter z (fun key => decide (key.1 ≠ k)) k']
    by_cases hk : k' = k
    · subst hk; simp
    · simp only [hk, if_false]
      rw [hs.2 k', shas_iff]
      constructor
      · rintro ⟨e, he, hn⟩; exact ⟨e, he, hn, by simp [hn, hk]⟩
      · rintro ⟨e, he, hn, _⟩; exact ⟨e, he, hn⟩

/-- the node map after `delete_rdataset` on the validated key (intended behaviour) -/
def delRdsM (cls : Nat) (v : Nodes) (k : Name) (t c : Nat) : Nodes :=
  let node' := ((nodesGet v k).getD []).delete cls t c
  if node'.length = 0 then nodesErase (nodesSet v k node') k else nodesSet v k node'

theorem nodesGet_delRdsM (cls : Nat) (v : Nodes) (k k' : Name) (t c : Nat) :
    nodesGet (delRdsM cls v k t c) k' =
      if k' = k then
        (if (((nodesGet v k).getD []).delete cls t c).length = 0 then none
         else some (((nodesGet v k).getD []).delete cls t c))
      else nodesGet v k' := by
  unfold delRdsM
  by_cases hl : (((nodesGet v k).getD []).delete cls t c).length = 0
  · simp only [hl, if_true]
    rw [nodesGet_erase, nodesGet_set]
    by_cases hk : k' = k <;> simp [hk]
  · simp only [hl, if_false]
    rw [nodesGet_set]

theorem sim_delRds (cls : Nat) (v : Nodes) (z : SZone) (k : Name) (t c : Nat)
    (hs : Sim cls v z) (hi : Inv cls v) :
    Sim cls (delRdsM cls v k t c) (z.delRds k t c) := by
  have hinv := hi.getD k
  constructor
  · intro k' t' c'
    unfold getM
    rw [nodesGet_delRdsM]
    unfold SZone.delRds
    rw [sget_filter z (fun key => decide (key ≠ (k, t, c))) (k', t', c')]
    by_cases hk : k' = k
    · subst hk
      simp only [if_true]
      by_cases hkey : t' = t ∧ c' = c
      · obtain ⟨h1, h2⟩ := hkey; subst h1; subst h2
        have hd := find_delete_same cls t' c' _ hinv
        by_cases hl : (((nodesGet v k').getD []).delete cls t' c').length = 0
        · simp [hl]
        · simp [hl, hd]
      · have hd := find_delete_other cls t c t' c' ((nodesGet v k').getD []) hkey
        have hne : ((k', t', c') : Key) ≠ (k', t, c) := by
          intro e; simp at e; exact hkey e
        simp only [hne, ne_eq, not_false_eq_true, decide_true, if_true]
        rw [← hs.1, getM_eq_find, ← hd]
        by_cases hl : (((nodesGet v k').getD []).delete cls t c).length = 0
        · have : ((nodesGet v k').getD []).delete cls t c = [] := List.eq_nil_of_length_eq_zero hl
          simp [hl, this, Node.find]
        · simp [hl]
    · have hne : ((k', t', c') : Key) ≠ (k, t, c) := by
        intro e; simp at e; exact hk e.1
      simp only [hk, if_false, hne, ne_eq, not_false_eq_true, decide_true, if_true]
      exact hs.1 k' t' c'
  · intro k'
    rw [nodesGet_delRdsM]
    apply bool_eq_iff
    unfold SZone.delRds
    rw [shas_filter z (fun key => decide (key ≠ (k, t, c))) k']
    by_cases hk : k' = k
    · subst hk
      simp only [if_true]
      generalize hnd : (nodesGet v k').getD [] = nd0 at hinv
      constructor
      · intro h
        have hne : nd0.delete cls t c ≠ [] := by
          intro e; simp [e] at h
        obtain ⟨x, hx⟩ := List.exists_mem_of_ne_nil _ hne
        have hx0 : x ∈ nd0 := (delete_sublist cls t c nd0).subset hx
        have hxc : x.rdclass = cls := hinv.1 x hx0
        have hnm := (find_none_iff cls t c _).mp (find_delete_same cls t c nd0 hinv) x hx
        have hkey : ¬ (x.rdtype = t ∧ x.covers = c) := by
          intro e
          have : x.isMatch cls t c = true := by rw [isMatch_iff]; exact ⟨hxc, e.1, e.2⟩
          rw [this] at hnm; exact absurd hnm (by simp)
        have hsome := find_isSome_of_mem hx0 hxc
        rw [← hnd, ← getM_eq_find, hs.1] at hsome
        cases hg : SZone.get z (k', x.rdtype, x.covers) with
        | none => rw [hg] at hsome; exact absurd hsome (by simp)
        | some r =>
          refine ⟨((k', x.rdtype, x.covers), r), sget_some_mem hg, rfl, ?_⟩
          simp; omega
      · rintro ⟨e, he, hn, hf⟩
        obtain ⟨⟨kn, t', c'⟩, r⟩ := e
        simp at hn; subst hn
        have hkey : ¬ (t' = t ∧ c' = c) := by
          intro e; simp [e.1, e.2] at hf
        have hsome := sget_isSome_of_mem he
        rw [← hs.1, getM_eq_find, hnd, ← find_delete_other cls t c t' c' nd0 hkey] at hsome
        have hne : nd0.delete cls t c ≠ [] := by
          intro e; rw [e] at hsome; simp [Node.find] at hsome
        have hl : ¬ (nd0.delete cls t c).length = 0 := by
          intro e; exact hne (List.eq_nil_of_length_eq_zero e)
        simp [hl]
    · simp only [hk, if_false]
      rw [hs.2 k', shas_iff]
      constructor
      · rintro ⟨e, he, hn⟩
        refine ⟨e, he, hn, ?_⟩
        have : e.1 ≠ (k, t, c) := by
          intro h; rw [h] at hn; exact hk hn.symm
        simp [this]
      · rintro ⟨e, he, hn, _⟩; exact ⟨e, he, hn⟩

theorem inv_delRds (cls : Nat) (v : Nodes) (k : Name) (t c : Nat) (hi : Inv cls v) :
    Inv cls (delRdsM cls v k t c) := by
  unfold delRdsM
  have hn := (hi.getD k).delete t c
  by_cases hl : (((nodesGet v k).getD []).delete cls t c).length = 0
  · simp only [hl, if_true]; exact (hi.set k _ hn).erase k
  · simp only [hl, if_false]; exact hi.set k _ hn

end Model.ZT

import Proofs.BTreeZoneGood
/-!
Three ways a `Good` version stays `Good` when the node at one name is replaced or removed and the nodes
strictly below it are re-flagged: NS ownership unchanged (or shadowed), a new delegation, a delegation removed.
-/
namespace Model
namespace BTZ

/-- `N'` is `N` with the node at `name` set to `r` (`none` = removed) and every node strictly below `name`
rewritten by `f`, which keeps rdatasets -/
structure Rewritten (N N' : Nodes) (name : Name) (r : Option Node) (f : Name → Node → Node) : Prop where
  here : nget N' name = r
  below : ∀ k, LC k → properSub k name = true → nget N' k = (nget N k).map (f k)
  elsewhere : ∀ k, LC k → k ≠ name → properSub k name = false → nget N' k = nget N k
  frds : ∀ k nd, (f k nd).rds = nd.rds

theorem Rewritten.sameNS {N N' : Nodes} {name : Name} {r : Option Node} {f : Name → Node → Node}
    (h : Rewritten N N' name r f) : SameNSExcept N N' name := by
  intro a ha hne
  unfold NS
  by_cases hb : properSub a name = true
  · rw [h.below a ha hb]
    cases hg : nget N a with
    | none => simp
    | some nd => simp [h.frds]
  · rw [h.elsewhere a ha hne (by simpa using hb)]

theorem Rewritten.other {N N' : Nodes} {name : Name} {r : Option Node} {f : Name → Node → Node}
    (h : Rewritten N N' name r f) {k : Name} {nd : Node} (hk : LC k) (hne : k ≠ name)
    (hg : nget N' k = some nd) :
    ∃ nd0, nget N k = some nd0 ∧ nd.rds = nd0.rds ∧
      ((properSub k name = true ∧ nd = f k nd0) ∨ (properSub k name = false ∧ nd = nd0)) := by
  by_cases hb : properSub k name = true
  · rw [h.below k hk hb] at hg
    cases hg0 : nget N k with
    | none => rw [hg0] at hg; cases hg
    | some nd0 =>
      rw [hg0] at hg; simp at hg
      exact ⟨nd0, rfl, by rw [← hg, h.frds], Or.inl ⟨hb, hg.symm⟩⟩
  · have hb' : properSub k name = false := by simpa using hb
    rw [h.elsewhere k hk hne hb'] at hg
    exact ⟨nd, hg, rfl, Or.inr ⟨hb', rfl⟩⟩

theorem flags_ext {a b : Flags} (h1 : a.origin = b.origin) (h2 : a.deleg = b.deleg) (h3 : a.glue = b.glue) : a = b := by
  cases a; cases b; simp_all

/-- (S0) NS ownership at `name` unchanged, or `name` is the apex / shadowed by an NS owner above: every
specified flag stays what it was -/
theorem good_rewritten_same {cfg : Cfg} {N N' : Nodes} {D c c' : List Name} {name : Name} {r : Option Node}
    (hg : Good cfg ⟨N, D, c⟩) (hN' : NWF N') (hn : LC name) (hz : isSubdomain name (apex cfg) = true)
    (hrw : Rewritten N N' name r (fun _ nd => nd))
    (hr : ∀ nd, r = some nd → RdsOK nd.rds ∧ nd.flags = flagsSpec cfg N name)
    (hsame : (NS N' name ↔ NS N name) ∨ isOrigin cfg name = true ∨ NSAbove cfg N name) :
    Good cfg ⟨N', D, c'⟩ := by
  have hspec : ∀ m, LC m → flagsSpec cfg N' m = flagsSpec cfg N m := by
    intro m hm
    rcases hsame with h | h
    · exact flagsSpec_same hg.wf hN' hrw.sameNS h m hm
    · exact flagsSpec_shadowed hg.wf hN' hn hrw.sameNS h m hm
  apply Good_intro (ver := ⟨N', D, c'⟩) hN' hg.dwf
  · intro k nd hk hgk
    by_cases e : k = name
    · subst e
      have := hrw.here
      rw [hgk] at this
      obtain ⟨h1, h2⟩ := hr nd this.symm
      exact ⟨hz, h1, by rw [hspec k hk]; exact h2⟩
    · obtain ⟨nd0, hg0, hrds, hcase⟩ := hrw.other hk e hgk
      have hnd : nd = nd0 := by rcases hcase with ⟨_, h⟩ | ⟨_, h⟩ <;> exact h
      subst hnd
      obtain ⟨p1, p2, p3⟩ := hg.pointwise hk hg0
      exact ⟨p1, p2, by rw [hspec k hk]; exact p3⟩
  · intro n hnl
    have := congrArg Flags.deleg (hspec n hnl)
    simp only [flagsSpec] at this
    show n ∈ D ↔ _
    rw [this]; exact hg.index n hnl

/-- (S1) `name` becomes a delegation point -/
theorem good_rewritten_delegate {cfg : Cfg} {N N' : Nodes} {D D' c c' : List Name} {name : Name} {node' : Node}
    {f : Name → Node → Node}
    (hg : Good cfg ⟨N, D, c⟩) (hN' : NWF N') (hD' : DWF D') (hn : LC name) (hz : isSubdomain name (apex cfg) = true)
    (hrw : Rewritten N N' name (some node') f)
    (ho : isOrigin cfg name = false) (hna : ¬ NSAbove cfg N name)
    (hns' : hasNS node'.rds = true) (hrds : RdsOK node'.rds)
    (hfl : node'.flags = { origin := false, deleg := true, glue := false })
    (hf : ∀ k nd, properSub k name = true → (f k nd).flags = { origin := false, deleg := false, glue := true })
    (hD : ∀ n, LC n → (n ∈ D' ↔ n = name ∨ (n ∈ D ∧ properSub n name = false))) :
    Good cfg ⟨N', D', c'⟩ := by
  have hs := hrw.sameNS
  have hNS' : NS N' name := ⟨node', hrw.here, hns'⟩
  have hnn : properSub name name = false := properSub_irrefl name
  have hdel' : isDelegSpec cfg N' name = true := by
    rw [isDelegSpec_iff hN']
    exact ⟨ho, hNS', by rw [NSAbove_frame hs hnn]; exact hna⟩
  apply Good_intro (ver := ⟨N', D', c'⟩) hN' hD'
  · intro k nd hk hgk
    by_cases e : k = name
    · subst e
      have := hrw.here
      rw [hgk] at this; injection this with this; subst this
      refine ⟨hz, hrds, ?_⟩
      rw [hfl]
      obtain ⟨h1, h2⟩ := flagsSpec_at (cfg := cfg) hg.wf hN' hs
      apply flags_ext
      · rw [h1]; simp [flagsSpec, ho]
      · simp [flagsSpec, hdel']
      · rw [h2]
        simp only [flagsSpec]
        cases hh : isGlueSpec cfg N k with
        | false => rfl
        | true => exact absurd ((isGlueSpec_iff hg.wf).mp hh) hna
    · obtain ⟨nd0, hg0, hrds0, hcase⟩ := hrw.other hk e hgk
      obtain ⟨p1, p2, p3⟩ := hg.pointwise hk hg0
      refine ⟨p1, by rw [hrds0]; exact p2, ?_⟩
      rcases hcase with ⟨hb, hnd⟩ | ⟨hb, hnd⟩
      · rw [hnd, hf k nd0 hb, flagsSpec_below_added hN' hn hz ho hNS' k hk hb]
      · rw [hnd, p3, flagsSpec_elsewhere hg.wf hN' hs k hk e hb]
  · intro n hnl
    show n ∈ D' ↔ _
    rw [hD n hnl]
    by_cases e : n = name
    · subst e; simp [hdel']
    · by_cases hb : properSub n name = true
      · have := flagsSpec_below_added hN' hn hz ho hNS' n hnl hb
        have hd : isDelegSpec cfg N' n = false := by
          have := congrArg Flags.deleg this; simpa [flagsSpec] using this
        simp [e, hb, hd]
      · have hb' : properSub n name = false := by simpa using hb
        have := congrArg Flags.deleg (flagsSpec_elsewhere (cfg := cfg) hg.wf hN' hs n hnl e hb')
        simp only [flagsSpec] at this
        rw [this]
        simp [e, hb']
        exact hg.index n hnl

/-- (S2) `name` stops being a delegation point (its NS rdataset or the whole node goes away) -/
theorem good_rewritten_undelegate {cfg : Cfg} {N N' : Nodes} {D D' c c' : List Name} {name : Name} {r : Option Node}
    {f : Name → Node → Node}
    (hg : Good cfg ⟨N, D, c⟩) (hN' : NWF N') (hD' : DWF D') (hn : LC name) (hz : isSubdomain name (apex cfg) = true)
    (hrw : Rewritten N N' name r f)
    (hdel : name ∈ D)
    (hr : ∀ nd, r = some nd → hasNS nd.rds = false ∧ RdsOK nd.rds ∧ nd.flags = { origin := false, deleg := false, glue := false })
    (hf : ∀ k nd, LC k → properSub k name = true → nget N k = some nd →
      (f k nd).flags.origin = false ∧ ((f k nd).flags.glue = true ↔ NSBetween N k name) ∧
      ((f k nd).flags.deleg = true ↔ hasNS nd.rds = true ∧ ¬ NSBetween N k name))
    (hD : ∀ n, LC n → (n ∈ D' ↔ (n ∈ D ∧ n ≠ name) ∨ (properSub n name = true ∧ NS N n ∧ ¬ NSBetween N n name))) :
    Good cfg ⟨N', D', c'⟩ := by
  have hs := hrw.sameNS
  obtain ⟨ho, _hNS, hna⟩ := (isDelegSpec_iff hg.wf).mp ((hg.index name hn).mp hdel)
  have hnn : properSub name name = false := properSub_irrefl name
  have hNS' : ¬ NS N' name := by
    rintro ⟨nd, hgn, hh⟩
    have := hrw.here
    rw [hgn] at this
    rw [(hr nd this.symm).1] at hh; exact absurd hh (by decide)
  have hdel' : isDelegSpec cfg N' name = false := by
    cases hh : isDelegSpec cfg N' name with
    | false => rfl
    | true => exact absurd ((isDelegSpec_iff hN').mp hh).2.1 hNS'
  apply Good_intro (ver := ⟨N', D', c'⟩) hN' hD'
  · intro k nd hk hgk
    by_cases e : k = name
    · subst e
      have := hrw.here
      rw [hgk] at this
      obtain ⟨_, h2, h3⟩ := hr nd this.symm
      refine ⟨hz, h2, ?_⟩
      rw [h3]
      obtain ⟨e1, e2⟩ := flagsSpec_at (cfg := cfg) hg.wf hN' hs
      apply flags_ext
      · rw [e1]; simp [flagsSpec, ho]
      · simp [flagsSpec, hdel']
      · rw [e2]
        simp only [flagsSpec]
        cases hh : isGlueSpec cfg N k with
        | false => rfl
        | true => exact absurd ((isGlueSpec_iff hg.wf).mp hh) hna
    · obtain ⟨nd0, hg0, hrds0, hcase⟩ := hrw.other hk e hgk
      obtain ⟨p1, p2, p3⟩ := hg.pointwise hk hg0
      refine ⟨p1, by rw [hrds0]; exact p2, ?_⟩
      rcases hcase with ⟨hb, hnd⟩ | ⟨hb, hnd⟩
      · obtain ⟨f1, f2, f3⟩ := hf k nd0 hk hb hg0
        obtain ⟨s1, s2⟩ := flagsSpec_below_removed hg.wf hN' hn hz hs hna hNS' k hk hb
        rw [hnd]
        apply flags_ext
        · rw [f1]; simp [flagsSpec, not_origin_of_below hz hb hk (LC_apex cfg)]
        · apply bool_eq_of_iff
          simp only [flagsSpec]
          rw [f3, s2]
          constructor
          · rintro ⟨h1, h2⟩; exact ⟨⟨nd0, hg0, h1⟩, h2⟩
          · rintro ⟨⟨nd1, hg1, h1⟩, h2⟩
            rw [hg0] at hg1; injection hg1 with hg1; subst hg1
            exact ⟨h1, h2⟩
        · apply bool_eq_of_iff
          simp only [flagsSpec]
          rw [f2, s1]
      · rw [hnd, p3, flagsSpec_elsewhere hg.wf hN' hs k hk e hb]
  · intro n hnl
    show n ∈ D' ↔ _
    rw [hD n hnl]
    by_cases e : n = name
    · subst e; simp [hdel', hnn]
    · by_cases hb : properSub n name = true
      · obtain ⟨_, s2⟩ := flagsSpec_below_removed hg.wf hN' hn hz hs hna hNS' n hnl hb
        rw [s2]
        have hnD : n ∉ D := by
          intro hnD
          have := hg.antichain n hnD name hdel
          rw [hb] at this; exact absurd this (by decide)
        simp [hnD, hb]
      · have hb' : properSub n name = false := by simpa using hb
        have := congrArg Flags.deleg (flagsSpec_elsewhere (cfg := cfg) hg.wf hN' hs n hnl e hb')
        simp only [flagsSpec] at this
        rw [this]
        simp [e, hb']
        exact hg.index n hnl

end BTZ
end Model

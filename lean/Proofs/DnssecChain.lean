import Model.Dnssec
import Proofs.DnssecBasic
/-! Helper lemmas for C15: the walk of `_sign_zone_nsec` visits exactly the names that are not beneath a
delegation and links them into one NSEC chain. -/
namespace Model
namespace Dnssec

/-! ## specification side -/

abbrev NsecRec := Name × Name × List (Nat × Bytes)

/-- the NSEC chain over a list of nodes: each points to the next, the last one to `last` (the origin);
type bitmap = the node's announced types (`nsecTypes`) plus RRSIG and NSEC -/
def chain (c : NsecConsts) (zo : Name) : List ZNode → Name → List NsecRec
  | [], _ => []
  | [z], last => [(z.name, last, fromRdtypes (nsecTypes c zo z ++ [c.tRRSIG, c.tNSEC]))]
  | z :: z' :: rest, last =>
    (z.name, z'.name, fromRdtypes (nsecTypes c zo z ++ [c.tRRSIG, c.tNSEC])) :: chain c zo (z' :: rest) last

def nsecsOf (es : List Evt) : List NsecRec :=
  es.filterMap fun e => match e with
    | .nsec o n w => some (o, n, w)
    | .sign _ _ => none

/-! ## the walk as a function of the remembered delegation only -/

/-- is `name` beneath the remembered (truthy) delegation? -/
def beneath (d : Option Name) (name : Name) : Bool :=
  match d with
  | some dd => isSubdomain name dd
  | none => false

def visit (c : NsecConsts) (origin : Name) : Option Name → List ZNode → List ZNode
  | _, [] => []
  | d, z :: rest =>
    if beneath d z.name then visit c origin d rest
    else z :: visit c origin (if isCut c origin z then some z.name else none) rest

/-- the remembered delegation as far as the code can see it (a falsy name counts as none) -/
def absDeleg (deleg : Option Name) : Option Name :=
  match deleg with
  | some d => if truthy d then some d else none
  | none => none

def linkRec (c : NsecConsts) (origin : Name) (nodes : List ZNode) (ws : Bool) (prev : Option Name) (name : Name) : List NsecRec :=
  nsecsOf (linkFrom c origin nodes ws prev name)

/-- NSEC records produced while walking `vs` when the previously visited name is `prev` -/
def linksE (c : NsecConsts) (origin : Name) (nodes : List ZNode) (ws : Bool) : Option Name → List ZNode → List NsecRec
  | _, [] => []
  | prev, v :: vs => linkRec c origin nodes ws prev v.name ++ linksE c origin nodes ws (some v.name) vs

def lastName (prev : Option Name) (vs : List ZNode) : Option Name :=
  match vs.getLast? with
  | some v => some v.name
  | none => prev

theorem nsecsOf_append (a b : List Evt) : nsecsOf (a ++ b) = nsecsOf a ++ nsecsOf b := by
  simp [nsecsOf, List.filterMap_append]

theorem nsecsOf_signEvts (c : NsecConsts) (ws : Bool) (d : Option Name) (node : ZNode) :
    nsecsOf (signEvts c ws d node) = [] := by
  unfold signEvts
  split
  · generalize node.types = ts
    induction ts with
    | nil => rfl
    | cons t ts ih =>
      simp only [List.filterMap_cons]
      split
      · exact ih
      · rename_i e he
        split at he
        · simp at he
        · split at he
          · simp at he
          · simp at he; subst he
            simpa [nsecsOf] using ih
  · rfl

theorem lastName_cons (prev : Option Name) (z : ZNode) (vs : List ZNode) :
    lastName prev (z :: vs) = lastName (some z.name) vs := by
  unfold lastName
  cases vs with
  | nil => simp
  | cons a as =>
    rw [List.getLast?_cons_cons]
    cases h : (a :: as).getLast? with
    | none => simp at h
    | some v => rfl

theorem skipTest_eq (deleg : Option Name) (name : Name) : skipTest deleg name = beneath (absDeleg deleg) name := by
  unfold skipTest beneath absDeleg
  cases deleg with
  | none => rfl
  | some d => cases h : truthy d <;> simp [h]

theorem absDeleg_newDeleg (c : NsecConsts) (origin : Name) (z : ZNode) :
    absDeleg (newDeleg c origin z) = if isCut c origin z then some z.name else none := by
  unfold absDeleg newDeleg isCut
  cases h1 : (z.types.contains c.tNS && !(nameEq z.name origin)) <;> cases h2 : truthy z.name <;> simp [h2]

theorem fold_visit (c : NsecConsts) (origin : Name) (nodes : List ZNode) (ws : Bool) (L : List ZNode) :
    ∀ st : WalkSt,
      nsecsOf (L.foldl (walkStep c origin nodes ws) st).out =
        nsecsOf st.out ++ linksE c origin nodes ws st.lastSecure (visit c origin (absDeleg st.delegation) L) ∧
      (L.foldl (walkStep c origin nodes ws) st).lastSecure =
        lastName st.lastSecure (visit c origin (absDeleg st.delegation) L) := by
  induction L with
  | nil => intro st; simp [visit, linksE, lastName]
  | cons z rest ih =>
    intro st
    simp only [List.foldl_cons]
    by_cases hs : beneath (absDeleg st.delegation) z.name = true
    · have hstep : walkStep c origin nodes ws st z = st := by
        unfold walkStep
        rw [skipTest_eq, hs]; rfl
      have hv : visit c origin (absDeleg st.delegation) (z :: rest) = visit c origin (absDeleg st.delegation) rest := by
        simp only [visit, hs, if_true]
      rw [hstep, hv]
      exact ih st
    · have hs' : beneath (absDeleg st.delegation) z.name = false := by simpa using hs
      have hv : visit c origin (absDeleg st.delegation) (z :: rest) =
          z :: visit c origin (if isCut c origin z then some z.name else none) rest := by
        simp only [visit, hs', Bool.false_eq_true, if_false]
      have hstep : walkStep c origin nodes ws st z =
          { delegation := newDeleg c origin z, lastSecure := some z.name,
            out := st.out ++ signEvts c ws (newDeleg c origin z) z ++ linkFrom c origin nodes ws st.lastSecure z.name } := by
        unfold walkStep
        rw [skipTest_eq, hs']; rfl
      rw [hstep, hv]
      obtain ⟨h1, h2⟩ := ih ⟨newDeleg c origin z, some z.name,
            st.out ++ signEvts c ws (newDeleg c origin z) z ++ linkFrom c origin nodes ws st.lastSecure z.name⟩
      simp only [absDeleg_newDeleg] at h1 h2
      constructor
      · rw [h1]
        simp only [nsecsOf_append, nsecsOf_signEvts, List.nil_append, linksE, linkRec, List.append_assoc]
      · rw [h2, lastName_cons]

/-! ## the walk visits exactly the names that are not beneath a delegation -/

theorem contig_block (X : List ZNode) (d : ZNode) (Y : List ZNode) (h : contig (X ++ d :: Y) = true) :
    blockOk d Y = true := by
  induction X with
  | nil => simp [contig] at h; exact h.1
  | cons x X ih => simp [contig] at h; exact ih h.2

theorem dropWhile_block (p : ZNode → Bool) (B : List ZNode) (z : ZNode) (rest : List ZNode)
    (hB : ∀ b ∈ B, p b = true) (hz : p z = false) : (B ++ z :: rest).dropWhile p = z :: rest := by
  induction B with
  | nil => simp [List.dropWhile, hz]
  | cons b B ih =>
    have hb := hB b (by simp)
    simp only [List.cons_append, List.dropWhile_cons, hb, if_true]
    exact ih (fun x hx => hB x (by simp [hx]))

/-- after the block of subdomains of `dd` has ended, nothing later is beneath `dd` -/
theorem after_block (P0 : List ZNode) (dd : ZNode) (B : List ZNode) (z : ZNode) (rest : List ZNode)
    (hc : contig (P0 ++ dd :: (B ++ z :: rest)) = true) (hB : ∀ b ∈ B, subOf b dd = true)
    (hz : subOf z dd = false) : ∀ y ∈ rest, subOf y dd = false := by
  have hb := contig_block P0 dd (B ++ z :: rest) hc
  unfold blockOk at hb
  rw [dropWhile_block (fun y => subOf y dd) B z rest hB hz] at hb
  intro y hy
  have := List.all_eq_true.mp hb y (by simp [hy])
  simpa using this

theorem occluded_iff (c : NsecConsts) (origin : Name) (P : List ZNode) (z : ZNode) (rest : List ZNode)
    (H1 : (P ++ z :: rest).Pairwise (fun a b => subOf a b = false)) :
    occluded c origin (P ++ z :: rest) z = true ↔ ∃ e ∈ P, isCut c origin e = true ∧ subOf z e = true := by
  obtain ⟨_, hzrest, hPz⟩ := List.pairwise_append.mp H1
  have hzr := (List.pairwise_cons.mp hzrest).1
  unfold occluded
  rw [List.any_eq_true]
  constructor
  · rintro ⟨e, he, hh⟩
    simp only [Bool.and_eq_true, Bool.not_eq_true'] at hh
    obtain ⟨⟨h1, h2⟩, h3⟩ := hh
    rcases List.mem_append.mp he with he | he
    · exact ⟨e, he, h1, h2⟩
    · rcases List.mem_cons.mp he with rfl | he
      · rw [h2] at h3; simp at h3
      · have := hzr e he; rw [this] at h2; simp at h2
  · rintro ⟨e, he, h1, h2⟩
    refine ⟨e, by simp [he], ?_⟩
    have := hPz e he z (by simp)
    simp [h1, h2, this]

theorem visit_spec (c : NsecConsts) (origin : Name) (L : List ZNode)
    (H1 : L.Pairwise (fun a b => subOf a b = false))
    (H3 : ∀ x ∈ L, ∀ y ∈ L, ∀ z ∈ L, subOf x y = true → subOf y z = true → subOf x z = true)
    (HC : contig L = true) :
    ∀ (R P : List ZNode) (d : Option Name), L = P ++ R →
      (d = none → ∀ y ∈ R, ∀ e ∈ P, isCut c origin e = true → subOf y e = false) →
      (∀ dn, d = some dn → ∃ P0 dd B, P = P0 ++ dd :: B ∧ dn = dd.name ∧ isCut c origin dd = true ∧
          (∀ b ∈ B, subOf b dd = true) ∧
          (∀ y ∈ R, ∀ e ∈ P, isCut c origin e = true → subOf y e = true → subOf y dd = true)) →
      visit c origin d R = R.filter (fun z => !occluded c origin L z) := by
  intro R
  induction R with
  | nil => intros; simp [visit]
  | cons z rest ih =>
    intro P d hL hA hB
    have hL' : L = (P ++ [z]) ++ rest := by simp [hL]
    have hocc := occluded_iff c origin P z rest (hL ▸ H1)
    rw [← hL] at hocc
    -- the two ways to continue after `z` has been visited
    have continue_visited : (∀ y ∈ rest, ∀ e ∈ P, isCut c origin e = true → subOf y e = false) →
        visit c origin (if isCut c origin z then some z.name else none) rest =
          rest.filter (fun z => !occluded c origin L z) := by
      intro hnone
      apply ih (P ++ [z]) _ hL'
      · intro hd y hy e he hcut
        rcases List.mem_append.mp he with he | he
        · exact hnone y hy e he hcut
        · simp at he; subst he
          simp [hcut] at hd
      · intro dn hd
        by_cases hcut : isCut c origin z = true
        · simp [hcut] at hd
          refine ⟨P, z, [], by simp, hd.symm, hcut, by simp, ?_⟩
          intro y hy e he hecut hsub
          rcases List.mem_append.mp he with he | he
          · have := hnone y hy e he hecut; rw [this] at hsub; simp at hsub
          · simp at he; subst he; exact hsub
        · simp [hcut] at hd
    cases d with
    | none =>
      have hnot : occluded c origin L z = false := by
        cases h : occluded c origin L z with
        | false => rfl
        | true =>
          obtain ⟨e, he, h1, h2⟩ := hocc.mp h
          have := hA rfl z (by simp) e he h1
          rw [this] at h2; simp at h2
      simp only [visit, beneath, Bool.false_eq_true, if_false, List.filter_cons, hnot, Bool.not_false, if_true]
      congr 1
      apply continue_visited
      intro y hy e he hcut
      exact hA rfl y (by simp [hy]) e he hcut
    | some dn =>
      obtain ⟨P0, dd, B, hP, hdn, hddcut, hBsub, hBdom⟩ := hB dn rfl
      have hddP : dd ∈ P := by rw [hP]; simp
      have hben : beneath (some dn) z.name = subOf z dd := by simp [beneath, subOf, hdn]
      by_cases hs : subOf z dd = true
      · -- beneath the remembered delegation: skipped, and occluded by it
        have hoc : occluded c origin L z = true := hocc.mpr ⟨dd, hddP, hddcut, hs⟩
        simp only [visit, hben, hs, if_true, List.filter_cons, hoc, Bool.not_true, Bool.false_eq_true, if_false]
        apply ih (P ++ [z]) (some dn) hL'
        · intro h; simp at h
        · intro dn' hdn'
          simp at hdn'; subst hdn'
          refine ⟨P0, dd, B ++ [z], by simp [hP], hdn, hddcut, ?_, ?_⟩
          · intro b hb
            rcases List.mem_append.mp hb with hb | hb
            · exact hBsub b hb
            · simp at hb; subst hb; exact hs
          · intro y hy e he hecut hsub
            rcases List.mem_append.mp he with he | he
            · exact hBdom y (by simp [hy]) e he hecut hsub
            · have he' : e = z := by simpa using he
              rw [he'] at hsub
              have hyL : y ∈ L := by rw [hL]; simp [hy]
              have hzL : z ∈ L := by rw [hL]; simp
              have hdL : dd ∈ L := by rw [hL]; simp [hddP]
              exact H3 y hyL z hzL dd hdL hsub hs
      · have hs' : subOf z dd = false := by simpa using hs
        have hnot : occluded c origin L z = false := by
          cases h : occluded c origin L z with
          | false => rfl
          | true =>
            obtain ⟨e, he, h1, h2⟩ := hocc.mp h
            have := hBdom z (by simp) e he h1 h2
            rw [this] at hs'; simp at hs'
        simp only [visit, hben, hs', Bool.false_eq_true, if_false, List.filter_cons, hnot, Bool.not_false, if_true]
        congr 1
        apply continue_visited
        have hLd : L = P0 ++ dd :: (B ++ z :: rest) := by rw [hL, hP]; simp
        have hafter := after_block P0 dd B z rest (hLd ▸ HC) hBsub hs'
        intro y hy e he hcut
        cases h : subOf y e with
        | false => rfl
        | true =>
          have := hBdom y (by simp [hy]) e he hcut h
          rw [hafter y hy] at this; simp at this

theorem visit_eq_secure (c : NsecConsts) (origin : Name) (L : List ZNode)
    (H1 : L.Pairwise (fun a b => subOf a b = false))
    (H3 : ∀ x ∈ L, ∀ y ∈ L, ∀ z ∈ L, subOf x y = true → subOf y z = true → subOf x z = true)
    (HC : contig L = true) : visit c origin none L = secure c origin L := by
  unfold secure
  exact visit_spec c origin L H1 H3 HC L [] none (by simp) (by simp) (by simp)

/-! ## linking the visited names -/

def bmOf (c : NsecConsts) (origin : Name) (v : ZNode) : List (Nat × Bytes) :=
  fromRdtypes (nsecTypes c origin v ++ [c.tRRSIG, c.tNSEC])

theorem addNsec_rec (c : NsecConsts) (origin : Name) (nodes : List ZNode) (ws : Bool) (v : ZNode) (next : Name)
    (hl : lookupNode nodes v.name = some v) (ht : v.types ≠ []) (hn : next ≠ []) :
    nsecsOf (addNsec c origin nodes ws v.name next) = [(v.name, next, bmOf c origin v)] := by
  have h1 : (v.types.length != 0) = true := by
    cases hv : v.types with
    | nil => exact absurd hv ht
    | cons a as => simp
  have h2 : truthy next = true := by
    cases hnx : next with
    | nil => exact absurd hnx hn
    | cons a as => simp [truthy]
  unfold addNsec
  rw [hl]
  simp only [h1, h2, Bool.and_self, if_true]
  cases ws <;> simp [nsecsOf, bmOf]

def closeRec (c : NsecConsts) (origin : Name) (nodes : List ZNode) (ws : Bool) (last : Option Name) : List NsecRec :=
  match last with
  | some l => nsecsOf (addNsec c origin nodes ws l origin)
  | none => []

structure Good (nodes : List ZNode) (v : ZNode) : Prop where
  look : lookupNode nodes v.name = some v
  types : v.types ≠ []

theorem links_chain (c : NsecConsts) (origin : Name) (nodes : List ZNode) (ws : Bool) (ho : origin ≠ []) :
    ∀ (V : List ZNode) (p : ZNode), Good nodes p → (∀ v ∈ V, Good nodes v ∧ v.name ≠ []) →
      linksE c origin nodes ws (some p.name) V ++ closeRec c origin nodes ws (lastName (some p.name) V) =
        chain c origin (p :: V) origin := by
  intro V
  induction V with
  | nil =>
    intro p gp _
    simp only [linksE, lastName, List.getLast?_nil, closeRec, List.nil_append, chain]
    exact addNsec_rec c origin nodes ws p origin gp.look gp.types ho
  | cons v vs ih =>
    intro p gp hV
    obtain ⟨gv, hvn⟩ := hV v (by simp)
    have := ih v gv (fun x hx => hV x (by simp [hx]))
    simp only [linksE, lastName_cons, chain, linkRec, linkFrom, List.append_assoc]
    rw [this, addNsec_rec c origin nodes ws p v.name gp.look gp.types hvn]
    rfl

theorem filter_tail_subset {α} (p : α → Bool) (L : List α) : ∀ x ∈ (L.filter p).tail, x ∈ L.tail := by
  cases L with
  | nil => simp
  | cons a L' =>
    intro x hx
    simp only [List.filter_cons] at hx
    split at hx
    · simp only [List.tail_cons] at hx ⊢
      exact (List.mem_filter.mp hx).1
    · simp only [List.tail_cons]
      exact (List.mem_filter.mp (List.mem_of_mem_tail hx)).1

theorem getLast?_mem_tail_or {α} (V : List α) (z : α) (h : V.getLast? = some z) :
    V.head? = some z ∨ z ∈ V.tail := by
  cases V with
  | nil => simp at h
  | cons a as =>
    cases as with
    | nil => simp at h; left; simp [h]
    | cons b bs =>
      right
      rw [List.getLast?_cons_cons] at h
      simp only [List.tail_cons]
      exact List.mem_of_getLast? h

/-- The NSEC records produced by the walk over a sorted node list are the chain over the secure names. -/
theorem walk_chain (c : NsecConsts) (origin : Name) (nodes : List ZNode) (ws : Bool) (L : List ZNode)
    (hlook : ∀ z ∈ L, lookupNode nodes z.name = some z)
    (htypes : ∀ z ∈ L, z.types ≠ [])
    (htail : ∀ z ∈ L.tail, z.name ≠ [])
    (ho : origin ≠ [])
    (H1 : L.Pairwise (fun a b => subOf a b = false))
    (H3 : ∀ x ∈ L, ∀ y ∈ L, ∀ z ∈ L, subOf x y = true → subOf y z = true → subOf x z = true)
    (HC : contig L = true) :
    nsecsOf (walkSorted c origin nodes ws L) = chain c origin (secure c origin L) origin := by
  have hvis := visit_eq_secure c origin L H1 H3 HC
  obtain ⟨hout, hlast⟩ := fold_visit c origin nodes ws L { delegation := none, lastSecure := none, out := [] }
  simp only [absDeleg, hvis] at hout hlast
  have hnil : nsecsOf ([] : List Evt) = [] := rfl
  rw [hnil, List.nil_append] at hout
  have hsub : ∀ z ∈ secure c origin L, z ∈ L := fun z hz => (List.mem_filter.mp hz).1
  have hgood : ∀ z ∈ secure c origin L, Good nodes z := fun z hz => ⟨hlook z (hsub z hz), htypes z (hsub z hz)⟩
  have htl : ∀ z ∈ (secure c origin L).tail, z.name ≠ [] := fun z hz => htail z (filter_tail_subset _ L z hz)
  -- the closing record is always written under the stated guard
  have hclose : nsecsOf (walkSorted c origin nodes ws L) =
      linksE c origin nodes ws none (secure c origin L) ++ closeRec c origin nodes ws (lastName none (secure c origin L)) := by
    unfold walkSorted
    simp only
    rw [hlast]
    cases hl : lastName none (secure c origin L) with
    | none => simp only [closeRec, List.append_nil]; exact hout
    | some l => simp only [nsecsOf_append, hout, closeRec]
  rw [hclose]
  cases hV : secure c origin L with
  | nil => simp [linksE, lastName, closeRec, chain]
  | cons p V =>
    rw [hV] at hgood htl
    simp only [linksE, linkRec, linkFrom, nsecsOf, List.filterMap_nil, List.nil_append, lastName_cons]
    exact links_chain c origin nodes ws ho V p (hgood p (by simp))
      (fun x hx => ⟨hgood x (by simp [hx]), htl x (by simpa using hx)⟩)

/-! ## what sortedness of the node list gives for free -/

theorem cmpBytes_self (a : Bytes) : cmpBytes a a = 0 := by
  induction a with
  | nil => rfl
  | cons x xs ih => simp [cmpBytes, ih]

theorem fcLoop_self (l : List Label) (k : Nat) : fcLoop l l k = none := by
  induction l generalizing k with
  | nil => rfl
  | cons a as ih => simp [fcLoop, cmpLabel, cmpBytes_self, ih]

theorem cmpOrder_self (a : Name) : cmpOrder a a = 0 := by
  simp [cmpOrder, fullcompare, fcLoop_self]

theorem nameEq_self (a : Name) : nameEq a a = true := by
  simp [nameEq, cmpOrder_self]

theorem cmpOrder_nil_not_lt (a : Name) : ¬ cmpOrder a [] < 0 := by
  unfold cmpOrder fullcompare
  have hn : isAbs ([] : Name) = false := by simp [isAbs]
  cases ha : isAbs a
  · simp only [hn, bne_self_eq_false, Bool.false_eq_true, if_false, List.length_nil, Nat.min_zero, List.take_zero]
    simp [fcLoop]
  · simp [hn]

theorem lookup_of_sorted (L : List ZNode) (hs : L.Pairwise (fun a b => cmpOrder a.name b.name < 0)) :
    ∀ z ∈ L, lookupNode L z.name = some z := by
  induction L with
  | nil => simp
  | cons a L' ih =>
    obtain ⟨ha, hs'⟩ := List.pairwise_cons.mp hs
    intro z hz
    unfold lookupNode
    rcases List.mem_cons.mp hz with rfl | hz
    · simp [List.find?, nameEq_self]
    · have hlt := ha z hz
      have hne : nameEq a.name z.name = false := by
        simp [nameEq]; omega
      simp only [List.find?, hne]
      exact ih hs' z hz

theorem tail_nonempty_of_sorted (L : List ZNode) (hs : L.Pairwise (fun a b => cmpOrder a.name b.name < 0)) :
    ∀ z ∈ L.tail, z.name ≠ [] := by
  cases L with
  | nil => simp
  | cons a L' =>
    intro z hz hzn
    have := (List.pairwise_cons.mp hs).1 z hz
    rw [hzn] at this
    exact cmpOrder_nil_not_lt _ this

end Dnssec
end Model

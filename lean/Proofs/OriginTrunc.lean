import Proofs.OriginRoundTrip
import Proofs.RenderParses
/-! Truncated renderings of messages that carry an origin parse (with that origin) to the prefix, after relativisation. -/
namespace Model

theorem cut_absolutize (m : Message) (o : Name) (k : Nat) (tc : Bool) :
    (m.cut k tc).absolutize o = (m.absolutize o).cut k tc := by
  simp [Message.cut, Message.absolutize, List.map_take]

theorem parse_toWire_trunc_origin (m : Message) (o : Name) (hm : m.origin = some o) (ho : isAbs o = true) (lim : Nat) (w : Bytes)
    (hok : MsgOkP eqvSpec (m.absolutize o)) (h : m.toWire lim true = .ok w)
    (cfg : PCfg) (horg : cfg.origin = none) (hnorr : cfg.oneRRPerRRset = false) (hkey : cfg.hasKey = true) :
    ∃ m' opt', parseMessage { cfg with origin := some o } w = .ok m' ∧ m'.origin = some o ∧ OptPadRel m.pad m.opt opt' ∧
      (m'.simT eqvSpec { m.relNorm o with opt := opt' } ∨
        ∃ k, k < m.items.length ∧ m'.simT eqvSpec { (m.cut k (m.tcAt k)).relNorm o with opt := opt' }) := by
  rcases toWire_truncation m lim w h with h1 | ⟨k, hk, h2⟩
  · obtain ⟨m', opt', hp, hor, hs, hr⟩ := parse_toWire_origin m o hm ho lim w hok h1 cfg horg hnorr hkey
    exact ⟨m', opt', hp, hor, hr, Or.inl hs⟩
  · have hok2 : MsgOkP eqvSpec ((m.cut k (m.tcAt k)).absolutize o) := by
      rw [cut_absolutize]; exact hok.cut k _
    obtain ⟨m', opt', hp, hor, hs, hr⟩ := parse_toWire_origin (m.cut k (m.tcAt k)) o hm ho lim w hok2 h2 cfg horg hnorr hkey
    exact ⟨m', opt', hp, hor, hr, Or.inr ⟨k, hk, hs⟩⟩

end Model

import Proofs.RenderSize
/-! The renderer relative to the current offset: what each write appends (octets and table entries) as a function
of `file.tell()`, the table, the origin and the value written — and nothing else.  In this form RDLENGTH is
written directly (no back-patch), and the content of the buffer before the write is irrelevant. -/
namespace Model

def nameExt (off : Nat) (t : CTable) (n : Name) (origin : Option Name) : Option (Bytes × CTable) :=
  match wireName n origin with
  | some full => some (cLoop off t full)
  | none => none

theorem toWireC_rel (out : Bytes) (t : CTable) (n : Name) (origin : Option Name) :
    toWireC out t n origin =
      match nameExt out.length t n origin with
      | some p => .ok (out ++ p.1, t ++ p.2)
      | none => .error .needAbsolute := by
  rw [toWireC_eq]
  unfold nameExt
  cases wireName n origin <;> rfl

def rdataExt (off : Nat) (t : CTable) (origin : Option Name) : RData → Option (Bytes × CTable)
  | .raw b => some (b, [])
  | .name1 n => nameExt off t n origin
  | .mx p n =>
    match nameExt (off + 2) t n origin with
    | some q => some (u16 p ++ q.1, q.2)
    | none => none
  | .soa m r a b c d e =>
    match nameExt off t m origin with
    | none => none
    | some q1 =>
      match nameExt (off + q1.1.length) (t ++ q1.2) r origin with
      | none => none
      | some q2 => some (q1.1 ++ q2.1 ++ u32 a ++ u32 b ++ u32 c ++ u32 d ++ u32 e, q1.2 ++ q2.2)

theorem rdataToWire_rel (out : Bytes) (t : CTable) (origin : Option Name) (rd : RData) :
    rdataToWire out t origin rd =
      match rdataExt out.length t origin rd with
      | some p => .ok (out ++ p.1, t ++ p.2)
      | none => .error .needAbsolute := by
  cases rd with
  | raw b => simp [rdataToWire, rdataExt]
  | name1 n => simp only [rdataToWire, rdataExt]; exact toWireC_rel out t n origin
  | mx p n =>
    simp only [rdataToWire, rdataExt]
    rw [toWireC_rel]
    have : (out ++ u16 p).length = out.length + 2 := by simp [u16]
    rw [this]
    cases nameExt (out.length + 2) t n origin with
    | none => rfl
    | some q => simp [List.append_assoc]
  | soa m r a b c d e =>
    simp only [rdataToWire, rdataExt]
    rw [toWireC_rel]
    cases h1 : nameExt out.length t m origin with
    | none => rfl
    | some q1 =>
      simp only
      rw [toWireC_rel]
      have : (out ++ q1.1).length = out.length + q1.1.length := by simp
      rw [this]
      cases h2 : nameExt (out.length + q1.1.length) (t ++ q1.2) r origin with
      | none => rfl
      | some q2 => simp [List.append_assoc]

/-- one resource record: owner, TYPE, CLASS, TTL, RDLENGTH, RDATA -/
def rrExt (owner : Name) (rdtype rdclass ttl : Nat) (origin : Option Name) (off : Nat) (t : CTable) (rd : RData) :
    Except RErr (Bytes × CTable) :=
  match nameExt off t owner origin with
  | none => .error .needAbsolute
  | some q1 =>
    match rdataExt (off + q1.1.length + 10) (t ++ q1.2) origin rd with
    | none => .error .needAbsolute
    | some q3 =>
      if q3.1.length > 65535 then .error .formError
      else .ok (q1.1 ++ u16 rdtype ++ u16 rdclass ++ u32 ttl ++ u16 q3.1.length ++ q3.1, q1.2 ++ q3.2)

def rdsExt (owner : Name) (rdtype rdclass ttl : Nat) (origin : Option Name) :
    Nat → CTable → List RData → Except RErr (Bytes × CTable)
  | _, _, [] => .ok ([], [])
  | off, t, rd :: rest =>
    match rrExt owner rdtype rdclass ttl origin off t rd with
    | .error e => .error e
    | .ok q =>
      match rdsExt owner rdtype rdclass ttl origin (off + q.1.length) (t ++ q.2) rest with
      | .error e => .error e
      | .ok q' => .ok (q.1 ++ q'.1, q.2 ++ q'.2)

theorem patchLen_eq' (pre body : Bytes) :
    patchLen (pre ++ [0, 0] ++ body) (pre ++ [0, 0]).length =
      if body.length > 65535 then .error .formError else .ok (pre ++ u16 body.length ++ body) := by
  cases hp : patchLen (pre ++ [0, 0] ++ body) (pre ++ [0, 0]).length with
  | ok o4 =>
    obtain ⟨h1, h2⟩ := patchLen_spec pre body o4 hp
    have : ¬ body.length > 65535 := by omega
    simp [this, h1]
  | error e =>
    unfold patchLen at hp
    have hl : (pre ++ [0, 0] ++ body).length - (pre ++ [0, 0]).length = body.length := by simp; omega
    simp only [hl] at hp
    split at hp
    · split at hp
      · rename_i hbig; simp at hp; subst hp; simp [hbig]
      · simp at hp
    · simp at hp

theorem rdsLoop_rel (owner : Name) (rdtype rdclass ttl : Nat) (origin : Option Name) (rds : List RData) :
    ∀ (out : Bytes) (t : CTable),
      rdsLoop owner rdtype rdclass ttl origin out t rds =
        match rdsExt owner rdtype rdclass ttl origin out.length t rds with
        | .ok p => .ok (out ++ p.1, t ++ p.2)
        | .error e => .error e := by
  induction rds with
  | nil => intro out t; simp [rdsLoop, rdsExt]
  | cons rd rest ih =>
    intro out t
    unfold rdsLoop rdsExt rrExt
    rw [toWireC_rel]
    cases h1 : nameExt out.length t owner origin with
    | none => rfl
    | some q1 =>
      simp only
      rw [rdataToWire_rel]
      have hl : (out ++ q1.1 ++ u16 rdtype ++ u16 rdclass ++ u32 ttl ++ [0, 0]).length = out.length + q1.1.length + 10 := by
        simp [u16, u32]; omega
      rw [hl]
      cases h3 : rdataExt (out.length + q1.1.length + 10) (t ++ q1.2) origin rd with
      | none => rfl
      | some q3 =>
        simp only
        have hp := patchLen_eq' (out ++ q1.1 ++ u16 rdtype ++ u16 rdclass ++ u32 ttl) q3.1
        rw [hl] at hp
        rw [hp]
        by_cases hb : q3.1.length > 65535
        · simp [hb]
        · simp only [hb, if_false]
          rw [ih]
          have hl2 : (out ++ q1.1 ++ u16 rdtype ++ u16 rdclass ++ u32 ttl ++ u16 q3.1.length ++ q3.1).length
              = out.length + (q1.1 ++ u16 rdtype ++ u16 rdclass ++ u32 ttl ++ u16 q3.1.length ++ q3.1).length := by
            simp
          rw [hl2]
          simp only [List.append_assoc]
          cases rdsExt owner rdtype rdclass ttl origin
              (out.length + (q1.1 ++ (u16 rdtype ++ (u16 rdclass ++ (u32 ttl ++ (u16 q3.1.length ++ q3.1))))).length)
              (t ++ (q1.2 ++ q3.2)) rest with
          | error e => rfl
          | ok q' => simp [List.append_assoc]

/-- `RRset.to_wire` relative to the offset: octets, table entries, number of records -/
def rrsetExt (off : Nat) (t : CTable) (origin : Option Name) (r : RRset) : Except RErr (Bytes × CTable × Nat) :=
  let rdclass := r.wireClass
  if r.rdatas.length = 0 then
    match nameExt off t r.name origin with
    | none => .error .needAbsolute
    | some q => .ok (q.1 ++ u16 r.rdtype ++ u16 rdclass ++ u32 0 ++ u16 0, q.2, 1)
  else
    match rdsExt r.name r.rdtype rdclass r.ttl origin off t r.rdatas with
    | .error e => .error e
    | .ok q => .ok (q.1, q.2, r.rdatas.length)

theorem rrsetToWire_rel (out : Bytes) (t : CTable) (origin : Option Name) (r : RRset) :
    rrsetToWire out t origin r =
      match rrsetExt out.length t origin r with
      | .ok p => .ok (out ++ p.1, t ++ p.2.1, p.2.2)
      | .error e => .error e := by
  unfold rrsetToWire rrsetExt
  simp only
  split
  · rw [toWireC_rel]
    cases nameExt out.length t r.name origin with
    | none => rfl
    | some q => simp [List.append_assoc]
  · rw [rdsLoop_rel]
    cases rdsExt r.name r.rdtype r.wireClass r.ttl origin out.length t r.rdatas with
    | error e => rfl
    | ok q => rfl

/-- what one `add_question` / `add_rrset` appends -/
def itemExt (off : Nat) (t : CTable) (origin : Option Name) : Item → Except RErr (Bytes × CTable × Nat)
  | .q n rdtype rdclass =>
    match nameExt off t n origin with
    | none => .error .needAbsolute
    | some q => .ok (q.1 ++ u16 rdtype ++ u16 rdclass, q.2, 1)
  | .rr _ r => rrsetExt off t origin r

theorem addItem_rel (s : RState) (it : Item) :
    s.addItem it =
      match s.setSection it.sec with
      | .error e => .err e
      | .ok s1 =>
        match itemExt s1.out.length s1.tbl s1.origin it with
        | .error e => .err e
        | .ok p => s1.endTrack s1.out.length (s1.out ++ p.1) (s1.tbl ++ p.2.1) it.sec p.2.2 := by
  cases it with
  | q n rdtype rdclass =>
    simp only [RState.addItem, RState.addQuestion, Item.sec, itemExt]
    cases s.setSection 0 with
    | error e => rfl
    | ok s1 =>
      simp only
      rw [toWireC_rel]
      cases nameExt s1.out.length s1.tbl n s1.origin with
      | none => rfl
      | some q => simp [List.append_assoc]
  | rr sec r =>
    simp only [RState.addItem, RState.addRRset, Item.sec, itemExt]
    cases s.setSection sec with
    | error e => rfl
    | ok s1 =>
      simp only
      rw [rrsetToWire_rel]
      cases rrsetExt s1.out.length s1.tbl s1.origin r with
      | error e => rfl
      | ok p => rfl

end Model

import Model.Cache
import Proofs.CacheSys
/-! Helper lemmas for C17, part 5: the finer lock model (`acquire; steps…; release`, every command of every thread
interleaves) is linearizable because of the lock discipline, which is an invariant of the code, not of the semantics. -/
namespace Model.Cache

variable {σ ρ : Type}

/-! ### discipline facts -/

theorem disc_post_nil : disc (σ := σ) (ρ := ρ) .post [] = true := rfl
theorem disc_pre_nil : disc (σ := σ) (ρ := ρ) .pre [] = false := rfl
theorem disc_cs_nil : disc (σ := σ) (ρ := ρ) .cs [] = false := rfl

/-- registers after the remaining thread-local commands -/
def locRun : List (Cmd σ ρ) → ρ → ρ
  | [], r => r
  | .loc f :: k, r => locRun k (f r)
  | _ :: k, r => locRun k r

theorem solo_post (k : List (Cmd σ ρ)) (r : ρ) (s : σ) (h : disc .post k = true) : solo k r s = (locRun k r, s) := by
  induction k generalizing r with
  | nil => rfl
  | cons c k ih =>
    cases c with
    | acquire => simp [disc] at h
    | release => simp [disc] at h
    | acc f => simp [disc] at h
    | loc f => simp only [disc] at h; simp only [solo, locRun]; exact ih (f r) h

theorem disc_post_not_pre (k : List (Cmd σ ρ)) (h : disc .post k = true) : disc .pre k = false := by
  induction k with
  | nil => rfl
  | cons c k ih =>
    cases c with
    | acquire => simp [disc] at h
    | release => simp [disc] at h
    | acc f => simp [disc] at h
    | loc f => simp only [disc] at h ⊢; exact ih h

theorem disc_post_not_cs (k : List (Cmd σ ρ)) (h : disc .post k = true) : disc .cs k = false := by
  induction k with
  | nil => rfl
  | cons c k ih =>
    cases c with
    | acquire => simp [disc] at h
    | release => simp [disc] at h
    | acc f => simp [disc] at h
    | loc f => simp only [disc] at h ⊢; exact ih h

/-! ### the invariant -/

def Implements (step : σ → Op → σ × Out) (c : Call σ ρ) : Prop := ∀ s, callSem c s = step s c.op

/-- a call whose code keeps the lock discipline and, run alone, is the sequential operation it stands for -/
def Good (step : σ → Op → σ × Out) (c : Call σ ρ) : Prop := disc .pre c.code = true ∧ Implements step c

def seqS (step : σ → Op → σ × Out) (s0 : σ) (d : List (Nat × Op)) : σ := (runG step s0 (d.map (·.2))).1

/-- results the sequential run `d` hands to thread `j` -/
def outsOf (step : σ → Op → σ × Out) (s0 : σ) (d : List (Nat × Op)) (j : Nat) : List Out :=
  ((d.zip (runG step s0 (d.map (·.2))).2).filter (fun e => e.1.1 = j)).map (·.2)

/-- operations whose critical section is complete, in lock-acquisition order -/
def doneOps (y : MSys σ ρ) : List (Nat × Op) :=
  match y.lock with
  | none => y.acq
  | some _ => y.acq.dropLast

/-- the result a thread that has left its critical section is about to return -/
def pending (t : MThread σ ρ) : List Out :=
  match t.cur with
  | none => []
  | some r => if disc .post r.rest = true then [r.call.ret (locRun r.rest r.regs)] else []

structure MInv (step : σ → Op → σ × Out) (s0 : σ) (y : MSys σ ρ) : Prop where
  wfTodo : ∀ j, ∀ c ∈ (y.threads j).todo, Good step c
  wfCur : ∀ j r, (y.threads j).cur = some r → Good step r.call
  /-- the lock holder is inside its critical section and, from here, finishes exactly as if it had run alone from
  the sequential state; with the lock free the shared state *is* the sequential state -/
  lockSt : match y.lock with
    | none => y.shared = seqS step s0 y.acq
    | some i => ∃ r pre, (y.threads i).cur = some r ∧ disc .cs r.rest = true ∧ y.acq = pre ++ [(i, r.call.op)] ∧
        solo r.rest r.regs y.shared = solo r.call.code r.call.init (seqS step s0 pre)
  /-- **lock discipline as an invariant**: a thread that does not hold the lock is before its critical section
  (and has computed nothing that depends on shared state) or after it (only local commands left) -/
  others : ∀ j r, y.lock ≠ some j → (y.threads j).cur = some r →
    (disc .pre r.rest = true ∧ ∀ s, solo r.rest r.regs s = solo r.call.code r.call.init s) ∨ disc .post r.rest = true
  outs : ∀ j, (y.threads j).outs ++ pending (y.threads j) = outsOf step s0 (doneOps y) j

theorem updM_same (f : Nat → MThread σ ρ) (i : Nat) (t : MThread σ ρ) : updM f i t i = t := by simp [updM]
theorem updM_other (f : Nat → MThread σ ρ) (i j : Nat) (t : MThread σ ρ) (h : j ≠ i) : updM f i t j = f j := by
  simp [updM, h]

theorem runG_length {σ : Type} (step : σ → Op → σ × Out) (s : σ) (ops : List Op) : (runG step s ops).2.length = ops.length := by
  induction ops generalizing s with
  | nil => rfl
  | cons o rest ih => simp [runG, ih]

theorem outsOf_snoc (step : σ → Op → σ × Out) (s0 : σ) (d : List (Nat × Op)) (i : Nat) (op : Op) (j : Nat) :
    outsOf step s0 (d ++ [(i, op)]) j =
      outsOf step s0 d j ++ (if i = j then [(step (seqS step s0 d) op).2] else []) := by
  unfold outsOf seqS
  simp only [List.map_append, List.map_cons, List.map_nil, runG_snoc]
  rw [List.zip_append (by simp [runG_length])]
  simp only [List.zip_cons_cons, List.zip_nil_right, List.filter_append, List.map_append]
  congr 1
  by_cases h : i = j <;> simp [h]

theorem mInv_init (step : σ → Op → σ × Out) (s0 : σ) (progs : Nat → List (Call σ ρ))
    (hg : ∀ j, ∀ c ∈ progs j, Good step c) : MInv step s0 (mInit s0 progs) := by
  refine ⟨hg, fun j r h => by simp [mInit] at h, ?_, fun j r _ h => by simp [mInit] at h, fun j => ?_⟩
  · simp [mInit, seqS, runG]
  · simp [mInit, pending, outsOf, doneOps, runG]

/-- the thread that moves is not the lock holder, and nothing it does touches shared state, the lock or `acq` -/
theorem mInv_local (step : σ → Op → σ × Out) (s0 : σ) (y : MSys σ ρ) (i : Nat) (t' : MThread σ ρ)
    (h : MInv step s0 y) (hnh : y.lock ≠ some i)
    (htodo : ∀ c ∈ t'.todo, Good step c) (hcur : ∀ r, t'.cur = some r → Good step r.call)
    (hoth : ∀ r, t'.cur = some r →
      (disc .pre r.rest = true ∧ ∀ s, solo r.rest r.regs s = solo r.call.code r.call.init s) ∨ disc .post r.rest = true)
    (hout : t'.outs ++ pending t' = (y.threads i).outs ++ pending (y.threads i)) :
    MInv step s0 { y with threads := updM y.threads i t' } := by
  refine ⟨fun j => ?_, fun j r hr => ?_, ?_, fun j r hl hr => ?_, fun j => ?_⟩
  · by_cases hj : j = i
    · subst hj; simp only [updM_same]; exact htodo
    · simp only [updM_other _ _ _ _ hj]; exact h.wfTodo j
  · by_cases hj : j = i
    · subst hj; simp only [updM_same] at hr; exact hcur r hr
    · simp only [updM_other _ _ _ _ hj] at hr; exact h.wfCur j r hr
  · have hl := h.lockSt
    cases hlock : y.lock with
    | none => rw [hlock] at hl; simpa [hlock] using hl
    | some k =>
      rw [hlock] at hl
      have hki : k ≠ i := fun e => hnh (by rw [hlock, e])
      simp only [hlock]
      obtain ⟨r, pre, h1, h2, h3, h4⟩ := hl
      exact ⟨r, pre, by rw [updM_other _ _ _ _ hki]; exact h1, h2, h3, h4⟩
  · by_cases hj : j = i
    · subst hj; simp only [updM_same] at hr; exact hoth r hr
    · simp only [updM_other _ _ _ _ hj] at hr; exact h.others j r hl hr
  · change _ = outsOf step s0 (doneOps y) j
    by_cases hj : j = i
    · subst hj; simp only [updM_same]; rw [hout]; exact h.outs j
    · simp only [updM_other _ _ _ _ hj]; exact h.outs j

theorem holder_cur (step : σ → Op → σ × Out) (s0 : σ) (y : MSys σ ρ) (i : Nat) (h : MInv step s0 y)
    (r : Running σ ρ) (hr : (y.threads i).cur = some r) (hpre : disc .pre r.rest = false) (hpost : disc .post r.rest = false) :
    y.lock = some i := by
  apply Classical.byContradiction
  intro hne
  rcases h.others i r hne hr with ⟨h1, _⟩ | h2
  · rw [hpre] at h1; cases h1
  · rw [hpost] at h2; cases h2

theorem mInv_step (step : σ → Op → σ × Out) (s0 : σ) (y : MSys σ ρ) (i : Nat) (h : MInv step s0 y) :
    MInv step s0 (mStep y i) := by
  unfold mStep
  simp only
  split
  · -- no call in progress
    rename_i hcur
    have hnh : y.lock ≠ some i := by
      intro hl
      have := h.lockSt; rw [hl] at this
      obtain ⟨r, _, h1, _⟩ := this
      rw [hcur] at h1; cases h1
    split
    · exact h
    · rename_i c rest htodo
      have hg : Good step c := h.wfTodo i c (by rw [htodo]; simp)
      refine mInv_local step s0 y i _ h hnh ?_ ?_ ?_ ?_
      · exact fun c' hc' => h.wfTodo i c' (by rw [htodo]; exact List.mem_cons_of_mem _ hc')
      · intro r hr; simp only [Option.some.injEq] at hr; subst hr; exact hg
      · intro r hr; simp only [Option.some.injEq] at hr; subst hr; exact Or.inl ⟨hg.1, fun s => rfl⟩
      · have : disc (σ := σ) (ρ := ρ) .post c.code = false := by
          cases hd : disc (σ := σ) (ρ := ρ) .post c.code with
          | false => rfl
          | true => have := disc_post_not_pre _ hd; rw [hg.1] at this; cases this
        simp [pending, hcur, this]
  · -- the call is finished: return
    rename_i c regs hcur
    have hnh : y.lock ≠ some i := by
      intro hl
      have := h.lockSt; rw [hl] at this
      obtain ⟨r, _, h1, h2, _⟩ := this
      rw [hcur] at h1; cases h1; simp [disc] at h2
    refine mInv_local step s0 y i _ h hnh (h.wfTodo i) (fun r hr => by simp at hr) (fun r hr => by simp at hr) ?_
    simp [pending, hcur, disc, locRun]
  · -- acquire
    rename_i c k regs hcur
    split
    · exact h
    · rename_i hlock
      have hg := h.wfCur i _ hcur
      have ho := h.others i _ (by rw [hlock]; simp) hcur
      have hpre : disc .cs k = true ∧ ∀ s, solo k regs s = solo c.code c.init s := by
        rcases ho with ⟨h1, h2⟩ | h2
        · exact ⟨by simpa [disc] using h1, fun s => by simpa [solo] using h2 s⟩
        · simp [disc] at h2
      have hl := h.lockSt; rw [hlock] at hl
      refine ⟨fun j => ?_, fun j r hr => ?_, ?_, fun j r hl' hr => ?_, fun j => ?_⟩
      · by_cases hj : j = i
        · subst hj; simp only [updM_same]; exact h.wfTodo j
        · simp only [updM_other _ _ _ _ hj]; exact h.wfTodo j
      · by_cases hj : j = i
        · subst hj; simp only [updM_same, Option.some.injEq] at hr; subst hr; exact hg
        · simp only [updM_other _ _ _ _ hj] at hr; exact h.wfCur j r hr
      · simp only
        exact ⟨⟨c, k, regs⟩, y.acq, by simp [updM_same], hpre.1, rfl, by simp only; rw [hpre.2, hl]⟩
      · have hj : j ≠ i := fun e => hl' (by rw [e])
        simp only [updM_other _ _ _ _ hj] at hr
        exact h.others j r (by rw [hlock]; simp) hr
      · have e0 : doneOps y = y.acq := by simp [doneOps, hlock]
        simp only [doneOps, List.dropLast_concat]
        rw [← e0]
        by_cases hj : j = i
        · subst hj
          simp only [updM_same]
          have := h.outs j
          rw [← this]
          have e1 : disc .post k = false := by
            cases hd : disc .post k with
            | false => rfl
            | true => have := disc_post_not_cs _ hd; rw [hpre.1] at this; cases this
          simp [pending, hcur, e1, disc]
        · simp only [updM_other _ _ _ _ hj]; exact h.outs j
  · -- release
    rename_i c k regs hcur
    have hlock : y.lock = some i := holder_cur step s0 y i h _ hcur (by simp [disc]) (by simp [disc])
    have hl := h.lockSt; rw [hlock] at hl
    obtain ⟨r, pre, h1, h2, h3, h4⟩ := hl
    rw [hcur] at h1
    simp only [Option.some.injEq] at h1
    subst h1
    have hpost : disc .post k = true := by simpa [disc] using h2
    have hg := h.wfCur i _ hcur
    simp only [solo] at h4
    rw [solo_post k regs y.shared hpost] at h4
    have himp := hg.2 (seqS step s0 pre)
    simp only [callSem] at himp
    rw [← h4] at himp
    simp only at himp
    refine ⟨fun j => ?_, fun j r hr => ?_, ?_, fun j r hl' hr => ?_, fun j => ?_⟩
    · by_cases hj : j = i
      · subst hj; simp only [updM_same]; exact h.wfTodo j
      · simp only [updM_other _ _ _ _ hj]; exact h.wfTodo j
    · by_cases hj : j = i
      · subst hj; simp only [updM_same, Option.some.injEq] at hr; subst hr; exact hg
      · simp only [updM_other _ _ _ _ hj] at hr; exact h.wfCur j r hr
    · simp only
      rw [h3]
      unfold seqS
      simp only [List.map_append, List.map_cons, List.map_nil, runG_snoc]
      have := congrArg Prod.fst himp
      simpa [seqS] using this
    · by_cases hj : j = i
      · subst hj; simp only [updM_same, Option.some.injEq] at hr; subst hr; exact Or.inr hpost
      · simp only [updM_other _ _ _ _ hj] at hr
        exact h.others j r (by rw [hlock]; simp; exact fun e => hj e.symm) hr
    · have e0 : doneOps y = pre := by simp [doneOps, hlock, h3]
      simp only [doneOps]
      rw [h3, outsOf_snoc]
      have ho := h.outs j
      rw [e0] at ho
      by_cases hj : j = i
      · subst hj
        simp only [updM_same, if_true]
        rw [← ho]
        have e1 : disc .post (Cmd.release :: k) = false := by simp [disc]
        have := congrArg Prod.snd himp
        simp only at this
        simp [pending, hcur, e1, hpost, ← this]
      · have : ¬ i = j := fun e => hj e.symm
        simp only [updM_other _ _ _ _ hj, this, if_false, List.append_nil]; exact ho
  · -- shared access
    rename_i c f k regs hcur
    have hlock : y.lock = some i := holder_cur step s0 y i h _ hcur (by simp [disc]) (by simp [disc])
    have hl := h.lockSt; rw [hlock] at hl
    obtain ⟨r, pre, h1, h2, h3, h4⟩ := hl
    rw [hcur] at h1
    simp only [Option.some.injEq] at h1
    subst h1
    have hcs : disc .cs k = true := by simpa [disc] using h2
    have hg := h.wfCur i _ hcur
    refine ⟨fun j => ?_, fun j r hr => ?_, ?_, fun j r hl' hr => ?_, fun j => ?_⟩
    · by_cases hj : j = i
      · subst hj; simp only [updM_same]; exact h.wfTodo j
      · simp only [updM_other _ _ _ _ hj]; exact h.wfTodo j
    · by_cases hj : j = i
      · subst hj; simp only [updM_same, Option.some.injEq] at hr; subst hr; exact hg
      · simp only [updM_other _ _ _ _ hj] at hr; exact h.wfCur j r hr
    · simp only [hlock]
      exact ⟨⟨c, k, (f regs y.shared).1⟩, pre, by simp [updM_same], hcs, h3, by simpa [solo] using h4⟩
    · have hj : j ≠ i := fun e => hl' (by rw [e]; exact hlock)
      simp only [updM_other _ _ _ _ hj] at hr
      exact h.others j r hl' hr
    · change _ = outsOf step s0 (doneOps y) j
      by_cases hj : j = i
      · subst hj
        simp only [updM_same]
        rw [← h.outs j]
        have e1 : disc .post k = false := by
          cases hd : disc .post k with
          | false => rfl
          | true => have := disc_post_not_cs _ hd; rw [hcs] at this; cases this
        simp [pending, hcur, e1, disc]
      · simp only [updM_other _ _ _ _ hj]; exact h.outs j
  · -- thread-local command
    rename_i c f k regs hcur
    have hg := h.wfCur i _ hcur
    by_cases hlock : y.lock = some i
    · have hl := h.lockSt; rw [hlock] at hl
      obtain ⟨r, pre, h1, h2, h3, h4⟩ := hl
      rw [hcur] at h1
      simp only [Option.some.injEq] at h1
      subst h1
      have hcs : disc .cs k = true := by simpa [disc] using h2
      refine ⟨fun j => ?_, fun j r hr => ?_, ?_, fun j r hl' hr => ?_, fun j => ?_⟩
      · by_cases hj : j = i
        · subst hj; simp only [updM_same]; exact h.wfTodo j
        · simp only [updM_other _ _ _ _ hj]; exact h.wfTodo j
      · by_cases hj : j = i
        · subst hj; simp only [updM_same, Option.some.injEq] at hr; subst hr; exact hg
        · simp only [updM_other _ _ _ _ hj] at hr; exact h.wfCur j r hr
      · simp only [hlock]
        exact ⟨⟨c, k, f regs⟩, pre, by simp [updM_same], hcs, h3, by simpa [solo] using h4⟩
      · have hj : j ≠ i := fun e => hl' (by rw [e]; exact hlock)
        simp only [updM_other _ _ _ _ hj] at hr
        exact h.others j r hl' hr
      · change _ = outsOf step s0 (doneOps y) j
        by_cases hj : j = i
        · subst hj
          simp only [updM_same]
          rw [← h.outs j]
          have e1 : disc .post k = false := by
            cases hd : disc .post k with
            | false => rfl
            | true => have := disc_post_not_cs _ hd; rw [hcs] at this; cases this
          simp [pending, hcur, e1, disc]
        · simp only [updM_other _ _ _ _ hj]; exact h.outs j
    · have ho := h.others i _ hlock hcur
      refine mInv_local step s0 y i _ h hlock (h.wfTodo i) ?_ ?_ ?_
      · intro r hr; simp only [Option.some.injEq] at hr; subst hr; exact hg
      · intro r hr; simp only [Option.some.injEq] at hr; subst hr
        rcases ho with ⟨h1, h2⟩ | h2
        · exact Or.inl ⟨by simpa [disc] using h1, fun s => by simpa [solo] using h2 s⟩
        · exact Or.inr (by simpa [disc] using h2)
      · by_cases hp : disc .post k = true <;> simp [pending, hcur, disc, locRun, hp]

theorem mInv_run (step : σ → Op → σ × Out) (s0 : σ) (y : MSys σ ρ) (sched : List Nat) (h : MInv step s0 y) :
    MInv step s0 (mRun y sched) := by
  induction sched generalizing y with
  | nil => exact h
  | cons i rest ih => exact ih _ (mInv_step step s0 y i h)

/-! ### the concrete method codes keep the discipline and implement the sequential operations -/

theorem disc_codeC (op : Op) : disc .pre (codeC op) = true := by
  cases op <;> rfl

theorem disc_codeL (op : Op) : disc .pre (codeL op) = true := by
  cases op <;> rfl

theorem impl_callC (op : Op) : Implements stepC (callC op) := by
  intro s
  cases op with
  | get k =>
    simp only [callSem, callC, codeC, cleanC, List.cons_append, List.nil_append, solo, stepC, maybeClean, regs0, id]
    by_cases hc : s.nextCleaning ≤ s.now
    · simp only [hc, decide_true, if_true]
      cases hd : dget (List.filter (fun p => decide ¬p.2.exp ≤ s.now) s.data) k with
      | none => rfl
      | some a => by_cases he : a.exp ≤ s.now <;> simp [he]
    · simp only [hc, decide_false, Bool.false_eq_true, if_false]
      cases hd : dget s.data k with
      | none => rfl
      | some a => by_cases he : a.exp ≤ s.now <;> simp [he]
  | put k a =>
    simp only [callSem, callC, codeC, cleanC, List.cons_append, List.nil_append, solo, stepC, maybeClean, regs0, id]
    by_cases hc : s.nextCleaning ≤ s.now <;> simp [hc]
  | flush k => rfl
  | flushAll => rfl
  | adv dt => rfl
  | hits => rfl
  | misses => rfl
  | reset => rfl
  | snapshot => rfl
  | setMax n => rfl
  | hitsFor k => rfl

theorem impl_callL (op : Op) : Implements stepL (callL op) := by
  intro s
  cases op with
  | get k =>
    have hcases : findNode s.ring k = none ∨ ∃ n, findNode s.ring k = some n := by
      cases findNode s.ring k <;> simp
    rcases hcases with hf | ⟨n, hf⟩
    · simp [callSem, callL, codeL, solo, stepL, regs0, hf]
    · by_cases he : n.ans.exp ≤ s.now <;> simp [callSem, callL, codeL, solo, stepL, regs0, hf, he]
  | put k a => rfl
  | flush k => rfl
  | flushAll => rfl
  | setMax n => rfl
  | adv dt => rfl
  | hits => rfl
  | misses => rfl
  | hitsFor k =>
    have hcases : findNode s.ring k = none ∨ ∃ n, findNode s.ring k = some n := by
      cases findNode s.ring k <;> simp
    rcases hcases with hf | ⟨n, hf⟩
    · simp [callSem, callL, codeL, solo, stepL, regs0, hf]
    · by_cases he : n.ans.exp ≤ s.now <;> simp [callSem, callL, codeL, solo, stepL, regs0, hf, he]
  | reset => rfl
  | snapshot => rfl

theorem good_callC (op : Op) : Good stepC (callC op) := ⟨disc_codeC op, impl_callC op⟩
theorem good_callL (op : Op) : Good stepL (callL op) := ⟨disc_codeL op, impl_callL op⟩

end Model.Cache

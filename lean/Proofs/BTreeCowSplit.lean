import Proofs.BTreeCowNode
import Proofs.BTreeInsert2
/-!
Mechanism-level proofs, part 3: `split` of an owned child followed by `adopt` in the owned parent.
-/
namespace Model.BTreeCow
open Model.BTree

/-- bookkeeping for rearranged reach lists: if every address occurs in the new list at most as often as in the
old list plus the fresh addresses, the new list has no duplicates and consists of old and fresh addresses -/
theorem nodup_sub_of_count {new old fresh : List Nat}
    (hcount : ∀ x, List.count x new ≤ List.count x old + List.count x fresh)
    (hold : old.Nodup) (hfresh : fresh.Nodup) (hdis : ∀ x ∈ fresh, x ∉ old) :
    new.Nodup ∧ ∀ x ∈ new, x ∈ old ∨ x ∈ fresh := by
  constructor
  · rw [List.nodup_iff_count]
    intro x
    have h1 := (List.nodup_iff_count.mp hold) x
    have h2 := (List.nodup_iff_count.mp hfresh) x
    have h3 := hcount x
    by_cases hx : x ∈ fresh
    · have := List.count_eq_zero.mpr (hdis x hx)
      omega
    · have := List.count_eq_zero.mpr hx
      omega
  · intro x hx
    have h0 := List.count_pos_iff.mpr hx
    have h3 := hcount x
    by_cases ho : x ∈ old
    · exact Or.inl ho
    · right
      have := List.count_eq_zero.mpr ho
      exact List.count_pos_iff.mp (by omega)

theorem absN_elts (H : Heap) (h a : Nat) : (absN H h a).elts = (rd H a).elts := by
  cases h <;> simp [absN, Node.elts]

theorem flatMap_take_drop {α β} (l : List α) (f : α → List β) (n : Nat) :
    l.flatMap f = (l.take n).flatMap f ++ (l.drop n).flatMap f := by
  rw [← List.flatMap_append, List.take_append_drop]

/-- `child.split()` + `parent.adopt(…)` for the owned child at index `|kl|` of the owned parent, when the search
for the middle key in the parent lands on that index -/
theorem split_adopt_spec {c t : Nat} {H : Heap} {h p : Nat} {kl kr : List Nat} {k : Nat} (ht1 : 1 ≤ t)
    (g : Good c H (h + 1) p) (hk : (rd H p).kids = kl ++ k :: kr) (gk : Good c H h k)
    (hmax : (rd H k).elts.length = maxKeys t)
    (hj : (searchInNode (rd H p).elts (eltAt (rd H k).elts (minKeys t)).1).1 = kl.length) :
    let sp := hSplit t H k
    let H3 := hAdopt sp.1 p k sp.2.1 sp.2.2
    let psp := split t (absN H h k)
    Upd c H H3 (h + 1) p
      (.node (insAt (rd H p).elts kl.length psp.2.1)
        (kl.map (absN H h) ++ psp.1 :: psp.2.2 :: kr.map (absN H h))) := by
  intro sp H3 psp
  have hkmem : k ∈ (rd H p).kids := by rw [hk]; simp
  have hplt := HT_lt g.ht
  have hklt := HT_lt gk.ht
  obtain ⟨ndk, ndis⟩ := nodup_kid g.nodup hk
  have hpk : p ∉ reach H h k := self_notin_kid g.nodup hkmem
  have hpnek : p ≠ k := fun e => hpk (e ▸ self_mem_reach H h k)
  -- the three heaps
  let R : Cell := { creator := (rd H k).creator, leaf := (rd H k).leaf, elts := (rd H k).elts.drop (minKeys t + 1),
                    kids := if (rd H k).leaf then [] else (rd H k).kids.drop (minKeys t + 1) }
  let K' : Cell := { rd H k with elts := (rd H k).elts.take (minKeys t),
                                 kids := if (rd H k).leaf then (rd H k).kids else (rd H k).kids.take (minKeys t + 1) }
  let Ha := (alloc H R).1
  let H2 := wr Ha k K'
  have hsp : sp = (H2, eltAt (rd H k).elts (minKeys t), H.size) := rfl
  have hrd2p : rd H2 p = rd H p := by
    show rd (wr Ha k K') p = _
    rw [rd_wr_other _ (Ne.symm hpnek)]; exact rd_alloc_old _ hplt
  let P' : Cell := { rd H p with elts := insAt (rd H p).elts kl.length (eltAt (rd H k).elts (minKeys t)),
                                 kids := kl ++ k :: H.size :: kr }
  have hH3 : H3 = wr H2 p P' := by
    show hAdopt sp.1 p k sp.2.1 sp.2.2 = _
    rw [hsp]
    simp only [hAdopt, hrd2p, hj, hk]
    have : (kl ++ k :: kr).isEmpty = false := by simp
    simp only [this, Bool.false_eq_true, if_false, insAt_at_succ rfl]
    rfl
  have hsz2 : H2.size = H.size + 1 := by simp [H2, Ha]
  have hsz3 : H3.size = H.size + 1 := by rw [hH3]; simp [hsz2]
  have hrd3p : rd H3 p = P' := by rw [hH3]; exact rd_wr_same _ (by omega)
  have hrd3k : rd H3 k = K' := by
    rw [hH3, rd_wr_other _ hpnek]
    exact rd_wr_same _ (by simp [Ha]; omega)
  have hrd3r : rd H3 H.size = R := by
    rw [hH3, rd_wr_other _ (show p ≠ H.size by omega)]
    show rd (wr Ha k K') H.size = _
    rw [rd_wr_other _ (show k ≠ H.size by omega)]
    exact rd_alloc_new _ _
  have so : SameOff [p, k] H H3 := by
    rw [hH3]
    exact ((SameOff.alloc (SameOff.refl H) R).wr k K').wr p P'
  -- untouched subtrees
  have hfr : ∀ j ∈ kl ++ kr, absN H3 h j = absN H h j ∧ reach H3 h j = reach H h j ∧ HT H3 h j := by
    intro j hj'
    have hjm : j ∈ (rd H p).kids := by
      rw [hk]; rcases List.mem_append.mp hj' with hj' | hj' <;> simp [hj']
    apply frame_off so (HT_kid g.ht hjm)
    intro x hx hxw
    simp only [List.mem_cons, List.not_mem_nil, or_false] at hxw
    rcases hxw with rfl | rfl
    · exact self_notin_kid g.nodup hjm hx
    · exact ndis x (self_mem_reach H h x) j hj' hx
  have hmapl : kl.flatMap (reach H3 h) = kl.flatMap (reach H h) := by
    rw [List.flatMap_def, List.flatMap_def]; congr 1
    exact List.map_congr_left (fun j hj' => (hfr j (by simp [hj'])).2.1)
  have hmapr : kr.flatMap (reach H3 h) = kr.flatMap (reach H h) := by
    rw [List.flatMap_def, List.flatMap_def]; congr 1
    exact List.map_congr_left (fun j hj' => (hfr j (by simp [hj'])).2.1)
  -- the two halves
  have hhalves : absN H3 h k = psp.1 ∧ absN H3 h H.size = psp.2.2 ∧ psp.2.1 = eltAt (rd H k).elts (minKeys t) ∧
      HT H3 h k ∧ HT H3 h H.size ∧
      (∀ x, List.count x (reach H3 h k ++ reach H3 h H.size) ≤ List.count x (reach H h k) + List.count x [H.size]) := by
    cases h with
    | zero =>
      refine ⟨by simp [absN, hrd3k, K', psp, split], by simp [absN, hrd3r, R, psp, split],
        by simp [psp, absN, split], ⟨by omega, by rw [hrd3k]; exact gk.ht.2⟩,
        ⟨by omega, by rw [hrd3r]; exact gk.ht.2⟩, ?_⟩
      intro x
      simp only [reach, List.cons_append, List.nil_append, List.count_cons, List.count_nil]
      omega
    | succ h =>
      have hleaf : (rd H k).leaf = false := gk.ht.2.1
      have hklen := gk.ht.2.2.1
      have hgk : ∀ g' ∈ (rd H k).kids, absN H3 h g' = absN H h g' ∧ reach H3 h g' = reach H h g' ∧ HT H3 h g' := by
        intro g' hg'
        apply frame_off so (HT_kid gk.ht hg')
        intro x hx hxw
        simp only [List.mem_cons, List.not_mem_nil, or_false] at hxw
        rcases hxw with rfl | rfl
        · exact hpk (reach_kid_sub hg' x hx)
        · exact self_notin_kid gk.nodup hg' hx
      have hsubt : ∀ g' ∈ (rd H k).kids.take (minKeys t + 1), g' ∈ (rd H k).kids := fun g' hg' => List.mem_of_mem_take hg'
      have hsubd : ∀ g' ∈ (rd H k).kids.drop (minKeys t + 1), g' ∈ (rd H k).kids := fun g' hg' => List.mem_of_mem_drop hg'
      have hmt : ((rd H k).kids.take (minKeys t + 1)).map (absN H3 h) = ((rd H k).kids.map (absN H h)).take (minKeys t + 1) := by
        rw [← List.map_take]
        exact List.map_congr_left (fun g' hg' => (hgk g' (hsubt g' hg')).1)
      have hmd : ((rd H k).kids.drop (minKeys t + 1)).map (absN H3 h) = ((rd H k).kids.map (absN H h)).drop (minKeys t + 1) := by
        rw [← List.map_drop]
        exact List.map_congr_left (fun g' hg' => (hgk g' (hsubd g' hg')).1)
      have hrt : ((rd H k).kids.take (minKeys t + 1)).flatMap (reach H3 h) = ((rd H k).kids.take (minKeys t + 1)).flatMap (reach H h) := by
        rw [List.flatMap_def, List.flatMap_def]; congr 1
        exact List.map_congr_left (fun g' hg' => (hgk g' (hsubt g' hg')).2.1)
      have hrdr : ((rd H k).kids.drop (minKeys t + 1)).flatMap (reach H3 h) = ((rd H k).kids.drop (minKeys t + 1)).flatMap (reach H h) := by
        rw [List.flatMap_def, List.flatMap_def]; congr 1
        exact List.map_congr_left (fun g' hg' => (hgk g' (hsubd g' hg')).2.1)
      simp only [maxKeys] at hmax
      refine ⟨?_, ?_, by simp [psp, absN_succ, split], ?_, ?_, ?_⟩
      · simp only [absN_succ, hrd3k, K', hleaf, Bool.false_eq_true, if_false, psp, split, hmt]
      · simp only [absN_succ, hrd3r, R, hleaf, Bool.false_eq_true, if_false, psp, split, hmd]
      · refine ⟨by omega, by rw [hrd3k]; exact hleaf, ?_, ?_⟩
        · rw [hrd3k]; simp only [K', hleaf, Bool.false_eq_true, if_false, List.length_take, minKeys]; omega
        · rw [hrd3k]; simp only [K', hleaf, Bool.false_eq_true, if_false]
          intro g' hg'; exact (hgk g' (hsubt g' hg')).2.2
      · refine ⟨by omega, by rw [hrd3r]; exact hleaf, ?_, ?_⟩
        · rw [hrd3r]; simp only [R, hleaf, Bool.false_eq_true, if_false, List.length_drop, minKeys]; omega
        · rw [hrd3r]; simp only [R, hleaf, Bool.false_eq_true, if_false]
          intro g' hg'; exact (hgk g' (hsubd g' hg')).2.2
      · intro x
        simp only [reach_succ, hrd3k, hrd3r, K', R, hleaf, Bool.false_eq_true, if_false, hrt, hrdr]
        rw [flatMap_take_drop (rd H k).kids (reach H h) (minKeys t + 1)]
        simp only [List.count_append, List.count_cons, List.count_nil]
        omega
  obtain ⟨ha1, ha2, ha3, ha4, ha5, ha6⟩ := hhalves
  -- the parent
  have hreach3 : reach H3 (h + 1) p =
      p :: (kl.flatMap (reach H h) ++ (reach H3 h k ++ reach H3 h H.size) ++ kr.flatMap (reach H h)) := by
    simp [reach_succ, hrd3p, P', hmapl, hmapr]
  have hreach0 : reach H (h + 1) p =
      p :: (kl.flatMap (reach H h) ++ reach H h k ++ kr.flatMap (reach H h)) := by
    simp [reach_succ, hk]
  have hold : ∀ x ∈ reach H (h + 1) p, x < H.size := reach_lt g.ht
  have hns := nodup_sub_of_count (new := reach H3 (h + 1) p) (old := reach H (h + 1) p) (fresh := [H.size])
    (by
      intro x
      rw [hreach3, hreach0]
      have := ha6 x
      simp only [List.count_append, List.count_cons, List.count_nil] at this ⊢
      omega)
    g.nodup (by simp) (by
      intro x hx hxo
      simp at hx; subst hx
      have := hold _ hxo; omega)
  refine ⟨so.size, ?_, ?_, ?_, ?_, hns.1, ?_, ?_⟩
  · intro x hx hcond
    apply so.same x hx
    simp only [List.mem_cons, List.not_mem_nil, or_false, not_or]
    constructor
    · rintro rfl
      rcases hcond with hc | hc
      · exact hc (self_mem_reach H (h + 1) x)
      · exact hc g.own
    · rintro rfl
      rcases hcond with hc | hc
      · exact hc (reach_kid_sub hkmem x (self_mem_reach H h x))
      · exact hc gk.own
  · intro x hx
    by_cases hxp : x = p
    · subst hxp; rw [hrd3p]
    · by_cases hxk : x = k
      · subst hxk; rw [hrd3k]
      · rw [so.same x hx (by simp [hxp, hxk])]
  · intro x hx1 hx2
    have : x = H.size := by omega
    subst this
    rw [hrd3r]; exact gk.own
  · have hkl := g.ht.2.2.1
    rw [hk] at hkl
    have hjle : kl.length ≤ (rd H p).elts.length := by simp at hkl; omega
    refine ⟨by omega, by rw [hrd3p]; exact g.ht.2.1, ?_, ?_⟩
    · rw [hrd3p]
      simp only [P', insAt, List.length_append, List.length_cons, List.length_take, List.length_drop] at hkl ⊢
      omega
    · rw [hrd3p]
      intro j hj'
      simp only [P', List.mem_append, List.mem_cons] at hj'
      rcases hj' with hj' | rfl | rfl | hj'
      · exact (hfr j (by simp [hj'])).2.2
      · exact ha4
      · exact ha5
      · exact (hfr j (by simp [hj'])).2.2
  · intro x hx
    rcases hns.2 x hx with h' | h'
    · exact Or.inl h'
    · right; simp at h'; omega
  · simp only [absN_succ, hrd3p, P', List.map_append, List.map_cons, ha1, ha2, ha3]
    congr 2
    · exact List.map_congr_left (fun j hj' => (hfr j (by simp [hj'])).1)
    · congr 2
      exact List.map_congr_left (fun j hj' => (hfr j (by simp [hj'])).1)

end Model.BTreeCow

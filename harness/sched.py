"""Deterministic thread scheduler for the concurrency properties (C12; usable by C17).

* real `threading` threads, but **exactly one runnable at a time**: a thread runs from one yield point to the
  next and then hands the baton to the thread picked by a *chooser* (seeded PRNG, replay list, or the DFS below);
* a `threading` shim (`Lock`, `Event`) to be installed as `<module>.threading`; a blocked `acquire`/`wait`
  is a yield point with an enabling condition, so a state in which nobody can run is *detected* (deadlock),
  never waited for;
* `sys.settrace` in every managed thread: every `line` event inside the chosen code objects is a micro-step
  boundary (the observer can diff the shared state there) and, in mode `line`, a yield point (preemption at
  line granularity).  In mode `sync` only the synchronisation operations are yield points
  (before `acquire`, `wait`, `set`; after `release`).

Nothing here knows about dnspython.  The scheduling logic runs inline in whichever thread is at the yield
point (no controller thread), so a step costs a semaphore hand-over only when the thread actually changes.
"""
from __future__ import annotations

import sys
import threading as _rt


class Abort(BaseException):
    """raised inside managed threads to unwind them when a run is torn down (deadlock, step limit)"""


class MThread:
    __slots__ = ("tid", "fn", "sem", "status", "cond", "why", "exc", "thread", "pos", "mark")

    def __init__(self, tid, fn):
        self.tid = tid
        self.fn = fn
        self.sem = _rt.Semaphore(0)
        self.status = "new"  # new | ready | done
        self.cond = None  # enabling condition while parked at a yield point (None = always enabled)
        self.why = None  # what the thread is parked on
        self.exc = None
        self.thread = None
        self.pos = None  # (function, line) of the last traced line event
        self.mark = None  # free-form phase set by the thread program


class Scheduler:
    def __init__(self, chooser, mode="line", traced=None, max_steps=20000, observer=None):
        assert mode in ("line", "sync")
        self.chooser = chooser
        self.mode = mode
        self.traced = traced or (lambda code: False)
        self.max_steps = max_steps
        self.observer = observer  # object with micro(tid), op(tid, tuple), blocked(tid, tuple)
        self.threads: list[MThread] = []
        self._by_ident = {}
        self._tcache = {}
        self._main_sem = _rt.Semaphore(0)
        self.aborting = False
        self.deadlock = None  # list of (tid, why) when detected
        self.livelock = False
        self.internal_error = None
        self.nsteps = 0
        self.choices = []  # tid chosen at every choice point
        self.nchoice_points = 0  # choice points with more than one enabled thread
        self.switches = 0
        self._ids = 0

    # ---------------------------------------------------------------- thread management
    def spawn(self, fn):
        mt = MThread(len(self.threads), fn)
        self.threads.append(mt)
        return mt.tid

    def current(self):
        return self._by_ident.get(_rt.get_ident())

    def new_id(self):
        self._ids += 1
        return self._ids - 1

    def _boot(self, mt: MThread):
        self._by_ident[_rt.get_ident()] = mt
        try:
            mt.sem.acquire()
            if self.aborting:
                mt.status = "done"
                return
            mt.status = "ready"
            sys.settrace(self._global_trace)
            try:
                mt.fn()
            except Abort:
                pass
            except BaseException as e:  # noqa: BLE001 - reported by the caller
                if type(e).__name__ == "Stalled":
                    raise
                mt.exc = e
            finally:
                sys.settrace(None)
                mt.status = "done"
                mt.cond = None
            if not self.aborting:
                self._micro(mt)
                self._switch(mt)
        except Abort:
            pass
        except BaseException as e:  # noqa: BLE001 - a bug of the harness itself (observer, chooser): never hang
            self._fatal(e)
            if type(e).__name__ == "Stalled":
                raise

    def _fatal(self, e):
        if self.internal_error is None:
            self.internal_error = e
        try:
            self._abort_all(None)
        except Abort:
            pass

    def run(self, join_timeout=30.0, stall_timeout=120.0):
        for mt in self.threads:
            mt.thread = _rt.Thread(target=self._boot, args=(mt,), daemon=True)
            mt.thread.start()
        try:
            self._switch(None)
        except Abort:
            pass
        if not self._main_sem.acquire(timeout=stall_timeout):
            self.aborting = True
            for mt in self.threads:
                mt.sem.release()
            raise RuntimeError("scheduler stalled: no managed thread reported back (harness bug)")
        for mt in self.threads:
            mt.thread.join(join_timeout)
            if mt.thread.is_alive():
                raise RuntimeError(f"scheduler: thread {mt.tid} did not terminate")
        if self.internal_error is not None:
            raise RuntimeError(f"scheduler: harness error inside a managed thread: {self.internal_error!r}") from self.internal_error

    # ---------------------------------------------------------------- the baton
    def _enabled(self):
        out = []
        for t in self.threads:
            if t.status == "done":
                continue
            c = t.cond
            if c is None or c():
                out.append(t)
        return out

    def _abort_all(self, cur):
        self.aborting = True
        for t in self.threads:
            if t is not cur and t.status != "done":
                t.sem.release()
        self._main_sem.release()
        if cur is not None and cur.status != "done":
            raise Abort()

    def _switch(self, cur):
        self.nsteps += 1
        if self.nsteps > self.max_steps:
            self.livelock = True
            self._abort_all(cur)
            return
        enabled = self._enabled()
        if not enabled:
            if all(t.status == "done" for t in self.threads):
                self._main_sem.release()
                return
            self.deadlock = [(t.tid, t.why) for t in self.threads if t.status != "done"]
            self._abort_all(cur)
            return
        if len(enabled) > 1:
            self.nchoice_points += 1
        nxt = self.chooser(self, enabled, cur if (cur is not None and cur in enabled) else None)
        self.choices.append(nxt.tid)
        if nxt is cur:
            return
        self.switches += 1
        nxt.sem.release()
        if cur is not None and cur.status != "done":
            cur.sem.acquire()
            if self.aborting:
                raise Abort()

    def yield_point(self, cond=None, why=None):
        me = self.current()
        if me is None or self.aborting:
            return
        me.cond, me.why = cond, why
        try:
            self._switch(me)
        finally:
            me.cond, me.why = None, None

    # ---------------------------------------------------------------- observation
    def _micro(self, me):
        if self.observer is not None and not self.aborting:
            try:
                self.observer.micro(me.tid)
            except Abort:
                raise
            except BaseException as e:  # noqa: BLE001
                self._fatal(e)
                if type(e).__name__ == "Stalled":
                    raise
                raise Abort()

    def op(self, what):
        """a harness-level or shim-level visible operation of the current thread"""
        me = self.current()
        if me is not None and self.observer is not None and not self.aborting:
            try:
                self.observer.op(me.tid, what)
            except Abort:
                raise
            except BaseException as e:  # noqa: BLE001
                self._fatal(e)
                if type(e).__name__ == "Stalled":
                    raise
                raise Abort()

    def mark(self, phase, yield_here=False):
        me = self.current()
        if me is None:
            return
        me.mark = phase
        if yield_here:
            self._micro(me)
            self.yield_point(why=("mark", phase))

    # ---------------------------------------------------------------- tracing
    def _global_trace(self, frame, event, arg):
        if event != "call" or self.aborting:
            return None
        code = frame.f_code
        flag = self._tcache.get(code)
        if flag is None:
            flag = self._tcache[code] = bool(self.traced(code))
        return self._local_trace if flag else None

    def _local_trace(self, frame, event, arg):
        if event == "line" and not self.aborting:
            me = self.current()
            if me is not None:
                self._micro(me)
                me.pos = (frame.f_code.co_name, frame.f_lineno)
                if self.mode == "line":
                    self.yield_point(why=("line",) + me.pos)
        return self._local_trace

    def state_key(self):
        """per-thread control state, for the DFS visited set"""
        return tuple((t.status, t.pos, t.mark, t.why) for t in self.threads)


# ------------------------------------------------------------------------------------------------
# the `threading` shim
# ------------------------------------------------------------------------------------------------
class ShimLock:
    def __init__(self, sched: Scheduler):
        self.s = sched
        self.id = sched.new_id()
        self.holder = None

    def acquire(self, blocking=True, timeout=-1):
        s = self.s
        me = s.current()
        if me is None or s.aborting:
            if self.holder is not None and not s.aborting:
                raise RuntimeError("shim lock taken by an unmanaged thread while held")
            self.holder = -1 if me is None else me.tid
            return True
        s._micro(me)
        if s.mode == "sync":
            s.yield_point(why=("pre-acq", self.id))
        if self.holder is not None:
            if not blocking:
                return False
            if s.observer is not None:
                s.observer.blocked(me.tid, ("acq", self.id, self.holder))
            s.yield_point(cond=lambda: self.holder is None, why=("lock", self.id))
        self.holder = me.tid
        s.op(("acq", self.id))
        return True

    def release(self):
        s = self.s
        me = s.current()
        if me is None or s.aborting:
            self.holder = None
            return
        s._micro(me)
        if self.holder is None:
            raise RuntimeError("release unlocked lock")
        self.holder = None
        s.op(("rel", self.id))
        if s.mode == "sync":
            s.yield_point(why=("post-rel", self.id))

    def locked(self):
        return self.holder is not None

    def __enter__(self):
        self.acquire()
        return self

    def __exit__(self, *a):
        self.release()
        return False


class ShimRLock(ShimLock):
    """re-entrant variant: only the outermost acquire/release are lock operations"""

    def __init__(self, sched):
        super().__init__(sched)
        self.depth = 0

    def acquire(self, blocking=True, timeout=-1):
        me = self.s.current()
        if me is not None and self.holder == me.tid and not self.s.aborting:
            self.depth += 1
            return True
        ok = super().acquire(blocking, timeout)
        if ok:
            self.depth = 1
        return ok

    def release(self):
        me = self.s.current()
        if me is not None and not self.s.aborting and self.holder == me.tid and self.depth > 1:
            self.depth -= 1
            return
        self.depth = 0
        super().release()


class ShimEvent:
    def __init__(self, sched: Scheduler):
        self.s = sched
        self.id = None
        self.flag = False
        me = sched.current()
        if me is not None and not sched.aborting:
            sched._micro(me)
        if sched.observer is not None and hasattr(sched.observer, "new_event"):
            self.id = sched.observer.new_event(self)
        else:
            self.id = sched.new_id()
        sched.op(("new", self.id))

    def is_set(self):
        return self.flag

    def set(self):
        s = self.s
        me = s.current()
        if me is not None and not s.aborting:
            s._micro(me)
            if s.mode == "sync":
                s.yield_point(why=("pre-set", self.id))
        self.flag = True
        s.op(("set", self.id))

    def clear(self):
        self.flag = False

    def wait(self, timeout=None):
        s = self.s
        me = s.current()
        if me is None or s.aborting:
            return self.flag
        s._micro(me)
        if s.mode == "sync":
            s.yield_point(why=("pre-wait", self.id))
        if timeout is not None and not self.flag:
            # a timed wait may time out at once: it does not block, it reports "not set"
            s.op(("waitto", self.id))
            if s.mode == "sync":
                s.yield_point(why=("post-waitto", self.id))
            return False
        if not self.flag:
            if s.observer is not None:
                s.observer.blocked(me.tid, ("wait", self.id))
            s.yield_point(cond=lambda: self.flag, why=("event", self.id))
        s.op(("wait", self.id))
        return True


class ShimThreading:
    """stands in for the `threading` module inside the module under test"""

    def __init__(self, sched: Scheduler):
        self._s = sched

    def Lock(self):
        return ShimLock(self._s)

    def Event(self):
        return ShimEvent(self._s)

    def RLock(self):
        return ShimRLock(self._s)

    def __getattr__(self, name):
        if name in ("Condition", "Semaphore", "BoundedSemaphore", "Barrier"):
            # an unscheduled primitive would block a real thread behind the scheduler's back: refuse loudly
            raise NotImplementedError(f"threading.{name} is not provided by the scheduler shim")
        return getattr(_rt, name)



# ------------------------------------------------------------------------------------------------
# choosers
# ------------------------------------------------------------------------------------------------
class RandomChooser:
    """stay with the running thread with probability stay/den, else uniform among the enabled"""

    def __init__(self, rng, stay=0, den=1):
        self.rng, self.stay, self.den = rng, stay, den

    def __call__(self, sched, enabled, cur):
        if len(enabled) == 1:
            return enabled[0]
        if cur is not None and self.stay and self.rng.below(self.den) < self.stay:
            return cur
        return enabled[self.rng.below(len(enabled))]


class PctChooser:
    """random priorities with `d` priority-change points (Burckhardt et al.): good at ordering bugs of small depth"""

    def __init__(self, rng, nthreads, d, horizon):
        self.prio = rng.shuffle(list(range(d + 1, d + 1 + nthreads)))
        self.change = sorted(rng.below(max(1, horizon)) for _ in range(d))
        self.low = d
        self.k = 0

    def __call__(self, sched, enabled, cur):
        self.k += 1
        best = max(enabled, key=lambda t: self.prio[t.tid])
        while self.change and self.change[0] <= self.k:
            self.change.pop(0)
            self.prio[best.tid] = self.low
            self.low -= 1
            best = max(enabled, key=lambda t: self.prio[t.tid])
        return best


class ReplayChooser:
    """follow a recorded list of thread ids; afterwards (or on divergence) run non-preemptively, lowest id first"""

    def __init__(self, choices):
        self.choices = list(choices)
        self.i = 0
        self.diverged = False

    def __call__(self, sched, enabled, cur):
        if self.i < len(self.choices):
            want = self.choices[self.i]
            self.i += 1
            for t in enabled:
                if t.tid == want:
                    return t
            self.diverged = True
        return cur if cur is not None else enabled[0]


class DfsChooser:
    """follows `prefix`, then runs non-preemptively (lowest id first); logs every choice point"""

    def __init__(self, prefix, keyfn=None):
        self.prefix = prefix
        self.keyfn = keyfn
        self.log = []  # (enabled tids, chosen tid, cur tid or None, key)
        self.diverged = False

    def __call__(self, sched, enabled, cur):
        i = len(self.log)
        en = [t.tid for t in enabled]
        pick = None
        if i < len(self.prefix):
            for t in enabled:
                if t.tid == self.prefix[i]:
                    pick = t
            if pick is None:
                self.diverged = True
        if pick is None:
            pick = cur if cur is not None else enabled[0]
        key = None
        if self.keyfn is not None and i >= len(self.prefix) and len(en) > 1:
            key = self.keyfn(sched)
        self.log.append((en, pick.tid, None if cur is None else cur.tid, key))
        return pick


def dfs(run_once, max_runs, keyfn=None, preemption_bound=None, stop_fn=None):
    """Stateless depth-first enumeration of the schedules of `run_once(chooser)`.

    keyfn(sched) -> hashable abstract state at a choice point: a state seen before is not expanded again
    (all its outgoing transitions were, or will be, taken from its first occurrence).
    preemption_bound: only schedules with at most that many preemptive switches (a switch away from a thread that
    could have continued) are enumerated.  Returns (runs, complete).
    """
    visited = set()
    prefix = []
    pending = []  # stack of (position, alternatives list) still to try, with the choices leading there
    runs = 0
    base = []  # choices made so far along the current path (from the last run's log)
    while True:
        ch = DfsChooser(prefix, keyfn)
        run_once(ch)
        runs += 1
        log = ch.log
        # count preemptions along the path
        pre = 0
        pre_at = []
        for en, pick, cur, _ in log:
            pre_at.append(pre)
            if cur is not None and pick != cur:
                pre += 1
        start = len(prefix)
        stop = False
        for i in range(start, len(log)):
            en, pick, cur, key = log[i]
            if len(en) < 2:
                continue
            if keyfn is not None:
                if key is None:
                    key = ("pos", i, tuple(x[1] for x in log[:i]))
                if key in visited:
                    break
                visited.add(key)
            alts = [t for t in en if t != pick]
            if preemption_bound is not None and cur is not None:
                # an alternative other than `cur` is a preemptive switch
                alts = [t for t in alts if t == cur or pre_at[i] + 1 <= preemption_bound]
            if alts:
                pending.append(([x[1] for x in log[:i]], alts))
        if runs >= max_runs or (stop_fn is not None and stop_fn()):
            return runs, False
        while pending and not pending[-1][1]:
            pending.pop()
        if not pending:
            return runs, True
        path, alts = pending[-1]
        prefix = path + [alts.pop(0)]

"""C20 — B-tree zone flags, delegation index, iteration order and bounds are functions of zone content.

Correspondence: dns.btreezone (working tree) vs lean/Model/BTreeZone.lean through the driver, whole histories of
transactions on one line, observed after every operation (writable version) and every commit.
Oracle: recompute-from-definition on the implementation (flags, index, canonical order from the node contents
alone; bounds from the set of non-occluded names), written on lower-cased label tuples without using any
dnspython comparison.  The oracle's own definition is tied to the Lean statements of record by comparing it with
`c20.spec` (Model.BTZ.flagsSpec / delegsSpec / boundsSpec) on the same histories.
"""
from harness.core import Stalled as _Stalled
import glob
import itertools
import json
import os

import dns.btreezone
import dns.flags
import dns.message
import dns.name
import dns.rdata
import dns.rdataclass
import dns.rdataset
import dns.rdatatype
import dns.rrset
import dns.xfr
import dns.zone

from harness.core import Ctx, VERIF, enc_labels, dec_labels

RULE = (
    "histories from one SplitMix64 state: a replacement load transaction followed by 0..6 transactions (commit, "
    "rollback, replacement) of add/replace/delete-name/delete-rdataset/delete-rdata operations with NS-heavy type "
    "pool {NS,A,TXT,DS,CNAME,NSEC,RRSIG(NS|A|CNAME|NSEC)} on owner names of <= 4 labels over {a,b,c,x,A} at, above and "
    "below cuts (nested cuts included), relativized and absolute zones, origins example./ex.ample./root; a "
    "trigger-avoiding stream (no operation that hits a known defect) so that the oracle runs to the end; the initial "
    "load from master-file text (dns.zone.from_text with the B-tree zone factory; origin passed or taken from a $ORIGIN "
    "line; relativize on/off; names spelled relative, absolute or @; every permutation of the non-apex records, "
    "duplicated rdataset lines), big zones (250..510 names written in one transaction with the glue before its cut, so "
    "that update_glue_flag walks full B-tree leaves; cut removed and re-added later), big delegation indexes (252..380 cuts committed, one more added in an aborted / "
    "committed transaction with the previous version held, every retained version re-queried), compared at the commit and on bounds queries with the model and the definition; all "
    "permutations of small record sets as load order, split over two transactions at every point; bounds queried "
    "with every name of <= 3 labels over a 3-letter alphabet plus in-zone and out-of-zone extras; a "
    "class dimension (CH zones), the public predicates Node.is_origin/is_delegation/is_glue/is_origin_or_glue, bounds given a str, "
    "the Bounds.name field, Delegations.get_delegation/is_glue called directly, reader.iterate_names()/zone.keys(), older "
    "committed versions re-read at the end of the history, transactions abandoned by an exception or a BaseException; every "
    "public call form of the transaction API (owner as Name / str, rdataset / (ttl, rdata) / RRset, type as enum / mnemonic / "
    "int, delete_exact, origin as text), hostile calls mid-transaction that must raise and change nothing, a third load route "
    "(AXFR through dns.xfr.Inbound) with a loaded-content oracle, owner names of exactly 255 / 256 octets; a malformed "
    "stream (names outside the origin, over-long names, mixed case, SOA off the apex, first writer not a "
    "replacement, empty and rolled-back transactions); a case is non-trivial if its item list is new"
)
TRUSTED_BASE = [
    "Python dict/tuple/bytes comparison semantics (oracle works on lower-cased label tuples)",
    "the B-tree store is modelled as a strictly sorted association list (its refinement is property C19)",
]
ASSUMPTIONS = [
    "owner-name spelling (case) is not an observable of C20: the model keys are lower-cased, names read from the implementation are lower-cased before comparison",
    "rdatasets are atomic in the model (one canonical rdata per type); delete-by-rdata is exercised with a hit (rdataset removed) and a miss (rdataset rewritten)",
    "closest encloser and nearest neighbours are taken among non-occluded names (below a cut the encloser is the cut), the reading under which the unchanged code is right except for D19/D20",
    "bounds presupposes an apex node (the code asserts it); histories without an apex node are compared on the error family only",
    "the state of a new zone (plain initial version vs empty B-tree version) and the SOA-owner check of the transaction layer are outside C20: the former is probed and passed to the model, the latter is never exercised off the apex",
    "a share of the histories runs with the B-tree order forced to 3 or 4 (dns.btree.BTree/BTreeDict/BTreeSet.__init__.__kwdefaults__['t'] rebound in the harness process only, restored in a finally) so that small zones are multi-level trees; the zone layer never reads t",
    "hypotheses of the theorems: zone origin absolute; owner names are legal dns.name.Name label lists (only the last label may be empty); an NS rdataset has covers = NONE",
]

NS, SOA, CNAME, RRSIG = 2, 6, 5, 46
NEUTRAL = {25, 47, 50}
F_ORIGIN, F_DELEG, F_GLUE = 1, 2, 4

RDATA = {
    1: ("10.0.0.1", "10.0.0.2"),
    2: ("ns1.other.", "ns2.other."),
    5: ("target.other.", "target2.other."),
    6: (". . 1 2 3 4 5", ". . 2 2 3 4 5"),
    16: ('"t"', '"u"'),
    43: ("1 8 2 " + "00" * 32, "2 8 2 " + "11" * 32),
    47: ("z.other. A", "y.other. A"),
}


CH_A = ("a.other. 1", "a.other. 2")      # Chaosnet A: domain + octal address


def rdataset_for(ty, cov, alt=False, cls=dns.rdataclass.IN):
    if ty == RRSIG:
        text = f"{dns.rdatatype.to_text(cov)} 8 2 300 20300101000000 20200101000000 {2 if alt else 1} example. AAAA"
    elif ty == 1 and cls == dns.rdataclass.CH:
        text = CH_A[1 if alt else 0]
    else:
        text = RDATA[ty][1 if alt else 0]
    rd = dns.rdata.from_text(cls, ty, text)
    rds = dns.rdataset.Rdataset(cls, ty, cov if ty == RRSIG else 0, ttl=300)
    rds.add(rd)
    return rds


def low(labels):
    return tuple(bytes(l).lower() for l in labels)


def show_snap(version):
    parts = []
    for name, node in version.nodes.items():
        rds = sorted((int(r.rdtype), int(r.covers)) for r in node.rdatasets)
        parts.append(f"{enc_labels(low(name.labels))}={int(node.flags)}=" + "+".join(f"{a}.{b}" for a, b in rds))
    return "{" + ";".join(parts) + "|" + ";".join(enc_labels(low(d.labels)) for d in version.delegations) + "}"


def snap_of(version):
    """(ordered list of (key, flags, frozenset(types))), ordered list of index keys"""
    nodes = [(low(n.labels), int(nd.flags), frozenset((int(r.rdtype), int(r.covers)) for r in nd.rdatasets))
             for n, nd in version.nodes.items()]
    return nodes, [low(d.labels) for d in version.delegations]


# ---------------------------------------------------------------------------------------------------
# the specification, recomputed from content (no dnspython comparison is used)
# ---------------------------------------------------------------------------------------------------
def is_abs(k):
    return len(k) > 0 and k[-1] == b""


def sort_key(k):
    return (1 if is_abs(k) else 0, tuple(reversed(k)))


class Spec:
    def __init__(self, apex, content):
        self.apex = apex
        self.content = content  # key -> frozenset((ty, cov))

    def has_ns(self, n):
        return any(t == NS for t, _ in self.content.get(n, ()))

    def ancestors(self, n):
        """proper ancestors of n inside the zone (apex included)"""
        return [n[i:] for i in range(1, len(n) - len(self.apex) + 1)]

    def is_deleg(self, n):
        return (n != self.apex and self.has_ns(n)
                and not any(a != self.apex and self.has_ns(a) for a in self.ancestors(n)))

    def is_glue(self, n):
        return any(self.is_deleg(a) for a in self.ancestors(n))

    def flags(self, n):
        return ((F_ORIGIN if n == self.apex else 0) | (F_DELEG if self.is_deleg(n) else 0)
                | (F_GLUE if self.is_glue(n) else 0))

    def order(self):
        return sorted(self.content, key=sort_key)

    def delegs(self):
        return [n for n in self.order() if self.is_deleg(n)]

    def visible(self):
        # the content of a Spec never changes after construction: remember the list (bounds is asked many times)
        if getattr(self, "_vis", None) is None:
            self._vis = [n for n in self.order() if not self.is_glue(n)]
        return self._vis

    def bounds(self, q):
        vis = self.visible()
        kq = sort_key(q)
        le = [v for v in vis if sort_key(v) <= kq]
        if not le:
            return None
        gt = [v for v in vis if sort_key(v) > kq]
        ce = 0
        for k in range(len(q), -1, -1):
            s = q[len(q) - k:]
            if any(len(v) >= k and v[len(v) - k:] == s and is_abs(v) == is_abs(q) for v in vis):
                ce = k
                break
        return {
            "left": le[-1],
            "right": gt[0] if gt else None,
            "ce": q[len(q) - ce:],
            "eq": le[-1] == q,
            "deleg": any(self.is_deleg(a) for a in [q] + self.ancestors(q)),
        }


def show_bounds(left, right, ce, eq, deleg):
    return f"B:{enc_labels(left)}/{'none' if right is None else enc_labels(right)}/{enc_labels(ce)}/{1 if eq else 0}/{1 if deleg else 0}"


def kind_of(ty, cov):
    if ty == CNAME or (ty == RRSIG and cov == CNAME):
        return "cname"
    if ty in NEUTRAL or (ty == RRSIG and cov in NEUTRAL):
        return "neutral"
    return "regular"


# ---------------------------------------------------------------------------------------------------
# running a history on the implementation
# ---------------------------------------------------------------------------------------------------
def validate_key(cfg, labels):
    """independent re-statement of dns.zone._validate_name on label tuples; None = KeyError"""
    origin = tuple(cfg["origin"])
    lo = low(origin)
    if is_abs(labels):
        ll = low(labels)
        if len(ll) < len(lo) or ll[len(ll) - len(lo):] != lo:
            return None
        return ll[: len(ll) - len(lo)] if cfg["rel"] else ll
    full = tuple(labels) + origin
    if sum(len(l) + 1 for l in full) > 255:
        return None
    return low(full) if not cfg["rel"] else low(labels)


def text_name(labels):
    """master-file spelling of a label list (load cases use letters and digits only)"""
    if len(labels) == 0:
        return "@"
    if labels[-1] == b"":
        return ".".join(l.decode("ascii") for l in labels[:-1]) + "."
    return ".".join(l.decode("ascii") for l in labels)


def rdata_text(ty, cov, alt=False, ch=False):
    if ty == 1 and ch:
        return CH_A[1 if alt else 0]
    if ty == RRSIG:
        return f"{dns.rdatatype.to_text(cov)} 8 2 300 20300101000000 20200101000000 {2 if alt else 1} example. AAAA"
    return RDATA[ty][1 if alt else 0]


def load_text(case):
    """the zone file of a load case: one line per `p:` item, in item order; `$ORIGIN` first when the origin is not passed"""
    origin = [bytes.fromhex(x) for x in case["origin"]]
    lines = []
    if case["load"]["origin_from_text"]:
        lines.append("$ORIGIN " + text_name(origin))
    seen = set()
    for item in case["items"]:
        f = item.split(":")
        if f[0] != "p":
            continue
        ty, cov = int(f[2]), int(f[3])
        alt = (f[1], ty, cov) in seen      # a second line for the same rdataset carries another rdata
        seen.add((f[1], ty, cov))
        ch = case.get("cls") == "CH"
        lines.append(f"{text_name(dec_labels(f[1]))} 300 {'CH' if ch else 'IN'} {dns.rdatatype.to_text(ty)} {rdata_text(ty, cov, alt, ch)}")
    return "\n".join(lines) + "\n"


def load_zone_xfr(case):
    """third load route: the same records arrive as an AXFR (dns.xfr.Inbound on the B-tree zone, replacement
    writer), SOA first and last, the others in item order, names in the zone's own relativity"""
    origin_labels = [bytes.fromhex(x) for x in case["origin"]]
    origin = dns.name.Name(origin_labels)
    rel = bool(case["rel"])
    cls = dns.rdataclass.CH if case.get("cls") == "CH" else dns.rdataclass.IN
    cfg = {"rel": rel, "origin": tuple(origin_labels)}
    zone = dns.btreezone.Zone(origin, rdclass=cls, relativize=rel)
    msg = dns.message.Message(id=1)
    msg.flags |= dns.flags.QR
    apex_name = dns.name.empty if rel else origin
    soa = dns.rrset.from_rdata_list(apex_name, 300, list(rdataset_for(6, 0, cls=cls)))
    body, seen = [], set()
    for item in case["items"]:
        f = item.split(":")
        if f[0] != "p" or f[2] == "6":
            continue
        ty, cov = int(f[2]), int(f[3])
        labels = dec_labels(f[1])
        if rel and labels and labels[-1] == b"":
            labels = labels[: len(labels) - len(origin_labels)]
        elif not rel and not (labels and labels[-1] == b""):
            labels = list(labels) + origin_labels
        alt = (tuple(l.lower() for l in labels), ty, cov) in seen
        seen.add((tuple(l.lower() for l in labels), ty, cov))
        body.append(dns.rrset.from_rdata_list(dns.name.Name(labels), 300, list(rdataset_for(ty, cov, alt=alt, cls=cls))))
    msg.answer = [soa] + body + [soa]
    with dns.xfr.Inbound(zone, dns.rdatatype.AXFR) as inbound:
        if not inbound.process_message(msg):
            raise RuntimeError("transfer not complete")
    return zone


def load_zone(case):
    if case["load"].get("xfr"):
        return load_zone_xfr(case)
    origin = dns.name.Name([bytes.fromhex(x) for x in case["origin"]])
    return dns.zone.from_text(load_text(case), origin=None if case["load"]["origin_from_text"] else origin,
                              rdclass=dns.rdataclass.CH if case.get("cls") == "CH" else dns.rdataclass.IN,
                              relativize=bool(case["rel"]), zone_factory=dns.btreezone.Zone)


class _Abort(Exception):
    pass


class _HardAbort(BaseException):
    """a non-library, non-Exception way out of a `with` block (like KeyboardInterrupt)"""


def _text_safe(name):
    return all(l == b"" or all(48 <= c <= 57 or 65 <= c <= 90 or 97 <= c <= 122 for c in l) for l in name.labels)


def _as_text(name):
    return "@" if len(name.labels) == 0 else name.to_text()


def api_view(version, apex_key):
    """what the public predicates say, per node: must be the flag bits (Node.is_origin / is_delegation / is_glue /
    is_origin_or_glue), and the zone-level iteration must be the version's order"""
    bad = []
    for name, node in version.nodes.items():
        fl = int(node.flags)
        got = (bool(node.is_origin()), bool(node.is_delegation()), bool(node.is_glue()), bool(node.is_origin_or_glue()))
        want = (bool(fl & F_ORIGIN), bool(fl & F_DELEG), bool(fl & F_GLUE), bool(fl & (F_ORIGIN | F_GLUE)))
        if got != want:
            bad.append(f"{enc_labels(low(name.labels))}: predicates {got} for flags {fl}")
    return bad


def evaluate(case):
    """`case["t"]` (3 or 4) forces a small B-tree order for the duration of this history, so that zones of 10-60 names
    are trees of 2-3 levels and every split / merge / steal / copy-on-write of an interior node happens under the zone
    layer.  The defaults are rebound in this process only and restored in a `finally`."""
    t = case.get("t")
    if not t:
        return _evaluate(case)
    import dns.btree
    inits = [dns.btree.BTree.__init__, dns.btree.BTreeDict.__init__, dns.btree.BTreeSet.__init__]
    saved = [dict(f.__kwdefaults__) for f in inits]
    try:
        for f in inits:
            f.__kwdefaults__["t"] = int(t)
        return _evaluate(case)
    finally:
        for f, kw in zip(inits, saved):
            f.__kwdefaults__.clear()
            f.__kwdefaults__.update(kw)


def _evaluate(case):
    """run case["items"] on the implementation.  Returns (trace line, spec line, failures) where failures are
    (signature, what) pairs of the direct oracle."""
    rel = bool(case["rel"])
    origin_labels = [bytes.fromhex(x) for x in case["origin"]]
    origin = dns.name.Name(origin_labels)
    cfg = {"rel": rel, "origin": tuple(origin_labels)}
    apex = () if rel else low(origin_labels)
    load = case.get("load")
    quiet = bool(case.get("quiet"))
    cls = dns.rdataclass.CH if case.get("cls") == "CH" else dns.rdataclass.IN
    # the origin may be given as text as well
    origin_arg = origin.to_text() if len(case["items"]) % 2 and _text_safe(origin) else origin
    zone = None if load else dns.btreezone.Zone(origin_arg, rdclass=cls, relativize=rel)
    held = []           # (version object, snapshot at commit): committed versions must never change afterwards
    out, spec_out, fails = [], [], []
    marks = []          # per transaction end / query: does the property hold there? (for the guard implication)
    txn = None          # open transaction (or "failed")
    commit = False
    tainted = False     # flags/index already diverged from the definition in this history
    pre = None          # (Spec, impl consistent?) before the current op, for trigger classification
    stats = {"ops": 0, "queries": 0, "commits": 0, "tainted": 0, "errors": 0}

    def committed_version():
        v = zone._versions[-1]
        return v if hasattr(v, "delegations") else None

    def spec_of(version):
        nodes, _ = snap_of(version)
        return Spec(apex, {k: t for k, _, t in nodes})

    def check_state(version, where, op_info):
        """flags, index and order of `version` against the definition; returns list of clause names"""
        nonlocal tainted
        nodes, idx = snap_of(version)
        sp = Spec(apex, {k: t for k, _, t in nodes})
        clauses = []
        keys = [k for k, _, _ in nodes]
        if keys != sp.order() or len(set(keys)) != len(keys):
            clauses.append("order")
        for k, fl, _ in nodes:
            want = sp.flags(k)
            if fl != want:
                for bit, nm in ((F_ORIGIN, "origin"), (F_DELEG, "delegation-flag"), (F_GLUE, "glue-flag")):
                    if (fl & bit) != (want & bit):
                        clauses.append(nm + ("-missing" if want & bit else "-spurious"))
            if fl & ~7:
                clauses.append("unknown-flag-bit")
        want_idx = sp.delegs()
        if idx != want_idx:
            if set(want_idx) - set(idx):
                clauses.append("index-missing")
            if set(idx) - set(want_idx):
                clauses.append("index-stale")
            if sorted(idx, key=sort_key) != idx or len(set(idx)) != len(idx):
                clauses.append("index-order")
        return sorted(set(clauses)), sp

    def classify(op_info, pre_sp, post_sp):
        """trigger class of the operation that made the state diverge (narrow signatures of KNOWN_FINDINGS)"""
        if op_info is None or pre_sp is None:
            return "other"
        kind, key, ty, cov = op_info
        if key is None:
            return "other"
        ns_before, ns_after = pre_sp.has_ns(key), post_sp.has_ns(key)
        below_ns = any(len(n) > len(key) and n[len(n) - len(key):] == key and post_sp.has_ns(n) for n in post_sp.content) \
            or any(len(n) > len(key) and n[len(n) - len(key):] == key and pre_sp.has_ns(n) for n in pre_sp.content)
        if ns_before != ns_after and below_ns and key != apex:
            return "nested-cut"
        if pre_sp.is_deleg(key) and kind == "put" and kind_of(ty, cov) == "cname" and ns_before and not ns_after:
            return "cname-put-at-cut"
        if pre_sp.is_deleg(key) and ns_before == ns_after and ns_after and not (ty == NS):
            return "non-NS-rdataset-touched-at-cut"
        return "other"

    def after_op(version, op_info, pre_sp):
        nonlocal tainted
        if tainted:
            stats["tainted"] += 1
            return
        clauses, sp = check_state(version, "op", op_info)
        if clauses:
            tainted = True
            trig = classify(op_info, pre_sp, sp)
            # failing-clause class: narrow where the defect is narrow, so that anything else stays a new signature
            cl = "+".join(clauses)
            cs = set(clauses)
            if trig == "non-NS-rdataset-touched-at-cut" and cs == {"delegation-flag-missing"}:
                cl = "delegation-flag-lost"
            elif trig == "cname-put-at-cut" and cs <= {"delegation-flag-spurious", "glue-flag-spurious", "index-stale"}:
                cl = "stale-delegation"
            elif trig == "nested-cut" and cs <= {"delegation-flag-missing", "delegation-flag-spurious", "glue-flag-missing",
                                                 "glue-flag-spurious", "index-missing", "index-stale"}:
                cl = "flags-and-index"
            sig = f"C20/flags/{cl}/{trig}"
            fails.append((sig, f"after {op_info}: flags/index/order differ from the definition ({', '.join(clauses)}); state {show_snap(version)}"))

    def close():
        nonlocal txn, tainted
        if txn is None:
            return
        if txn == "failed":
            out.append("E!V")
            spec_out.append("E!V")
            txn = None
            v0 = committed_version()
            marks.append(("g", v0 is None or not check_state(v0, "commit", None)[0]))
            return
        pre_sp = None
        before_abort = None if commit or committed_version() is None else show_snap(committed_version())
        try:
            if commit:
                txn.commit()
            elif len(out) % 2:
                txn.rollback()
            else:
                # the other way a transaction is abandoned: an exception leaving the `with` block
                exc = _HardAbort if len(out) % 4 == 0 else _Abort
                try:
                    with txn:
                        raise exc()
                except exc:
                    pass
        except BaseException as e:  # pragma: no cover
            if isinstance(e, _Stalled):
                raise
            out.append("FOREIGN:" + type(e).__name__)
            fails.append(("C20/txn-end/foreign-exception:" + type(e).__name__, f"commit/rollback raised {e!r}"))
        txn = None
        if before_abort is not None and committed_version() is not None and show_snap(committed_version()) != before_abort:
            fails.append(("C20/txn-end/abandoned-transaction-changed-the-zone",
                          f"a transaction that was rolled back / left by an exception changed the committed version: {before_abort[:200]} -> {show_snap(committed_version())[:200]}"))
        record_commit()

    def record_commit():
        nonlocal tainted
        v = committed_version()
        if v is None:
            out.append("C-")
            spec_out.append("C-")
            marks.append(("g", True))
            return
        out.append("C" + show_snap(v))
        stats["commits"] += 1
        if not any(h is v for h, _ in held):
            held.append((v, show_snap(v)))
        bad = api_view(v, apex)
        if bad:
            fails.append(("C20/api/node-predicates-disagree-with-flags", "; ".join(bad[:3])))
        try:
            with zone.reader() as rtxn:
                it = [low(n.labels) for n in rtxn.iterate_names()]
            zk = [low(n.labels) for n in zone.keys()]
        except BaseException as e:
            if isinstance(e, _Stalled):
                raise
            it = zk = None
            fails.append(("C20/api/iteration-raises:" + type(e).__name__, repr(e)))
        vk = [low(n.labels) for n in v.nodes.keys()]
        if it is not None and (it != vk or zk != vk):
            fails.append(("C20/api/iteration-order", f"reader.iterate_names() / zone.keys() differ from the version's order: {it!r} {zk!r} {vk!r}"))
        # a rollback (or replacement) may bring back a consistent state: re-evaluate taint from the committed version
        clauses, sp = check_state(v, "commit", None)
        marks.append(("g", not clauses))
        if not clauses:
            tainted = False
        elif not tainted:
            tainted = True
            if load:
                # attribute to the operations when the same records fail the same way through transactions
                # (known nested-cut / CNAME classes); otherwise it is the load path itself
                via_txn = [f_ for f_ in evaluate(dict(case, load=None))[2] if f_[0].startswith("C20/flags/")]
                if via_txn:
                    fails.extend(via_txn)
                else:
                    how = "origin-from-$ORIGIN" if load["origin_from_text"] else "explicit-origin"
                    fails.append((f"C20/load/{'+'.join(clauses)}/{how}/{'relativized' if rel else 'absolute'}",
                                  f"zone loaded from {'a transfer' if load.get('xfr') else 'text'} differs from the definition ({', '.join(clauses)}): {show_snap(v)}; text {load_text(case)!r}"))
            else:
                fails.append((f"C20/flags/{'+'.join(clauses)}/at-commit", f"committed version differs from the definition: {show_snap(v)}"))
        # what the definition says, for the comparison with the Lean specification
        spec_out.append("C{" + ";".join(
            f"{enc_labels(k)}={sp.flags(k)}=" + "+".join(f"{a}.{b}" for a, b in sorted(sp.content[k])) for k in sp.order())
            + "|" + ";".join(enc_labels(d) for d in sp.delegs()) + "}")

    items = case["items"]
    if load:
        try:
            zone = load_zone(case)
        except BaseException as e:
            if isinstance(e, _Stalled):
                raise
            return "ok LOAD!" + type(e).__name__, "ok", [("C20/load/raises:" + type(e).__name__, f"from_text raised {e!r} on {load_text(case)!r}")], \
                {"ops": 0, "queries": 0, "commits": 0, "tainted": 0, "errors": 0, "marks": []}
        record_commit()
        # the loaded content must be the records given (whatever the route: text or transfer)
        sh_ = Shadow()
        for it_ in items:
            f_ = it_.split(":")
            if f_[0] == "p":
                k_ = validate_key(cfg, tuple(dec_labels(f_[1])))
                if k_ is not None:
                    sh_.put(k_, (int(f_[2]), int(f_[3])))
        got_ = {k: set(t) for k, _, t in snap_of(committed_version())[0]} if committed_version() is not None else None
        if got_ != sh_.c:
            fails.append(("C20/load/content-differs-from-records/" + ("xfr" if load.get("xfr") else "text"),
                          f"loaded zone holds {got_!r}, the records say {sh_.c!r}"))
        items = [i for i in items if i.startswith("Q")]
    for item in items:
        f = item.split(":")
        if f[0][0] == "T":
            close()
            repl, commit = f[0][1] == "1", f[0][2] == "1"
            try:
                txn = zone.writer(replacement=repl)
            except ValueError:
                txn = "failed"
                zone._write_txn = None  # the failed writer never got a version; release admission for later writers
            continue
        if f[0] == "Q":
            close()
            stats["queries"] += 1
            q = dns.name.Name(dec_labels(f[1]))
            v = committed_version()
            if v is None:
                out.append("B!N")
                spec_out.append("B!N")
                marks.append(("q", None))
                continue
            marks.append(("q", None))   # filled at the end: implementation token == definition token
            key = validate_key(cfg, tuple(q.labels))
            sp = spec_of(v)
            want = sp.bounds(key) if key is not None else None
            spec_out.append("B!K" if key is None else ("B!A" if want is None else show_bounds(
                want["left"], want["right"], want["ce"], want["eq"], want["deleg"])))
            try:
                b = v.bounds(q)
            except KeyError:
                out.append("B!K")
                if key is not None:
                    fails.append(("C20/bounds/raises/KeyError-on-in-zone-name", f"bounds({q}) raised KeyError"))
                continue
            except AssertionError:
                out.append("B!A")
                if want is not None and not tainted:
                    fails.append(("C20/bounds/raises/assertion", f"bounds({q}) asserted although a predecessor exists"))
                continue
            except BaseException as e:
                if isinstance(e, _Stalled):
                    raise
                out.append("B!F:" + type(e).__name__)
                fails.append(("C20/bounds/foreign-exception:" + type(e).__name__, f"bounds({q}) raised {e!r}"))
                continue
            got = {"left": low(b.left.labels), "right": None if b.right is None else low(b.right.labels),
                   "ce": low(b.closest_encloser.labels), "eq": bool(b.is_equal), "deleg": bool(b.is_delegation)}
            out.append(show_bounds(got["left"], got["right"], got["ce"], got["eq"], got["deleg"]))
            # the same query given as text (bounds accepts `Name | str`), the `name` field, and the index API itself
            if key is not None:
                if low(b.name.labels) != key:
                    fails.append(("C20/bounds/name-field", f"bounds({q}).name = {b.name!r}, the validated query name is {key!r}"))
                if all(l and all(48 <= c <= 57 or 65 <= c <= 90 or 97 <= c <= 122 for c in l) for l in q.labels if l != b""):
                    try:
                        b2 = v.bounds(q.to_text())
                        if b2 != b:
                            fails.append(("C20/bounds/str-query-differs", f"bounds({q.to_text()!r}) = {b2}, bounds(Name) = {b}"))
                    except BaseException as e:
                        if isinstance(e, _Stalled):
                            raise
                        fails.append(("C20/bounds/str-query-raises:" + type(e).__name__, f"bounds({q.to_text()!r}) raised {e!r}"))
                if not tainted:
                    vq = dns.name.Name(key)
                    try:
                        dcut, dsub = v.delegations.get_delegation(vq)
                        dglue = v.delegations.is_glue(vq)
                        wcut = next((a for a in [key] + sp.ancestors(key) if sp.is_deleg(a)), None)
                        gotd = (None if dcut is None else low(dcut.labels), bool(dsub), bool(dglue))
                        wantd = (wcut, wcut is not None and wcut != key, wcut is not None and wcut != key)
                        if gotd != wantd:
                            fails.append(("C20/index-api/get_delegation-is_glue", f"delegations.get_delegation/is_glue({enc_labels(key)}) = {gotd!r}, definition says {wantd!r}; zone {show_snap(v)}"))
                    except BaseException as e:
                        if isinstance(e, _Stalled):
                            raise
                        fails.append(("C20/index-api/raises:" + type(e).__name__, repr(e)))
            if key is None:
                fails.append(("C20/bounds/accepts-out-of-zone-name", f"bounds({q}) returned {b}"))
                continue
            if tainted or want is None or apex not in sp.content:
                continue
            under_cut = want["deleg"]
            for fld in ("left", "right", "ce", "eq", "deleg"):
                if got[fld] == want[fld]:
                    continue
                trig = "other"
                if (fld == "left" and not under_cut and sp.is_glue(got["left"])
                        and want["left"] in sp.ancestors(got["left"]) and sp.is_deleg(want["left"])):
                    trig = "occluded-predecessor"
                elif fld == "ce" and rel and want["ce"] == () and got["ce"] == key and len(key) > 0:
                    trig = "relativized-apex-encloser"
                fails.append((f"C20/bounds/{fld}/{trig}",
                              f"bounds({enc_labels(key)}) {fld} = {got[fld]!r}, definition says {want[fld]!r}; zone {show_snap(v)}"))
            continue
        # an operation inside a transaction
        if txn is None or txn == "failed":
            out.append("-")
            continue
        stats["ops"] += 1
        name = dns.name.Name(dec_labels(f[1]))
        key = validate_key(cfg, tuple(name.labels))
        pre_sp = spec_of(txn.version) if not (tainted or quiet) else None
        ty = cov = None
        try:
            # the same operation reaches the version through different public call forms (Name / str owner, rdataset /
            # (ttl, rdata) / RRset, type as enum / mnemonic / int, delete / delete_exact); the form is picked from the
            # item's position so that a history replays identically
            route = (stats["ops"] * 7 + len(item)) % 5
            if route and route % 2 == 0 and stats["ops"] % 3 == 0 and not quiet:
                # hostile calls first: they must raise and leave the version exactly as it was
                before = show_snap(txn.version)
                for bad_call in (lambda: txn.add(name, rdataset_for(16, 0, cls=dns.rdataclass.CH if cls == dns.rdataclass.IN else dns.rdataclass.IN)),
                                 lambda: txn.add(name), lambda: txn.delete(name, 300, 5.0), lambda: txn.replace(5, 5)):
                    try:
                        bad_call()
                        fails.append(("C20/op/hostile-call-accepted", f"a malformed call before {item} did not raise"))
                    except (ValueError, TypeError, KeyError):
                        pass
                    except BaseException as e:
                        if isinstance(e, _Stalled):
                            raise
                        fails.append(("C20/op/hostile-call-foreign:" + type(e).__name__, f"a malformed call before {item} raised {e!r}"))
                if show_snap(txn.version) != before:
                    fails.append(("C20/op/state-changed-by-failed-call", f"a malformed call before {item} changed the version: {before} -> {show_snap(txn.version)}"))
            owner = _as_text(name) if route == 3 and _text_safe(name) else name
            if f[0] in ("p", "r"):
                ty, cov = int(f[2]), int(f[3])
                rds = rdataset_for(ty, cov, cls=cls)
                fn = txn.add if f[0] == "p" else txn.replace
                if route == 1:
                    fn(owner, 300, rds[0])
                elif route == 2:
                    fn(dns.rrset.from_rdata_list(name, 300, list(rds)))
                else:
                    fn(owner, rds)
                kind = "put"
            elif f[0] == "dn":
                if route == 4 and txn.name_exists(name):
                    txn.delete_exact(owner)
                else:
                    txn.delete(owner)
                kind = "delname"
            elif f[0] == "dr":
                ty, cov = int(f[2]), int(f[3])
                tyarg = (dns.rdatatype.RdataType(ty), dns.rdatatype.to_text(ty), ty)[route % 3]
                if cov:
                    txn.delete(owner, tyarg, (dns.rdatatype.RdataType(cov), dns.rdatatype.to_text(cov), cov)[route % 3])
                elif route == 4 and txn.get(name, ty) is not None:
                    txn.delete_exact(owner, tyarg)
                else:
                    txn.delete(owner, tyarg)
                kind = "delrds"
            elif f[0] == "dx":
                ty, cov = int(f[2]), int(f[3])
                rds = rdataset_for(ty, cov, alt=(f[4] == "0"), cls=cls)
                if route == 1:
                    txn.delete(owner, rds[0])
                elif route == 2:
                    txn.delete(dns.rrset.from_rdata_list(name, 0, list(rds)))
                elif route == 4 and f[4] == "1" and txn.get(name, ty, cov) is not None:
                    txn.delete_exact(owner, rds)
                else:
                    txn.delete(owner, rds)
                kind = "delrdata" if f[4] == "1" else "put"
            else:
                raise RuntimeError("bad item " + item)
            tok = "+"
        except KeyError:
            tok, kind = "!K", "error"
            stats["errors"] += 1
            if key is not None:
                fails.append(("C20/op/raises/KeyError-on-in-zone-name", f"{item} raised KeyError"))
        except ValueError:
            tok, kind = "!V", "error"
            stats["errors"] += 1
        except BaseException as e:
            if isinstance(e, _Stalled):
                raise
            tok, kind = "FOREIGN:" + type(e).__name__, "error"
            fails.append(("C20/op/foreign-exception:" + type(e).__name__, f"{item} raised {e!r}"))
        if quiet:
            # big zones: observed at commits and queries only (a failing operation is still visible)
            if tok != "+":
                out.append(tok)
        else:
            out.append(tok + show_snap(txn.version))
            after_op(txn.version, (kind, key, ty, cov), pre_sp)
    close()
    for hv, snap0 in held:
        try:
            now = show_snap(hv)
        except BaseException as e:
            if isinstance(e, _Stalled):
                raise
            now = "raises " + repr(e)
        if now != snap0:
            fails.append(("C20/versions/committed-version-changed-later",
                          f"a committed version changed after later transactions: was {snap0[:300]}…, is {now[:300]}…"))
            break
    # every retained version (a reader may still hold it) must go on answering by the definition of *its* content
    for vi, (hv, snap0) in enumerate(held):
        if not case.get("hq"):
            break
        hsp = Spec(apex, {k: t for k, _, t in snap_of(hv)[0]})
        if apex not in hsp.content or (vi == len(held) - 1 and check_state(hv, "held", None)[0]):
            continue        # the last version's own inconsistency has been reported at its commit
        hvis = None
        for qh in case["hq"]:
            key = validate_key(cfg, tuple(dec_labels(qh)))
            want = hsp.bounds(key) if key is not None else None
            if want is None:
                continue
            try:
                b = hv.bounds(dns.name.Name(dec_labels(qh)))
                got = (low(b.left.labels), None if b.right is None else low(b.right.labels), low(b.closest_encloser.labels),
                       bool(b.is_equal), bool(b.is_delegation))
            except BaseException as e:
                if isinstance(e, _Stalled):
                    raise
                got = "raises " + type(e).__name__
            if got != (want["left"], want["right"], want["ce"], want["eq"], want["deleg"]):
                fails.append(("C20/versions/retained-version-bounds",
                              f"version {vi} of {len(held)} retained: bounds({qh}) = {got!r}, the definition on its content says {want!r}"))
                break
    # a query "holds" when the implementation's answer is the definition's answer
    bi = [t for t in out if t.startswith("B")]
    bs = [t for t in spec_out if t.startswith("B")]
    qi = 0
    for i, (kind, val) in enumerate(marks):
        if kind == "q":
            marks[i] = ("q", bi[qi] == bs[qi])
            qi += 1
    stats["marks"] = marks
    return "ok " + " ".join(out) if out else "ok", "ok " + " ".join(spec_out) if spec_out else "ok", fails, stats


# ---------------------------------------------------------------------------------------------------
# The reference is the repaired behaviour (`intended`): all five decision points were repaired in /repo (487318e D15,
# a145603 D16, 5dc8eac CNAME at a cut, d608fe5 D19, a30e868 D20), so correspondence is demanded with that variant and a tree
# in which one of the defects returns is a VIOLATION (model/implementation disagree, and the oracle supplies the input).
# The witnesses are still replayed on the implementation, for the evidence file only.
REFERENCE_VARIANT = "11111"
# ---------------------------------------------------------------------------------------------------
EX = ["6578616d706c65", ""]     # example.
W = {
    "fixCow": {"rel": True, "origin": EX, "items": ["T11", "p:@:6:0", "p:61:2:0", "T01", "p:61:43:0"]},
    "fixNested": {"rel": True, "origin": EX, "items": ["T11", "p:@:6:0", "p:62,61:2:0", "p:61:2:0", "T01", "dr:61:2:0"]},
    "fixCname": {"rel": True, "origin": EX, "items": ["T11", "p:@:6:0", "p:61:2:0", "p:78,61:1:0", "p:61:5:0"]},
    "fixLeft": {"rel": False, "origin": EX, "items": ["T11", "p:6578616d706c65,-:6:0", "p:61:2:0", "p:78,61:1:0", "p:63:1:0", "Q:62"]},
    "fixCE": {"rel": True, "origin": EX, "items": ["T11", "p:@:6:0", "p:63:1:0", "Q:7a7a"]},
}
ORDER = ["fixCow", "fixNested", "fixCname", "fixLeft", "fixCE"]
_variant_cache = {}


def detect_variant():
    if "v" not in _variant_cache:
        bits = ""
        for k in ORDER:
            _, _, fails, _ = evaluate(W[k])
            bits += "0" if fails else "1"
        _variant_cache["v"] = bits
    return _variant_cache["v"]


# ---------------------------------------------------------------------------------------------------
def init_bit():
    """does a new zone start with an (empty) B-tree version, or with the plain version only a replacement writer can follow?"""
    if "init" not in _variant_cache:
        z = dns.btreezone.Zone(dns.name.from_text("example."))
        _variant_cache["init"] = "1" if hasattr(z._versions[-1], "delegations") else "0"
    return _variant_cache["init"]


def model_items(case):
    """items as given to the model.  For a load from text the reader normalises owner names before they reach the
    transaction, so the SOA line is given to the model in the zone's own relativity (the SOA-owner check of the
    transaction layer is outside C20 and differs between tree versions)."""
    if not case.get("load"):
        return case["items"]
    apex_spelling = enc_labels([] if case["rel"] else [bytes.fromhex(x) for x in case["origin"]])
    out = []
    for it in case["items"]:
        f = it.split(":")
        if f[0] == "p" and f[2] == "6":
            it = f"p:{apex_spelling}:6:0"
        out.append(it)
    return out


def op_line(case, variant):
    return (f"{'c20.load' if case.get('load') or case.get('quiet') else 'c20.hist'} {1 if case['rel'] else 0} {enc_labels([bytes.fromhex(x) for x in case['origin']])} {variant} "
            f"{init_bit()} " + " ".join(model_items(case)))


def spec_line(case):
    return (f"c20.spec {1 if case['rel'] else 0} {enc_labels([bytes.fromhex(x) for x in case['origin']])} "
            f"{init_bit()} " + " ".join(model_items(case)))


def eval_case(ctx: Ctx, case: dict):
    variant = REFERENCE_VARIANT
    trace, spec, fails, stats = evaluate(case)
    ctx.corr(op_line(case, variant), trace, case)
    quiet = bool(case.get("quiet"))   # big zones: the Lean specification is cubic in the zone size; the Python oracle suffices
    if not quiet:
        ctx.corr(spec_line(case), spec, case)
    if not quiet and not trace.startswith("ok LOAD!"):
        _guard_queue.append((op_line(case, variant).replace("c20.load", "c20.guard", 1).replace("c20.hist", "c20.guard", 1), stats.pop("marks"), case))
    stats.pop("marks", None)
    if len(_guard_queue) >= 20000:
        flush_guards(ctx)
    for k, n in stats.items():
        ctx.count("n." + k, n)
    for sig, what in fails:
        small = case
        if sig not in _minimised:
            small = _minimised[sig] = minimise(case, sig)
            what = next((w for s_, w in evaluate(small)[2] if s_ == sig), what)
        ctx.fail(sig, what, {"kind": "hist", "case": small})
    return fails


_minimised = {}
_guard_queue = []


def flush_guards(ctx: Ctx):
    """the decidable guards of the theorems of record, evaluated by the model along every history: wherever a
    guard holds the theorem applies, so the property must hold on the implementation at that point"""
    global _guard_queue
    q, _guard_queue = _guard_queue, []
    if not q or not ctx.driver_ok:
        return
    from harness.core import run_driver
    outs = run_driver("C20", [x[0] for x in q])
    for (line, marks, case), res in zip(q, outs):
        toks = res.split(" ")[1:]
        if len(toks) != len(marks):
            ctx.fail("C20/guard/protocol", f"guard line returned {len(toks)} tokens for {len(marks)} marks", {"kind": "hist", "case": case})
            continue
        full = True
        for tok, (kind, holds) in zip(toks, marks):
            ctx.count(f"guard.{tok}")
            if tok.endswith("0"):
                full = False
            if tok.endswith("1") and not holds:
                ctx.fail(f"C20/guard/theorem-applies-but-property-fails/{kind}",
                         "the guard of the theorem of record holds at this point of the history, yet the implementation's "
                         f"state/answer differs from the definition ({kind})", {"kind": "hist", "case": case})
                break
        ctx.count("guard.history-fully-covered" if full else "guard.history-leaves-guard")


def minimise(case, sig, budget=120):
    """greedy removal of items while the same signature still fails (keeps replays and the corpus small)"""
    items = list(case["items"])
    if case.get("quiet"):
        budget = 25         # big zones: each evaluation is expensive, and the size is the point
    tries = 0
    i = len(items) - 1
    while i >= 0 and tries < budget:
        if items[i].startswith("T") and i == 0:
            i -= 1
            continue
        cand = items[:i] + items[i + 1:]
        tries += 1
        try:
            _, _, fails, _ = evaluate(dict(case, items=cand))
        except BaseException as _be:
            if isinstance(_be, _Stalled):
                raise
            fails = []
        if any(s == sig for s, _ in fails):
            items = cand
        i -= 1
    return dict(case, items=items)


def impl_of_op(op: str):
    """used by `./check C20 --replay` on a correspondence break: recompute the implementation's line"""
    f = op.split(" ")
    if f[0] == "c20.hist":
        case = {"rel": f[1] == "1", "origin": [l.hex() for l in dec_labels(f[2])], "items": f[5:]}
        return evaluate(case)[0]
    if f[0] == "c20.load":
        # the load mode (origin passed or taken from $ORIGIN) is not part of the model line: try both
        case = {"rel": f[1] == "1", "origin": [l.hex() for l in dec_labels(f[2])], "items": f[5:]}
        return " | ".join(evaluate(dict(case, load={"origin_from_text": m}))[0] for m in (False, True))
    case = {"rel": f[1] == "1", "origin": [l.hex() for l in dec_labels(f[2])], "items": f[4:]}
    return evaluate(case)[1]


# ---------------------------------------------------------------------------------------------------
# generators
# ---------------------------------------------------------------------------------------------------
LABELS = [b"a", b"b", b"c", b"x", b"A"]
ABC = [b"a", b"b", b"c"]
ORIGINS = [[b"example", b""], [b"example", b""], [b"ex", b"ample", b""], [b""], [b"Example", b""]]
TYPES = [(2, 0), (2, 0), (2, 0), (1, 0), (1, 0), (16, 0), (43, 0), (5, 0), (47, 0), (46, 2), (46, 1), (46, 5), (46, 47)]
NON_NS = [(1, 0), (16, 0), (43, 0), (47, 0), (46, 2), (46, 1)]


def hexl(labels):
    return [bytes(l).hex() for l in labels]


def gen_rel_name(rng, pool=LABELS, maxlen=4, tree=None):
    """a relative owner name; `tree` (list of existing names) biases towards at/above/below existing names"""
    if tree and rng.chance(3, 5):
        base = list(rng.choice(tree))
        m = rng.below(4)
        if m == 0:
            return base
        if m == 1 and len(base) < maxlen:
            return [rng.choice(pool)] + base
        if m == 2 and len(base) > 1:
            return base[1:]
        if m == 3 and len(base) < maxlen - 1:
            return [rng.choice(pool), rng.choice(pool)] + base
        return base
    return [rng.choice(pool) for _ in range(rng.choice([1, 1, 1, 2, 2, 2, 3, 3, 4][: max(1, 2 * maxlen)]))]


def spell(rng, relname, cfg, apex_ok=True):
    """spell a zone-relative name for the API: in the zone's own relativity mostly, sometimes the other one"""
    origin = cfg["origin"]
    if cfg["rel"]:
        if rng.chance(1, 6):
            return list(relname) + list(origin)
        return list(relname)
    if rng.chance(1, 6):
        return list(relname)
    return list(relname) + list(origin)


def enc(labels):
    return enc_labels(labels)


class Shadow:
    """content bookkeeping of the generator (to aim operations and to avoid known triggers when asked)"""

    def __init__(self):
        self.c = {}

    def copy(self):
        s = Shadow()
        s.c = {k: set(v) for k, v in self.c.items()}
        return s

    def spec(self):
        return Spec((), {k: frozenset(v) for k, v in self.c.items()})

    def put(self, k, key):
        cur = self.c.setdefault(k, set())
        kd = kind_of(*key)
        if cur:
            if kd == "cname":
                cur -= {x for x in cur if kind_of(*x) == "regular"}
            elif kd == "regular":
                cur -= {x for x in cur if kind_of(*x) == "cname"}
        cur.add(key)

    def delrds(self, k, key):
        if k in self.c:
            self.c[k].discard(key)
            if not self.c[k]:
                del self.c[k]

    def delname(self, k):
        self.c.pop(k, None)


def triggers(sh: Shadow, touched, kind, k, key):
    """would this operation hit a known defect of the unchanged tree?  (generator-side, relative keys)"""
    sp = sh.spec()
    k = low(k)
    after = sh.copy()
    if kind == "put":
        after.put(k, key)
    elif kind == "delrds":
        after.delrds(k, key)
    else:
        after.delname(k)
    sp2 = after.spec()
    if k != () and sp.has_ns(k) != sp2.has_ns(k):
        if any(len(n) > len(k) and n[len(n) - len(k):] == k and (sp.has_ns(n)) for n in sh.c):
            return True
        if kind == "put" and kind_of(*key) == "cname":
            return True
    if sp.is_deleg(k) and k not in touched and kind in ("put", "delrds") and key[0] != NS:
        return True
    return False


def gen_history(rng, avoid=False, queries=True, malformed=False):
    origin = rng.choice(ORIGINS)
    rel = rng.chance(1, 2)
    cfg = {"rel": rel, "origin": origin}
    items = []
    sh = Shadow()
    apex_spelling = [] if rel else list(origin)
    ntx = rng.choice([1, 1, 2, 2, 3, 3, 4, 5, 7]) if not rng.chance(1, 40) else 30
    for t in range(ntx):
        repl = t == 0 or rng.chance(1, 12)
        commit = not rng.chance(1, 8)
        if malformed and t == 0 and rng.chance(1, 6):
            repl = False
        items.append(f"T{1 if repl else 0}{1 if commit else 0}")
        start = sh.copy()
        if repl:
            sh = Shadow()
        touched = set()
        nops = rng.choice([0, 1, 1, 2, 2, 3, 4, 5, 6, 8]) if t else rng.choice([2, 3, 4, 5, 6, 8, 10])
        if repl and not (malformed and rng.chance(1, 5)):
            items.append(f"p:{enc(apex_spelling)}:6:0")
            sh.put((), (6, 0))
            touched.add(())
            if rng.chance(2, 3):
                items.append(f"p:{enc(apex_spelling)}:2:0")
                sh.put((), (2, 0))
        for _ in range(nops):
            tree = [list(k) for k in sh.c if k != ()] or None
            rn = gen_rel_name(rng, tree=tree)
            if rng.chance(1, 25):
                rn = []
            k = low(rn)
            m = rng.below(10)
            if m <= 4:
                key = rng.choice(TYPES)
                if k == () and key[0] == CNAME:
                    key = (1, 0)
                op, kind = ("p" if rng.chance(2, 3) else "r"), "put"
            elif m == 5:
                key, op, kind = None, "dn", "delname"
            elif m <= 7:
                present = sorted(sh.c.get(k, ()))
                key = rng.choice(present) if present and rng.chance(4, 5) else rng.choice(TYPES)
                op, kind = "dr", "delrds"
            else:
                present = sorted(sh.c.get(k, ()))
                key = rng.choice(present) if present and rng.chance(4, 5) else rng.choice(TYPES)
                hit = rng.chance(1, 2)
                op, kind = "dx", ("delrds" if hit else "put")
            if k == () and kind == "delname" and not malformed:
                continue
            if k == () and kind == "delrds" and key == (6, 0) and not malformed:
                continue
            exists = key is not None and key in sh.c.get(k, ())
            effective = kind == "delname" or kind == "put" and op != "dx" or exists
            if avoid and effective and triggers(sh, touched, kind, rn, key):
                continue
            name = spell(rng, rn, cfg)
            if malformed and rng.chance(1, 5):
                olen = sum(len(l) + 1 for l in origin)
                room = 255 - olen                     # wire octets left for the relative part
                def fill(n):                          # relative labels whose wire length is exactly n
                    out_ = []
                    while n > 64:
                        out_.append(b"l" * 63); n -= 64
                    if n == 1:                        # cannot make a 1-octet label: shorten the previous one
                        out_[-1] = out_[-1][:-1]; n = 2
                    return out_ + [b"m" * (n - 1)] if n else out_
                name = rng.choice([
                    fill(room), fill(room) + list(origin),                 # exactly 255 octets with the origin: legal
                    fill(room + 1),                                        # one more: KeyError (too long once derelativized)
                    fill(room - 1), [b"l" * 63] + list(rn)[:1],
                    [b"a", b"other", b""], [b"a", b""], [b"x" * 63] * 3 + [b"y" * 50], [b"x" * 63, b"y" * 63, b"z" * 63, b"w" * 60],
                    [b"A"] + list(rn), list(rn) + [l.upper() for l in origin], [b"\x00"], [b"\xff", b"a"], [b"a" * 63]])
                k = None
            if op in ("p", "r"):
                items.append(f"{op}:{enc(name)}:{key[0]}:{key[1]}")
            elif op == "dn":
                items.append(f"dn:{enc(name)}")
            elif op == "dr":
                items.append(f"dr:{enc(name)}:{key[0]}:{key[1]}")
            else:
                items.append(f"dx:{enc(name)}:{key[0]}:{key[1]}:{1 if hit else 0}")
            if k is None:
                continue
            if kind == "put" and (op != "dx" or exists):
                sh.put(k, key)
                touched.add(k)
            elif kind == "delrds" and exists:
                sh.delrds(k, key)
                touched.add(k)
            elif kind == "delname":
                sh.delname(k)
                touched.add(k)
        if not commit:
            sh = start
        if queries and (t == ntx - 1 or rng.chance(1, 4)):
            qs = []
            tree = [list(k) for k in sh.c if k != ()] or None
            for _ in range(rng.choice([2, 4, 6, 10])):
                qs.append(gen_rel_name(rng, pool=LABELS + [b"0", b"z", b"aa"], tree=tree))
            qs.append([])
            for q in qs:
                items.append("Q:" + enc(spell(rng, q, cfg)))
            if malformed:
                items.append("Q:" + enc([b"a", b"other", b""]))
    c = {"kind": "hist", "rel": rel, "origin": hexl(origin), "items": items}
    if rng.chance(1, 3):
        c["t"] = rng.choice([3, 4])   # multi-level trees under the zone layer
    if rng.chance(1, 5):
        c["cls"] = "CH"        # the zone's class is an option the flag logic must honour (node.get_rdataset(zone.rdclass, NS))
    return c


def all_abc_names(maxlen=3):
    out = [[]]
    for n in range(1, maxlen + 1):
        for t in itertools.product(ABC, repeat=n):
            out.append(list(t))
    return out


def gen_bounds_sweep(rng, avoid=True):
    """a small zone over {a,b,c} and every name of <= 3 labels as a query"""
    origin = rng.choice(ORIGINS)
    rel = rng.chance(1, 2)
    cfg = {"rel": rel, "origin": origin}
    apex_spelling = [] if rel else list(origin)
    items = ["T11", f"p:{enc(apex_spelling)}:6:0"]
    sh = Shadow()
    sh.put((), (6, 0))
    for _ in range(rng.choice([2, 3, 4, 5, 6, 8])):
        rn = [rng.choice(ABC) for _ in range(rng.choice([1, 1, 2, 2, 3]))]
        key = rng.choice([(2, 0), (2, 0), (1, 0), (1, 0), (16, 0)])
        if avoid and triggers(sh, {()}, "put", rn, key):
            continue
        sh.put(low(rn), key)
        items.append(f"p:{enc(spell(rng, rn, cfg))}:{key[0]}:{key[1]}")
    fixed = rng.below(2)
    for q in all_abc_names(3) + [[b"0"], [b"z"], [b"a", b"a", b"a", b"a"], [b"ab"], [b"b", b"0"]]:
        # spelled in the zone's own relativity, or (fixed) in the other one
        absolute = (not rel) != bool(fixed)
        items.append("Q:" + enc(list(q) + list(origin) if absolute else list(q)))
    return {"kind": "hist", "rel": rel, "origin": hexl(origin), "items": items}


def gen_load_orders(rng):
    """every permutation of a small record set as load order; also split over two transactions at every point"""
    origin = [b"example", b""]
    rel = rng.chance(1, 2)
    apex_spelling = [] if rel else list(origin)
    suf = [] if rel else origin
    pool = [([b"a"], (2, 0)), ([b"b", b"a"], (2, 0)), ([b"c", b"b", b"a"], (2, 0)), ([b"x", b"b", b"a"], (1, 0)),
            ([b"x", b"a"], (1, 0)), ([b"a"], (43, 0)), ([b"b"], (1, 0)), ([b"a", b"b"], (2, 0)), ([b"b", b"a"], (1, 0)),
            ([b"a"], (1, 0)), ([b"c"], (2, 0))]
    recs = rng.shuffle(pool)[: rng.choice([3, 3, 4])]
    qs = ["Q:" + enc(q + suf) for q in ([b"b"], [b"a"], [b"y", b"a"], [b"c", b"a"], [b"z"], [b"x", b"b", b"a"], [b"a", b"b"], [])]
    cases = []
    for perm in itertools.permutations(recs):
        ops = [f"p:{enc(n + suf)}:{k[0]}:{k[1]}" for n, k in perm]
        for cut in range(len(ops) + 1):
            if cut == len(ops):
                items = ["T11", f"p:{enc(apex_spelling)}:6:0"] + ops
            elif cut == 0:
                continue
            else:
                items = ["T11", f"p:{enc(apex_spelling)}:6:0"] + ops[:cut] + ["T01"] + ops[cut:]
            cases.append({"kind": "hist", "rel": rel, "origin": hexl(origin), "items": items + qs})
    return cases


def gen_loads(rng):
    """the initial load: zones read from text, origin passed explicitly or taken from a `$ORIGIN` line, relativized
    or not, owner names spelled relative / absolute / `@`, records in every order (all permutations of the
    non-apex records, apex SOA and NS dropped at random places), a duplicated rdataset line now and then"""
    origin = rng.choice([[b"example", b""], [b"example", b""], [b"ex", b"ample", b""], [b""]])
    pool = [([b"a"], (2, 0)), ([b"b", b"a"], (2, 0)), ([b"c", b"b", b"a"], (2, 0)), ([b"x", b"b", b"a"], (1, 0)),
            ([b"x", b"a"], (1, 0)), ([b"a"], (43, 0)), ([b"b"], (1, 0)), ([b"a", b"b"], (2, 0)), ([b"b", b"a"], (1, 0)),
            ([b"a"], (1, 0)), ([b"c"], (2, 0)), ([b"c"], (47, 0)), ([b"x", b"c"], (16, 0)), ([b"A"], (46, 2))]
    recs = rng.shuffle(pool)[: rng.choice([2, 3, 3, 4])]
    if rng.chance(1, 3):
        recs.append(recs[0])      # the same rdataset on two lines
        recs = recs[:4]
    queries = [[b"b"], [b"a"], [b"y", b"a"], [b"c", b"a"], [b"z"], [b"x", b"b", b"a"], [b"a", b"b"], [b"0"], []]
    cases = []
    for perm in sorted(set(itertools.permutations(range(len(recs))))):
        order = [recs[i] for i in perm]
        for origin_from_text in (False, True):
            for rel in (False, True):
                def spell_t(rn):
                    m = rng.below(3)
                    if not rn:
                        return [] if m else list(origin)
                    return list(rn) if m else list(rn) + list(origin)
                lines = [(n, k) for n, k in order]
                lines.insert(rng.below(len(lines) + 1), ([], (6, 0)))
                lines.insert(rng.below(len(lines) + 1), ([], (2, 0)))
                items = ["T11"] + [f"p:{enc(spell_t(n))}:{k[0]}:{k[1]}" for n, k in lines]
                items += ["Q:" + enc(list(q) + list(origin) if (not rel) != rng.chance(1, 5) else list(q)) for q in queries]
                cases.append({"kind": "hist", "rel": rel, "origin": hexl(origin), "items": items,
                              "load": {"origin_from_text": origin_from_text}})
                if rng.chance(1, 6):
                    cases[-1]["cls"] = "CH"
                if not origin_from_text and rng.chance(1, 3):
                    # the same records once more, arriving as a zone transfer
                    cases.append(dict(cases[-1], load={"origin_from_text": False, "xfr": True}))
    return cases


def gen_big(rng, total):
    """a zone of `total` names written in one transaction: several hundred names, the names beneath a cut added
    *before* the cut's NS rdataset, the NS owner arriving as name number `total` - so that update_glue_flag walks a
    subtree while the B-tree leaves it sits in are as full as they get (the default B-tree node holds 253 names).
    A second transaction removes the cut again (nested NS owner beneath it) and re-adds it.  Observed at commits
    and bounds queries only."""
    origin = [b"example", b""]
    rel = rng.chance(1, 2)
    suf = [] if rel else origin
    cutl = rng.choice([b"y", b"m", b"g"])            # where the subtree sits among the fillers
    nglue = rng.choice([2, 3, 5, 17, 60])
    glue = [[b"n%02d" % i, cutl] for i in range(nglue)] + [[b"deep", b"n00", cutl]]
    nfill = total - 2 - len(glue)                   # apex + cut + glue + fillers = total
    fill = [[b"%c%03d" % (rng.choice(b"acfkptz"), i)] for i in range(nfill)]
    first = rng.shuffle(fill + glue)
    items = ["T11", f"p:{enc(suf)}:6:0", f"p:{enc(suf)}:2:0"]
    items += [f"p:{enc(n + suf)}:{16 if len(n) == 1 else 1}:0" for n in first]
    items.append(f"p:{enc([cutl] + suf)}:2:0")
    qs = [[cutl], [b"n01", cutl], [b"zz", cutl], [b"n00" + b"0", cutl], [cutl + b"0"], [b"a000"], [b"0"], []]
    items += ["Q:" + enc(q + suf) for q in qs]
    # undelegate with an NS owner beneath, and delegate again, in later transactions on committed (shared) leaves
    items += ["T01", f"p:{enc([b'n00', cutl] + suf)}:2:0", "T01", f"dr:{enc([cutl] + suf)}:2:0"]
    items += ["Q:" + enc(q + suf) for q in qs[:4]]
    items += ["T01", f"p:{enc([b'extra', cutl] + suf)}:1:0", f"p:{enc([cutl] + suf)}:2:0"]
    items += ["Q:" + enc(q + suf) for q in qs[:4]]
    return {"kind": "hist", "rel": rel, "origin": hexl(origin), "items": items, "quiet": True}


def gen_bigindex(rng, ncuts, commit):
    """a delegation index of `ncuts` entries committed in one version (the default B-tree node holds 253), then one
    more cut added in a transaction that is aborted or committed while the previous version is still held, then a
    name added beneath a cut and a cut removed; bounds at and below the first / middle / last cut after every step
    and, at the end, again on every retained version.  Observed at commits and queries only."""
    origin = [b"example", b""]
    rel = rng.chance(1, 2)
    suf = [] if rel else origin
    cuts = [[b"d%03d" % i] for i in range(ncuts)]
    marks_ = [cuts[0], cuts[ncuts // 2], cuts[126 if ncuts > 126 else 0], cuts[-1]]
    items = ["T11", f"p:{enc(suf)}:6:0", f"p:{enc(suf)}:2:0"]
    items += [f"p:{enc(n + suf)}:2:0" for n in rng.shuffle(cuts)]
    items += [f"p:{enc([b'g'] + n + suf)}:1:0" for n in marks_]
    qs = []
    for n in marks_:
        qs += [n, [b"g"] + n, [b"zz"] + n, [n[0] + b"0"]]
    qs += [[b"a"], [b"zzz"], []]
    qitems = ["Q:" + enc(q + suf) for q in qs]
    items += qitems
    newcut = rng.choice([[b"a0"], [b"d126x"], [b"d%03dx" % (ncuts // 2)], [b"zz"]])
    items += [f"T0{1 if commit else 0}", f"p:{enc(newcut + suf)}:2:0", f"p:{enc([b'g'] + newcut + suf)}:1:0"]
    items += qitems
    items += ["T01", f"p:{enc([b'h'] + cuts[-1] + suf)}:1:0", f"p:{enc([b'h'] + cuts[ncuts // 2] + suf)}:16:0",
              f"dr:{enc(cuts[0] + suf)}:2:0"]
    items += qitems
    return {"kind": "hist", "rel": rel, "origin": hexl(origin), "items": items, "quiet": True,
            "hq": [enc(q + suf) for q in qs]}


def gen_multilevel(rng):
    """B-tree order 3 or 4: grow a zone past several leaf splits, then *replace* every existing name (the median of
    a full leaf included), touch, delete half of the names (rebalancing) and re-add some, in separate transactions
    (earlier versions stay held and are re-read at the end), with cuts and glue among the names"""
    origin = [b"example", b""]
    rel = rng.chance(1, 2)
    suf = [] if rel else origin
    n = rng.choice([10, 14, 20, 33, 60])
    names = [[b"n%02d" % i] for i in range(n)]
    cuts = [names[i] for i in sorted({n // 4, n // 2, n - 2})]
    glue = [[b"g"] + c for c in cuts] + [[b"h", b"g"] + cuts[0]]
    put = lambda op, nm, k: f"{op}:{enc(nm + suf)}:{k[0]}:{k[1]}"
    qs = ["Q:" + enc(q + suf) for q in [cuts[0], [b"g"] + cuts[1], [b"zz"] + cuts[-1], names[0], names[-1], [b"n"], [b"zzz"], []]]
    items = ["T11", put("p", [], (6, 0)), put("p", [], (2, 0))]
    items += [put("p", nm, (2, 0) if nm in cuts else (1, 0)) for nm in rng.shuffle(names + glue)] + qs
    items += ["T01"] + [put("r", nm, (2, 0) if nm in cuts else (1, 0)) for nm in rng.shuffle(names + glue)] + qs
    items += ["T01"] + [put("p", nm, (16, 0)) for nm in rng.shuffle(names)[: n // 2]]
    gone = rng.shuffle(names + glue)[: (n + len(glue)) // 2]
    items += ["T01"] + [f"dn:{enc(nm + suf)}" for nm in gone] + qs
    items += ["T0" + ("1" if rng.chance(3, 4) else "0")] + [put("p", nm, (2, 0) if nm in cuts else (1, 0)) for nm in rng.shuffle(gone)[: len(gone) // 2]]
    items += ["T01"] + [put("r", nm, (1, 0)) for nm in names[:3]] + qs
    return {"kind": "hist", "rel": rel, "origin": hexl(origin), "items": items, "t": rng.choice([3, 3, 4]),
            "hq": [q[2:] for q in qs]}


def run_case(ctx, c, tag):
    ctx.case((tag, c["rel"], tuple(c["origin"]), tuple(c["items"]), str(c.get("load")), c.get("cls"), c.get("t")), sample=c)
    if c.get("t"):
        ctx.count("gen.btree-order-%d" % c["t"])
    if c.get("cls"):
        ctx.count("gen.class-CH")
    ctx.count("gen." + tag)
    return eval_case(ctx, c)


def generate(ctx: Ctx, scale: int, rng):
    n = lambda q: max(1, q * scale)
    for _ in range(n(700)):
        run_case(ctx, gen_history(rng, avoid=True), "avoid")
    for _ in range(n(600)):
        run_case(ctx, gen_history(rng, avoid=False), "free")
    for _ in range(n(250)):
        run_case(ctx, gen_history(rng, avoid=rng.chance(1, 2), malformed=True), "malformed")
    for _ in range(n(120)):
        run_case(ctx, gen_bounds_sweep(rng, avoid=True), "sweep")
    for _ in range(n(40)):
        run_case(ctx, gen_bounds_sweep(rng, avoid=False), "sweep-free")
    for _ in range(n(6)):
        for c in gen_load_orders(rng):
            run_case(ctx, c, "load-order")
    for total in ([251, 252, 253, 254, 255, 379, 380, 381] if scale == 1 else
                  list(range(245, 262)) + list(range(372, 390)) + [506, 507, 508, 509]):
        for _ in range(1 if scale == 1 else 4):
            run_case(ctx, gen_big(rng, total), "big-zone")
    for _ in range(n(14)):
        run_case(ctx, gen_multilevel(rng), "multilevel")
    for ncuts in ([253, 254, 380] if scale == 1 else [126, 127, 252, 253, 254, 255, 379, 380, 381, 507]):
        for commit in (False, True):
            run_case(ctx, gen_bigindex(rng, ncuts, commit), "big-index." + ("commit" if commit else "abort"))
    for _ in range(n(8)):
        for c in gen_loads(rng):
            run_case(ctx, c, ("load-xfr." if c["load"].get("xfr") else "load-text.")
                     + ("$ORIGIN" if c["load"]["origin_from_text"] else "origin") + (".rel" if c["rel"] else ".abs"))


def run(ctx: Ctx):
    v = detect_variant()
    ctx.extra["variant_implemented"] = dict(zip(ORDER, v))
    ctx.notes.append("decision points as implemented by the working tree (1 = repaired; the reference is all 1): " + ", ".join(f"{k}={b}" for k, b in zip(ORDER, v)))
    for p in sorted(glob.glob(os.path.join(VERIF, "corpus", "C20", "*.json"))):
        c = json.load(open(p))
        ctx.case(("corpus", p), sample=None)
        eval_case(ctx, c)
        ctx.count("corpus")
    generate(ctx, 1 if ctx.tier == "quick" else 12, ctx.rng)
    flush_guards(ctx)


def search(ctx: Ctx):
    """failing-input search on the implementation: the disagreeing histories, their prefixes, then a fresh budget"""
    for m in ctx.mismatches[:40]:
        if m.case is not None:
            items = m.case["items"]
            for cut in range(len(items), 0, -max(1, len(items) // 8)):
                eval_case(ctx, dict(m.case, items=items[:cut]))
    generate(ctx, 3 if ctx.tier == "quick" else 24, ctx.rng.fork(20))
    flush_guards(ctx)


def replay(ctx: Ctx, obj: dict):
    case = obj["case"]
    _, _, fails, _ = evaluate(case)
    want = obj.get("signature")
    if want:
        fails = [f for f in fails if f[0] == want] or fails
    return [w for _, w in fails]


LEVEL = {
    "text": "Lean 4 theorems (no sorry, axioms propext/Classical.choice/Quot.sound only) over an executable model of dns/btreezone.py (WritableVersion.put_rdataset/delete_rdataset/delete_node, _maybe_cow_with_name with the per-version changed set, update_glue_flag, Delegations.get_delegation/is_glue, ImmutableVersion.bounds, the thin transaction layer) on a sorted association list keyed by names in the canonical order of Name.fullcompare (order laws - total order, antisymmetry on lower-case names, convexity of subtrees, ancestor chains, monotonicity of common-label counts - are proved from the model of fullcompare itself). Proved at full strength, with no guard, for the code as it is now (model variant `intended`), for ALL histories of transactions (commit, rollback, replacement, failing operations, initial load in any record order) over legal names, relativized and absolute zones, and ALL query names: (1) iteration_canonical - node store and index strictly increasing; (2) flags_eq_spec / index_eq_spec - every node flag and the delegation index equal the functions of zone content given by the documentation, nested cuts included; (3) bounds_eq_spec - bounds(name) equals its specification (nearest non-occluded neighbours, closest encloser counting empty non-terminals, at-or-below-delegation bit); (4) derived_state_function_of_content - two committed states with the same content reached by ANY two histories (load orders, detours, transaction boundaries) are equal, nodes, flags and index; (5) get_delegation_eq_spec - Delegations.get_delegation returns the unique delegation point at or above the name with the strictly-below bit, or (None, False). The `_partial` theorems state the same for any other variant of the five decision points (in particular the code before the repairs) under decidable guards, with kernel-checked counter-examples showing each former defect. Tie: whole-history differential correspondence with the `intended` variant observed after every operation and every commit and on zones loaded from text; the oracle's recompute-from-definition is compared with the Lean specification itself on every history; the theorems' guards (identically true for `intended`) are evaluated by the model along every history and the property is required of the implementation wherever they hold, i.e. everywhere.",
    "note": "Trusted: Lean kernel; the statements in lean/Props/C20.lean and the specification/guard definitions in lean/Model/BTreeZone.lean; the correspondence harness and its generators (differential testing bounds the tie); the B-tree is replaced by a sorted association list (its refinement is property C19); owner-name case is canonicalised (lower-cased keys). Readings fixed: neighbours and closest encloser are taken among non-occluded names; bounds presupposes an apex node (the code asserts it). Six C20 defects of the pinned tree (D15, D16 nested cuts, D19, D20, CNAME put at a cut, $ORIGIN load) were genuine violations; all are repaired in /repo (KNOWN_FINDINGS.json `fixed`), their witnesses stay in corpus/C20 as regression cases, and nothing is recorded as a known finding any more: a tree in which one of them returns is reported as VIOLATION with a concrete history.",
    "technique": "Lean 4 proof (invariant over histories with a frame theorem for the specification, refinement of cursor walks on a sorted list to filters/maps, order laws of the canonical name order derived from the model of fullcompare) + model-vs-implementation correspondence + recompute-from-definition oracle + guard/implementation implication check",
    "design_ref": "DESIGN.md §7 C20",
}

"""C01 — name text and wire codecs are exact inverses within DNS length limits.

Correspondence: dns.name (working tree) vs lean/Model/Name.lean through the driver.
Oracle: the round-trips, the closure property and pointer discipline evaluated on the implementation.
"""
import io
import signal

import dns.exception
import dns.name
import dns.tokenizer
import dns.wire

from harness.core import Ctx, Stalled, enc_labels, hx

RULE = (
    "cases are generated from one SplitMix64 state: structured names (label lengths from {0,1,2,3,5,31,62,63}, "
    "octets from a pool of escape/case/boundary values or uniform, wire lengths pushed to 253..255), invalid label "
    "lists, escaped text soups, compression scripts with shared/case-differing suffixes at offsets around 0x3FFF, "
    "arbitrary and mutated wire strings with pointer graphs; a case is non-trivial if its key (kind + inputs) is new"
)
TRUSTED_BASE = ["Python int/bytes/dict semantics, struct.pack('!B'/'!H') as radix-256 encode (modelled directly)"]
ASSUMPTIONS = [
    "IDNA/unicode paths and to_unicode are outside the model; omit_final_dot, styled text, pickling, Tokenizer.get_name are covered by direct oracles only",
    "compressed round trip is byte-identical under CaseConsistent (no table entry equal to a suffix only up to ASCII case); equal up to case otherwise (RFC 1035/4343 reading, DESIGN §6)",
]

OCTET_POOL = [0x00, 0x01, 0x09, 0x0A, 0x0D, 0x1F, 0x20, 0x21, 0x22, 0x24, 0x28, 0x29, 0x2E, 0x30, 0x31, 0x39, 0x3B, 0x40, 0x41, 0x5A, 0x5B,
              0x5C, 0x60, 0x61, 0x7A, 0x7B, 0x7E, 0x7F, 0x80, 0xFE, 0xFF]
LETTERS = [0x61, 0x62, 0x41, 0x42, 0x63]
LEN_POOL = [1, 1, 1, 2, 2, 3, 5, 8, 31, 62, 63]


def gen_label(rng, maxlen=63):
    n = min(rng.choice(LEN_POOL), maxlen)
    mode = rng.below(5)
    if mode == 4:
        # plain letters/digits/hyphen/underscore with ONE control or white-space octet at the end or the start (what a
        # regex `$`, str.strip() or isalnum() shortcut gets wrong)
        body = rng.bytes(max(1, n - 1), [0x61, 0x7A, 0x41, 0x30, 0x39, 0x2D, 0x5F])
        odd = bytes([rng.choice([0x0A, 0x0A, 0x0D, 0x09, 0x20, 0x00, 0x7F, 0x0B, 0x0C, 0x85 & 0xFF])])
        return (body + odd if rng.chance(3, 4) else odd + body)[:maxlen]
    if mode == 0:
        return rng.bytes(n, LETTERS)
    if mode == 1:
        return rng.bytes(n)
    return rng.bytes(n, OCTET_POOL)


def gen_labels(rng, absolute=None, budget=255):
    """a legal label list; absolute: True/False/None(random)"""
    if absolute is None:
        absolute = rng.chance(2, 3)
    if absolute:
        budget -= 1
    labels = []
    k = rng.choice([0, 1, 1, 2, 2, 3, 3, 4, 5, 8])
    push = rng.chance(1, 8)  # push to the length limit
    if push:
        k = 12
    for _ in range(k):
        if budget < 2:
            break
        l = gen_label(rng, min(63, budget - 1))
        if push and budget - 1 <= 63 and rng.chance(1, 2):
            l = rng.bytes(budget - 1 - rng.below(2) if budget > 2 else 1, OCTET_POOL)
        if not l:
            continue
        labels.append(l)
        budget -= len(l) + 1
    if absolute:
        labels.append(b"")
    return labels


def gen_any_labels(rng):
    """possibly illegal label lists for the constructor"""
    labels = gen_labels(rng, budget=rng.choice([255, 255, 300, 400]))
    m = rng.below(6)
    if m == 0 and labels:
        labels.insert(rng.below(len(labels) + 1), b"")
    elif m == 1:
        labels.insert(rng.below(len(labels) + 1), rng.bytes(rng.choice([64, 65, 100])))
    elif m == 2:
        labels = labels + [b""]
    elif m == 3:
        # multi-octet UTF-8 characters: character counts and octet counts differ around the limits
        ch = rng.choice(["\u00fc", "\u00e9", "\u20ac", "\U0001f600"]).encode("utf-8")
        k = rng.choice([31, 32, 21, 22, 15, 16, 10, 63 // len(ch), 63 // len(ch) + 1])
        labels = [ch * k for _ in range(rng.choice([1, 1, 2, 4, 5]))] + ([b"abc"] if rng.chance(1, 2) else []) + [b""]
    return labels


def outcome(fn, fmt):
    """canonical ok/err line of an implementation call"""
    try:
        v = fn()
    except dns.exception.DNSException as e:
        return "err " + type(e).__name__, None
    except ValueError as e:
        return "err ValueError", None
    except BaseException as e:  # foreign
        if isinstance(e, (KeyboardInterrupt, SystemExit, Stalled)):
            raise
        return "FOREIGN " + type(e).__name__, None
    return "ok " + fmt(v), v


def ref_decode(wire: bytes, off: int):
    """independent wire-name decoder: returns labels or None; enforces strictly-backward pointers"""
    labels = []
    limit = off
    cur = off
    hops = 0
    while True:
        if cur >= len(wire):
            return None
        c = wire[cur]
        if c == 0:
            labels.append(b"")
            return labels
        if c < 64:
            if cur + 1 + c > len(wire):
                return None
            labels.append(wire[cur + 1:cur + 1 + c])
            cur += 1 + c
        elif c >= 192:
            if cur + 1 >= len(wire):
                return None
            t = ((c & 0x3F) << 8) | wire[cur + 1]
            if t >= limit:
                return None
            limit = t
            cur = t
            hops += 1
        else:
            return None


def wf(labels):
    return all(len(l) <= 63 for l in labels) and sum(len(l) + 1 for l in labels) <= 255 and all(
        len(l) > 0 for l in labels[:-1])


class Hang(BaseException):
    pass


def _alarm(signum, frame):
    raise Hang()


# ------------------------------------------------------------------------------------------------
def eval_case(ctx: Ctx, c: dict):
    k = c["kind"]
    rep = {"kind": k, "case": c}
    if k == "text":
        labels = [bytes.fromhex(x) for x in c["labels"]]
        origin = None if c["origin"] is None else [bytes.fromhex(x) for x in c["origin"]]
        n = dns.name.Name(labels)
        t, _ = outcome(lambda: n.to_text(), lambda s: hx(s.encode("ascii")))
        ctx.corr(f"n.totext {enc_labels(labels)}", t, c)
        if not t.startswith("ok"):
            ctx.fail("C01/to_text/raises", f"to_text raised on {labels!r}: {t}", rep)
            return
        text = n.to_text()
        # master-file text of a name is printable ASCII only: every control, white-space and high octet is escaped
        if any(not (0x21 <= ord(ch) <= 0x7E) for ch in text):
            ctx.fail("C01/to_text/raw-unprintable-octet", f"to_text of {labels!r} contains an unescaped control/space/high character: {text!r}", rep)
        o = None if origin is None else dns.name.Name(origin)
        r, v = outcome(lambda: dns.name.from_text(text, o), lambda x: enc_labels(x.labels))
        ctx.corr(f"n.fromtext {hx(text.encode('ascii'))} {'none' if origin is None else enc_labels(origin)}", r, c)
        # oracle: byte-identical labels
        if origin is None or n.is_absolute():
            exp = "ok " + enc_labels(labels)
        else:
            full = labels + origin
            exp = "ok " + enc_labels(full) if wf(full) else None
        if exp is not None and r != exp:
            ctx.fail("C01/text-roundtrip/value-differs", f"from_text(to_text({labels!r}), {origin!r}) -> {r}", rep)
        elif exp is None and not r.startswith("err NameTooLong") and not r.startswith("err LabelTooLong") and not r.startswith("err EmptyLabel"):
            ctx.fail("C01/text-roundtrip/overlong-accepted", f"{labels!r}+{origin!r} -> {r}", rep)
        ctx.count("text." + ("abs" if n.is_absolute() else "rel") + ("+origin" if origin is not None else ""))
        # the same text against an equal-but-differently-spelt origin, right after: the result carries THAT origin's
        # octets (names compare case-insensitively, so anything keyed on a Name — a cache, a dict — would confuse them)
        if origin is not None and not n.is_absolute():
            origin2 = [bytes(x).swapcase() for x in origin]
            if origin2 != origin and wf(labels + origin2):
                o2 = dns.name.Name(origin2)
                for route, fn in (("from_text", lambda: dns.name.from_text(text, o2)),
                                  ("tokenizer", lambda: dns.tokenizer.Tokenizer(text + " x").get_name(o2))):
                    if route == "tokenizer" and not (origin2 and origin2[-1] == b""):
                        continue  # with a relative origin as_name() derelativizes a second time (checked above)
                    r2, _ = outcome(fn, lambda x: enc_labels(x.labels))
                    if r2 != "ok " + enc_labels(labels + origin2):
                        ctx.fail(f"C01/text-roundtrip/origin-case-not-kept/{route}",
                                 f"{route}({text!r}, origin={origin2!r}) right after the same text with origin {origin!r} -> {r2}", rep)
                ctx.count("text.origin-case-variant")
        # the zone-file path into from_text: the printed name is one identifier token, and
        # Tokenizer.get_name(origin, relativize, relativize_to) is from_text + choose_relativity
        rel = bool(c.get("rel"))
        rt = None if c.get("rt") is None else [bytes.fromhex(x) for x in c["rt"]]
        RT = None if rt is None else dns.name.Name(rt)
        tr, tv = outcome(lambda: dns.tokenizer.Tokenizer(text + " tail").get_name(o, rel, RT), lambda x: enc_labels(x.labels))
        if tr.startswith("FOREIGN"):
            ctx.fail("C01/tokenizer.get_name/foreign-exception:" + tr.split(" ")[1], f"Tokenizer({text!r}).get_name -> {tr}", rep)
        # only an identifier is a name: the same text as a quoted string is refused
        qr, _ = outcome(lambda: dns.tokenizer.Tokenizer('"' + text.replace('"', "") + '" tail').get_name(o), lambda x: enc_labels(x.labels))
        if not qr.startswith("err "):
            ctx.fail("C01/tokenizer.get_name/quoted-string-accepted", f"Tokenizer of a quoted string .get_name() -> {qr}", rep)
        elif exp is not None:
            full = labels if (origin is None or n.is_absolute()) else labels + origin
            base = rt if rt is not None else origin
            want = full
            if base:  # `if origin:` — an empty name is falsy
                low = lambda ls_: [x.lower() for x in ls_]
                isabs = lambda ls_: bool(ls_) and ls_[-1] == b""
                if rel:
                    # relativize: strip when the name is a subdomain (fullcompare: same relativity, suffix match up to case)
                    if isabs(full) == isabs(base) and len(full) >= len(base) and low(full[len(full) - len(base):]) == low(base):
                        want = full[:len(full) - len(base)]
                elif not isabs(full):
                    want = full + base if wf(full + base) else None
            if want is not None and tr != "ok " + enc_labels(want):
                ctx.fail("C01/tokenizer.get_name/value-differs",
                         f"Tokenizer({text!r}).get_name(origin={origin!r}, relativize={rel}, relativize_to={rt!r}) -> {tr}, expected {want!r}", rep)
            elif want is None and tr.startswith("ok"):
                ctx.fail("C01/tokenizer.get_name/overlong-accepted", f"Tokenizer({text!r}).get_name(origin={origin!r}, relativize_to={rt!r}) -> {tr}", rep)
            ctx.count("text.tokenizer." + ("rel" if rel else "abs") + ("+rt" if rt is not None else ""))
            # styled text: NameStyle(origin, relativize) is choose_relativity before printing; omit_final_dot only drops
            # the last dot of an absolute non-root name
            if want is not None and base is not None:
                B = dns.name.Name(base)
                st, sv = outcome(lambda: dns.name.Name(full).to_styled_text(dns.name.NameStyle(origin=B, relativize=rel)), lambda x: x)
                for om in (False, True):
                    so, _ = outcome(lambda: dns.name.Name(full).to_styled_text(dns.name.NameStyle(omit_final_dot=om, origin=B, relativize=rel)), lambda x: hx(x.encode("ascii")))
                    ctx.corr(f"n.styled {enc_labels(full)} {int(om)} {enc_labels(base)} {int(rel)}", so, c)
                wt = dns.name.Name(want).to_text() if wf(want) else None
                if wt is not None and st != "ok " + wt:
                    ctx.fail("C01/to_styled_text/relativity", f"Name({full!r}).to_styled_text(origin={base!r}, relativize={rel}) -> {st[:120]}, expected {wt[:120]!r}", rep)
                if wt is not None:
                    # omit_final_dot drops only the last dot of an absolute non-root result; a relativized result is printed whole
                    wabs = bool(want) and want[-1] == b""
                    wto = wt[:-1] if (wabs and len(want) > 1) else wt
                    sto, _ = outcome(lambda: dns.name.Name(full).to_styled_text(dns.name.NameStyle(omit_final_dot=True, origin=B, relativize=rel)), lambda x: x)
                    if sto != "ok " + wto:
                        ctx.fail("C01/to_styled_text/omit_final_dot-with-origin", f"Name({full!r}).to_styled_text(omit_final_dot=True, origin={base!r}, relativize={rel}) -> {sto[:120]}, expected {wto[:120]!r}", rep)
                    ctx.count("text.styled.omit+origin." + ("rel" if not wabs else "abs"))
        for variant in ("omit", "str", "copy", "pickle", "canon"):
            import copy as _copy
            import pickle as _pickle
            if variant == "omit":
                tt, _ = outcome(lambda: n.to_text(omit_final_dot=True), lambda x: x)
                ctx.corr(f"n.styled {enc_labels(labels)} 1 none 0", "ok " + hx(tt[3:].encode("ascii")) if tt.startswith("ok ") else tt, c)
                expt = text[:-1] if (n.is_absolute() and len(labels) > 1) else text
                if tt != "ok " + expt:
                    ctx.fail("C01/to_text/omit_final_dot", f"Name({labels!r}).to_text(omit_final_dot=True) -> {tt[:120]}", rep)
                elif n.is_absolute():
                    rr, _ = outcome(lambda: dns.name.from_text(expt, dns.name.root), lambda x: enc_labels(x.labels))
                    if rr != "ok " + enc_labels(labels):
                        ctx.fail("C01/text-roundtrip/value-differs", f"from_text(to_text(omit_final_dot=True) of {labels!r}, root) -> {rr}", rep)
            elif variant == "str":
                if str(n) != text:
                    ctx.fail("C01/to_text/str-differs", f"str(Name({labels!r})) = {str(n)!r} != to_text() {text!r}", rep)
            elif variant in ("copy", "pickle"):
                cr, _ = outcome((lambda: _copy.deepcopy(n)) if variant == "copy" else (lambda: _pickle.loads(_pickle.dumps(n))), lambda x: enc_labels(x.labels))
                if cr != "ok " + enc_labels(labels):
                    ctx.fail(f"C01/{variant}/value-differs", f"{variant} of Name({labels!r}) -> {cr}", rep)
            else:
                cr, _ = outcome(lambda: n.canonicalize(), lambda x: enc_labels(x.labels))
                if cr != "ok " + enc_labels([l.lower() for l in labels]):
                    ctx.fail("C01/canonicalize/value-differs", f"Name({labels!r}).canonicalize() -> {cr}", rep)
    elif k == "fromtext":
        text = bytes.fromhex(c["text"]).decode("ascii")
        origin = None if c["origin"] is None else [bytes.fromhex(x) for x in c["origin"]]
        o = None if origin is None else dns.name.Name(origin)
        r, v = outcome(lambda: dns.name.from_text(text, o), lambda x: enc_labels(x.labels))
        ctx.corr(f"n.fromtext {hx(text.encode('ascii'))} {'none' if origin is None else enc_labels(origin)}", r, c)
        ctx.count("fromtext." + r.split(" ")[0] + ("." + r.split(" ")[1] if not r.startswith("ok") else ""))
        # the same text as bytes must give the same outcome, and the second escape automaton (from_unicode)
        # must agree wherever IDNA does not come into play (no octet above 127 produced by an escape)
        rb, _ = outcome(lambda: dns.name.from_text(text.encode("ascii"), o), lambda x: enc_labels(x.labels))
        if rb != r:
            ctx.fail("C01/from_text/bytes-vs-str", f"from_text({text!r}) -> {r} but from_text(bytes) -> {rb}", rep)
        import re as _re
        plain = (v is not None and all(b < 128 for l in v.labels for b in l)) or (v is None and not _re.search(r"\\[0-9]", text))
        if plain:
            ru, _ = outcome(lambda: dns.name.from_unicode(text, o), lambda x: enc_labels(x.labels))
            ctx.count("fromtext.unicode-compared")
            # both automata raise library errors for bad text, but not always the same one first (from_unicode
            # encodes — and length-checks — each label as soon as it ends): only ok/err and the value are compared
            if (ru != r) if (ru.startswith("ok") or r.startswith("ok")) else (not ru.startswith("err ")):
                ctx.fail("C01/from_unicode/differs-from-from_text", f"from_unicode({text!r}, {origin!r}) -> {ru} but from_text -> {r}", rep)
        if r.startswith("FOREIGN"):
            ctx.fail("C01/from_text/foreign-exception:" + r.split(" ")[1], f"from_text({text!r}) -> {r}", rep)
        elif v is not None:
            if not wf(list(v.labels)):
                ctx.fail("C01/from_text/closure", f"from_text({text!r}) produced an illegal name", rep)
            # second round trip must be the identity
            r2, v2 = outcome(lambda: dns.name.from_text(v.to_text(), None), lambda x: enc_labels(x.labels))
            if r2 != "ok " + enc_labels(v.labels):
                ctx.fail("C01/text-roundtrip/value-differs", f"re-parse of {v.to_text()!r} -> {r2}", rep)
    elif k == "validate":
        labels = [bytes.fromhex(x) for x in c["labels"]]
        r, v = outcome(lambda: dns.name.Name(labels), lambda x: enc_labels(x.labels))
        ctx.corr(f"n.validate {enc_labels(labels)}", r, c)
        ctx.count("validate." + r.split(" ")[1] if not r.startswith("ok") else "validate.ok")
        if r.startswith("ok") != wf(labels):
            ctx.fail("C01/constructor/closure", f"Name({labels!r}) -> {r}", rep)
        # str labels are converted to their UTF-8 octets first: the limits are on octets, whatever the input type
        try:
            slabels = [l.decode("utf-8") for l in labels]
        except UnicodeDecodeError:
            slabels = None
        if slabels is not None:
            for variant, lab in (("str", slabels), ("mixed", [s_ if i % 2 else b_ for i, (s_, b_) in enumerate(zip(slabels, labels))]), ("tuple", tuple(labels))):
                rs, _ = outcome(lambda: dns.name.Name(lab), lambda x: enc_labels(x.labels))
                if rs != r:
                    ctx.fail(f"C01/constructor/{variant}-labels-differ", f"Name({lab!r}) -> {rs} but with bytes labels -> {r}", rep)
            ctx.count("validate.str-compared")
        # unpickling runs the same validation as the constructor
        def _unpickle():
            o_ = object.__new__(dns.name.Name)
            o_.__setstate__({"labels": tuple(labels)})
            return o_
        ru, _ = outcome(_unpickle, lambda x: enc_labels(x.labels))
        if ru != r:
            ctx.fail("C01/constructor/setstate-differs", f"__setstate__ with {labels!r} -> {ru} but the constructor -> {r}", rep)
    elif k == "wire":
        labels = [bytes.fromhex(x) for x in c["labels"]]
        pre, post = bytes.fromhex(c["pre"]), bytes.fromhex(c["post"])
        n = dns.name.Name(labels)
        w = n.to_wire()
        ctx.corr(f"n.towire {enc_labels(labels)}", "ok " + hx(w), c)
        buf = pre + w + post
        r, v = outcome(lambda: dns.name.from_wire(buf, len(pre)), lambda x: f"{enc_labels(x[0].labels)} {x[1]}")
        ctx.corr(f"n.fromwire {hx(buf)} {len(pre)}", r, c)
        if r != f"ok {enc_labels(labels)} {len(w)}":
            ctx.fail("C01/wire-roundtrip/value-differs", f"from_wire(to_wire({labels!r})) -> {r}", rep)
        ctx.count("wire.roundtrip")
    elif k == "wireo":
        labels = [bytes.fromhex(x) for x in c["labels"]]
        origin = None if c["origin"] is None else [bytes.fromhex(x) for x in c["origin"]]
        canon = bool(c["canon"])
        n = dns.name.Name(labels)
        o = None if origin is None else dns.name.Name(origin)
        r, v = outcome(lambda: n.to_wire(origin=o, canonicalize=canon), hx)
        ctx.corr(f"n.towireo {enc_labels(labels)} {'none' if origin is None else enc_labels(origin)} {int(canon)}", r, c)
        ctx.count("wireo." + (r.split(" ")[0] if r.startswith("ok") else r.split(" ")[1]) + (".canon" if canon else ""))
        if r.startswith("FOREIGN"):
            ctx.fail("C01/to_wire-origin/foreign-exception:" + r.split(" ")[1], f"to_wire({labels!r}, origin={origin!r}) -> {r}", rep)
        elif v is not None:
            full = labels if n.is_absolute() else labels + (origin or [])
            if len(v) > 255:
                ctx.fail("C01/to_wire-origin/closure", f"to_wire({labels!r}, origin={origin!r}) produced {len(v)} octets", rep)
            else:
                want = [l.lower() for l in full] if canon else full
                got = ref_decode(v, 0)
                if got != want:
                    ctx.fail("C01/to_wire-origin/value-differs",
                             f"to_wire({labels!r}, origin={origin!r}, canonicalize={canon}) decodes to {got!r}, expected {want!r}", rep)
                # the bytes-returning and the file-writing path must agree
                f = io.BytesIO()
                r2, _ = outcome(lambda: n.to_wire(f, None, o, canon), lambda x: "")
                if r2.startswith("ok") and f.getvalue() != v:
                    ctx.fail("C01/to_wire-origin/paths-differ", f"to_wire({labels!r}, origin={origin!r}): file path wrote {f.getvalue().hex()}, bytes path returned {v.hex()}", rep)
                if canon:
                    r3, v3 = outcome(lambda: n.to_digestable(o), hx)
                    if r3 != r:
                        ctx.fail("C01/to_digestable/differs-from-canonical-to_wire", f"to_digestable({labels!r},{origin!r}) -> {r3} vs {r}", rep)
        # the file-writing path (Name.to_wire(file, compress, origin, canonicalize)), without a table and with
        # a table that already holds the suffixes of another name: same outcome class as the bytes path, never
        # more than 255 octets, decodes to the name + origin
        pad = c.get("pad", 0)
        prev = None if c.get("prev") is None else [bytes.fromhex(x) for x in c["prev"]]
        for cmp in (False, True):
            f = io.BytesIO()
            f.write(b"\0" * pad)
            table = None
            if cmp:
                table = {}
                if prev is not None:
                    dns.name.Name(prev).to_wire(f, table)
            start = f.tell()
            rf, _ = outcome(lambda: n.to_wire(f, table, o, canon), lambda x: "")
            buf = f.getvalue()
            if rf.startswith("ok"):
                tbl = ";".join(f"{enc_labels([l.lower() for l in k_.labels])}@{v_}" for k_, v_ in (table or {}).items())
                rf = f"ok {hx(buf[pad:])} tbl={tbl}"
            ctx.corr(f"n.towiref {pad} {'none' if prev is None else enc_labels(prev)} {enc_labels(labels)} "
                     f"{'none' if origin is None else enc_labels(origin)} {int(canon)} {int(cmp)}", rf, c)
            ctx.count("wiref." + (rf.split(" ")[0] if rf.startswith("ok") else rf.split(" ")[1]) + (".cmp" if cmp else ""))
            if rf.startswith("FOREIGN"):
                ctx.fail("C01/to_wire-file/foreign-exception:" + rf.split(" ")[1], f"to_wire(file, {labels!r}, origin={origin!r}) -> {rf}", rep)
            if rf.split(" ")[0] != r.split(" ")[0] or (not rf.startswith("ok") and rf != r):
                ctx.fail("C01/to_wire-file/outcome-differs-from-bytes-path",
                         f"to_wire(file, compress={'table' if cmp else None}) of {labels!r} origin={origin!r}: {rf.split(' tbl=')[0][:80]} but the bytes path gives {r[:80]}", rep)
            elif rf.startswith("ok"):
                full = labels if n.is_absolute() else labels + (origin or [])
                got = ref_decode(buf, start)
                if sum(len(l) + 1 for l in full) > 255:
                    ctx.fail("C01/to_wire-file/closure", f"to_wire(file) wrote a name of {sum(len(l) + 1 for l in full)} octets: {labels!r} + {origin!r}", rep)
                elif got is None or [l.lower() for l in got] != [l.lower() for l in full]:
                    ctx.fail("C01/to_wire-file/value-differs", f"to_wire(file, compress={'table' if cmp else None}) of {labels!r} origin={origin!r} decodes to {got!r}", rep)
                elif not cmp and got != ([l.lower() for l in full] if canon else full):
                    ctx.fail("C01/to_wire-file/value-differs", f"to_wire(file) of {labels!r} origin={origin!r} canonicalize={canon} decodes to {got!r}", rep)
    elif k == "fromwire":
        buf = bytes.fromhex(c["wire"])
        off = c["off"]
        signal.signal(signal.SIGALRM, _alarm)
        signal.alarm(2)
        try:
            r, v = outcome(lambda: dns.name.from_wire(buf, off), lambda x: f"{enc_labels(x[0].labels)} {x[1]}")
        except Hang:
            ctx.fail("C01/from_wire/hang", f"from_wire did not terminate in 2 s on {buf.hex()} @ {off}", rep)
            return
        finally:
            signal.alarm(0)
        ctx.corr(f"n.fromwire {hx(buf)} {off}", r, c)
        ctx.count("fromwire." + (r.split(" ")[0] if r.startswith("ok") else r.split(" ")[1]))
        ref = ref_decode(buf, off) if off <= len(buf) else None
        if r.startswith("FOREIGN"):
            ctx.fail("C01/from_wire/foreign-exception:" + r.split(" ")[1], f"from_wire({buf.hex()}, {off}) -> {r}", rep)
        # the Parser route (what every record parser uses): same name, same octets consumed, and with an origin the
        # relativized name
        if off <= len(buf):
            def _via_parser(origin_=None):
                p_ = dns.wire.Parser(buf, off)
                n_ = p_.get_name(origin_)
                return n_, p_.current - off
            rp, vp = outcome(_via_parser, lambda x: f"{enc_labels(x[0].labels)} {x[1]}")
            if rp != r:
                ctx.fail("C01/wire.Parser.get_name/differs-from-from_wire", f"Parser({buf.hex()}, {off}).get_name() -> {rp} but from_wire -> {r}", rep)
            if v is not None and len(v[0].labels) > 1:
                k_ = 1 + (len(buf) + off) % (len(v[0].labels) - 1) if len(v[0].labels) > 2 else 1
                org = dns.name.Name(v[0].labels[k_:])
                ro, vo = outcome(lambda: _via_parser(org), lambda x: f"{enc_labels(x[0].labels)} {x[1]}")
                if ro != f"ok {enc_labels(v[0].labels[:k_])} {v[1]}":
                    ctx.fail("C01/wire.Parser.get_name/origin", f"Parser({buf.hex()}, {off}).get_name(origin={org}) -> {ro}", rep)
        elif v is not None:
            name, used = v
            if not wf(list(name.labels)) or not name.is_absolute():
                ctx.fail("C01/from_wire/closure", f"from_wire({buf.hex()}, {off}) produced an illegal name", rep)
            if ref is None or list(name.labels) != ref:
                ctx.fail("C01/from_wire/pointer-discipline",
                         f"from_wire({buf.hex()}, {off}) accepted what a strictly-backward-pointer decoder rejects or decodes differently", rep)
            if off + used > len(buf):
                ctx.fail("C01/from_wire/overread", f"consumed {used} beyond the buffer", rep)
    elif k == "compress":
        names = [[bytes.fromhex(x) for x in n] for n in c["names"]]
        pad = c["pad"]
        f = io.BytesIO()
        f.write(b"\0" * pad)
        table = {}
        offs = []
        for ls in names:
            offs.append(f.tell())
            dns.name.Name(ls).to_wire(f, table)
        buf = f.getvalue()
        decs = []
        for ls, o in zip(names, offs):
            r, v = outcome(lambda: dns.name.from_wire(buf, o), lambda x: f"{enc_labels(x[0].labels)}/{x[1]}")
            decs.append(r[3:] if r.startswith("ok ") else "err:" + r.split(" ")[1])
            ref = ref_decode(buf, o)
            if v is None or ref is None or list(v[0].labels) != ref:
                ctx.fail("C01/compress/undecodable", f"compressed name at {o} does not decode: {r}", rep)
            elif [l.lower() for l in ref] != [l.lower() for l in ls]:
                ctx.fail("C01/compress/value-differs", f"compressed {ls!r} decodes to {ref!r}", rep)
            elif ref != ls:
                # allowed only if some earlier occurrence differs in case only (reading of DESIGN §6)
                case_variant = any(
                    [l.lower() for l in prev[i:]] == [l.lower() for l in ls[j:]] and prev[i:] != ls[j:]
                    for prev in names[: names.index(ls) + 1] for i in range(len(prev)) for j in range(len(ls)))
                ctx.count("compress.case-variant")
                if not case_variant:
                    ctx.fail("C01/compress/value-differs", f"compressed {ls!r} decodes to {ref!r}", rep)
        for k_, v_ in table.items():
            if v_ > 0x3FFF:
                ctx.fail("C01/compress/table-offset-beyond-14-bits", f"compression table entry {enc_labels(k_.labels)} -> {v_}: a pointer cannot address it (pad {pad}, names {names!r})", rep)
                break
        tbl = ";".join(f"{enc_labels(k_.labels)}@{v_}" for k_, v_ in table.items())
        impl = f"ok {hx(buf[pad:])} tbl={tbl} dec={';'.join(decs)}"
        ctx.corr(f"n.towirec {pad} " + " ".join(enc_labels(n) for n in names), impl, c)
        ctx.count("compress.script")
        if pad + len(buf) > 0x3FFF:
            ctx.count("compress.beyond-3fff")
    elif k == "op":
        a = [bytes.fromhex(x) for x in c["a"]]
        b = [bytes.fromhex(x) for x in c["b"]]
        op = c["op"]
        A, B = dns.name.Name(a), dns.name.Name(b)
        fmt = lambda x: enc_labels(x.labels)
        if op == "concat":
            r, v = outcome(lambda: A.concatenate(B), fmt)
            line = f"n.concat {enc_labels(a)} {enc_labels(b)}"
            r2, _ = outcome(lambda: A + B, fmt)
            if r2 != r:
                ctx.fail("C01/op/add-differs-from-concatenate", f"{a!r} + {b!r} -> {r2} but concatenate -> {r}", rep)
        elif op == "relativize":
            r, v = outcome(lambda: A.relativize(B), fmt)
            line = f"n.relativize {enc_labels(a)} {enc_labels(b)}"
            r2, _ = outcome(lambda: A - B, fmt)
            r3, _ = outcome(lambda: A.choose_relativity(B, True), fmt)
            if r2 != r or (len(b) > 0 and r3 != r):
                ctx.fail("C01/op/sub-or-choose_relativity-differs-from-relativize", f"{a!r} - {b!r} -> {r2}, choose_relativity -> {r3}, relativize -> {r}", rep)
        elif op == "derelativize":
            r, v = outcome(lambda: A.derelativize(B), fmt)
            line = f"n.derelativize {enc_labels(a)} {enc_labels(b)}"
            r3, _ = outcome(lambda: A.choose_relativity(B, False), fmt)
            if len(b) > 0 and r3 != r:
                ctx.fail("C01/op/choose_relativity-differs-from-derelativize", f"{a!r}.choose_relativity({b!r}, False) -> {r3}, derelativize -> {r}", rep)
        elif op == "parent":
            r, v = outcome(lambda: A.parent(), fmt)
            line = f"n.parent {enc_labels(a)}"
        elif op == "split":
            d = c["d"]
            r, v = outcome(lambda: A.split(d), lambda x: f"{enc_labels(x[0].labels)} {enc_labels(x[1].labels)}")
            line = f"n.split {enc_labels(a)} {d}"
            if v is not None:
                if list(v[0].labels) + list(v[1].labels) != a:
                    ctx.fail("C01/split/value-differs", f"split({a!r},{d}) -> {r}", rep)
                v = None
        elif op in ("succ", "pred"):
            p = c["p"]
            fn = A.successor if op == "succ" else A.predecessor
            r, v = outcome(lambda: fn(B, bool(p)), fmt)
            line = f"n.{op} {enc_labels(a)} {enc_labels(b)} {p}"
        else:
            raise ValueError(op)
        ctx.corr(line, r, c)
        ctx.count(f"op.{op}." + (r.split(" ")[0] if r.startswith("ok") else r.split(" ")[1]))
        if r.startswith("FOREIGN"):
            ctx.fail(f"C01/{op}/foreign-exception:" + r.split(" ")[1], f"{op}({a!r},{b!r}) -> {r}", rep)
        if v is not None and not wf(list(v.labels)):
            ctx.fail(f"C01/{op}/closure", f"{op}({a!r},{b!r}) produced an illegal name {v.labels!r}", rep)
    else:
        raise ValueError(k)


def hexl(labels):
    return [l.hex() for l in labels]


def gen_text_soup(rng):
    atoms = ["a", "b", "A", ".", ".", "\\", "\\.", "\\\\", "\\0", "\\00", "\\000", "\\255", "\\256", "\\999", "\\25", "\\2a5",
             "@", "\\@", "$", "\"", "(", ")", ";", " ", "1", "9", "\\1", "\\046", "\\092", "x" * 62, "y" * 63, "z" * 64, "~", "\x7f", "\x00"]
    return "".join(rng.choice(atoms) for _ in range(rng.choice([0, 1, 1, 2, 3, 4, 6, 9])))


def gen_wire_soup(rng):
    m = rng.below(4)
    if m == 0:
        b = rng.bytes(rng.below(24))
        return b, rng.below(len(b) + 2)
    # structured: a few names plus pointers
    parts = bytearray(rng.bytes(rng.below(3)))
    starts = []
    for _ in range(rng.range(1, 5)):
        starts.append(len(parts))
        for _ in range(rng.below(4)):
            l = gen_label(rng, rng.choice([3, 5, 63]))
            parts.append(len(l))
            parts += l
        e = rng.below(6)
        if e <= 1:
            parts.append(0)
        elif e <= 4:
            tgt = rng.choice(starts + [len(parts), len(parts) + 1, 0, rng.below(len(parts) + 1)])
            parts += bytes([0xC0 | ((tgt >> 8) & 0x3F), tgt & 0xFF])
        else:
            parts.append(rng.choice([0x40, 0x80, 0xBF, 0xC0]))
    b = bytes(parts)
    if rng.chance(1, 4) and b:
        i = rng.below(len(b))
        b = b[:i] + bytes([rng.below(256)]) + b[i + 1:]
    if rng.chance(1, 6) and b:
        b = b[: rng.below(len(b))]
    off = rng.choice(starts + [rng.below(len(b) + 2)])
    return b, off


def gen_long_chain(rng):
    """names whose decoded length crosses 255 through pointer chains"""
    parts = bytearray()
    starts = []
    tgt = None
    for i in range(rng.range(3, 6)):
        starts.append(len(parts))
        for _ in range(rng.range(1, 2)):
            l = rng.bytes(rng.choice([30, 50, 62, 63]), LETTERS)
            parts.append(len(l))
            parts += l
        if tgt is None:
            parts.append(0)
        else:
            parts += bytes([0xC0 | (tgt >> 8), tgt & 0xFF])
        tgt = starts[-1]
    return bytes(parts), starts[-1]


def generate(ctx: Ctx, scale: int, rng):
    n = lambda q: max(1, q * scale)
    for _ in range(n(1500)):
        ls = gen_labels(rng)
        origin = None
        if rng.chance(1, 2):
            origin = gen_labels(rng, absolute=rng.chance(5, 6))
        c = {"kind": "text", "labels": hexl(ls), "origin": None if origin is None else hexl(origin), "rel": rng.below(2)}
        if rng.chance(1, 3):
            # relativize_to: a suffix of name(+origin), the origin with another case, or something unrelated
            full = ls if (ls and ls[-1] == b"") else ls + (origin or [])
            m = rng.below(3)
            rt = full[rng.below(len(full)):] if (m == 0 and full) else ([bytes(x).swapcase() for x in (origin or full)] if m == 1 else gen_labels(rng, absolute=True, budget=30))
            if rt and rt[-1] == b"" and wf(rt):
                c["rt"] = hexl(rt)
        ctx.case(("text", tuple(ls), None if origin is None else tuple(origin)), sample=c)
        eval_case(ctx, c)
    for _ in range(n(1500)):
        t = gen_text_soup(rng)
        origin = rng.choice([None, [b""], [b"ex", b""], [b"rel"]])
        c = {"kind": "fromtext", "text": t.encode("ascii").hex(), "origin": None if origin is None else hexl(origin)}
        ctx.case(("fromtext", t, str(origin)), sample=c)
        eval_case(ctx, c)
    for _ in range(n(800)):
        ls = gen_any_labels(rng)
        c = {"kind": "validate", "labels": hexl(ls)}
        ctx.case(("validate", tuple(ls)), sample=c)
        eval_case(ctx, c)
    for _ in range(n(1000)):
        ls = gen_labels(rng, absolute=True)
        c = {"kind": "wire", "labels": hexl(ls), "pre": rng.bytes(rng.below(5)).hex(), "post": rng.bytes(rng.below(4)).hex()}
        ctx.case(("wire", tuple(ls)), sample=c)
        eval_case(ctx, c)
    for _ in range(n(1200)):
        ls = gen_labels(rng, absolute=rng.chance(1, 4), budget=rng.choice([60, 200, 255]))
        origin = None if rng.chance(1, 8) else gen_labels(rng, absolute=rng.chance(7, 8), budget=rng.choice([20, 60, 255]))
        if origin is not None and rng.chance(1, 2):
            origin = [bytes(x).swapcase() if rng.chance(1, 2) else bytes(x).upper() for x in origin]
        c = {"kind": "wireo", "labels": hexl(ls), "origin": None if origin is None else hexl(origin), "canon": rng.below(2)}
        if rng.chance(2, 3):
            full = ls if (ls and ls[-1] == b"") else ls + (origin or [])
            m = rng.below(3)
            if m == 0 and len(full) > 1:
                prev = full[rng.below(len(full) - 1):]
            elif m == 1:
                prev = [bytes(x).swapcase() for x in full]
            else:
                prev = gen_labels(rng, absolute=True, budget=40)
            if wf(prev) and prev and prev[-1] == b"":
                c["prev"] = hexl(prev)
            c["pad"] = rng.choice([0, 0, 12, 0x3FF0, 0x3FFE, 0x3FFF, 0x4000]) if rng.chance(1, 4) else rng.below(30)
        ctx.case(("wireo", tuple(ls), None if origin is None else tuple(origin), c["canon"]), sample=c)
        eval_case(ctx, c)
    for _ in range(n(2500)):
        if rng.chance(1, 10):
            b, off = gen_long_chain(rng)
        else:
            b, off = gen_wire_soup(rng)
        c = {"kind": "fromwire", "wire": b.hex(), "off": off}
        ctx.case(("fromwire", b, off), sample=c)
        eval_case(ctx, c)
    for _ in range(n(300)):
        base = [gen_labels(rng, absolute=True, budget=60) for _ in range(3)]
        names = []
        for _ in range(rng.range(2, 12)):
            b = list(rng.choice(base))
            m = rng.below(5)
            if m == 0 and len(b) > 1:
                b = b[rng.below(len(b) - 1):]
            elif m == 1:
                b = [gen_label(rng, 5)] + b
            elif m == 2:
                b = [bytes(x).swapcase() if rng.chance(1, 2) else x for x in b]
            elif m == 3 and len(b) > 2:
                # two names whose labels join to the same octets around a separator: a dot (or NUL, or nothing) moved
                # across a label boundary — distinct names that a careless equality / table lookup would confuse
                i = rng.below(len(b) - 2)
                sep = rng.choice([b".", b".", b"\x00", b""])
                x, y = bytes(b[i]), bytes(b[i + 1])
                b1 = b[:i] + [x + sep, y] + b[i + 2:]
                b2 = b[:i] + [x, sep + y] + b[i + 2:]
                if sep == b"" and len(y) > 1:
                    b1 = b[:i] + [x + y[:1], y[1:]] + b[i + 2:]
                    b2 = b[:i] + [x, y] + b[i + 2:]
                for bb in (b1, b2):
                    if wf(bb) and all(len(l_) > 0 for l_ in bb[:-1]):
                        names.append(bb)
                continue
            if wf(b):
                names.append(b)
        pad = rng.choice([0, 0, 12, 0x3FF0, 0x3FFA, 0x3FFD, 0x3FFE, 0x3FFF, 0x4000, 0x4001]) if rng.chance(1, 3) else rng.below(40)
        c = {"kind": "compress", "names": [hexl(x) for x in names], "pad": pad}
        ctx.case(("compress", str(names), pad), sample=c if pad < 100 else None)
        eval_case(ctx, c)
    ops = ["concat", "relativize", "derelativize", "parent", "split", "succ", "pred"]
    for _ in range(n(2500)):
        op = rng.choice(ops)
        a = gen_labels(rng)
        b = gen_labels(rng, budget=rng.choice([20, 255]))
        if op in ("relativize", "succ", "pred", "split") and rng.chance(3, 4):
            # make a a subdomain of b
            b = gen_labels(rng, absolute=True, budget=rng.choice([10, 40, 200]))
            a0 = gen_labels(rng, absolute=False, budget=255 - sum(len(x) + 1 for x in b))
            a = a0 + b if rng.chance(3, 4) else a0
            if rng.chance(1, 5):
                a = [bytes(x).swapcase() for x in a]
            if not wf(a):
                continue
        c = {"kind": "op", "op": op, "a": hexl(a), "b": hexl(b), "d": rng.below(len(a) + 2), "p": rng.below(2)}
        ctx.case(("op", op, tuple(a), tuple(b), c["d"], c["p"]), sample=c)
        eval_case(ctx, c)


def run(ctx: Ctx):
    # corpus first
    import glob, json, os
    from harness.core import VERIF
    for p in sorted(glob.glob(os.path.join(VERIF, "corpus", "C01", "*.json"))):
        c = json.load(open(p))
        ctx.case(("corpus", p), sample=None)
        eval_case(ctx, c)
        ctx.count("corpus")
    generate(ctx, 5 if ctx.tier == "quick" else 40, ctx.rng)


def search(ctx: Ctx):
    """failing-input search on the implementation: neighbourhood of the disagreements, then a fresh budget"""
    for m in ctx.mismatches[:50]:
        if m.case is not None:
            eval_case(ctx, m.case)
    generate(ctx, 10 if ctx.tier == "quick" else 60, ctx.rng.fork(7))


def replay(ctx: Ctx, obj: dict):
    eval_case(ctx, obj["case"])
    return [f.what for f in ctx.failures]

LEVEL = {
    "text": "Lean 4 theorems (31, lean/Props/C01.lean) over an executable model of dns/name.py and the name part of dns/wirebase.py: text round trip for every legal name over all 256 octet values (with and without origin: the result is the name, or validate(name ++ origin), i.e. it raises exactly when the limits are exceeded); uncompressed wire round trip at any offset inside any surrounding bytes; the decoder is total (accepted by Lean's termination checker on the measure (biggest_pointer, bytes left)) and every successful decode is a derivation of a relational description whose pointer rule demands target < bound, so it only follows pointers to strictly earlier offsets; whatever is decoded is well formed, absolute and inside the buffer; the bytes-returning and the file-writing path of to_wire with an origin (with and without a compression table) write exactly name + origin and raise NameTooLong exactly beyond 255 octets (toWireO_roundtrip, toWireF_plain_roundtrip, toWireF_closed, toWireF_compress_sound); compressed encoding against *any* sound table at *any* offset (also beyond 0x3FFF) only appends, keeps every table entry decodable to its key, and decodes back to the name up to ASCII case (byte-identical under an explicit case-consistency hypothesis); the constructor accepts exactly the well-formed label lists and every name-producing operation (concatenate, relativize, derelativize, parent, split, successor, predecessor) returns a well-formed name or raises. The model is tied to the code by a differential correspondence check over every modelled function (compiled Lean driver vs dnspython in-process) and by constants (escaped set, 63/255/64/192/0x3FFF/0xC000) regenerated from the working tree, fed to the theorems and pinned to the property's numbers by limits_are_rfc1035. omit_final_dot and styled text are modelled (fromText_toTextOmit: the dot-less text of an absolute name read with the root origin is the name; toStyledText_spec). Direct oracles (outside the model) cover Tokenizer.get_name with origin/relativize/relativize_to, str()/copy/pickle/__setstate__, canonicalize, the +/-/choose_relativity aliases, str/mixed/tuple label inputs of the constructor (UTF-8 octet limits), bytes-vs-str input of from_text and agreement of from_unicode with from_text where IDNA is not involved.",
    "note": "Trusted: Lean kernel + propext/Classical.choice/Quot.sound; the statements in lean/Props/C01.lean; the correspondence harness and its generators (differential testing bounds the tie); harness/extract.py. IDNA/unicode paths and to_unicode are outside; omit_final_dot, styled text, pickling and the tokenizer route are oracle-only (the tokenizer composition — a printed name is one identifier token — is proved in C09).",
    "technique": "Lean 4 proof (induction over label lists / escape automaton, well-founded recursion, relational decoder spec, compression-table invariant) + model-vs-implementation correspondence",
    "design_ref": "DESIGN.md §7 C01, §13.3",
}

"""Value generators of C05: structured *wire forms* of every implemented record type (the values the library
accepts from wire), boundary pools aimed at the decision points of the text codecs, and token soups for the
text side.  Everything is drawn from the caller's Rng, so a case replays from (seed, index).

Kept in a separate module so the property file stays readable; owned by C05.
"""
import struct

OCTET_POOL = [0x00, 0x01, 0x09, 0x0A, 0x0D, 0x1F, 0x20, 0x21, 0x22, 0x24, 0x28, 0x29, 0x2C, 0x2E, 0x30, 0x31, 0x39, 0x3B,
              0x3D, 0x40, 0x41, 0x5A, 0x5B, 0x5C, 0x60, 0x61, 0x7A, 0x7B, 0x7E, 0x7F, 0x80, 0xA0, 0xC3, 0xC8, 0xE2, 0xFE,
              0xFF]
EDGE = [0x0A, 0x0A, 0x0D, 0x09, 0x20, 0x00, 0x7F, 0x0B, 0x0C, 0x1F, 0x85, 0xA0]
LETTERS = [0x61, 0x62, 0x41, 0x42, 0x63, 0x30, 0x2D]
BLOB_LENS = [0, 1, 2, 3, 4, 15, 16, 17, 23, 24, 25, 31, 32, 33, 47, 48, 49, 63, 64, 65, 96, 97, 130]
U16 = [0, 1, 2, 9, 10, 99, 100, 255, 256, 257, 1000, 32767, 32768, 65534, 65535]
U32 = [0, 1, 59, 60, 3600, 86400, 604800, 2 ** 31 - 1, 2 ** 31, 2 ** 32 - 2, 2 ** 32 - 1, 1700000000, 20240101]
U8 = [0, 1, 2, 3, 4, 5, 7, 8, 9, 10, 13, 15, 16, 99, 100, 127, 128, 200, 252, 253, 254, 255]


class G:
    """generation context: rng + the origin under which names are (often) placed"""

    def __init__(self, rng, origin):
        self.r = rng
        self.origin = origin  # list of label bytes, absolute

    # --- scalars
    def u8(self):
        return self.r.choice(U8) if self.r.chance(2, 3) else self.r.below(256)

    def u16(self):
        return self.r.choice(U16) if self.r.chance(2, 3) else self.r.below(65536)

    def u32(self):
        return self.r.choice(U32) if self.r.chance(2, 3) else self.r.below(2 ** 32)

    def p8(self):
        return struct.pack("!B", self.u8())

    def p16(self):
        return struct.pack("!H", self.u16())

    def p32(self):
        return struct.pack("!I", self.u32())

    # --- octet strings
    def edged(self, s):
        """a control / blank octet placed at the end, the start or inside an otherwise plain value (validators that
        anchor with `$`, strip, or split on whitespace; printers that emit such an octet raw)"""
        s = bytearray(s)
        e = self.r.choice(EDGE)
        k = self.r.below(4)
        if k <= 1 or not s:
            return bytes(s + bytes([e]))
        if k == 2:
            return bytes(bytes([e]) + s)
        i = self.r.below(len(s))
        return bytes(s[:i] + bytes([e]) + s[i:])

    def octets(self, n):
        m = self.r.below(6)
        if m == 5 and n >= 1:
            return self.edged(self.r.bytes(n - 1, LETTERS))
        if m == 0 or m == 5:
            return self.r.bytes(n, LETTERS)
        if m == 1:
            return self.r.bytes(n)
        if m == 2:  # one special octet in otherwise plain text
            b = bytearray(self.r.bytes(n, LETTERS))
            if n:
                b[self.r.below(n)] = self.r.choice(OCTET_POOL) if self.r.chance(2, 3) else self.r.below(256)
            return bytes(b)
        return self.r.bytes(n, OCTET_POOL)

    def cstr(self, minlen=0):
        n = self.r.choice([0, 1, 1, 2, 3, 5, 8, 13, 40, 85, 127, 128, 254, 255])
        n = max(n, minlen)
        s = self.octets(n)
        return bytes([len(s)]) + s

    def blob(self, minlen=0):
        n = max(minlen, self.r.choice(BLOB_LENS))
        return self.octets(n) if self.r.chance(1, 3) else self.r.bytes(n)

    # --- names
    def label(self, maxlen=63):
        n = min(self.r.choice([1, 1, 1, 2, 2, 3, 5, 8, 31, 62, 63]), maxlen)
        m = self.r.below(5)
        if m == 4:
            return self.edged(self.r.bytes(n - 1, LETTERS))
        if m == 0:
            return self.r.bytes(n, LETTERS)
        if m == 1:
            return self.r.bytes(n)
        return self.r.bytes(n, OCTET_POOL)

    def rel_labels(self, budget):
        labels = []
        k = self.r.choice([0, 1, 1, 1, 2, 2, 3, 4])
        if self.r.chance(1, 12):
            k = 10  # push to the limit
        for _ in range(k):
            if budget < 2:
                break
            l = self.label(min(63, budget - 1))
            labels.append(l)
            budget -= len(l) + 1
        return labels

    def name_labels(self):
        """an absolute name; about half of them below the origin, some equal to it"""
        olen = sum(len(l) + 1 for l in self.origin)
        m = self.r.below(8)
        if m == 0:
            return list(self.origin)
        if m <= 4:
            return self.rel_labels(255 - olen) + list(self.origin)
        if m == 5:
            return [b""]
        if m == 6 and len(self.origin) > 1:
            # sibling of the origin (same parent, different label), so never relativized
            return self.rel_labels(100) + [bytes(self.origin[0]) + b"x"] + list(self.origin[1:])
        return self.rel_labels(254) + [b""]

    def name(self):
        return b"".join(bytes([len(l)]) + l for l in self.name_labels())

    # --- addresses
    def ip4(self):
        m = self.r.below(3)
        if m == 0:
            return self.r.bytes(4)
        return self.r.bytes(4, [0, 1, 9, 10, 99, 100, 127, 199, 200, 249, 250, 255])

    def ip6(self):
        m = self.r.below(6)
        if m == 0:
            return self.r.bytes(16)
        pool = [0, 0, 0, 1, 0xFFFF, 0x0A, 0xABC, 0x1000, 0x00FF, 0xFF00, 0xDB8, 0x2001]
        groups = [self.r.choice(pool) for _ in range(8)]
        if m == 1:  # embedded IPv4 shapes
            groups[0:5] = [0] * 5
            groups[5] = self.r.choice([0, 0xFFFF, 0xFFFF, 1, 0xFFFE])
        elif m == 2:  # two zero runs of chosen lengths
            groups = [self.r.choice([1, 0xFFFF, 0xA])] * 8
            a = self.r.below(8)
            la = self.r.range(1, 4)
            b = self.r.below(8)
            lb = self.r.range(1, 4)
            for i in range(a, min(8, a + la)):
                groups[i] = 0
            for i in range(b, min(8, b + lb)):
                groups[i] = 0
        elif m == 3:
            groups = [0] * 8
            for _ in range(self.r.below(3)):
                groups[self.r.below(8)] = self.r.choice(pool)
        return b"".join(struct.pack("!H", x) for x in groups)

    # --- type bitmaps (NSEC/NSEC3/CSYNC)
    def bitmap(self):
        if self.r.chance(1, 10):
            return b""
        out = b""
        wins = sorted(set(self.r.choice([0, 0, 0, 1, 2, 127, 128, 255]) for _ in range(self.r.range(1, 3))))
        for w in wins:
            n = self.r.choice([1, 1, 2, 4, 7, 8, 9, 13, 32])
            bm = bytearray(n)
            for _ in range(self.r.range(1, 6)):
                t = self.r.choice([1, 2, 5, 6, 15, 16, 28, 33, 43, 46, 47, 48, 50, 51, 64, 65, 99, 103, 108, 255, 250, 7, 30, 100, 38,
                                   self.r.below(256)]) % (8 * n)
                bm[t // 8] |= 0x80 >> (t % 8)
            if w == 0 and not self.r.chance(1, 12):
                bm[0] &= 0x7F  # type 0 is not representable in text
            deg = self.r.below(14)
            if deg == 0:
                bm = bytearray(n)  # all-zero window (degenerate)
            elif deg == 1 and n < 32:
                bm = bm + b"\0"  # trailing zero octet (degenerate)
            elif bm[-1] == 0:
                bm[-1] = self.r.choice([1, 0x80, 0x10])
                if w == 0 and len(bm) == 1:
                    bm[-1] = 0x40
            out += bytes([w, len(bm)]) + bytes(bm)
        return out


def _len16(b):
    return struct.pack("!H", len(b)) + b


def w_txt(g):
    return b"".join(g.cstr() for _ in range(g.r.choice([1, 1, 2, 3, 5])))


def w_ds(g, allow0=False):
    dt = g.r.choice([1, 2, 3, 4, 1, 2, 5, 6, 100, 255] + ([0, 0] if allow0 else []))
    n = {1: 20, 2: 32, 3: 32, 4: 48, 0: 1}.get(dt)
    if n is None:
        n = g.r.choice([0, 1, 20, 33])
    return g.p16() + g.p8() + bytes([dt]) + g.r.bytes(n)


def w_zonemd(g):
    alg = g.r.choice([1, 2, 1, 2, 3, 200, 255])
    n = {1: 48, 2: 64}.get(alg)
    if n is None:
        n = g.r.choice([0, 1, 12, 48])
    return g.p32() + bytes([g.r.choice([1, 1, 2, 255])]) + bytes([alg]) + g.r.bytes(n)


def w_rrsig(g):
    tc = g.r.choice([1, 2, 6, 15, 16, 28, 46, 47, 48, 65, 99, 0, 3, 103, 251, 255, 256, 1000, 65280, 65535, 32769, 23])
    return struct.pack("!HBBIIIH", tc, g.u8(), g.u8(), g.u32(), g.u32(), g.u32(), g.u16()) + g.name() + g.blob()


def w_gpos(g):
    def f():
        m = g.r.below(6)
        sign = g.r.choice(["", "", "-", "+"])
        if m == 0:
            s = str(g.r.below(90))
        elif m == 1:
            s = f"{g.r.below(90)}.{g.r.below(1000)}"
        elif m == 2:
            s = f".{g.r.below(100)}"
        elif m == 3:
            s = f"{g.r.below(90)}."
        elif m == 4:
            s = "0" * g.r.range(1, 4) + str(g.r.below(80))
        else:
            s = f"{g.r.below(90)}.{'0' * g.r.below(4)}{g.r.below(10)}"
        s = (sign + s).encode()
        if g.r.chance(1, 5):
            s = g.edged(s)   # not a float string any more: must be rejected, never printed raw
        return bytes([len(s)]) + s

    return f() + f() + f()


def w_gateway(g, t):
    if t == 0:
        return b""
    if t == 1:
        return g.ip4()
    if t == 2:
        return g.ip6()
    return g.name()


def w_ipseckey(g):
    # grid gateway type 0..3 x algorithm {0 (no key, RFC 4025 2.4), 1, 2, other} x key empty / non-empty: the key may be
    # omitted in text only when the algorithm is 0, whatever the gateway type
    t = g.r.choice([0, 1, 2, 3])
    alg = g.r.choice([0, 0, 1, 2, g.u8()])
    key = b"" if g.r.chance(1, 2) else g.blob(1)
    return g.p8() + bytes([t, alg]) + w_gateway(g, t) + key


def w_amtrelay(g):
    t = g.r.choice([0, 1, 2, 3])
    return g.p8() + bytes([t | (0x80 if g.r.chance(1, 2) else 0)]) + w_gateway(g, t)


def w_hip(g):
    hit = g.r.bytes(g.r.choice([0, 1, 16, 16, 20, 255]))
    pk = g.r.bytes(g.r.choice([0, 1, 2, 3, 32, 33, 100]))
    return struct.pack("!BBH", len(hit), g.u8(), len(pk)) + hit + pk + b"".join(g.name() for _ in range(g.r.choice([0, 0, 1, 2, 3])))


def w_wks(g):
    n = g.r.choice([0, 1, 1, 2, 3, 10, 11, 32])
    bm = bytearray(g.r.bytes(n, [0, 0, 0, 1, 0x80, 0x40, 0xFF, 0x10]))
    if n and g.r.chance(5, 6) and bm[-1] == 0:
        bm[-1] = g.r.choice([1, 0x80, 0x24])
    return g.ip4() + bytes([g.r.choice([6, 17, 6, 17, 0, 1, 255, 99])]) + bytes(bm)


def w_apl(g):
    out = b""
    for _ in range(g.r.choice([0, 1, 1, 2, 3])):
        fam = g.r.choice([1, 1, 1, 2, 2, 2, 0, 3, 65535])
        neg = 0x80 if g.r.chance(1, 3) else 0
        if fam == 1:
            a = g.ip4()
            if g.r.chance(1, 2):
                a = a[: g.r.below(5)]
            pfx = g.r.choice([0, 1, 8, 24, 31, 32])
        elif fam == 2:
            a = g.ip6()
            if g.r.chance(1, 2):
                a = a[: g.r.below(17)]
            pfx = g.r.choice([0, 1, 64, 127, 128])
        else:
            a = g.r.bytes(g.r.choice([0, 1, 2, 5]))
            pfx = g.u8()
        if g.r.chance(3, 4):
            a = a.rstrip(b"\0")
        out += struct.pack("!HBB", fam, pfx, len(a) | neg) + a
    return out


def w_loc(g):
    def sz():
        return (g.r.below(10) << 4) | g.r.below(10)

    def coord(lim):
        m = g.r.below(5)
        if m == 0:
            v = g.r.below(2 * lim * 3600000 + 1) - lim * 3600000
        elif m == 1:
            v = g.r.choice([0, 1, -1, 999, 1000, 59999, 60000, 3599999, 3600000, lim * 3600000, -lim * 3600000, lim * 3600000 - 1])
        else:
            d, mi, s, ms = g.r.below(lim), g.r.below(60), g.r.below(60), g.r.choice([0, 0, 1, 10, 100, 5, 50, 500, 999, g.r.below(1000)])
            v = (d * 3600000 + mi * 60000 + s * 1000 + ms) * g.r.choice([1, -1])
        return 0x80000000 + v

    alt = g.r.choice([0, 1, 9999999, 10000000, 10000001, 10000100, 2 ** 32 - 1, 2 ** 31, g.r.below(2 ** 32), 10000000 + g.r.below(1000000),
                      10000000 - g.r.below(1000000)])
    k = g.r.below(6)
    if k <= 1:
        s, h, v = 0x12, 0x16, 0x13  # the defaults: 1m 10000m 10m
    elif k == 2:
        # exactly one of the three differs from its default (to_text omits the three only when all are defaults)
        s, h, v = 0x12, 0x16, 0x13
        which = g.r.below(3)
        s, h, v = (sz() if which == 0 else s), (sz() if which == 1 else h), (sz() if which == 2 else v)
    else:
        s, h, v = sz(), sz(), sz()
    return struct.pack("!BBBBIII", 0, s, h, v, coord(90), coord(180), alt)


def w_svcb(g):
    prio = g.r.choice([0, 1, 1, 1, 2, 16, 65535])
    out = struct.pack("!H", prio) + g.name()
    if prio == 0:
        return out
    keys = sorted(set(g.r.choice([0, 1, 1, 2, 3, 4, 5, 6, 7, 8, 9, 10, 11, 100, 65280, 65535]) for _ in range(g.r.choice([0, 1, 2, 3, 5]))))
    if 2 in keys and 1 not in keys:
        keys = sorted(keys + [1])
    params = {}
    for k in keys:
        if k == 0:
            continue
        if k in (1, 10):
            ids = [g.octets(g.r.choice([1, 2, 2, 3, 8, 20])) for _ in range(g.r.choice([1, 1, 2, 3]))]
            v = b"".join(bytes([len(i)]) + i for i in ids)
            if k == 10 and g.r.chance(1, 6):
                v = b""
        elif k in (2, 8):
            v = b""
        elif k == 3:
            v = g.p16()
        elif k == 4:
            v = b"".join(g.ip4() for _ in range(g.r.choice([1, 1, 2, 3])))
        elif k == 5:
            v = g.blob()
        elif k == 6:
            v = b"".join(g.ip6() for _ in range(g.r.choice([1, 1, 2])))
        else:
            v = g.octets(g.r.choice([0, 1, 2, 5, 17]))
        params[k] = v
    if 0 in keys:
        others = [k for k in params]
        if others:
            m = sorted(set(g.r.choice(others) for _ in range(g.r.range(1, 2))))
            params[0] = b"".join(struct.pack("!H", k) for k in m)
    for k in sorted(params):
        out += struct.pack("!HH", k, len(params[k])) + params[k]
    return out


def w_opt(g):
    out = b""
    for _ in range(g.r.choice([0, 1, 2])):
        code = g.r.choice([3, 8, 10, 15, 65001, 12])
        if code == 8:
            fam = g.r.choice([1, 2])
            src = g.r.choice([0, 8, 24, 32]) if fam == 1 else g.r.choice([0, 48, 56, 128])
            nb = (src + 7) // 8
            addr = bytearray(g.r.bytes(nb))
            if nb and src % 8:
                addr[-1] &= (0xFF << (8 - src % 8)) & 0xFF
            d = struct.pack("!HBB", fam, src, 0) + bytes(addr)
        elif code == 10:
            d = g.r.bytes(g.r.choice([8, 16, 24, 40]))
        elif code == 15:
            d = struct.pack("!H", g.r.choice([0, 1, 18, 24, 4000])) + g.r.bytes(g.r.below(6), LETTERS)
        else:
            d = g.octets(g.r.below(9))
        out += struct.pack("!HH", code, len(d)) + d
    return out


def w_tsig(g):
    mac = g.blob()
    other = g.r.choice([b"", b"", g.r.bytes(6), g.blob()])
    err = g.r.choice([0, 0, 16, 17, 18, 22, 23, 1, 11, 12, 4095, g.r.below(4096)])
    return (g.name() + struct.pack("!HIH", g.r.choice([0, 0, 1, 0xFFFF]), g.u32(), g.u16()) + _len16(mac)
            + struct.pack("!HH", g.u16(), err) + _len16(other))


def w_tkey(g):
    return g.name() + g.p32() + g.p32() + g.p16() + g.p16() + _len16(g.blob()) + _len16(g.r.choice([b"", b"", g.blob()]))


def w_caa(g):
    m = g.r.below(8)
    if m == 0:
        tag = b""
    elif m == 1:
        tag = g.octets(g.r.choice([1, 2, 5]))
    elif m == 2:
        tag = g.edged(g.r.bytes(g.r.choice([1, 5, 9]), [0x61, 0x7A, 0x41, 0x5A, 0x30, 0x39, 0x69, 0x73]))
    else:
        tag = g.r.bytes(g.r.choice([1, 5, 5, 9, 15, 255]), [0x61, 0x7A, 0x41, 0x5A, 0x30, 0x39, 0x69, 0x73])
    return g.p8() + bytes([len(tag)]) + tag + g.r.choice([b"", g.octets(g.r.choice([0, 1, 5, 20, 300]))])


def w_uri(g):
    m = g.r.below(4)
    if m == 0:
        t = b"https://example.com/" + g.r.bytes(g.r.below(8), LETTERS)
    else:
        t = g.octets(g.r.choice([1, 2, 5, 20, 300]))
    return g.p16() + g.p16() + t


def w_nsec3(g):
    nxt = g.r.bytes(g.r.choice([0, 1, 2, 3, 4, 5, 6, 19, 20, 20, 20, 21, 32, 255]))
    return g.p8() + g.p8() + g.p16() + g.cstr() + bytes([len(nxt)]) + nxt + g.bitmap()


def w_cert(g):
    ct = g.r.choice([1, 2, 3, 4, 5, 6, 7, 8, 253, 254, 0, 9, 252, 255, 65535, 65280])
    alg = g.r.choice([0, 1, 2, 3, 5, 8, 10, 13, 15, 16, 17, 9, 11, 252, 253, 254, 255, 100])
    return struct.pack("!HHB", ct, g.u16(), alg) + g.blob()


def w_dnskey(g):
    return g.p16() + g.p8() + g.p8() + g.blob()


def w_key(g):
    fl = g.r.choice([0, 256, 257, 0xC000, 0xC100, 0x8000, 0x4000, 0xFFFF, 0xC000 | g.r.below(0x4000), g.r.below(65536)])
    b = g.blob()
    if (fl & 0xC000) == 0xC000 and g.r.chance(2, 3):
        b = b""
    return struct.pack("!H", fl) + g.p8() + g.p8() + b


# (class, type code, name, wire generator)
TYPES = [
    (1, 1, "A", lambda g: g.ip4()),
    (1, 2, "NS", lambda g: g.name()),
    (1, 5, "CNAME", lambda g: g.name()),
    (1, 6, "SOA", lambda g: g.name() + g.name() + g.p32() + g.p32() + g.p32() + g.p32() + g.p32()),
    (1, 11, "WKS", w_wks),
    (1, 12, "PTR", lambda g: g.name()),
    (1, 13, "HINFO", lambda g: g.cstr() + g.cstr()),
    (1, 15, "MX", lambda g: g.p16() + g.name()),
    (1, 16, "TXT", w_txt),
    (1, 17, "RP", lambda g: g.name() + g.name()),
    (1, 18, "AFSDB", lambda g: g.p16() + g.name()),
    (1, 19, "X25", lambda g: g.cstr()),
    (1, 20, "ISDN", lambda g: g.cstr() + (g.cstr() if g.r.chance(1, 2) else b"")),
    (1, 21, "RT", lambda g: g.p16() + g.name()),
    (1, 22, "NSAP", lambda g: g.blob()),
    (1, 23, "NSAP-PTR", lambda g: g.name()),
    (1, 24, "SIG", w_rrsig),
    (1, 25, "KEY", w_key),
    (1, 26, "PX", lambda g: g.p16() + g.name() + g.name()),
    (1, 27, "GPOS", w_gpos),
    (1, 28, "AAAA", lambda g: g.ip6()),
    (1, 29, "LOC", w_loc),
    (1, 33, "SRV", lambda g: g.p16() + g.p16() + g.p16() + g.name()),
    (1, 35, "NAPTR", lambda g: g.p16() + g.p16() + g.cstr() + g.cstr() + g.cstr() + g.name()),
    (1, 36, "KX", lambda g: g.p16() + g.name()),
    (1, 37, "CERT", w_cert),
    (1, 39, "DNAME", lambda g: g.name()),
    (1, 41, "OPT", w_opt),
    (1, 42, "APL", w_apl),
    (1, 43, "DS", w_ds),
    (1, 44, "SSHFP", lambda g: g.p8() + g.p8() + g.blob()),
    (1, 45, "IPSECKEY", w_ipseckey),
    (1, 46, "RRSIG", w_rrsig),
    (1, 47, "NSEC", lambda g: g.name() + g.bitmap()),
    (1, 48, "DNSKEY", w_dnskey),
    (1, 49, "DHCID", lambda g: g.blob()),
    (1, 50, "NSEC3", w_nsec3),
    (1, 51, "NSEC3PARAM", lambda g: g.p8() + g.p8() + g.p16() + g.cstr()),
    (1, 52, "TLSA", lambda g: g.p8() + g.p8() + g.p8() + g.blob()),
    (1, 53, "SMIMEA", lambda g: g.p8() + g.p8() + g.p8() + g.blob()),
    (1, 55, "HIP", w_hip),
    (1, 56, "NINFO", w_txt),
    (1, 59, "CDS", lambda g: w_ds(g, True)),
    (1, 60, "CDNSKEY", w_dnskey),
    (1, 61, "OPENPGPKEY", lambda g: g.blob()),
    (1, 62, "CSYNC", lambda g: g.p32() + g.p16() + g.bitmap()),
    (1, 63, "ZONEMD", w_zonemd),
    (1, 64, "SVCB", w_svcb),
    (1, 65, "HTTPS", w_svcb),
    (1, 66, "DSYNC", lambda g: struct.pack("!H", g.r.choice([43, 48, 59, 60, 6, 0, 1, 65535, 1234])) + bytes([g.r.choice([1, 1, 0, 2, 255])]) + g.p16() + g.name()),
    (1, 67, "HHIT", lambda g: g.blob()),
    (1, 68, "BRID", lambda g: g.blob()),
    (1, 99, "SPF", w_txt),
    (1, 104, "NID", lambda g: g.p16() + g.r.bytes(8)),
    (1, 105, "L32", lambda g: g.p16() + g.ip4()),
    (1, 106, "L64", lambda g: g.p16() + g.r.bytes(8, [0, 0, 1, 0xFF, 0xAB, 0x0A])),
    (1, 107, "LP", lambda g: g.p16() + g.name()),
    (1, 108, "EUI48", lambda g: g.r.bytes(6)),
    (1, 109, "EUI64", lambda g: g.r.bytes(8)),
    (255, 249, "TKEY", w_tkey),
    (255, 250, "TSIG", w_tsig),
    (1, 256, "URI", w_uri),
    (1, 257, "CAA", w_caa),
    (1, 258, "AVC", w_txt),
    (1, 260, "AMTRELAY", w_amtrelay),
    (1, 261, "RESINFO", w_txt),
    (1, 262, "WALLET", w_txt),
    (1, 32769, "DLV", w_ds),
    (3, 1, "CH-A", lambda g: g.name() + g.p16()),
]
BY_NAME = {t[2]: t for t in TYPES}

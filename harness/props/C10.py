"""C10 — zone write transactions match a simple reference model and are all-or-nothing.

Correspondence: dns.zone.Zone / dns.versioned.Zone / dns.btreezone.Zone transactions (working tree) vs
lean/Model/ZoneTxn.lean through the driver (`c10.run`), a whole history per line; dns.serial vs Model/Serial.lean;
`_validate_name` vs `validateName`; the Lean reference model (`c10.spec`) vs the Python reference used as oracle.
Oracle: an independent dict-and-set reference (`Ref`) run next to the implementation: committed content, every
result / error family, reads inside the transaction, ended / read-only refusals, and — for every operation index —
the zone after leaving the `with` block through an exception (raise in the body, a raising check hook registered
through the public API) or an explicit rollback.
"""
import glob
import json
import os
import signal
import time

import dns.btreezone
import dns.exception
import dns.name
import dns.rdata
import dns.rdataclass
import dns.rdataset
import dns.rdatatype
import dns.rrset
import dns.serial
import dns.transaction
import dns.versioned
import dns.zone

from harness.core import VERIF, Ctx, enc_labels

try:
    from harness.core import Stalled
except ImportError:      # older core
    class Stalled(BaseException):
        pass

RULE = (
    "histories are generated from one SplitMix64 state: zone class (plain / versioned / B-tree) x relativize on/off x "
    "writer/reader; an initial zone of 0..8 rdatasets over 6 owner names (with case variants, relative or absolute "
    "spelling, out-of-zone and over-long names) x 8 types (A NS CNAME SOA NSEC RRSIG(A|CNAME|NSEC) TXT DNAME) x 4 value ids "
    "x boundary TTLs {0,1,60,300,3600,2^31-1,2^32-1}; 0..25 operations (add/replace/delete/delete_exact in every argument "
    "form, update_serial with increments and absolute values around 0, 2^31, 2^32, get/name_exists/get_node/changed/iterate, "
    "empty rdatasets and RRsets as arguments (1 in 40), owners as text, types as mnemonic / enum member / bool, GenericRdata twins, "
    "default and keyword argument forms, the rdataset object just read handed back as argument, replacement writers, a second "
    "transaction on the committed zone, zones of 260-520 extra owners (1 in 150), "
    "mid-history commit/rollback, hook vetoes), deletions aimed at existing content with probability 0.7; every history "
    "is also aborted after every operation index (raise in the body / raising check hook / explicit rollback, rotating); "
    "a malformed stream mutates argument lists (surplus, missing, wrong kind, wrong class, huge TTL, bad type codes, empty "
    "rdatasets, negative or oversized serial steps). A case is non-trivial if its key (all of the above) is new"
)
TRUSTED_BASE = [
    "Python dict / list semantics; dns.name.Name equality and hashing up to ASCII case (modelled as lower-cased keys)",
    "rdata are abstract in the model (class, type, covered type, value id; an SOA's id is its serial): the harness maps every "
    "value id to one fixed dns.rdata object per type",
]
ASSUMPTIONS = [
    "a zone always has an origin; names given as str (parsed by dns.name.from_text) and types given as text are outside the model",
    "rdatasets handed to the API are built by the public constructors, so IncompatibleTypes / DifferingCovers cannot arise",
    "an *empty* rdataset is API-legal: add/replace store it (the owner then exists with an empty rdataset of that type), "
    "delete/delete_exact with one deletes the whole name (it is falsy), an empty RRset handed to add/replace is a ValueError; "
    "the reference model says the same (reading fixed here, DESIGN §6 style)",
    "versioned-zone readers/pruning/locking (C11, C12) and B-tree node flags / delegation index (C20) are not compared here",
    "zones are persistent values in the transaction model; that this is sound for the copy-on-write of WritableVersion over "
    "shared mutable node objects is the theorem cow_isolation (Model/ZoneCow.lean); rdataset objects are treated as immutable "
    "values (the transaction code clones before every union/difference)",
]
LEVEL = {
    "text": "Lean 4 theorems over an executable model of dns/transaction.py + dns/zone.py (_validate_name, Version, WritableVersion, "
            "zone.Transaction) + dns/node.py + dns/rdataset.py/set.py + dns/serial.py, and a second model instance of the B-tree "
            "version class (dns/btreezone.py WritableVersion): every history of add/replace/delete/delete_exact (every argument form, "
            "well-formed or not, empty rdatasets included, with or without a vetoing check hook)/update_serial/get/name_exists/"
            "get_node/changed/iteration/commit/rollback refines a flat finite-map reference (same results and error families, "
            "iteration and get_node equal up to order, same committed content) from any well-formed initial zone (sim_flatten); the "
            "B-tree version class has the same content behaviour whatever its flag bookkeeping does; owner names relative or absolute "
            "behave identically; leaving through an exception or a rollback after any prefix leaves the published zone untouched; "
            "reads see the transaction's own writes; ended and read-only transactions refuse use; RFC 1982 serial laws and the "
            "0 -> 1 rule. The model is tied to the three zone classes by a differential correspondence check over whole histories "
            "with an abort injected after every operation index, and by constants (CNAME/neutral/singleton type sets, serial width, "
            "MAX_TTL) regenerated from the working tree and fed to the theorems.",
    "note": "Trusted: Lean kernel + propext/Classical.choice/Quot.sound; the statements in lean/Props/C10.lean; the correspondence "
            "harness and its generators (differential testing bounds the tie); harness/extract_C10.py. Copy-on-write isolation is a "
            "theorem about an explicit shared-object store model (cow_isolation, Model/ZoneCow.lean) and is tied to the code by the "
            "abort sweep. The B-tree instance "
            "is tied to the code through its content only (its flags / delegation index are C20's). One decision point is open in "
            "the code as it is (get_node on an ended transaction is not refused; KNOWN_FINDINGS): the full theorems are for the "
            "intended variant, current_code_refines_spec / ended_refuses_partial for the code as it is; the D09/D10 variants are "
            "legacy (repaired) and survive only as legacy_* counter-examples.",
    "technique": "Lean 4 proof (refinement to a finite map by simulation + invariants, induction over histories) + model-vs-implementation correspondence",
    "design_ref": "DESIGN.md §7 C10",
}

IN = 1
CH = 3
A, NS, CNAME, SOA, TXT, KEY, DNAME, RRSIG, NSEC, NSEC3 = 1, 2, 5, 6, 16, 25, 39, 46, 47, 50
ORIGIN = (b"example", b"")
CLASSES = {"plain": dns.zone.Zone, "versioned": dns.versioned.Zone, "btree": dns.btreezone.Zone}
TTLS = [0, 1, 60, 300, 300, 3600, 3600, 2 ** 31 - 1, 2 ** 31, 2 ** 32 - 1]
SERIALS = [0, 1, 5, 77, 2 ** 31 - 1, 2 ** 31, 2 ** 31 + 1, 2 ** 32 - 2, 2 ** 32 - 1]
REL_NAMES = [(), (b"a",), (b"b",), (b"a", b"b"), (b"c",), (b"d",)]
TYPE_POOL = [(A, 0)] * 6 + [(CNAME, 0)] * 4 + [(SOA, 0)] * 2 + [(NSEC, 0)] * 3 + [(RRSIG, A)] * 2 + [(RRSIG, CNAME)] * 2 + \
            [(RRSIG, NSEC)] * 1 + [(NS, 0)] * 2 + [(TXT, 0)] * 1 + [(DNAME, 0)] * 1
# RFC constants of the reference (deliberately not read from the code)
REF_SINGLETONS = {CNAME, SOA, 30, DNAME, NSEC}
REF_CNAME = {CNAME}
REF_NEUTRAL = {NSEC, NSEC3, KEY}


class Boom(Exception):
    """the injected exception"""


class BoomBase(BaseException):
    """the injected exception, outside the Exception hierarchy (like KeyboardInterrupt / a cancellation)"""


class Hang(BaseException):
    pass


def _alarm(signum, frame):
    raise Hang()


# ------------------------------------------------------------------------------------------------
# value pools: abstract (type, covers, val) <-> dns.rdata objects
# ------------------------------------------------------------------------------------------------
_RD = {}
_RD_BACK = {}


def mk_rdata(cls, t, c, v):
    key = (cls, t, c, v)
    rd = _RD.get(key)
    if rd is not None:
        return rd
    if cls != IN:
        rd = dns.rdata.from_text(cls, TXT, f'"w{v}"')
    elif t == A:
        rd = dns.rdata.from_text(IN, A, f"10.0.{(v >> 8) & 255}.{v & 255}")
    elif t == NS:
        rd = dns.rdata.from_text(IN, NS, f"ns{v}.example.")
    elif t == CNAME:
        rd = dns.rdata.from_text(IN, CNAME, f"c{v}.example.")
    elif t == SOA:
        rd = dns.rdata.from_text(IN, SOA, f"ns.example. h.example. {v} 1 1 1 1")
    elif t == NSEC:
        rd = dns.rdata.from_text(IN, NSEC, f"n{v}.example. A")
    elif t == RRSIG:
        rd = dns.rdata.from_text(IN, RRSIG, f"{dns.rdatatype.to_text(c)} 8 2 3600 20300101000000 20000101000000 {v & 0xFFFF} example. AAAA")
    elif t == DNAME:
        rd = dns.rdata.from_text(IN, DNAME, f"d{v}.example.")
    else:
        rd = dns.rdata.from_text(IN, TXT, f'"t{v}"')
    _RD[key] = rd
    _RD_BACK[rd] = v
    return rd


def val_of(rd):
    if rd.rdtype == SOA:
        return rd.serial
    v = _RD_BACK.get(rd)
    return v if v is not None else 999999


def mk_rds(r, as_rrset_of=None):
    """r = [cls, type, covers, ttl, [vals]]"""
    cls, t, c, ttl, vals = r
    rcls = cls
    rt = t if cls == IN else TXT
    if as_rrset_of is not None:
        o = dns.rrset.RRset(as_rrset_of, rcls, rt, c)
    else:
        o = dns.rdataset.Rdataset(rcls, rt, c)
    for v in vals:
        o.add(mk_rdata(cls, t, c, v))
    o.ttl = ttl
    return o


def nm(labels_hex):
    return dns.name.Name([bytes.fromhex(x) for x in labels_hex])


def hexl(labels):
    return [bytes(l).hex() for l in labels]


# ------------------------------------------------------------------------------------------------
# canonical text forms shared with the driver
# ------------------------------------------------------------------------------------------------
def show_vals(vals):
    vals = sorted(vals)
    return ".".join(str(v) for v in vals) if vals else "_"


def show_rds_abs(cls, t, c, ttl, vals):
    return f"{cls}/{t}/{c}/{ttl}/{show_vals(vals)}"


def show_rds(rds):
    return show_rds_abs(int(rds.rdclass), int(rds.rdtype), int(rds.covers), int(rds.ttl), [val_of(rd) for rd in rds])


def enc_lower(labels):
    return enc_labels([bytes(l).lower() for l in labels])


def show_nodes(pairs):
    """pairs: iterable of (Name, iterable of rdatasets)"""
    out = []
    for name, rdss in pairs:
        out.append(enc_lower(name.labels) + "=" + "&".join(sorted(show_rds(r) for r in rdss)))
    return ";".join(sorted(out)) if out else "-"


def enc_rds(r):
    return show_rds_abs(*r)


def enc_arg(a):
    k = a[0]
    if k == "N":        # owner given as text: the same call for the model
        k = "n"
    if k in ("I", "E", "b"):        # type as mnemonic / as enum member; a bool where an int is admitted
        return f"i{int(a[1])}"
    if k == "g":        # GenericRdata twin of a typed record: the same rdata
        return f"r{a[1]}/{a[2]}/{a[3]}/{a[4]}"
    if k == "G":        # the rdataset just read with txn.get(), handed back as an argument
        return "d" + enc_rds(a[2])
    if k == "n":
        return "n" + enc_labels([bytes.fromhex(x) for x in a[1]])
    if k == "s":
        return "s" + enc_labels([bytes.fromhex(x) for x in a[1]]) + "~" + enc_rds(a[2])
    if k == "d":
        return "d" + enc_rds(a[1])
    if k == "r":
        return f"r{a[1]}/{a[2]}/{a[3]}/{a[4]}"
    if k == "i":
        return f"i{a[1]}"
    return "x"


def enc_op(op):
    k = op[0]
    if k in ("add", "rep", "del", "dex"):
        return f"{k}:{op[1]}:" + "+".join(enc_arg(a) for a in op[2])
    if k == "us":
        return f"us:{op[1]}:{op[2]}:{op[3]}:" + enc_labels([bytes.fromhex(x) for x in op[4]])
    if k == "get":
        return "get:" + enc_labels([bytes.fromhex(x) for x in op[1]]) + f":{op[2]}:{op[3]}"
    if k == "ex":
        return "ex:" + enc_labels([bytes.fromhex(x) for x in op[1]])
    if k == "gn":
        return "gn:" + enc_labels([bytes.fromhex(x) for x in op[1]])
    return k


def enc_zone(zone):
    """zone = [[labels_hex, [rds...]]...]"""
    if isinstance(zone, str):
        return zone         # already in protocol form (a dump)
    if not zone:
        return "-"
    return ";".join(enc_labels([bytes.fromhex(x) for x in n]) + "=" + "&".join(enc_rds(r) for r in rs) for n, rs in zone)


def line_of(which, c, flags, ops, exc, zone=None):
    # d09/d10 are legacy variants of the model (repaired in the code): always off; gn as probed
    gn = 1 if flags.get(("gn",)) else 0
    return (f"c10.{which} {enc_labels(ORIGIN)} {c['rel']} {IN} 0 0 {gn} {c['ro']} {'x' if exc else 'c'} "
            f"{enc_zone(c['zone'] if zone is None else zone)} " + (";".join(enc_op(o) for o in ops) if ops else "-"))


# ------------------------------------------------------------------------------------------------
# the implementation side
# ------------------------------------------------------------------------------------------------
def family(e):
    if isinstance(e, (Boom, BoomBase)):
        return "Veto"
    if isinstance(e, dns.transaction.DeleteNotExact):
        return "DeleteNotExact"
    if isinstance(e, dns.transaction.ReadOnly):
        return "ReadOnly"
    if isinstance(e, dns.transaction.AlreadyEnded):
        return "AlreadyEnded"
    if isinstance(e, KeyError):
        return "KeyError"
    if isinstance(e, TypeError):
        return "TypeError"
    if isinstance(e, ValueError):
        return "ValueError"
    return "FOREIGN-" + type(e).__name__


def native_name(c, rel_labels):
    """the key the zone uses for the owner whose relative labels are given"""
    return dns.name.Name(list(rel_labels) if c["rel"] else list(rel_labels) + list(ORIGIN))


def build_zone(c):
    Z = CLASSES[c["cls"]]
    z = Z(dns.name.Name(ORIGIN), dns.rdataclass.IN, relativize=bool(c["rel"]))
    if c["zone"]:
        with z.writer(True) as txn:
            for n, rs in c["zone"]:
                for r in rs:
                    txn.replace(nm(n), mk_rds(r))
    return z


def dump_zone(z):
    return show_nodes((name, node.rdatasets) for name, node in z.nodes.items())


def zone_read_routes(z, post):
    """the other read routes to the committed content (Zone.iterate_rdatasets / get_rdataset / get_node / keys / `in`)
    must show what zone.nodes shows"""
    d = {}
    for n, rds in z.iterate_rdatasets():
        d.setdefault(n, []).append(rds)
    for n in z.keys():
        d.setdefault(n, [])
    it = show_nodes(d.items())
    if it != post:
        return f"zone.nodes is {post} but Zone.iterate_rdatasets()/keys() give {it}"
    for name, node in list(z.nodes.items()):
        if z.get_node(name) is None or name not in z:
            return f"{name} is in zone.nodes but Zone.get_node / `in` do not find it"
        for rds in node.rdatasets:
            got = z.get_rdataset(name, rds.rdtype, rds.covers)
            if got is None or show_rds(got) != show_rds(rds):
                return f"Zone.get_rdataset({name}, {int(rds.rdtype)}, {int(rds.covers)}) -> {got}, zone.nodes has {show_rds(rds)}"
    return None


def dump_reader(z):
    with z.reader() as txn:
        names = list(txn.iterate_names())
        d = {n: [] for n in names}
        for n, rds in txn.iterate_rdatasets():
            d.setdefault(n, []).append(rds)
    return show_nodes(d.items())


def name_text(labels_hex):
    return nm(labels_hex).to_text()


def py_arg(a, txn=None):
    k = a[0]
    if k == "E":
        return dns.rdatatype.RdataType(a[1])
    if k == "b":
        return bool(a[1])
    if k == "g":
        v = a[4]
        return dns.rdata.GenericRdata(IN, A, bytes([10, 0, (v >> 8) & 255, v & 255]))
    if k == "G":
        got = None
        try:
            got = txn.get(nm(a[1]), a[2][1], a[2][2])
        except Exception:
            pass
        return got if got is not None and show_rds(got) == enc_rds(a[2]) else mk_rds(a[2])
    if k == "n":
        return nm(a[1])
    if k == "N":
        return name_text(a[1])
    if k == "I":
        return dns.rdatatype.to_text(a[1])
    if k == "s":
        return mk_rds(a[2], as_rrset_of=nm(a[1]))
    if k == "d":
        return mk_rds(a[1])
    if k == "r":
        return mk_rdata(a[1], a[2], a[3], a[4])
    if k == "i":
        return a[1]
    return 1.5


class Hooks:
    def __init__(self, txn, log=None, exc_cls=Boom):
        self.exc_cls = exc_cls
        self.armed = False
        self.log = log if log is not None else []
        txn.check_put_rdataset(self.put)
        txn.check_delete_rdataset(self.delrds)
        txn.check_delete_name(self.delname)

    @staticmethod
    def _key(name):
        try:
            return enc_labels(Ref.canon(list(name.labels)))
        except Exception:
            return "?"

    def put(self, txn, name, rdataset):
        self.log.append(f"put:{self._key(name)}:{show_rds(rdataset)}")
        if self.armed:
            raise self.exc_cls()

    def delrds(self, txn, name, rdtype, covers):
        self.log.append(f"delrds:{self._key(name)}:{int(rdtype)}/{int(covers)}")
        if self.armed:
            raise self.exc_cls()

    def delname(self, txn, name):
        self.log.append(f"delname:{self._key(name)}")
        if self.armed:
            raise self.exc_cls()


def call_op(txn, hooks, op):
    """perform one public-API call; returns the canonical result string (exceptions propagate)"""
    k = op[0]
    if k in ("add", "rep", "del", "dex"):
        hooks.armed = bool(op[1])
        try:
            args = [py_arg(a, txn) for a in op[2]]
            {"add": txn.add, "rep": txn.replace, "del": txn.delete, "dex": txn.delete_exact}[k](*args)
        finally:
            hooks.armed = False
        return "ok"
    if k == "us":
        hooks.armed = bool(op[1])
        try:
            form = op[5] if len(op) > 5 else ""
            if form == "d0":
                txn.update_serial()
            elif form == "d1":
                txn.update_serial(op[2])
            elif form == "d2":
                txn.update_serial(op[2], bool(op[3]))
            elif form == "kn":
                txn.update_serial(name=nm(op[4]))
            elif form == "k":
                txn.update_serial(relative=bool(op[3]), name=nm(op[4]), value=op[2])
            elif form == "t":
                txn.update_serial(op[2], bool(op[3]), name_text(op[4]))
            else:
                txn.update_serial(op[2], bool(op[3]), nm(op[4]))
        finally:
            hooks.armed = False
        return "ok"
    if k == "get":
        form = op[4] if len(op) > 4 else ""
        if form == "t":
            r = txn.get(name_text(op[1]), dns.rdatatype.to_text(op[2]), dns.rdatatype.to_text(op[3]))
        elif form == "k":
            r = txn.get(covers=op[3], rdtype=dns.rdatatype.RdataType(op[2]), name=nm(op[1]))
        elif form == "d":
            r = txn.get(nm(op[1]), op[2])
        else:
            r = txn.get(nm(op[1]), op[2], op[3])
        return "ok:none" if r is None else "ok:" + show_rds(r)
    if k == "ex":
        if len(op) > 2 and op[2] == "t":
            return "ok:1" if txn.name_exists(name_text(op[1])) else "ok:0"
        return "ok:1" if txn.name_exists(nm(op[1])) else "ok:0"
    if k == "gn":
        node = txn.get_node(nm(op[1]))
        return "ok:nonode" if node is None else "ok:node[" + "&".join(sorted(show_rds(r) for r in node.rdatasets)) + "]"
    if k == "ch":
        return "ok:f1" if txn.changed() else "ok:f0"
    if k == "dump":
        # three entry points of iteration: each must refuse or answer like the others
        outs = []
        for f in (lambda: list(iter(txn)), lambda: list(txn.iterate_names()), lambda: list(txn.iterate_rdatasets())):
            try:
                outs.append(("ok", f()))
            except Hang:
                raise
            except Exception as e:
                outs.append(("err", e))
        if all(o[0] == "err" for o in outs) and len({family(o[1]) for o in outs}) == 1:
            raise outs[0][1]
        if any(o[0] == "err" for o in outs):
            return "ok:ITER-ENTRY-POINTS-DISAGREE:" + ",".join(o[0] if o[0] == "ok" else family(o[1]) for o in outs)
        via_iter, names, pairs = outs[0][1], outs[1][1], outs[2][1]
        d = {n: [] for n in names}
        for n, rds in pairs:
            d.setdefault(n, []).append(rds)
        if [(n, id(r)) for n, r in via_iter] != [(n, id(r)) for n, r in pairs]:
            return "ok:ITER-DIFFERS-FROM-iterate_rdatasets"
        return "ok:[" + show_nodes(d.items()) + "]"
    if k == "commit":
        txn.commit()
        return "ok"
    if k == "rollback":
        txn.rollback()
        return "ok"
    if k == "cfail":
        # commit() while a callback of the commit path raises: the versioned / B-tree zone's pruning policy
        z = txn.manager
        exc_cls = hooks.exc_cls

        def policy(zone, version):
            raise exc_cls()

        z.set_pruning_policy(policy)
        try:
            txn.commit()
        finally:
            z.set_pruning_policy(None)
        return "ok"
    raise ValueError(k)


def open_txn(z, c):
    if c["ro"] == 1:
        return z.reader()
    if c["ro"] == 2:
        return z.writer(True)
    return z.writer()


def run_impl(z, c, ops, exc, uncaught_last=False, log=None, hard=False):
    """run `ops` in one transaction; every call's exception is caught (user try/except) except, with
    `uncaught_last`, the last one; leave through Boom if `exc`.  Returns the trace."""
    trace = []
    try:
        with open_txn(z, c) as txn:
            hooks = Hooks(txn, log, BoomBase if hard else Boom)
            for i, op in enumerate(ops):
                if uncaught_last and i == len(ops) - 1:
                    try:
                        trace.append(call_op(txn, hooks, op))
                    except BaseException as e:
                        if isinstance(e, (Hang, Stalled)):
                            raise
                        trace.append("err:" + family(e))
                        raise
                else:
                    try:
                        trace.append(call_op(txn, hooks, op))
                    except Hang:
                        raise
                    except (Exception, BoomBase) as e:
                        trace.append("err:" + family(e))
            if exc:
                raise (BoomBase() if hard else Boom())
    except Hang:
        raise
    except (Exception, BoomBase) as e:
        if not (exc or uncaught_last):
            trace.append("EXIT-RAISED:" + family(e))
    return trace


# ------------------------------------------------------------------------------------------------
# the reference model (independent: dicts and sets over absolute lower-cased owner names)
# ------------------------------------------------------------------------------------------------
class RefErr(Exception):
    def __init__(self, fam):
        self.fam = fam


def ref_kind(t, c):
    if t in REF_CNAME or (t == RRSIG and c in REF_CNAME):
        return "cname"
    if t in REF_NEUTRAL or (t == RRSIG and c in REF_NEUTRAL):
        return "neutral"
    return "regular"


class Ref:
    def __init__(self, c):
        self.ro = c["ro"] == 1
        self.log = []
        self.ended = False
        self.zone = {}
        for n, rs in c["zone"]:
            k = self.canon([bytes.fromhex(x) for x in n])
            for cls, t, cv, ttl, vals in rs:
                self.zone[(k, t, cv)] = (ttl, frozenset(vals))
        self.ver = {} if c["ro"] == 2 else dict(self.zone)
        self.touched = False

    @staticmethod
    def canon(labels):
        lab = tuple(bytes(l).lower() for l in labels)
        if lab and lab[-1] == b"":
            if len(lab) < len(ORIGIN) or lab[len(lab) - len(ORIGIN):] != ORIGIN:
                raise RefErr("KeyError")
            return lab
        full = lab + ORIGIN
        if sum(len(l) + 1 for l in full) > 255:
            raise RefErr("KeyError")
        return full

    def is_origin(self, labels):
        try:
            return self.canon(labels) == ORIGIN
        except RefErr:
            return False

    def has(self, k):
        return any(key[0] == k for key in self.ver)

    def put(self, k, t, c, ttl, vals):
        kind = ref_kind(t, c)
        for key in list(self.ver):
            if key[0] != k:
                continue
            ok = ref_kind(key[1], key[2])
            if (key[1], key[2]) == (t, c) or (kind == "cname" and ok == "regular") or (kind == "regular" and ok == "cname"):
                del self.ver[key]
        self.ver[(k, t, c)] = (ttl, frozenset(vals))
        self.touched = True

    def keystr(self, labels):
        try:
            return enc_labels(self.canon(labels))
        except RefErr:
            return "?"

    def store(self, labels, r, merge, veto):
        cls, t, c, ttl, vals = r
        if cls != IN:
            raise RefErr("ValueError")
        if t == SOA and not self.is_origin(labels):
            raise RefErr("ValueError")
        nttl, nvals = ttl, frozenset(vals)
        if merge:
            k = self.canon(labels)
            old = self.ver.get((k, t, c))
            if old is not None:
                ottl, ovals = old
                nttl = min(ottl, ttl) if ovals else ttl
                if t in REF_SINGLETONS:
                    nvals = frozenset(vals[-1:]) if vals else ovals
                else:
                    nvals = ovals | frozenset(vals)
        # the check hooks see the owner as given and the rdataset about to be stored
        self.log.append(f"put:{self.keystr(labels)}:{show_rds_abs(IN, t, c, nttl, nvals)}")
        if veto:
            raise RefErr("Veto")
        k = self.canon(labels)
        self.put(k, t, c, nttl, nvals)

    def step(self, op):
        """returns the expected canonical result string, or raises RefErr(family); None = no opinion"""
        k = op[0]
        if k in ("commit", "rollback"):
            if self.ended:
                raise RefErr("AlreadyEnded")
            self.ended = True
            if k == "commit" and not self.ro and self.touched:
                self.zone = dict(self.ver)
            return "ok"
        if k == "cfail":
            if self.ended:
                raise RefErr("AlreadyEnded")
            self.ended = True
            if not self.ro and self.touched:
                raise RefErr("Veto")        # the commit fails: nothing is published
            return "ok"
        if self.ended:
            raise RefErr("AlreadyEnded")
        if k in ("add", "rep"):
            if self.ro:
                raise RefErr("ReadOnly")
            labels, r = canonical_store_args(op[2])
            self.store(labels, r, k == "add", bool(op[1]))
            return "ok"
        if k in ("del", "dex"):
            if self.ro:
                raise RefErr("ReadOnly")
            exact = k == "dex"
            veto = bool(op[1])
            labels, sel = canonical_delete_args(op[2])
            if sel[0] == "rds" and not sel[1][4]:
                sel = ("all",)      # an empty rdataset is falsy: the whole name goes
            if sel[0] == "all":
                if exact:
                    kk = self.canon(labels)
                    if not self.has(kk):
                        raise RefErr("DeleteNotExact")
                    self.log.append(f"delname:{self.keystr(labels)}")
                    if veto:
                        raise RefErr("Veto")
                else:
                    self.log.append(f"delname:{self.keystr(labels)}")
                    if veto:
                        raise RefErr("Veto")
                    kk = self.canon(labels)
                for key in list(self.ver):
                    if key[0] == kk:
                        del self.ver[key]
                        self.touched = True
                return "ok"
            if sel[0] == "type":
                kk = self.canon(labels)
                key = (kk, sel[1], sel[2])
                if key not in self.ver:
                    if exact:
                        raise RefErr("DeleteNotExact")
                    return "ok"
                self.log.append(f"delrds:{enc_labels(kk)}:{sel[1]}/{sel[2]}")
                if veto:
                    raise RefErr("Veto")
                del self.ver[key]
                self.touched = True
                return "ok"
            cls, t, c, ttl, vals = sel[1]
            if cls != IN:
                raise RefErr("ValueError")
            kk = self.canon(labels)
            key = (kk, t, c)
            if key not in self.ver:
                if exact:
                    raise RefErr("DeleteNotExact")
                return "ok"
            ottl, ovals = self.ver[key]
            if exact and not frozenset(vals) <= ovals:
                raise RefErr("DeleteNotExact")
            rest = ovals - frozenset(vals)
            if rest:
                self.log.append(f"put:{enc_labels(kk)}:{show_rds_abs(IN, t, c, ottl, rest)}")
            else:
                self.log.append(f"delrds:{enc_labels(kk)}:{t}/{c}")
            if veto:
                raise RefErr("Veto")
            if rest:
                self.put(kk, t, c, ottl, rest)
            else:
                del self.ver[key]
                self.touched = True
            return "ok"
        if k == "us":
            veto, value, relative, labels = bool(op[1]), op[2], bool(op[3]), [bytes.fromhex(x) for x in op[4]]
            if value < 0:
                raise RefErr("ValueError")
            kk = self.canon(labels)
            cur = self.ver.get((kk, SOA, 0))
            if cur is None or not cur[1]:
                raise RefErr("KeyError")
            (old,) = tuple(cur[1])
            if relative:
                if value > 2 ** 31 - 1:
                    raise RefErr("ValueError")
                new = (old + value) % 2 ** 32
            else:
                new = value % 2 ** 32
            if new == 0:
                new = 1
            if self.ro:
                raise RefErr("ReadOnly")
            self.store(labels, [IN, SOA, 0, cur[0], [new]], False, veto)
            return "ok"
        if k == "get":
            kk = self.canon([bytes.fromhex(x) for x in op[1]])
            cur = self.ver.get((kk, op[2], op[3]))
            return "ok:none" if cur is None else "ok:" + show_rds_abs(IN, op[2], op[3], cur[0], cur[1])
        if k == "ex":
            kk = self.canon([bytes.fromhex(x) for x in op[1]])
            return "ok:1" if self.has(kk) else "ok:0"
        if k == "gn":
            kk = self.canon([bytes.fromhex(x) for x in op[1]])
            rs = [show_rds_abs(IN, key[1], key[2], v[0], v[1]) for key, v in self.ver.items() if key[0] == kk]
            return "ok:node[" + "&".join(sorted(rs)) + "]" if rs else "ok:nonode"
        if k == "dump":
            return "ok:[" + self.show(self.ver) + "]"
        if k == "ch":
            return "ok:f1" if (self.touched and not self.ro) else "ok:f0"
        return None

    def leave(self, exc):
        if not self.ended:
            self.ended = True
            if not exc and not self.ro and self.touched:
                self.zone = dict(self.ver)

    @staticmethod
    def show(m):
        """canonical dump with absolute owner names"""
        d = {}
        for (k, t, c), (ttl, vals) in m.items():
            d.setdefault(k, []).append(show_rds_abs(IN, t, c, ttl, vals))
        return ";".join(sorted(enc_labels(k) + "=" + "&".join(sorted(v)) for k, v in d.items())) if d else "-"


def _plain(args):
    out = []
    for a in args:
        if a[0] == "N":
            out.append(["n", a[1]])
        elif a[0] in ("I", "E", "b"):
            out.append(["i", int(a[1])])
        elif a[0] == "g":
            out.append(["r"] + list(a[1:]))
        elif a[0] == "G":
            out.append(["d", a[2]])
        else:
            out.append(a)
    return out


def canonical_store_args(args):
    """(labels, rds) of a well-formed add/replace argument list"""
    args = _plain(args)
    a0 = args[0]
    if a0[0] == "s":
        if not a0[2][4]:
            raise RefErr("ValueError")      # RRset.to_rdataset() of an empty RRset
        return [bytes.fromhex(x) for x in a0[1]], a0[2]
    labels = [bytes.fromhex(x) for x in a0[1]]
    if args[1][0] == "d":
        return labels, args[1][1]
    ttl, rd = args[1][1], args[2]
    return labels, [rd[1], rd[2], rd[3], ttl, [rd[4]]]


def canonical_delete_args(args):
    args = _plain(args)
    a0 = args[0]
    if a0[0] == "s":
        return [bytes.fromhex(x) for x in a0[1]], ("rds", a0[2])
    labels = [bytes.fromhex(x) for x in a0[1]]
    if len(args) == 1:
        return labels, ("all",)
    a1 = args[1]
    if a1[0] == "i":
        return labels, ("type", a1[1], args[2][1] if len(args) > 2 else 0)
    if a1[0] == "d":
        return labels, ("rds", a1[1])
    rd = a1
    return labels, ("rds", [rd[1], rd[2], rd[3], 0, [rd[4]]])


def abs_dump(c, shown):
    """convert a canonical dump with native keys to absolute owner names (for comparison with the reference)"""
    if shown == "-":
        return "-", []
    out, empties = [], []
    for node in shown.split(";"):
        n, rs = node.split("=")
        labels = [] if n == "@" else [b"" if x == "-" else bytes.fromhex(x) for x in n.split(",")]
        if not (labels and labels[-1] == b""):
            labels = labels + list(ORIGIN)
        if rs == "":
            empties.append(enc_labels(labels))
        else:
            out.append(enc_labels(labels) + "=" + rs)
    return (";".join(sorted(out)) if out else "-"), empties


def abs_result(c, r):
    if r.startswith("ok:[") and r.endswith("]"):
        d, emp = abs_dump(c, r[4:-1])
        return "ok:[" + d + "]" + ("" if not emp else "+EMPTY:" + ",".join(emp))
    return r


# ------------------------------------------------------------------------------------------------
# known-defect trigger classes (narrow; everything else is a new violation)
# ------------------------------------------------------------------------------------------------
def non_native(c, labels_hex):
    labels = [bytes.fromhex(x) for x in labels_hex]
    is_abs = bool(labels) and labels[-1] == b""
    return is_abs if c["rel"] else not is_abs


def op_owner(op):
    if op[0] in ("add", "rep", "del", "dex"):
        return op[2][0][1] if op[2] and op[2][0][0] in ("n", "N", "s") else None
    if op[0] == "us":
        return op[4]
    return None


def classify_mismatch(c, ref_before, op, expected, got):
    """signature of an outcome mismatch at `op` (reference state *before* the op is given)"""
    owner = op_owner(op)
    k = op[0]
    if k == "gn" and expected == "err:AlreadyEnded" and (got.startswith("ok:") or got == "err:KeyError"):
        return "C10/get_node/ended-transaction-not-refused"
    if owner is not None and non_native(c, owner) and expected in ("ok", "err:Veto"):
        if k in ("del", "dex") and got == "err:KeyError" and expected == "ok":
            # D09 class: the op removes the owner's last rdataset, owner given in the non-native spelling
            try:
                kk = Ref.canon([bytes.fromhex(x) for x in owner])
            except RefErr:
                kk = None
            labels, sel = canonical_delete_args(op[2])
            if kk is not None and sel[0] != "all":
                keys = [key for key in ref_before if key[0] == kk]
                if sel[0] == "type":
                    target = (kk, sel[1], sel[2])
                    gone = target in keys
                else:
                    target = (kk, sel[1][1], sel[1][2])
                    gone = target in keys and ref_before[target][1] <= frozenset(sel[1][4])
                if gone and len(keys) == 1:
                    return f"C10/delete/KeyError/last-rdataset-of-node-via-non-native-name/{c['cls']}"
        if k in ("add", "rep", "us") and got == "err:ValueError":
            is_soa = (k == "us" and op[2] > 0) or (k != "us" and canonical_store_args(op[2])[1][1] == SOA)
            if is_soa and Ref.canon([bytes.fromhex(x) for x in owner]) == ORIGIN:
                return "C10/soa-at-origin/ValueError/origin-given-in-non-native-spelling"
    return f"C10/{k}/result-differs-from-reference"


# ------------------------------------------------------------------------------------------------
# evaluation
# ------------------------------------------------------------------------------------------------
_FLAGS = {}


def probe_flags():
    """which variant of the one open decision point the working tree implements: does `Transaction.get_node`
    answer on an ended transaction (`gn`)?  (D09/D10 are repaired; the model is always driven with them off.)"""
    if _FLAGS:
        return _FLAGS
    c = {"cls": "plain", "rel": 1, "ro": 0, "zone": [[hexl((b"a",)), [[IN, A, 0, 300, [1]]]]]}
    try:
        z = build_zone(c)
        t = run_impl(z, c, [["rollback"], ["gn", hexl((b"a",))]], False)
        _FLAGS[("gn",)] = len(t) == 2 and t[1].startswith("ok:")
    except Exception:
        _FLAGS[("gn",)] = False
    return _FLAGS


def wellformed(c):
    return not c.get("malformed")


def eval_hist(ctx: Ctx, c: dict):
    rep = {"kind": "hist", "case": c}
    flags = probe_flags()
    ops = c["ops"]
    # --- build
    try:
        z = build_zone(c)
        pre = dump_zone(z)
    except Exception as e:
        ctx.fail(f"C10/load/raises/{c['cls']}", f"loading the initial zone raised {type(e).__name__}: {e}", rep)
        return
    want_pre = Ref.show(Ref(c).zone)
    if abs_dump(c, pre)[0] != want_pre or abs_dump(c, pre)[1]:
        ctx.fail(f"C10/load/content-differs/{c['cls']}", f"initial zone loaded as {pre}, wanted {want_pre}", rep)
        return
    # --- a transaction can be opened at all
    try:
        with open_txn(z, c) as txn:
            pass
    except Exception as e:
        if c["cls"] == "btree" and not c["zone"] and c["ro"] == 0 and isinstance(e, ValueError):
            ctx.fail("C10/writer/ValueError/never-written-btree-zone",
                     "dns.btreezone.Zone(origin).writer() raises ValueError('original BTree is not immutable') until a first replacement transaction has committed", rep)
        else:
            ctx.fail(f"C10/writer/raises/{c['cls']}", f"opening the transaction raised {type(e).__name__}: {e}", rep)
        return
    ctx.count(f"cls.{c['cls']}.rel{c['rel']}.{['rw', 'ro', 'replace'][c['ro']]}")

    def fresh():
        return build_zone(c)

    # --- abort after every operation index: exception in the body / raising hook / explicit rollback
    salt = c.get("salt", 0)
    indices = range(len(ops) + 1)
    for kidx in indices:
        style = (kidx + salt) % (3 if c["cls"] == "plain" else 4)
        if style == 3:
            # the commit itself fails: a callback of the commit path (pruning policy) raises
            ops_k = ops[:kidx] + [["cfail"], ["get", hexl(()), A, 0]]
            trace = run_impl(z, c, ops_k, False, hard=(kidx % 2 == 1))
            line_ops, exc = ops_k, False
            ctx.count("abort.commit-fails")
        elif style == 1 and kidx < len(ops):
            # raising hook on operation kidx (uncaught); if the op does not raise, raise in the body
            ops_k = ops[:kidx] + [veto_variant(ops[kidx])]
            trace = run_impl(z, c, ops_k, True, uncaught_last=True, hard=(kidx % 2 == 1))
            line_ops, exc = ops_k, True
            ctx.count("abort.hook")
        elif style == 2:
            ops_k = ops[:kidx] + [["rollback"], ["get", hexl(()), A, 0]]
            trace = run_impl(z, c, ops_k, False)
            line_ops, exc = ops_k, False
            ctx.count("abort.rollback")
        else:
            ops_k = ops[:kidx]
            trace = run_impl(z, c, ops_k, True, hard=(kidx % 2 == 1))
            line_ops, exc = ops_k, True
            ctx.count("abort.raise")
        post = dump_zone(z)
        ctx.corr(line_of("run", c, flags, line_ops, exc), " ".join(trace) + " | " + post, c)
        # oracle: unchanged, unless an explicit commit was executed before the abort
        if not any(o[0] == "commit" for o in line_ops):
            if post != pre:
                how = ["exception raised in the with body", "exception raised by a check hook", "explicit rollback",
                       "a commit that failed because the pruning policy raised"][style]
                ctx.fail(f"C10/abort/zone-changed/{c['cls']}",
                         f"after {kidx} operations and {how} the zone is {post}, before the transaction it was {pre}", dict(rep, abort_index=kidx))
        elif wellformed(c):
            ref = Ref(c)
            same = True
            for i, op in enumerate(line_ops):
                try:
                    e = ref.step(op)
                except RefErr as x:
                    e = "err:" + x.fam
                if e is not None and (i >= len(trace) or abs_result(c, trace[i]) != e) and op[0] != "gn":
                    same = False     # judged by the oracle of the committed run below
                    break
            if same:
                ref.leave(exc)
                expect = Ref.show(ref.zone)
                got, empties = abs_dump(c, post)
                if got != expect or empties:
                    ctx.fail(f"C10/abort/zone-differs-after-explicit-commit/{c['cls']}",
                             f"after {kidx} operations (one an explicit commit) and an abort the zone is {got} (empty nodes {empties}), the reference model says {expect}", dict(rep, abort_index=kidx))
        if style == 3 and not any(o[0] == "commit" for o in line_ops):
            # every read route, and a reader, must still show the old content
            prob = zone_read_routes(z, pre)
            rdr = dump_reader(z)
            if prob or rdr != pre:
                ctx.fail(f"C10/abort/read-routes-disagree-after-failed-commit/{c['cls']}",
                         prob or f"after a failed commit zone.nodes is {post} but a reader iterates {rdr}", dict(rep, abort_index=kidx))
        if post != pre:
            z = fresh()

    # --- the full history, committed by leaving the block normally
    hook_log = []
    trace = run_impl(z, c, ops, False, log=hook_log)
    post = dump_zone(z)
    ctx.corr(line_of("run", c, flags, ops, False), " ".join(trace) + " | " + post, c)
    route_problem = zone_read_routes(z, post)
    if route_problem:
        ctx.fail(f"C10/zone-read-route/differs-from-published-map/{c['cls']}", route_problem, rep)
    rd = dump_reader(z)
    if rd != post:
        ctx.fail(f"C10/reader/differs-from-published-map/{c['cls']}", f"zone.nodes is {post} but a reader iterates {rd}", rep)
    for t in trace:
        if "FOREIGN" in t or t.startswith("EXIT-RAISED"):
            ctx.fail(f"C10/foreign-exception/{t.split(':')[-1]}/{c['cls']}", f"unexpected exception in trace {trace}", rep)
            break
    # --- oracle: the reference model, result by result
    if not wellformed(c):
        return
    ref = Ref(c)
    ref_trace = []
    abandoned = False
    for i, op in enumerate(ops):
        before = dict(ref.ver)
        try:
            e = ref.step(op)
        except RefErr as x:
            e = "err:" + x.fam
        if op[0] == "dump" and e is not None and e.startswith("ok"):
            ref_trace.append("ok:[" + native_dump(c, ref.ver) + "]")
        else:
            ref_trace.append("ok" if e is None else e)
        g = abs_result(c, trace[i]) if i < len(trace) else "missing"
        ctx.count("op." + op[0] + "." + (g.split(":")[1] if g.startswith("err:") else "ok"))
        if e is None:
            continue
        if g != e:
            sig = classify_mismatch(c, before, op, e, g)
            ctx.fail(sig, f"operation {i} {enc_op(op)} returned {g}, the reference model says {e} (zone class {c['cls']}, relativize={c['rel']})",
                     dict(rep, op_index=i))
            if sig == "C10/get_node/ended-transaction-not-refused":
                continue        # a pure read: the state has not diverged
            abandoned = True
            break
    if not abandoned:
        ref.leave(False)
        expect = Ref.show(ref.zone)
        got, empties = abs_dump(c, post)
        if got != expect or empties:
            ctx.fail(f"C10/commit/content-differs/{c['cls']}", f"committed zone {got} (empty nodes {empties}), the reference model says {expect}", rep)
        # the Lean reference model must agree with the Python reference (tie between the oracle and the theorems' spec)
        ctx.corr(line_of("spec", c, flags, ops, False), " ".join(ref_trace) + " | " + native_dump(c, ref.zone), c)
        # every low-level mutation passes the registered check hooks first, with the owner and the rdataset / type at stake
        if hook_log != ref.log:
            i = next((j for j in range(min(len(hook_log), len(ref.log))) if hook_log[j] != ref.log[j]), min(len(hook_log), len(ref.log)))
            ctx.fail(f"C10/hooks/calls-differ-from-reference/{c['cls']}",
                     f"check hook call {i}: saw {hook_log[i:i + 1]}, the reference model expects {ref.log[i:i + 1]} "
                     f"({len(hook_log)} calls seen, {len(ref.log)} expected)", rep)
        # a second transaction on the zone the first one left
        if c.get("ops2"):
            c2 = dict(c, ro=0)
            trace2 = run_impl(z, c2, c["ops2"], False)
            post2 = dump_zone(z)
            ctx.corr(line_of("run", c2, flags, c["ops2"], False, zone=post), " ".join(trace2) + " | " + post2, c)
            ref2 = Ref(c2)
            ref2.zone = dict(ref.zone)
            ref2.ver = dict(ref.zone)
            for i, op in enumerate(c["ops2"]):
                try:
                    e = ref2.step(op)
                except RefErr as x:
                    e = "err:" + x.fam
                g = abs_result(c, trace2[i]) if i < len(trace2) else "missing"
                if e is not None and g != e:
                    ctx.fail(f"C10/second-transaction/{op[0]}/result-differs-from-reference",
                             f"second transaction, operation {i} {enc_op(op)} returned {g}, the reference model says {e} (zone class {c['cls']})", rep)
                    break
            else:
                ref2.leave(False)
                got2, emp2 = abs_dump(c, post2)
                if got2 != Ref.show(ref2.zone) or emp2:
                    ctx.fail(f"C10/second-transaction/content-differs/{c['cls']}",
                             f"after a second committed transaction the zone is {got2} (empty nodes {emp2}), the reference model says {Ref.show(ref2.zone)}", rep)
            ctx.count("second-txn")


def native_dump(c, m):
    """the reference content with the zone's native owner spelling (to compare with the Lean reference model)"""
    d = {}
    for (k, t, cv), (ttl, vals) in m.items():
        key = k[: len(k) - len(ORIGIN)] if c["rel"] else k
        d.setdefault(key, []).append(show_rds_abs(IN, t, cv, ttl, vals))
    return ";".join(sorted(enc_labels(k) + "=" + "&".join(sorted(v)) for k, v in d.items())) if d else "-"


def veto_variant(op):
    if op[0] in ("add", "rep", "del", "dex", "us"):
        return [op[0], 1] + list(op[2:])
    return op


def eval_serial(ctx: Ctx, c: dict):
    rep = {"kind": "serial", "case": c}
    a, b, d = c["a"], c["b"], c["d"]
    sa, sb = dns.serial.Serial(a), dns.serial.Serial(b)
    ctx.corr(f"c10.scmp {a} {b}",
             f"ok:{sa.value}:{sb.value}:lt={str(sa < sb).lower()}:gt={str(sa > sb).lower()}:le={str(sa <= sb).lower()}:ge={str(sa >= sb).lower()}", c)
    # RFC 1982 section 3.2 reference
    i1, i2 = a % 2 ** 32, b % 2 ** 32
    lt = (i1 < i2 and i2 - i1 < 2 ** 31) or (i1 > i2 and i1 - i2 > 2 ** 31)
    gt = (i1 < i2 and i2 - i1 > 2 ** 31) or (i1 > i2 and i1 - i2 < 2 ** 31)
    if (sa < sb) != lt or (sa > sb) != gt or (sa == sb) != (i1 == i2):
        ctx.fail("C10/serial/compare-differs-from-rfc1982", f"Serial({a}) vs Serial({b}): lt={sa < sb} gt={sa > sb}, RFC says lt={lt} gt={gt}", rep)
    try:
        r = "ok:" + str((sa + d).value)
    except ValueError:
        r = "err:ValueError"
    want = "err:ValueError" if abs(d) > 2 ** 31 - 1 else "ok:" + str((i1 + d) % 2 ** 32)
    if r != want:
        ctx.fail("C10/serial/add-differs-from-rfc1982", f"Serial({a}) + {d} -> {r}, RFC says {want}", rep)
    # --- the other routes to the same relations (RFC 1982 reference in plain integers)
    probs = []
    for x, y, ix, iy in ((sa, sb, i1, i2), (sa, b % 2 ** 32, i1, i2), (a % 2 ** 32, sb, i1, i2)):
        rlt = (ix < iy and iy - ix < 2 ** 31) or (ix > iy and ix - iy > 2 ** 31)
        rgt = (ix < iy and iy - ix > 2 ** 31) or (ix > iy and ix - iy < 2 ** 31)
        req = ix == iy
        got = ((x == y), (x != y), (x < y), (x > y), (x <= y), (x >= y))
        want6 = (req, not req, rlt, rgt, req or rlt, req or rgt)
        if got != want6:
            probs.append(f"{type(x).__name__}({ix}) vs {type(y).__name__}({iy}): ==,!=,<,>,<=,>= are {got}, RFC 1982 says {want6}")
    if (sa == sb) != (sb == sa) or not (sa <= sa) or not (sa >= sa) or (sa != sa):
        probs.append(f"Serial({a}), Serial({b}): == not symmetric or <=/>= not reflexive")
    if hash(sa) != hash(dns.serial.Serial(i1)) or (sa == sb and hash(sa) != hash(sb)):
        probs.append(f"hash(Serial({a})) is not that of the equal Serial({i1})")
    if (sa in {sb}) != (i1 == i2):
        probs.append(f"set membership of Serial({a}) in {{Serial({b})}} is {sa in {sb}}")

    def arith(f):
        try:
            return "ok:" + str(f().value)
        except ValueError:
            return "err:ValueError"

    def iadd():
        x = dns.serial.Serial(a)
        x += d
        return x

    def isub():
        x = dns.serial.Serial(a)
        x -= d
        return x

    wsub = "err:ValueError" if abs(d) > 2 ** 31 - 1 else "ok:" + str((i1 - d) % 2 ** 32)
    for what, f, w in (("+= int", iadd, want), ("- int", lambda: sa - d, wsub), ("-= int", isub, wsub)):
        if arith(f) != w:
            probs.append(f"Serial({a}) {what} {d} -> {arith(f)}, RFC 1982 says {w}")
    if 0 <= d < 2 ** 32:
        sd = dns.serial.Serial(d)
        wadd = "err:ValueError" if d > 2 ** 31 - 1 else "ok:" + str((i1 + d) % 2 ** 32)
        wsb = "err:ValueError" if d > 2 ** 31 - 1 else "ok:" + str((i1 - d) % 2 ** 32)
        for what, f, w in (("+ Serial", lambda: sa + sd, wadd), ("- Serial", lambda: sa - sd, wsb)):
            if arith(f) != w:
                probs.append(f"Serial({a}) {what}({d}) -> {arith(f)}, RFC 1982 says {w}")
    for pmsg in probs[:1]:
        ctx.fail("C10/serial/relation-or-route-differs-from-rfc1982", pmsg, rep)
    if d >= 0:
        # through update_serial's arithmetic (0 -> 1)
        exp = want if want.startswith("err") else ("ok:1" if want == "ok:0" else want)
        ctx.corr(f"c10.serial {i1} {d} 1", exp if r == want else r, c)
        ctx.corr(f"c10.serial {i1} {d} 0", "ok:" + str((d % 2 ** 32) or 1), c)
    ctx.count("serial")


def eval_vname(ctx: Ctx, c: dict):
    rep = {"kind": "vname", "case": c}
    labels = [bytes.fromhex(x) for x in c["labels"]]
    n = dns.name.Name(labels)
    outs = []
    for rel in (1, 0):
        try:
            k = dns.zone._validate_name(n, dns.name.Name(ORIGIN), bool(rel))
            r = "ok:" + enc_lower(k.labels)
        except KeyError:
            r = "err:KeyError"
        except Exception as e:
            r = "err:FOREIGN-" + type(e).__name__
        ctx.corr(f"c10.vname {enc_labels(ORIGIN)} {rel} {enc_labels(labels)}", r, c)
        outs.append(r)
    # oracle: both spellings of an in-zone owner give the same key
    if not n.is_absolute():
        full = labels + list(ORIGIN)
        if sum(len(l) + 1 for l in full) <= 255:
            m = dns.name.Name(full)
            for rel in (True, False):
                a = dns.zone._validate_name(n, dns.name.Name(ORIGIN), rel)
                b = dns.zone._validate_name(m, dns.name.Name(ORIGIN), rel)
                if a != b:
                    ctx.fail("C10/validate_name/relative-absolute-differ", f"{n} -> {a}, {m} -> {b} (relativize={rel})", rep)
    ctx.count("vname." + outs[0].split(":")[0])


def eval_bigint(ctx: Ctx, c: dict):
    """an integer too long for int->str conversion (Python >= 3.11 refuses > 4300 digits) as serial step / value"""
    rep = {"kind": "bigint", "case": c}
    big = 10 ** 4400 + c["low"]
    for cls in CLASSES:
        cz = {"cls": cls, "rel": 1, "ro": 0, "zone": [[hexl(()), [[IN, SOA, 0, 300, [5]]]]]}
        z = build_zone(cz)
        outs = []
        with z.writer() as txn:
            for rel_ in (True, False):
                try:
                    txn.update_serial(big, rel_)
                    outs.append("ok")
                except ValueError as e:
                    outs.append("ValueError" if "4300" not in str(e) else "ValueError(int->str)")
                except Exception as e:
                    outs.append(type(e).__name__)
        want_serial = (big % 2 ** 32) or 1
        got = dump_zone(z)
        if outs != ["ValueError", "ok"] or got != f"@=1/6/0/300/{want_serial}":
            ctx.fail(f"C10/update_serial/huge-int/{cls}",
                     f"update_serial(10**4400+{c['low']}) relative/absolute -> {outs}, zone {got}; expected ['ValueError', 'ok'] and serial {want_serial}", rep)
    ctx.count("bigint")


def eval_case(ctx: Ctx, c: dict):
    k = c["kind"]
    signal.signal(signal.SIGALRM, _alarm)
    signal.alarm(20)
    try:
        if k == "hist":
            eval_hist(ctx, c)
        elif k == "serial":
            eval_serial(ctx, c)
        elif k == "vname":
            eval_vname(ctx, c)
        elif k == "bigint":
            eval_bigint(ctx, c)
        else:
            raise ValueError(k)
    except Hang:
        ctx.fail(f"C10/hang/{c.get('cls', k)}", "the history did not finish in 20 s (a transaction left open blocks the next writer)", {"kind": k, "case": c})
    finally:
        signal.alarm(0)


# ------------------------------------------------------------------------------------------------
# generators
# ------------------------------------------------------------------------------------------------
def spell(rng, c, rel_labels, policy):
    """labels of an owner as given to the API: native / non-native / mixed spelling, occasional case change"""
    labels = [bytes(l) for l in rel_labels]
    if rng.chance(1, 8):
        labels = [l.upper() if rng.chance(1, 2) else l for l in labels]
    if policy == 0:
        absolute = not c["rel"]
    elif policy == 1:
        absolute = bool(c["rel"])
    else:
        absolute = rng.chance(1, 2)
    if absolute:
        o = list(ORIGIN)
        if rng.chance(1, 10):
            o = [b"EXAMPLE", b""]
        labels = labels + o
    return hexl(labels)


def odd_name(rng):
    m = rng.below(6)
    if m == 4:
        return hexl([b"x" * 63, b"y" * 63, b"z" * 63, b"w" * 53])          # exactly 255 octets with the origin
    if m == 5:
        return hexl([b"x" * 63, b"y" * 63, b"z" * 63, b"w" * 54])          # 256: one too long
    if m == 0:
        return hexl((b"other", b""))
    if m == 1:
        return hexl((b"example", b"com", b""))
    if m == 2:
        return hexl([b"x" * 63, b"y" * 63, b"z" * 63, b"w" * 60])          # too long once the origin is appended
    return hexl([b"x" * 63, b"y" * 63, b"z" * 63, b"w" * 51])              # just fits


def gen_vals(rng, t):
    if t == SOA:
        return [rng.choice(SERIALS)]
    if t in REF_SINGLETONS:
        return [rng.range(1, 4)]
    k = rng.choice([1, 1, 1, 2, 2, 3])
    return sorted(set(rng.range(1, 4) for _ in range(k)))


def gen_store_args(rng, c, owner, t, cv, ttl, vals, form=None):
    r = [IN, t, cv, ttl, vals]
    form = rng.below(3) if form is None else form
    if form == 0 or len(vals) != 1:
        if form == 2 or rng.chance(1, 2):
            return [["s", owner, r]]
        return [["n", owner], ["d", r]]
    if form == 1:
        return [["n", owner], ["i", ttl], ["r", IN, t, cv, vals[0]]]
    return [["s", owner, r]]


def gen_hist(rng, malformed=False):
    c = {"kind": "hist", "cls": rng.choice(["plain", "versioned", "btree"]), "rel": rng.below(2), "ro": rng.choice([0] * 10 + [1, 2]),
         "salt": rng.below(3)}
    policy = rng.choice([0, 0, 1, 2])
    # initial zone through the reference (so that it is consistent)
    ref = Ref({"ro": 0, "zone": []})
    nzone = rng.choice([0, 1, 2, 3, 4, 5, 6, 8]) if not rng.chance(1, 25) else 0
    if rng.chance(3, 4) and nzone:
        ref.put(ORIGIN, SOA, 0, rng.choice(TTLS), [rng.choice(SERIALS)])
    for _ in range(nzone):
        n = rng.choice(REL_NAMES[1:] if rng.chance(4, 5) else REL_NAMES)
        t, cv = rng.choice(TYPE_POOL)
        if t == SOA:
            continue
        ref.put(tuple(n) + ORIGIN, t, cv, rng.choice(TTLS), gen_vals(rng, t))
    zone = {}
    for (k, t, cv), (ttl, vals) in sorted(ref.ver.items()):
        rel = k[: len(k) - len(ORIGIN)]
        zone.setdefault(rel, []).append([IN, t, cv, ttl, sorted(vals)])
    if rng.chance(1, 150):
        # a zone big enough for the B-tree backed map to have inner nodes (2t-1 = 253 keys per leaf at the default t)
        c["fill"] = rng.choice([260, 300, 520])
        if rng.chance(2, 3):
            c["cls"] = "btree"
        for i in range(c["fill"]):
            zone.setdefault((b"f%03d" % i,), []).append([IN, A, 0, 300, [1 + i % 4]])
    c["zone"] = [[hexl(native_name(c, rel).labels), rs] for rel, rs in zone.items()]
    # operations, steering by the reference state
    ref = Ref(c)
    nops = rng.choice([0, 1, 2, 3, 4, 5, 6, 8, 10, 12, 16, 25]) if not rng.chance(1, 3) else rng.range(3, 9)
    if c.get("fill"):
        nops = rng.range(2, 6)
    c["ops"] = gen_ops(rng, c, ref, nops, policy, malformed)
    if malformed:
        c["malformed"] = 1
    elif rng.chance(1, 3) and c["ro"] != 1 and not any(o[0] in ("commit", "rollback", "cfail") for o in c["ops"]):
        # a second transaction on what the first one committed
        ref.leave(False)
        ref2 = Ref(dict(c, ro=0))
        ref2.zone = dict(ref.zone)
        ref2.ver = dict(ref.zone)
        c["ops2"] = gen_ops(rng, c, ref2, rng.range(1, 5), policy, False)
    return c


def variant_form(rng, op, ref=None):
    """the same call through another route of the API: owner as text, type as mnemonic / enum member / bool, default and
    keyword arguments, a GenericRdata twin, the rdataset object just read with get()"""
    k = op[0]
    if k in ("add", "rep", "del", "dex") and ref is not None and len(op[2]) == 2 and op[2][0][0] == "n" and op[2][1][0] == "d" \
            and rng.chance(1, 6):
        try:
            kk = ref.canon([bytes.fromhex(x) for x in op[2][0][1]])
            cur = ref.ver.get((kk, op[2][1][1][1], op[2][1][1][2]))
        except RefErr:
            cur = None
        if cur is not None and cur[1]:
            return [k, op[1], [op[2][0], ["G", op[2][0][1], [IN, op[2][1][1][1], op[2][1][1][2], cur[0], sorted(cur[1])]]]]
    if k in ("add", "rep", "del", "dex") and rng.chance(1, 8):
        args = []
        for j, a in enumerate(op[2]):
            if a[0] == "r" and a[1] == IN and a[2] == A and a[4] < 65536:
                args.append(["g"] + list(a[1:]))
            elif a[0] == "i" and a[1] in (0, 1) and rng.chance(1, 2):
                args.append(["b", a[1]])
            elif a[0] == "i" and k in ("del", "dex") and a[1] < 65536:
                args.append(["E", a[1]])
            else:
                args.append(a)
        return [k, op[1], args]
    if k in ("add", "rep", "del", "dex") and op[2] and op[2][0][0] == "n" and rng.chance(1, 6):
        args = [["N", op[2][0][1]]] + [list(a) for a in op[2][1:]]
        if k in ("del", "dex"):
            args = [args[0]] + [(["I", a[1]] if a[0] == "i" and rng.chance(2, 3) else a) for a in args[1:]]
        return [k, op[1], args]
    if k in ("del", "dex") and len(op[2]) >= 2 and op[2][1][0] == "i" and rng.chance(1, 5):
        return [k, op[1], [op[2][0]] + [["I", a[1]] if a[0] == "i" else a for a in op[2][1:]]]
    if k == "us" and rng.chance(1, 3):
        f = rng.choice(["d0", "d1", "d2", "kn", "t", "k"])
        if f == "k":
            return op[:5] + ["k"]
        if f == "d0":
            return ["us", op[1], 1, 1, [], "d0"]
        if f == "d1":
            return ["us", op[1], op[2], 1, [], "d1"]
        if f == "d2":
            return ["us", op[1], op[2], op[3], [], "d2"]
        if f == "kn":
            return ["us", op[1], 1, 1, op[4], "kn"]
        return op[:5] + ["t"]
    if k == "get":
        if op[3] == 0 and rng.chance(1, 4):
            return op[:4] + ["d"]
        if rng.chance(1, 6):
            return op[:4] + [rng.choice(["t", "k"])]
    if k == "ex" and rng.chance(1, 5):
        return op[:2] + ["t"]
    return op


def gen_ops(rng, c, ref, nops, policy, malformed):
    ops = []
    for _ in range(nops):
        x = rng.below(100)
        existing = sorted(ref.ver.keys())
        aim = existing and rng.chance(7, 10)
        if aim:
            k, t, cv = rng.choice(existing)
            rel = k[: len(k) - len(ORIGIN)]
        else:
            rel = rng.choice(REL_NAMES)
            if c.get("fill") and rng.chance(1, 2):
                rel = (b"f%03d" % rng.below(c["fill"] + 3),)
            t, cv = rng.choice(TYPE_POOL)
        owner = spell(rng, c, rel, policy)
        if rng.chance(1, 40):
            owner = odd_name(rng)
        veto = 1 if rng.chance(1, 20) else 0
        if x < 30:
            if t == SOA and rel != () and rng.chance(9, 10):
                owner = spell(rng, c, (), policy)
            op = ["add", veto, gen_store_args(rng, c, owner, t, cv, rng.choice(TTLS), gen_vals(rng, t))]
        elif x < 42:
            if t == SOA and rel != () and rng.chance(9, 10):
                owner = spell(rng, c, (), policy)
            op = ["rep", veto, gen_store_args(rng, c, owner, t, cv, rng.choice(TTLS), gen_vals(rng, t))]
        elif x < 70:
            kind = "del" if x < 60 else "dex"
            f = rng.below(10)
            if f < 2:
                args = [["n", owner]]
            elif f < 5:
                args = [["n", owner], ["i", t]] + ([["i", cv]] if (cv or rng.chance(1, 4)) else [])
            else:
                if aim and rng.chance(2, 3):
                    cur = sorted(ref.ver[(k, t, cv)][1])
                    vals = [v for v in cur if rng.chance(2, 3)] or cur[:1]
                    if rng.chance(1, 6):
                        vals = sorted(set(vals + [rng.range(1, 4)]))
                    if t in REF_SINGLETONS:
                        vals = vals[:1] if rng.chance(3, 4) else gen_vals(rng, t)
                else:
                    vals = gen_vals(rng, t)
                if f < 7 and len(vals) == 1:
                    args = [["n", owner], ["r", IN, t, cv, vals[0]]]
                elif f < 9:
                    args = [["n", owner], ["d", [IN, t, cv, rng.choice(TTLS), vals]]]
                else:
                    args = [["s", owner, [IN, t, cv, rng.choice(TTLS), vals]]]
            op = [kind, veto, args]
        elif x < 78:
            o = spell(rng, c, (), policy) if rng.chance(9, 10) else owner
            if rng.chance(2, 3):
                op = ["us", veto, rng.choice([1, 1, 1, 2, 5, 0, 2 ** 31 - 1, 2 ** 31 - 2, 1000]), 1, o]
            else:
                op = ["us", veto, rng.choice([0, 1, 77, 2 ** 31, 2 ** 32 - 1, 2 ** 32, 2 ** 32 + 5]), 0, o]
        elif x < 86:
            op = ["get", owner, t, cv]
        elif x < 88:
            op = ["ex", owner]
        elif x < 90:
            op = ["gn", owner]
        elif x < 93:
            op = ["ch"]
        elif x < 97:
            op = ["dump"]
        elif x < 99:
            op = ["commit"] if rng.chance(1, 2) else ["rollback"]
            if c["cls"] != "plain" and rng.chance(1, 3):
                op = ["cfail"]
        else:
            op = ["get", odd_name(rng), t, cv] if rng.chance(1, 2) else ["get", owner, 0, 0]
        if op[0] in ("add", "rep", "del", "dex") and rng.chance(1, 40):
            op = empty_variant(op)
        op = variant_form(rng, op, ref)
        if malformed and rng.chance(1, 3):
            op = mutate_op(rng, op)
        ops.append(op)
        try:
            ref.step(op)
        except Exception:
            pass
    return ops


def empty_variant(op):
    """the same call with an empty rdataset / RRset (API-legal: stores an empty rdataset, resp. deletes the name)"""
    args = []
    for a in op[2]:
        if a[0] == "d":
            args.append(["d", a[1][:4] + [[]]])
        elif a[0] == "s":
            args.append(["s", a[1], a[2][:4] + [[]]])
        else:
            args.append(a)
    return [op[0], op[1], args]


def mutate_op(rng, op):
    k = op[0]
    if k in ("add", "rep", "del", "dex"):
        args = [list(a) for a in op[2]]
        m = rng.below(15)
        if m >= 12:
            # two faults at once (the order of the checks decides the exception): wrong class or a non-origin SOA, plus a surplus argument
            if m == 12:
                args = [a if a[0] != "r" else ["r", CH, a[2], a[3], a[4]] for a in args]
                args = [a if a[0] != "d" else ["d", [CH] + a[1][1:]] for a in args]
                args = [a if a[0] != "s" else ["s", a[1], [CH] + a[2][1:]] for a in args]
            elif m == 13 and args and args[0][0] in ("n", "N"):
                args = [["n", hexl((b"c",))], ["d", [IN, SOA, 0, 5, [7]]]]
            else:
                args = [a if a[0] != "i" else ["i", 2 ** 32] for a in args]
            args.append(rng.choice([["x"], ["i", 5], ["r", IN, A, 0, 1]]))
            return [k, op[1], args]
        if m == 0:
            args.append(rng.choice([["x"], ["i", 5], ["n", hexl((b"a",))], ["d", [IN, A, 0, 5, [1]]]]))
        elif m == 1 and args:
            args.pop()
        elif m == 2:
            args = [["x"]] + args
        elif m == 3:
            args = []
        elif m == 4:
            args = [a if a[0] != "i" else ["i", rng.choice([2 ** 32, 2 ** 32 - 1, 65536, 70000, 65535])] for a in args]
        elif m == 5:
            args = [a if a[0] != "r" else ["r", CH, a[2], a[3], a[4]] for a in args]
            args = [a if a[0] != "d" else ["d", [CH] + a[1][1:]] for a in args]
            args = [a if a[0] != "s" else ["s", a[1], [CH] + a[2][1:]] for a in args]
        elif m == 6:
            args = [a if a[0] != "d" else ["d", a[1][:4] + [[]]] for a in args]
            args = [a if a[0] != "s" else ["s", a[1], a[2][:4] + [[]]] for a in args]
        elif m == 7 and len(args) >= 2:
            args = [args[0], ["x"]] + args[2:]
        elif m == 8 and len(args) >= 2:
            args = [args[0], ["i", rng.choice([1, 5, 46])], rng.choice([["x"], ["d", [IN, A, 0, 5, [1]]], ["i", 70000], ["i", 1], ["i", 0]])] + args[2:]
        elif m == 9 and len(args) >= 2 and args[1][0] == "i":
            args = args[:2]
        elif m == 10 and len(args) >= 1:
            args = [args[0], ["n", hexl((b"b",))]] + args[1:]
        else:
            args = args + [["r", IN, A, 0, 1]]
        return [k, op[1], args]
    if k == "us":
        return ["us", op[1], rng.choice([-1, -5, 2 ** 31, 2 ** 32, 2 ** 33 + 1, 2 ** 31 - 1, 10 ** 4299, -(10 ** 4299)]), op[3], op[4]]
    return op


def hist_key(c):
    return json.dumps([c["cls"], c["rel"], c["ro"], c["zone"], c["ops"], c.get("ops2")], sort_keys=True)


def generate(ctx: Ctx, scale: int, rng):
    n = lambda q: max(1, q * scale)
    t_start = time.time()       # the clock of the generated stream only (the Lean build may have waited for the lock)
    for i in range(n(3000)):
        c = gen_hist(rng, malformed=(i % 7 == 6))
        ctx.case(("hist", hist_key(c)), nontrivial=len(c["ops"]) > 0, sample=c if len(c["ops"]) <= 6 else None)
        eval_case(ctx, c)
        if ctx.tier == "quick" and time.time() - t_start > 32:
            ctx.notes.append(f"history budget cut at {i + 1} by the quick-tier clock")
            break
    for low in (0, 7):
        cb = {"kind": "bigint", "low": low}
        ctx.case(("bigint", low), sample=None)
        eval_case(ctx, cb)
    pool = [0, 1, 2, 5, 2 ** 31 - 2, 2 ** 31 - 1, 2 ** 31, 2 ** 31 + 1, 2 ** 32 - 2, 2 ** 32 - 1, 2 ** 32, 2 ** 32 + 1]
    for _ in range(n(600)):
        a = rng.choice(pool) if rng.chance(2, 3) else rng.below(2 ** 32)
        b = rng.choice(pool) if rng.chance(1, 2) else (a + rng.choice([0, 1, 2 ** 31 - 1, 2 ** 31, 2 ** 31 + 1, -1, -2 ** 31])) % 2 ** 33
        d = rng.choice([0, 1, -1, 2 ** 31 - 1, 2 ** 31, -(2 ** 31 - 1), -(2 ** 31), 2 ** 32, 7, 2 ** 31 - 2])
        c = {"kind": "serial", "a": a, "b": b, "d": d}
        ctx.case(("serial", a, b, d), sample=c)
        eval_case(ctx, c)
    for _ in range(n(300)):
        m = rng.below(6)
        if m == 0:
            labels = odd_name(rng)
        else:
            rel = list(rng.choice(REL_NAMES))
            if rng.chance(1, 3):
                rel = [rng.bytes(rng.choice([1, 2, 63]), [0x61, 0x41, 0x62, 0x5A, 0x7A, 0x2E, 0x00])] + rel
            if rng.chance(1, 4):
                rel = [l.upper() for l in rel]
            tail = rng.choice([[], list(ORIGIN), [b"EXAMPLE", b""], [b"exampl", b""], [b""], [b"example", b"com", b""]])
            labels = hexl(rel + tail)
        c = {"kind": "vname", "labels": labels}
        ctx.case(("vname", tuple(labels)), sample=c)
        eval_case(ctx, c)


def run(ctx: Ctx):
    _FLAGS.clear()
    for p in sorted(glob.glob(os.path.join(VERIF, "corpus", "C10", "*.json"))):
        c = json.load(open(p))
        ctx.case(("corpus", p), sample=None)
        eval_case(ctx, c)
        ctx.count("corpus")
    ctx.extra["variant_flags"] = {"/".join(k): v for k, v in probe_flags().items()}
    generate(ctx, 1 if ctx.tier == "quick" else 12, ctx.rng)


def search(ctx: Ctx):
    """failing-input search on the implementation: the disagreeing histories, then a fresh larger budget"""
    for m in ctx.mismatches[:50]:
        if m.case is not None:
            eval_case(ctx, m.case)
    generate(ctx, 2 if ctx.tier == "quick" else 24, ctx.rng.fork(7))


def replay(ctx: Ctx, obj: dict):
    _FLAGS.clear()
    eval_case(ctx, obj["case"])
    return [f.what for f in ctx.failures]


def impl_of_op(op_line: str) -> str:
    return "(histories are replayed through their case; see the replay file's `case`)"

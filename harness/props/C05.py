"""C05 — every record type's master-file text parses back to an equal record.

Oracle (all implemented types, the implementation only): for values accepted from wire and well-formed for
text (`wf_text`), `from_text(to_styled_text(rd, style), origin, relativize) == rd` for every lossless style and every
coherent origin/relativize choice; `to_text` never raises on any value accepted from wire or text; a value accepted
from text encodes to wire; the RFC 3597 generic form of known and unknown types parses back.

Correspondence: dns.ipv4 / dns.ipv6 / dns.rdata._escapify / Token.unescape(_to_bytes) / the tokenizer /
_wordbreak / per-type to_text and from_text of the modelled types vs lean/Model/{IPAddr,TextFields,RdataText}.lean.
"""
import base64
import binascii
import glob
import json
import math
import os
import re
import struct
import zlib

import dns.exception
import dns.ipv4
import dns.ipv6
import dns.name
import dns.rdata
import dns.rdataclass
import dns.rdatatype
import dns.tokenizer

import dns.ttl

from harness.core import VERIF, Ctx, enc_labels, hx
from harness.props.C05_gen import BY_NAME, LETTERS, OCTET_POOL, TYPES, G

RULE = (
    "values are structured wire forms of each of the 69 implemented record classes (every field drawn from its range with "
    "boundary pools; all 256 octet values in character-strings, names and opaque fields; TXT-like strings that are valid UTF-8 over a pool of C0/DEL/C1/NBSP/soft-hyphen/zero-width/ideographic-space/combining/astral code points under txt_is_utf8;  names below/at/outside the origin; "
    "IPv6 zero-run and embedded-IPv4 shapes; canonical and degenerate bitmaps; blob lengths around the chunk sizes), "
    "a blank / control octet (LF, CR, TAB, space, NUL, DEL, …) at the end, start or inside otherwise plain strings, labels, tags and GPOS coordinates on the wire route and as \\\\DDD at token ends on the text route; crossed "
    "with text styles (origin/relativize on the print and on the parse side, relativize_to = parent / child / unrelated name of the origin for every name-bearing type, hex/base64 chunk sizes and separators, "
    "txt_is_utf8) and the RFC 3597 generic form; text soups and mutated valid text per type for the accept side; "
    "a case is non-trivial if its key (kind, type, wire/text, style) is new"
)
TRUSTED_BASE = [
    "binascii.hexlify/unhexlify, base64.b64encode/b64decode, base64.b32encode/b32decode behave as the model's hex/base64/base32hex codecs (which are proved mutual inverses; tied by the correspondence ops)",
    "time.gmtime/strftime and calendar.timegm behave as the model's civil-calendar conversion on 0..2^32-1 (proved inverse in the model by exhaustive kernel evaluation; tied by the RRSIG/SIG correspondence cases)",
    "Python str/bytes/int semantics: int(str, 10) on ASCII, str.encode() = UTF-8, bytes.split/isdigit",
    "CPython float(str) is correctly rounded to binary64 (GPOS: the latitude / longitude range test is modelled as the exact rational comparison |N/10^d| <= B + 2^-k that correct rounding implies; boundary strings are in the correspondence corpus)",
]
ASSUMPTIONS = [
    "well-formed for text (WfText) excludes values that dnspython accepts from wire but whose presentation form cannot express them: an empty trailing hex/base64 blob (digest, key, signature, certificate, fingerprint, HIP hit/key, TKEY key, TSIG mac, NSEC3 next), KEY with NOKEY flags and key data, type bitmaps with an all-zero or zero-terminated window or with bit 0 of window 0, WKS bitmaps with trailing zero octets; these are counted (histogram degenerate.*), never reported",
    "OPT has no master-file presentation format (no from_text); only `to_text never raises` is checked for it",
    "semantic equality of a round trip is `to_wire(origin)` equality (names spelled with the origin's own case); exact equality (== and same relativity of every name) is demanded in the configurations that do not rewrite names; relativization against an origin that differs from a name's suffix only in case is C01's reading (DESIGN §6), not generated here",
    "base64 text that is not canonical (foreign characters, data after padding) is accepted liberally by base64.b64decode; such inputs are outside the model's strict codec and are skipped by the correspondence check (counted: corr.skip.noncanonical-base64); non-ASCII text in name fields (IDNA) and Unicode digits/spaces beyond Latin-1 are outside the model",
    "IDNA / non-ASCII name text, omit_final_dot, truncate_crypto (documented as lossy) are outside the property",
    "the legacy to_text(separator=...) keyword raises TypeError in dns/style.py (maps to a non-existent field); it is undocumented and outside the anchored files, so it is noted, not checked",
    "WKS protocol and service mnemonics are resolved by the host's getprotobyname / getservbyname and are outside the model (only the numeric forms, which to_text always produces; counted corr.skip.wks-mnemonic-or-non-ascii-digits); an APL item of a family other than 1/2 stores its address as hex digits exactly as written (case kept); the model's value is the octets, printed in lower case as from_wire_parser stores them, so the two agree on values from wire and modulo hex-digit case on values from text",
    "IPSECKEY / AMTRELAY keep a gateway address as the text that was given (after inet_aton validation); WfText asks for a plain token that inet_aton accepts, which inet_ntoa's output is (gatewayOk_wire4/6)",
    "texts longer than 20000 characters (the oversized-key witnesses) are checked by the oracle only (model run time)",
    "CPython refuses int() of more than 4300 decimal digits (ValueError, which from_text wraps into SyntaxError); the model's int() has no such limit, so texts with such a digit run are checked by the oracle only (counted corr.skip.more-than-4300-digits)",
    "`encodable` is read against an origin under which the value's relative names fit (n ++ origin at most 255 octets; Name.to_wire raises NameTooLong otherwise, the documented error of the request like NeedAbsoluteNameOrOrigin): names read against the from_text origin fit it by construction; the TKEY / TSIG algorithm name is read without any origin, so the oracle falls back to the root origin for it (counted ft.encode.relative-name-does-not-fit-the-origin); a relative name of 255 octets, which no origin completes, is C01's subject (counted, not reported)",
    "informational, not a C05 violation: an unknown-family APL item whose address ends in zero octets (`!7:00/255`) round-trips through text exactly and encodes, but to_wire drops the trailing zero octets (as for families 1/2) and from_wire cannot pad them back; records compare by wire form, so the two values are equal for dnspython and for the oracle's semantic equality (wire-level loss is C02's subject)",
    "per-type proof status (proved / modelled / oracle-only) is listed in the evidence under coverage.type_status",
]

ORIGINS = [[b"example", b""], [b""], [b"Sub", b"example", b"com", b""], [b"a.b", b"x y", b""], [b"\x00\xff\"", b"z", b""]]


# ------------------------------------------------------------------------------------------------
# well-formedness for text (decidable; mirrored by Model.RdataText.WfText for the modelled types)
# ------------------------------------------------------------------------------------------------
def _windows_ok(windows):
    for w, bm in windows:
        if len(bm) == 0 or bm[-1] == 0:
            return "bitmap window all-zero or zero-terminated"
        if w == 0 and bm[0] & 0x80:
            return "bitmap has bit 0 (TYPE0)"
    return None


NONEMPTY_BLOB = {
    "DS": "digest", "CDS": "digest", "DLV": "digest", "DNSKEY": "key", "CDNSKEY": "key", "TLSA": "cert", "SMIMEA": "cert",
    "SSHFP": "fingerprint", "ZONEMD": "digest", "OPENPGPKEY": "key", "DHCID": "data", "BRID": "value", "HHIT": "value",
    "CERT": "certificate", "RRSIG": "signature", "SIG": "signature", "TKEY": "key", "TSIG": "mac",
}


def wf_text(tname, rd):
    """None when the value is well-formed for text, else the reason it is degenerate."""
    f = NONEMPTY_BLOB.get(tname)
    if f is not None and len(getattr(rd, f)) == 0:
        return f"empty {f}"
    if tname == "KEY":
        nokey = (int(rd.flags) & 0xC000) == 0xC000
        if nokey and len(rd.key) > 0:
            return "NOKEY flags with key data"
        if not nokey and len(rd.key) == 0:
            return "empty key"
    if tname == "IPSECKEY" and len(rd.key) == 0 and rd.algorithm != 0:
        return "empty key"
    if tname in ("NSEC", "NSEC3", "CSYNC"):
        r = _windows_ok(rd.windows)
        if r:
            return r
    if tname == "NSEC3" and len(rd.next) == 0:
        return "empty next"
    if tname == "HIP" and (len(rd.hit) == 0 or len(rd.key) == 0):
        return "empty hit or key"
    if tname == "WKS" and len(rd.bitmap) > 0 and rd.bitmap[-1] == 0:
        return "WKS bitmap with trailing zero octets"
    if tname in ("SVCB", "HTTPS"):
        # RFC 9460 §7.1.1: the alpn value holds at least one alpn-id; the presentation format has no spelling for an
        # empty list (dnspython accepts one from wire and from alpn="" and prints a bare `alpn`, which it rejects)
        if 1 in rd.params and (rd.params[1] is None or len(getattr(rd.params[1], "ids", (0,))) == 0):
            return "empty alpn list"
    if tname == "OPT":
        return "no presentation format"
    return None


CHARSTRING_FIELDS = {
    "HINFO": ["cpu", "os"], "ISDN": ["address", "subaddress"], "X25": ["address"], "CAA": ["value"],
    "NAPTR": ["flags", "service", "regexp"], "GPOS": ["latitude", "longitude", "altitude"],
}


def _fail(ctx, signature, what, replay):
    """report at most 3 failures per signature (the frequent known classes must not crowd out a new one)"""
    seen = ctx.extra.setdefault("failures_by_signature", {})
    seen[signature] = seen.get(signature, 0) + 1
    if seen[signature] <= 3:
        ctx.fail(signature, what, replay)
    else:
        ctx.count("oracle.fail:" + signature)


# ------------------------------------------------------------------------------------------------
# helpers
# ------------------------------------------------------------------------------------------------
def cps(s: str) -> str:
    """protocol encoding of a text (list of code points)"""
    return ",".join(str(ord(c)) for c in s) if s else "-"


def mkname(labels):
    return None if labels is None else dns.name.Name(labels)


def mkstyle(st, origin):
    return dns.rdata.RdataStyle(
        origin=origin if st.get("o") else None,
        relativize=bool(st.get("rel")),
        hex_chunk_size=st.get("hcs", 128),
        hex_chunk_separator=st.get("hsep", " "),
        base64_chunk_size=st.get("bcs", 32),
        base64_chunk_separator=st.get("bsep", " "),
        txt_is_utf8=bool(st.get("utf8")),
    )


def exc_family(e):
    if isinstance(e, dns.exception.DNSException):
        return "dns:" + type(e).__name__
    return "FOREIGN:" + type(e).__name__


def wire_of(rd, origin):
    return rd.to_wire(origin=origin)


def names_of(rd):
    """all Name objects reachable from the slots (for relativity comparison)"""
    out = []
    for cls in type(rd).__mro__:
        for s in getattr(cls, "__slots__", []):
            v = getattr(rd, s, None)
            if isinstance(v, dns.name.Name):
                out.append(v)
            elif isinstance(v, tuple):
                out.extend(x for x in v if isinstance(x, dns.name.Name))
    return out


def normalized_for(rd, origin):
    """every name of rd is either relative or not a subdomain of origin (what from_wire/from_text with that origin produce)"""
    if origin is None:
        return True
    return all((not n.is_absolute()) or (not n.is_subdomain(origin)) for n in names_of(rd))


def has_relative(rd):
    return any(not n.is_absolute() for n in names_of(rd))


# ------------------------------------------------------------------------------------------------
# classification of a round-trip failure into a narrow trigger class
# ------------------------------------------------------------------------------------------------
def _sanitized_wire(tname, rdclass, rdtype, rd, origin):
    """the same record with every octet >= 0x80 of its character-string fields replaced by 'a' (None if not applicable)"""
    fields = CHARSTRING_FIELDS.get(tname)
    if not fields:
        return None
    kw = {}
    changed = False
    for f in fields:
        v = getattr(rd, f)
        nv = bytes(0x61 if c >= 0x80 else c for c in v)
        if nv != v:
            changed = True
        kw[f] = nv
    if not changed:
        return None
    try:
        return rd.replace(**kw)
    except Exception:
        return None


def _wire_len(n):
    return sum(len(l) + 1 for l in n.labels)


def _relative_names(rd):
    out = []
    for slot in rd._get_all_slots():
        v = getattr(rd, slot, None)
        for x in (v if isinstance(v, (tuple, list)) else [v]):
            if isinstance(x, dns.name.Name) and not x.is_absolute():
                out.append(x)
    return out


def relto_variants(origin):
    """relativize_to values that differ from origin: its parent, a child, an unrelated name"""
    out = []
    if len(origin.labels) >= 2:
        out.append(("parent", dns.name.Name(origin.labels[1:])))
    if _wire_len(origin) + 4 <= 255:
        out.append(("child", dns.name.Name((b"sub",) + tuple(origin.labels))))
    out.append(("unrelated", dns.name.Name((b"unrelated", b"zz", b""))))
    out.append(("empty", dns.name.empty))   # falsy: `relativize_to or origin` falls back to origin
    return out


def relto_checks(ctx, c, rep, rdclass, rdtype, tname, text, origin):
    """`from_text(text, origin, relativize=True, relativize_to=R)` with R != origin (a zone-file $ORIGIN below / above /
    beside the zone origin): a relative name in the text is completed with `origin` and the result relativized against R.
    Model correspondence on accept and reject, and the direct oracle: the value denotes the same absolute names as the
    parse with relativize=False, and its own text (relative to R) parses back to it.  False = a failure was reported."""
    if tname not in NAME_TYPES:
        return True
    for label, R in relto_variants(origin):
        try:
            ra = dns.rdata.from_text(rdclass, rdtype, text, origin=origin, relativize=True, relativize_to=R)
        except dns.exception.DNSException:
            ra = None
        except Exception as e:
            _fail(ctx, f"C05/from_text/foreign-exception/{tname}/{type(e).__name__}",
                  f"from_text({tname}, {text!r}, origin={origin}, relativize_to={R}) raised {e!r}", rep)
            return False
        model_corr_fromtext(ctx, c, tname, text, origin, True, ra, R)
        if label == "empty":
            # the empty name is falsy: the documented default (relativize against origin) applies
            try:
                rdef = dns.rdata.from_text(rdclass, rdtype, text, origin=origin, relativize=True)
            except dns.exception.DNSException:
                rdef = None
            same = (ra is None) == (rdef is None) and (ra is None or ra.to_text() == rdef.to_text())
            ctx.count("relativize_to.checked(empty)")
            if not same:
                _fail(ctx, f"C05/relativize_to/empty-name-not-default/{tname}",
                      f"{tname}: {text!r} with origin={origin}: relativize_to=<empty name> gives "
                      f"{None if ra is None else ra.to_text()!r}, no relativize_to gives {None if rdef is None else rdef.to_text()!r}", rep)
                return False
            continue
        if ra is None:
            ctx.count("relativize_to.rejected")
            continue
        try:
            rb = dns.rdata.from_text(rdclass, rdtype, text, origin=origin, relativize=False)
            wa, wb = ra.to_wire(origin=R), rb.to_wire(origin=origin)
            ta = ra.to_text()
            rc = dns.rdata.from_text(rdclass, rdtype, ta, origin=R, relativize=True)
            wc = rc.to_wire(origin=R)
        except dns.exception.DNSException:
            ctx.count("relativize_to.skip(" + label + ")")   # NameTooLong against one of the origins, degenerate values
            continue
        ctx.count("relativize_to.checked(" + label + ")")
        # relativizing replaces the matched suffix by the origin's own spelling (case): compare modulo ASCII case;
        # the TKEY / TSIG algorithm name is read without any origin, so it is not comparable across origins
        if tname not in ("TKEY", "TSIG") and wa.lower() != wb.lower():
            _fail(ctx, f"C05/relativize_to/value-differs/{tname}",
                  f"{tname}: {text!r} read with origin={origin} relativize_to={R} denotes {wa.hex()}, "
                  f"read with relativize=False {wb.hex()}", rep)
            return False
        if wf_text(tname, ra) is None and wc.lower() != wa.lower():
            _fail(ctx, f"C05/relativize_to/text-roundtrip-differs/{tname}",
                  f"{tname}: {text!r} read with origin={origin} relativize_to={R} prints {ta!r}, which read against {R} "
                  f"denotes {wc.hex()} instead of {wa.hex()}", rep)
            return False
    return True


def rejected_wire_corr(ctx, c, rep, rdclass, rdtype, tname, wire):
    """rdata that from_wire rejects: its generic text `\\# n hex` must be rejected too, by the code and by the model's
    decoder (ties the validation half of the model's from_wire, e.g. the GPOS float-string check)"""
    text = f"\\# {len(wire)} {wire.hex()}"
    try:
        r = dns.rdata.from_text(rdclass, rdtype, text)
    except dns.exception.DNSException:
        r = None
    except Exception as e:
        _fail(ctx, f"C05/from_text/foreign-exception/{tname}/{type(e).__name__}", f"from_text({tname}, {text!r}) raised {e!r}", rep)
        return
    if r is not None:
        _fail(ctx, f"C05/generic-form/accepts-what-from_wire-rejects/{tname}",
              f"{tname}: from_wire rejects {wire.hex()} but from_text accepts {text!r} as {r.to_text()!r}", rep)
        return
    model_corr_fromtext(ctx, c, tname, text, None, True, r)
    if tname in MODEL and tname not in NOWIRE:
        ctx.corr(f"c05.wire.dec {tname} o=none {hx(wire)}", "err", c)


def raw_control_in(text, style):
    """None, or a description of the first raw control character of a printed rdata text"""
    allowed = set(style.hex_chunk_separator) | set(style.base64_chunk_separator) | {" "}
    inq = False
    esc = False
    for ch in text:
        if esc:
            esc = False
            continue
        if ch == "\\":
            esc = True
            continue
        if ch == '"':
            inq = not inq
            continue
        o = ord(ch)
        if o < 0x20 and not (not inq and ch in allowed):
            return f"U+{o:04X} {'inside' if inq else 'outside'} quotes"
        if o == 0x7F and not inq:
            return "U+007F outside quotes"
    return None


def to_text_route_checks(ctx, c, rep, tname, rd, st, style, text):
    """`Rdata.to_text(origin, relativize, **kw)` builds the style from keywords: the same text as to_styled_text(style),
    and the legacy `chunksize` keyword sets both chunk sizes.  False = a failure was reported."""
    kw = dict(hex_chunk_size=style.hex_chunk_size, hex_chunk_separator=style.hex_chunk_separator,
              base64_chunk_size=style.base64_chunk_size, base64_chunk_separator=style.base64_chunk_separator,
              txt_is_utf8=style.txt_is_utf8)
    try:
        t_kw = rd.to_text(origin=style.origin, relativize=style.relativize, **kw)
        t_pos = rd.to_text(style.origin, style.relativize)
        t_ref = rd.to_styled_text(dns.rdata.RdataStyle(origin=style.origin, relativize=style.relativize))
        k = style.base64_chunk_size
        t_chunk = rd.to_text(origin=style.origin, relativize=style.relativize, chunksize=k)
        t_chunk_ref = rd.to_styled_text(dns.rdata.RdataStyle(origin=style.origin, relativize=style.relativize,
                                                            hex_chunk_size=k, base64_chunk_size=k))
        t_style = rd.to_text(style=style)
        t_def = rd.to_text(origin=style.origin)
        t_def_ref = rd.to_styled_text(dns.rdata.RdataStyle(origin=style.origin, relativize=True))
    except Exception as e:
        _fail(ctx, f"C05/to_text/keyword-route-raises/{tname}/{type(e).__name__}",
              f"{tname}: to_text keyword route raised {e!r} where to_styled_text gave {text!r}", rep)
        return False
    ctx.count("to_text.routes")
    for label, got, want in (("keywords", t_kw, text), ("positional", t_pos, t_ref), ("chunksize", t_chunk, t_chunk_ref),
                             ("style=", t_style, text), ("default-relativize", t_def, t_def_ref)):
        if got != want:
            _fail(ctx, f"C05/to_text/route-differs/{label}/{tname}",
                  f"{tname}: to_text via {label} gives {got!r}, to_styled_text gives {want!r}", rep)
            return False
    return True


def eol_checks(ctx, c, rep, rdclass, rdtype, tname, text, origin, rel, rd_ref):
    """dns.rdata.from_text end-of-line handling: a trailing comment and parentheses change nothing; a surplus token
    after a fixed-arity record is an error.  False = a failure was reported."""
    try:
        w_ref = rd_ref.to_wire(origin=origin if origin is not None else dns.name.root)
    except dns.exception.DNSException:
        return True
    variants = [("comment", text + " ; a comment ( \" ", True), ("parens", "( " + text + "\n\t)", True),
                ("parens-comment", "(\n" + text + " ; c\n ) ; d", True)]
    if tname in MODEL and MODEL[tname][1] is None and tname != "CAA":
        variants.append(("surplus-token", text + " surplus", False))
        variants.append(("surplus-quoted", text + ' ""', False))
    for label, t, accept in variants:
        try:
            r = dns.rdata.from_text(rdclass, rdtype, t, origin=origin, relativize=rel)
        except dns.exception.DNSException:
            r = None
        except Exception as e:
            _fail(ctx, f"C05/from_text/foreign-exception/{tname}/{type(e).__name__}", f"from_text({tname}, {t!r}) raised {e!r}", rep)
            return False
        model_corr_fromtext(ctx, c, tname, t, origin, rel, r)
        ctx.count("eol." + label)
        if accept:
            same = False
            if r is not None:
                try:
                    same = r.to_wire(origin=origin if origin is not None else dns.name.root) == w_ref
                except dns.exception.DNSException:
                    same = False
            if not same:
                _fail(ctx, f"C05/from_text/eol/{label}-changes-the-record/{tname}",
                      f"{tname}: {t!r} gives {'an error' if r is None else repr(r.to_text())}, {text!r} gives {rd_ref.to_text()!r}", rep)
                return False
        elif r is not None:
            _fail(ctx, f"C05/from_text/eol/{label}-accepted/{tname}",
                  f"{tname}: {t!r} is accepted (as {r.to_text()!r}) although a token follows the complete record", rep)
            return False
    # the Tokenizer route (what the zone reader does): two records on consecutive lines of one tokenizer, default
    # relativize argument; each call consumes exactly its own line
    try:
        tok = dns.tokenizer.Tokenizer(text + " ; first\n" + text + "\n")
        r1 = dns.rdata.from_text(rdclass, rdtype, tok, origin, rel)
        r2 = dns.rdata.from_text(rdclass, rdtype, tok, origin, rel)
        end = tok.get().is_eof()
        ws = [x.to_wire(origin=origin if origin is not None else dns.name.root) for x in (r1, r2)]
        rdflt = dns.rdata.from_text(rdclass, rdtype, text, origin)
        wdflt = dns.rdata.from_text(rdclass, rdtype, text, origin, True).to_text()
    except dns.exception.DNSException as e:
        _fail(ctx, f"C05/from_text/tokenizer-route-raises/{tname}", f"{tname}: two lines {text!r} through one Tokenizer: {e!r}", rep)
        return False
    ctx.count("eol.tokenizer-route")
    if ws != [w_ref, w_ref] or not end:
        _fail(ctx, f"C05/from_text/tokenizer-route-differs/{tname}",
              f"{tname}: two lines {text!r} through one Tokenizer give {r1.to_text()!r}, {r2.to_text()!r}, at eof: {end}", rep)
        return False
    if rdflt.to_text() != wdflt:
        _fail(ctx, f"C05/from_text/default-relativize-differs/{tname}",
              f"{tname}: {text!r} origin={origin}: default relativize gives {rdflt.to_text()!r}, relativize=True {wdflt!r}", rep)
        return False
    return True


def generic_variants(ctx, c, rep, rdclass, rdtype, tname, wire, origin, rel, rd_ref):
    """RFC 3597 syntax around a correct `\\# n hex`: spellings that must give the same record, and texts whose
    declared length disagrees with the data, which must be rejected.  False = a failure was reported."""
    n, h = len(wire), wire.hex()
    k = (len(h) // 4) * 2
    good = [("upper", f"\\# {n} {h.upper()}"), ("split", f"\\# {n} {h[:k]} {h[k:]}" if n >= 2 else f"\\# {n} {h}"),
            ("parens", f"\\# {n} ( {h[:k]}\n {h[k:]} ) ; c" if n >= 2 else f"( \\# {n} {h} )"),
            ("plus", f"\\# +{n} {h}"), ("zeros", f"\\# 00{n} {h}")]
    bad = [("length+1", f"\\# {n + 1} {h}"), ("data+1", f"\\# {n} {h}00"), ("odd", f"\\# {n} {h}0"),
           ("junk", f"\\# {n} {h} zz"), ("negative", f"\\# -{n if n else 1} {h}")]
    if not h.isdigit():
        bad.append(("no-length", f"\\# {h}" if n != 0 else "\\#"))
    if tname not in TXT_LIKE:
        bad.append(("quoted-hash", f'"\\#" {n} {h}'))
    if n > 0:
        bad += [("length-1", f"\\# {n - 1} {h}"), ("data-1", f"\\# {n} {h[:-2]}"), ("no-data", f"\\# {n}")]
    try:
        w_ref = rd_ref.to_wire(origin=origin if origin is not None else dns.name.root)
    except dns.exception.DNSException:
        return True
    for label, t in good + bad:
        accept = (label, t) in good
        try:
            r = dns.rdata.from_text(rdclass, rdtype, t, origin=origin, relativize=rel)
        except dns.exception.DNSException:
            r = None
        except Exception as e:
            _fail(ctx, f"C05/from_text/foreign-exception/{tname}/{type(e).__name__}", f"from_text({tname}, {t!r}) raised {e!r}", rep)
            return False
        model_corr_fromtext(ctx, c, tname, t, origin, rel, r)
        ctx.count("generic.variant." + label)
        if accept:
            ok = False
            if r is not None:
                try:
                    ok = r.to_wire(origin=origin if origin is not None else dns.name.root) == w_ref
                except dns.exception.DNSException:
                    ok = False
            if not ok:
                _fail(ctx, f"C05/generic-form/spelling-{label}-changes-the-record/{'unknown-type' if tname.startswith('TYPE') else tname}",
                      f"{tname}: {t!r} gives {'an error' if r is None else repr(r.to_text())}", rep)
                return False
        elif r is not None:
            _fail(ctx, f"C05/generic-form/malformed-{label}-accepted/{'unknown-type' if tname.startswith('TYPE') else tname}",
                  f"{tname}: {t!r} is accepted (as {r.to_text()!r})", rep)
            return False
    return True


def api_shape_checks(ctx, c, rep, rdclass, rdtype, tname, text, origin, rel, rd, rd2):
    """direct oracles on the entry points themselves (False = a failure was reported):
    - the equality-like relations between the from-wire value `rd` and the from-text value `rd2` are coherent
      (== symmetric, != its negation, hash / <= / >= / set membership agree with ==), and values that print the same
      under the default style are equal;
    - rdclass / rdtype given as mnemonic text, as plain ints or as enum members select the same parser;
    - the falsy empty name as origin (from_text, to_text) means `no origin`;
    - the idna_codec keyword does not change the reading of ASCII text."""
    try:
        eq, eq2, ne = (rd == rd2), (rd2 == rd), (rd != rd2)
        coherent = eq == eq2 and ne == (not eq)
        if eq:
            coherent = coherent and hash(rd) == hash(rd2) and rd <= rd2 and rd >= rd2 and not rd < rd2 and rd2 in {rd} and rd2 in [rd]
        same_text = rd.to_text() == rd2.to_text()
    except Exception as e:
        _fail(ctx, f"C05/equality/raises/{tname}/{type(e).__name__}", f"{tname}: comparing the values of {text!r}: {e!r}", rep)
        return False
    ctx.count("api.equality")
    if not coherent or (same_text and not eq):
        _fail(ctx, f"C05/equality/{'incoherent' if not coherent else 'same-text-not-equal'}/{tname}",
              f"{tname}: from wire {rd.to_text()!r}, from text {rd2.to_text()!r}: ==:{eq}/{eq2} !=:{ne}", rep)
        return False
    try:
        ctext, ttext = dns.rdataclass.to_text(rdclass), dns.rdatatype.to_text(rdtype)
        variants = [("mnemonics", dns.rdata.from_text(ctext, ttext, text, origin=origin, relativize=rel)),
                    ("lower-case mnemonics", dns.rdata.from_text(ctext.lower(), ttext.lower(), text, origin=origin, relativize=rel)),
                    ("ints", dns.rdata.from_text(int(rdclass), int(rdtype), text, origin=origin, relativize=rel)),
                    ("enums", dns.rdata.from_text(dns.rdataclass.RdataClass(int(rdclass)), dns.rdatatype.RdataType(int(rdtype)), text,
                                                  origin=origin, relativize=rel)),
                    ("TYPEnnn/CLASSnnn", dns.rdata.from_text(f"CLASS{int(rdclass)}", f"TYPE{int(rdtype)}", text, origin=origin, relativize=rel)),
                    ("idna_codec", dns.rdata.from_text(rdclass, rdtype, text, origin=origin, relativize=rel,
                                                       idna_codec=dns.name.IDNA_2003))]
        if origin is None:
            variants.append(("empty-origin", dns.rdata.from_text(rdclass, rdtype, text, origin=dns.name.empty, relativize=rel)))
        t_empty = [rd2.to_text(origin=dns.name.empty, relativize=r) for r in (True, False)]
    except Exception as e:
        _fail(ctx, f"C05/from_text/argument-form-raises/{tname}/{type(e).__name__}",
              f"{tname}: {text!r} is accepted with enum arguments but an equivalent argument form raised {e!r}", rep)
        return False
    ctx.count("api.argument-forms")
    ref = rd2.to_text()
    for label, r in variants:
        if type(r) is not type(rd2) or r.to_text() != ref or r.rdtype != rd2.rdtype or r.rdclass != rd2.rdclass:
            _fail(ctx, f"C05/from_text/argument-form-differs/{label}/{tname}",
                  f"{tname}: {text!r} read with {label} gives {type(r).__name__} {r.to_text()!r}, with enum arguments "
                  f"{type(rd2).__name__} {ref!r}", rep)
            return False
    if t_empty != [ref, ref]:
        _fail(ctx, f"C05/to_text/empty-origin-differs/{tname}",
              f"{tname}: to_text(origin=<empty name>) gives {t_empty!r}, to_text() gives {ref!r}", rep)
        return False
    if origin is None and tname in NAME_TYPES:
        model_corr_fromtext(ctx, c, tname, text, dns.name.empty, rel, rd2)
    return True


def trigger_class(tname, rdclass, rdtype, rd, origin, recheck):
    """recheck(rd') -> True when the same round trip succeeds on rd'"""
    if tname in CHARSTRING_FIELDS and tname != "GPOS":
        rd2 = _sanitized_wire(tname, rdclass, rdtype, rd, origin)
        if rd2 is not None and recheck(rd2):
            return "octet>=0x80-in-char-string"
    if tname == "URI":
        t = rd.target
        try:
            t.decode()
        except UnicodeDecodeError:
            return "non-utf8-target"
        if any(c in t for c in b'"\\\n'):
            return "unescaped-quote-backslash-newline-in-target"
    if tname == "APL":
        if any(it.family not in (1, 2) for it in rd.items):
            return "unknown-address-family"
    if tname == "IPSECKEY" and rd.algorithm == 0 and len(rd.key) == 0:
        return "algorithm-0-no-key"
    if tname in ("L64", "NID"):
        # the text is stored as written; int(chunk, 16) strips whitespace, so an escaped blank can sit inside a chunk
        stored = rd.locator64 if tname == "L64" else rd.nodeid
        if any(ch in ' \t\n;()"' for ch in stored):
            return "tokenizer-delimiter-in-stored-hex-chunk"
    return "other"


# ------------------------------------------------------------------------------------------------
# the oracle
# ------------------------------------------------------------------------------------------------
def eval_rt(ctx: Ctx, c: dict):
    """round trip of a value accepted from wire, under one style and one parse configuration"""
    rep = {"kind": "rt", "case": c}
    rdclass, rdtype, tname, _ = BY_NAME[c["type"]]
    wire = bytes.fromhex(c["wire"])
    origin = mkname([bytes.fromhex(x) for x in c["origin"]]) if c.get("origin") is not None else None
    worigin = origin if c.get("wire_origin", 1) else None
    try:
        rd = dns.rdata.from_wire(rdclass, rdtype, wire, 0, len(wire), worigin)
    except Exception as e:
        ctx.count("gen.rejected-by-from_wire")
        if not isinstance(e, dns.exception.DNSException):
            _fail(ctx, f"C05/from_wire/foreign-exception/{tname}/{type(e).__name__}", f"from_wire({tname}, {wire.hex()}) raised {e!r}", rep)
            return
        rejected_wire_corr(ctx, c, rep, rdclass, rdtype, tname, wire)
        return
    ctx.count("type." + tname)
    if tname in MODEL and tname not in NOWIRE:
        # the model's from_wire (decoder + constructor validation, e.g. the GPOS float strings) on every accepted value
        ctx.corr(f"c05.wire.dec {tname} o={enc_optname(worigin)} {hx(wire)}", "ok " + dump(tname, rd), c)
    st = c.get("style", {})
    style = mkstyle(st, origin)
    # --- producing text never fails (any accepted value, degenerate or not)
    texts = []
    for label, fn in (("default", lambda: rd.to_text()), ("styled", lambda: rd.to_styled_text(style))):
        try:
            texts.append(fn())
        except Exception as e:
            if st.get("o") and not st.get("rel") and isinstance(e, dns.name.NameTooLong):
                # derelativising against the style origin overflows 255 octets: the documented error of the request
                ctx.count("style.derelativize-too-long")
                texts.append(None)
                continue
            trig = trigger_class(tname, rdclass, rdtype, rd, origin, lambda r: _no_raise(lambda: r.to_text()))
            _fail(ctx, f"C05/to_text/raises/{tname}/{type(e).__name__}/{trig}",
                     f"{tname}.to_text() raised {e!r} on a value accepted from wire {wire.hex()}", rep)
            corr_print(ctx, c, tname, rd, {} if label == "default" else st, origin, None)
            return
    text = texts[1]
    corr_print(ctx, c, tname, rd, st, origin, text)
    if tname in MODEL and tname not in NOENC:
        # the model's wire encoder (used by the generic-form re-encode check and by `text_accepts_encodable`)
        wo = origin if origin is not None else dns.name.root
        try:
            wimpl = "ok " + hx(rd.to_wire(origin=wo))
        except Exception:
            wimpl = "err"
        ctx.corr(f"c05.wire.enc {tname} o={enc_optname(wo)} {dump(tname, rd)}", wimpl, c)
    if text is None:
        return
    c["_text"] = text  # for the replay file only
    # --- the printed text carries no raw control octet: everything below 0x20 (and DEL outside quotes) is escaped, except
    # the blanks of the style's own chunk separators
    bad = raw_control_in(text, style)
    if bad is not None:
        _fail(ctx, f"C05/to_text/raw-control-octet/{tname}",
              f"{tname}: value from wire {wire.hex()} prints as {text!r}: raw {bad} in the text", rep)
        return
    # --- a text printed with (origin, relativize=False) is self-contained: read without any origin it has no relative
    # name left and denotes the value derelativized against that origin
    if style.origin is not None and not style.relativize and tname in NAME_TYPES:
        try:
            w_abs = rd.to_wire(origin=style.origin)
        except dns.exception.DNSException:
            w_abs = None
        if w_abs is not None:
            try:
                r0 = dns.rdata.from_text(rdclass, rdtype, text)
                w0 = r0.to_wire() if wf_text(tname, rd) is None else w_abs
            except dns.exception.DNSException as e:
                if wf_text(tname, rd) is None:
                    _fail(ctx, f"C05/style/derelativized-text-not-self-contained/{tname}",
                          f"{tname}: printed with origin={style.origin} relativize=False as {text!r}; read without an origin: {e!r}", rep)
                    return
                w0 = w_abs
            ctx.count("style.derelativized-selfcontained")
            if w0.lower() != w_abs.lower():
                _fail(ctx, f"C05/style/derelativized-text-differs/{tname}",
                      f"{tname}: printed with origin={style.origin} relativize=False as {text!r}, which denotes {w0.hex()} not {w_abs.hex()}", rep)
                return
    # --- the keyword route `to_text(origin, relativize, **kw)` (observe point) agrees with to_styled_text
    if not to_text_route_checks(ctx, c, rep, tname, rd, st, style, text):
        return
    why = wf_text(tname, rd)
    if why is not None:
        ctx.count("degenerate." + why.replace(" ", "-"))
        if tname in MODEL:
            try:
                r2 = dns.rdata.from_text(rdclass, rdtype, text, origin=origin)
            except dns.exception.DNSException:
                r2 = None
            model_corr_fromtext(ctx, c, tname, text, origin, True, r2)
        return
    ctx.count("wf")
    # --- parse back
    p = c.get("parse", {})
    porigin = origin if p.get("o", 1) else None
    prel = bool(p.get("rel", 1))
    prto = origin if p.get("rto") else None

    def roundtrip(r):
        t = r.to_styled_text(style)
        r2 = dns.rdata.from_text(rdclass, rdtype, t, origin=porigin, relativize=prel, relativize_to=prto)
        return r2

    try:
        rd2 = roundtrip(rd)
        model_corr_fromtext(ctx, c, tname, text, porigin, prel, rd2, prto)
    except Exception as e:
        model_corr_fromtext(ctx, c, tname, text, porigin, prel, None, prto)

        def ok(r):
            try:
                roundtrip(r)
                return True
            except Exception:
                return False
        trig = trigger_class(tname, rdclass, rdtype, rd, origin, ok)
        _fail(ctx, f"C05/text-roundtrip/{tname}/parse-fails/{trig}",
                 f"from_text({tname}, {text!r}) raised {exc_family(e)} {e!r}; value from wire {wire.hex()}", rep)
        return
    # --- relativize_to different from origin
    if porigin is not None and not relto_checks(ctx, c, rep, rdclass, rdtype, tname, text, porigin):
        return
    # --- end of line: comment, parentheses, surplus token
    if zlib.crc32(wire) % 2 == 0 and not eol_checks(ctx, c, rep, rdclass, rdtype, tname, text, porigin, prel, rd2):
        return   # (every second value: run time of the quick tier)
    # --- equal record
    cmp_origin = origin if origin is not None else dns.name.root
    try:
        w1 = wire_of(rd, cmp_origin)
        w2 = wire_of(rd2, cmp_origin)
    except Exception as e:
        _fail(ctx, f"C05/text-accepted-encodes/{tname}/raises/{type(e).__name__}",
                 f"{tname}: value parsed from {text!r} cannot be encoded: {e!r}", rep)
        return
    exact_expected = (not st.get("o")) and ((porigin is None) or (prel and prto is None and normalized_for(rd, origin))
                                            or not names_of(rd))
    bad = None
    if w1 != w2:
        bad = "value-differs"
    elif exact_expected and not (rd2 == rd and [n.is_absolute() for n in names_of(rd2)] == [n.is_absolute() for n in names_of(rd)]):
        bad = "relativity-differs"
    if bad:
        def ok(r):
            try:
                return wire_of(roundtrip(r), cmp_origin) == wire_of(r, cmp_origin)
            except Exception:
                return False
        trig = trigger_class(tname, rdclass, rdtype, rd, origin, ok)
        if tname == "LOC" and trig == "other" and _loc_only_altitude_cm(rd, rd2):
            trig = "altitude-cm-float-truncation"
        _fail(ctx, f"C05/text-roundtrip/{tname}/{bad}/{trig}",
                 f"{tname}: {text!r} parses to a different record ({rd2.to_text()!r}); value from wire {wire.hex()}", rep)
        return
    ctx.count("rt.ok" + (".exact" if exact_expected else ".semantic"))
    # --- phase-5 checklist: equality relation across routes, argument types, falsy origin, idna_codec keyword
    if not api_shape_checks(ctx, c, rep, rdclass, rdtype, tname, text, porigin, prel, rd, rd2):
        return
    # --- a record accepted from text can be printed and encoded
    try:
        rd2.to_text()
        rd2.to_wire(origin=cmp_origin)
    except Exception as e:
        _fail(ctx, f"C05/text-accepted-total/{tname}/raises/{type(e).__name__}", f"{tname}: value parsed from {text!r}: {e!r}", rep)


def _loc_only_altitude_cm(rd, rd2):
    """the two LOC records differ on the wire in the altitude field only, by one centimetre, the text value being the larger"""
    try:
        w1, w2 = rd.to_wire(), rd2.to_wire()
        a1, a2 = struct.unpack("!I", w1[12:16])[0], struct.unpack("!I", w2[12:16])[0]
        return w1[:12] == w2[:12] and abs(a1 - a2) == 1 and abs(rd.altitude - rd2.altitude) < 1e-3
    except Exception:
        return False


def _no_raise(fn):
    try:
        fn()
        return True
    except Exception:
        return False


def eval_generic(ctx: Ctx, c: dict):
    """RFC 3597 generic form of a known type (value from wire) or of an unknown type code"""
    rep = {"kind": "generic", "case": c}
    wire = bytes.fromhex(c["wire"])
    origin = mkname([bytes.fromhex(x) for x in c["origin"]]) if c.get("origin") is not None else None
    st = c.get("style", {})
    style = mkstyle(st, None)
    if c["type"].startswith("TYPE"):
        rdclass, rdtype, tname = 1, int(c["type"][4:]), c["type"]
        try:
            rd = dns.rdata.from_wire(rdclass, rdtype, wire, 0, len(wire))
            text = rd.to_styled_text(style)
            if c.get("zero_form") and len(wire) == 0:
                text = "\\# 0"
            rd2 = dns.rdata.from_text(rdclass, rdtype, text, origin=origin, relativize=bool(c.get("rel", 1)))
        except Exception as e:
            _fail(ctx, f"C05/generic-form/unknown-type/raises/{type(e).__name__}", f"TYPE{rdtype} \\# form of {wire.hex()} raised {e!r}", rep)
            return
        if not (c.get("zero_form") and len(wire) == 0):
            ctx.corr(f"c05.generic.print {hx(wire)} {st.get('hcs', 128)} {cps(st.get('hsep', ' '))}", "ok " + cps(text), c)
        model_corr_fromtext(ctx, c, tname, text, origin, bool(c.get("rel", 1)), rd2)
        if not (rd2 == rd and rd2.to_wire() == wire and isinstance(rd2, dns.rdata.GenericRdata)):
            _fail(ctx, "C05/generic-form/unknown-type/value-differs", f"TYPE{rdtype} {text!r} parses to {rd2!r}", rep)
        ctx.count("generic.unknown.ok")
        generic_variants(ctx, c, rep, rdclass, rdtype, tname, wire, origin, bool(c.get("rel", 1)), rd2)
        return
    rdclass, rdtype, tname, _ = BY_NAME[c["type"]]
    try:
        rd = dns.rdata.from_wire(rdclass, rdtype, wire, 0, len(wire), origin if c.get("wire_origin") else None)
    except Exception:
        ctx.count("gen.rejected-by-from_wire")
        rejected_wire_corr(ctx, c, rep, rdclass, rdtype, tname, wire)
        return
    worigin = origin if origin is not None else dns.name.root
    try:
        g = rd.to_generic(worigin if has_relative(rd) else None)
        text = g.to_styled_text(style)
    except Exception as e:
        _fail(ctx, f"C05/generic-form/known-type/to_generic-raises/{tname}/{type(e).__name__}", f"{tname} {wire.hex()}: {e!r}", rep)
        return
    porigin = origin if c.get("parse_origin") else None
    try:
        rd2 = dns.rdata.from_text(rdclass, rdtype, text, origin=porigin, relativize=bool(c.get("rel", 1)))
        model_corr_fromtext(ctx, c, tname, text, porigin, bool(c.get("rel", 1)), rd2)
    except Exception as e:
        model_corr_fromtext(ctx, c, tname, text, porigin, bool(c.get("rel", 1)), None)
        trig = "other"
        if porigin is not None and any(n.is_subdomain(porigin) for n in
                                       names_of(dns.rdata.from_wire(rdclass, rdtype, g.data, 0, len(g.data)))):
            # the same text parses without an origin?
            if _no_raise(lambda: dns.rdata.from_text(rdclass, rdtype, text)):
                trig = "name-under-origin"
        _fail(ctx, f"C05/generic-form/known-type/parse-fails/{trig}",
                 f"{tname}: generic form {text!r} with origin {porigin} raised {exc_family(e)} {e!r}", rep)
        return
    try:
        same = wire_of(rd2, worigin) == wire_of(rd, worigin)
    except Exception as e:
        _fail(ctx, f"C05/generic-form/known-type/encode-raises/{tname}", f"{tname}: {text!r}: {e!r}", rep)
        return
    if not same:
        _fail(ctx, f"C05/generic-form/known-type/value-differs/{tname}", f"{tname}: generic form {text!r} parses to {rd2.to_text()!r}", rep)
        return
    ctx.count("generic.known.ok")
    rel = bool(c.get("rel", 1))
    if zlib.crc32(wire) % 2 == 1 and not generic_variants(ctx, c, rep, rdclass, rdtype, tname, g.data, porigin, rel, rd2):
        return
    # the generic form under relativize_to different from origin
    if porigin is not None:
        relto_checks(ctx, c, rep, rdclass, rdtype, tname, text, porigin)


def eval_ft(ctx: Ctx, c: dict):
    """a text (soup or mutated valid text): if accepted, the value prints, encodes and re-parses to itself"""
    rep = {"kind": "ft", "case": c}
    rdclass, rdtype, tname, _ = BY_NAME[c["type"]]
    text = c["text"]
    origin = mkname([bytes.fromhex(x) for x in c["origin"]]) if c.get("origin") is not None else None
    rel = bool(c.get("rel", 1))
    try:
        rd = dns.rdata.from_text(rdclass, rdtype, text, origin=origin, relativize=rel)
    except dns.exception.DNSException as e:
        ctx.count("ft.rejected")
        model_corr_fromtext(ctx, c, tname, text, origin, rel, None)
        if origin is not None:
            relto_checks(ctx, c, rep, rdclass, rdtype, tname, text, origin)
        return
    except Exception as e:
        _fail(ctx, f"C05/from_text/foreign-exception/{tname}/{type(e).__name__}", f"from_text({tname}, {text!r}) raised {e!r}", rep)
        return
    ctx.count("ft.accepted")
    model_corr_fromtext(ctx, c, tname, text, origin, rel, rd)
    if origin is not None and not relto_checks(ctx, c, rep, rdclass, rdtype, tname, text, origin):
        return
    cmp_origin = origin if origin is not None else dns.name.root
    # accepted from text => encodable (against an origin under which the relative names of the value fit: a name that
    # from_text read against `origin` fits it by construction, but the TKEY / TSIG algorithm is read without any origin;
    # `NameTooLong` is then the documented error of the request, like NeedAbsoluteNameOrOrigin without an origin)
    try:
        try:
            w = rd.to_wire(origin=cmp_origin)
        except dns.name.NameTooLong:
            if not any(_wire_len(n) + _wire_len(cmp_origin) > 255 for n in _relative_names(rd)):
                raise
            ctx.count("ft.encode.relative-name-does-not-fit-the-origin")
            if any(_wire_len(n) + 1 > 255 for n in _relative_names(rd)):
                # a relative name of 255 octets cannot be completed by any origin (C01's subject)
                ctx.count("ft.encode.relative-name-of-255-octets")
                return
            cmp_origin = dns.name.root
            w = rd.to_wire(origin=cmp_origin)
    except Exception as e:
        trig = "other"
        if tname == "LOC":
            a = rd.altitude
            if not (math.isfinite(a) and 0 <= int(a) + 10000000 <= 0xFFFFFFFF):
                trig = "altitude-out-of-range"
        if tname == "HIP" and len(rd.key) > 65535:
            trig = "key-longer-than-its-16-bit-length-field"
        if tname == "TKEY" and (len(rd.key) > 65535 or len(rd.other) > 65535):
            trig = "key-or-other-longer-than-its-16-bit-length-field"
        _fail(ctx, f"C05/text-accepted-encodes/{tname}/raises/{trig}",
                 f"{tname}: {text!r} is accepted by from_text but to_wire raises {e!r}", rep)
        return
    # accepted from text => printable
    try:
        t2 = rd.to_text(origin=origin, relativize=rel) if origin is not None else rd.to_text()
    except Exception as e:
        if (isinstance(e, dns.name.NameTooLong) and origin is not None and not rel
                and any(_wire_len(n) + _wire_len(origin) > 255 for n in _relative_names(rd))):
            # derelativising (relativize=False) a name that was read without the origin overflows 255 octets: the
            # documented error of the request, as in the from-wire oracle (style.derelativize-too-long)
            ctx.count("ft.print.derelativize-too-long")
            return
        trig = trigger_class(tname, rdclass, rdtype, rd, origin, lambda r: _no_raise(lambda: r.to_text()))
        _fail(ctx, f"C05/to_text/raises/{tname}/{type(e).__name__}/{trig}",
                 f"{tname}: value accepted from text {text!r} cannot be printed: {e!r}", rep)
        return
    if wf_text(tname, rd) is not None:
        ctx.count("ft.degenerate")
        return
    try:
        rd2 = dns.rdata.from_text(rdclass, rdtype, t2, origin=origin, relativize=rel)
        same = rd2.to_wire(origin=cmp_origin) == w
    except Exception as e:
        def ok(r):
            try:
                tt = r.to_text(origin=origin, relativize=rel) if origin is not None else r.to_text()
                return dns.rdata.from_text(rdclass, rdtype, tt, origin=origin, relativize=rel).to_wire(origin=cmp_origin) == r.to_wire(origin=cmp_origin)
            except Exception:
                return False
        trig = trigger_class(tname, rdclass, rdtype, rd, origin, ok)
        _fail(ctx, f"C05/text-roundtrip/{tname}/parse-fails/{trig}",
                 f"{tname}: {text!r} accepted, printed as {t2!r}, which raises {e!r}", rep)
        return
    if not same:
        def ok(r):
            try:
                tt = r.to_text(origin=origin, relativize=rel) if origin is not None else r.to_text()
                return dns.rdata.from_text(rdclass, rdtype, tt, origin=origin, relativize=rel).to_wire(origin=cmp_origin) == r.to_wire(origin=cmp_origin)
            except Exception:
                return False
        trig = trigger_class(tname, rdclass, rdtype, rd, origin, ok)
        if tname == "LOC" and trig == "other" and _loc_only_altitude_cm(rd, rd2):
            trig = "altitude-cm-float-truncation"
        _fail(ctx, f"C05/text-roundtrip/{tname}/value-differs/{trig}",
                 f"{tname}: {text!r} accepted, printed as {t2!r}, which parses to a different record", rep)
        return
    ctx.count("ft.rt.ok")


# ------------------------------------------------------------------------------------------------
# correspondence with the Lean model
# ------------------------------------------------------------------------------------------------
import socket

_N = ("target", "nm")
_MX = ([("preference", "u"), ("exchange", "nm")], None)
_TXT = ([], ("strings", "bl"))
_DS = ([("key_tag", "u"), ("algorithm", "u"), ("digest_type", "u")], ("digest", "b"))
_TLSA = ([("usage", "u"), ("selector", "u"), ("mtype", "u")], ("cert", "b"))
_DNSKEY = ([("flags", "u"), ("protocol", "u"), ("algorithm", "u")], ("key", "b"))
_RRSIG = ([("type_covered", "u"), ("algorithm", "u"), ("labels", "u"), ("original_ttl", "u"), ("expiration", "u"), ("inception", "u"),
           ("key_tag", "u"), ("signer", "nm")], ("signature", "b"))
# type -> (prefix fields [(slot, kind)], tail (slot, kind) | None); mirrors Model.RdataText.schemaOf
MODEL = {
    "A": ([("address", "ip4")], None), "AAAA": ([("address", "ip6")], None),
    "NS": ([_N], None), "CNAME": ([_N], None), "PTR": ([_N], None), "DNAME": ([_N], None), "NSAP-PTR": ([_N], None),
    "MX": _MX, "AFSDB": _MX, "RT": _MX, "KX": _MX, "LP": ([("preference", "u"), ("fqdn", "nm")], None),
    "PX": ([("preference", "u"), ("map822", "nm"), ("mapx400", "nm")], None),
    "SRV": ([("priority", "u"), ("weight", "u"), ("port", "u"), ("target", "nm")], None),
    "RP": ([("mbox", "nm"), ("txt", "nm")], None),
    "SOA": ([("mname", "nm"), ("rname", "nm"), ("serial", "u"), ("refresh", "u"), ("retry", "u"), ("expire", "u"), ("minimum", "u")], None),
    "TXT": _TXT, "SPF": _TXT, "AVC": _TXT, "NINFO": _TXT, "RESINFO": _TXT, "WALLET": _TXT,
    "HINFO": ([("cpu", "b"), ("os", "b")], None), "X25": ([("address", "b")], None),
    "ISDN": ([("address", "b")], ("subaddress", "b")),
    "NAPTR": ([("order", "u"), ("preference", "u"), ("flags", "b"), ("service", "b"), ("regexp", "b"), ("replacement", "nm")], None),
    "CAA": ([("flags", "u"), ("tag", "b"), ("value", "b")], None),
    "URI": ([("priority", "u"), ("weight", "u"), ("target", "b")], None),
    "DS": _DS, "DLV": _DS, "CDS": _DS, "TLSA": _TLSA, "SMIMEA": _TLSA,
    "SSHFP": ([("algorithm", "u"), ("fp_type", "u")], ("fingerprint", "b")),
    "ZONEMD": ([("serial", "u"), ("scheme", "u"), ("hash_algorithm", "u")], ("digest", "b")),
    "DNSKEY": _DNSKEY, "CDNSKEY": _DNSKEY,
    "DHCID": ([], ("data", "b")), "OPENPGPKEY": ([], ("key", "b")), "BRID": ([], ("value", "b")), "HHIT": ([], ("value", "b")),
    "L32": ([("preference", "u"), ("locator32", "ip4")], None),
    "NSEC3PARAM": ([("algorithm", "u"), ("flags", "u"), ("iterations", "u"), ("salt", "b")], None),
    "CH-A": ([("domain", "nm"), ("address", "u")], None),
    "EUI48": ([("eui", "b")], None), "EUI64": ([("eui", "b")], None),
    "NID": ([("preference", "u"), ("nodeid", "wire2")], None), "L64": ([("preference", "u"), ("locator64", "wire2")], None),
    "NSAP": ([("address", "b")], None),
    "CERT": ([("certificate_type", "u"), ("key_tag", "u"), ("algorithm", "u")], ("certificate", "b")),
    "DSYNC": ([("rrtype", "u"), ("scheme", "u"), ("port", "u"), ("target", "nm")], None),
    "KEY": _DNSKEY,
    "RRSIG": _RRSIG, "SIG": _RRSIG,
    "HIP": ([("algorithm", "u"), ("hit", "b"), ("key", "b")], ("servers", "nl")),
    "TKEY": ([("algorithm", "nm"), ("inception", "u"), ("expiration", "u"), ("mode", "u"), ("error", "u"), ("key", "b")], ("other", "b")),
    "TSIG": ([("algorithm", "nm"), ("time_signed", "u"), ("fudge", "u"), ("mac", "len"), ("mac", "b"), ("original_id", "u"), ("error", "u"),
              ("other", "len")], ("other", "b")),
    "NSEC": ([("next", "nm")], ("windows", "wl")),
    "CSYNC": ([("serial", "u"), ("flags", "u")], ("windows", "wl")),
    "NSEC3": ([("algorithm", "u"), ("flags", "u"), ("iterations", "u"), ("salt", "b"), ("next", "b")], ("windows", "wl")),
    "APL": ([], ("items", "apl")),
    "WKS": ([], ("bitmap", "wks")),
    "GPOS": ([("latitude", "b"), ("longitude", "b"), ("altitude", "b")], None),
    "IPSECKEY": ([("precedence", "u"), ("gateway_type", "u"), ("algorithm", "u")], ("key", "gw")),
    "AMTRELAY": ([("precedence", "u"), ("discovery_optional", "u"), ("relay_type", "u")], ("relay", "gw")),
}
B64_TAIL = {"DNSKEY", "CDNSKEY", "DHCID", "OPENPGPKEY", "BRID", "HHIT", "CERT", "KEY", "RRSIG", "SIG", "IPSECKEY"}
B64_TAIL_SKIP = {"IPSECKEY": 1}  # tokens of the tail before the base64 text (the gateway)
NOWIRE = {"HIP", "TKEY", "TSIG", "IPSECKEY", "AMTRELAY", "APL", "WKS"}  # modelled without a wire decoder: their generic form is oracle-only
NAME_TYPES = {"SVCB", "HTTPS"} | {t for t, (fs, tl) in MODEL.items() if any(k == "nm" for _, k in fs) or (tl is not None and tl[1] in ("nl", "gw"))}
NOENC = {"AMTRELAY"}  # ... and without a wire encoder (to_wire: oracle only)
B64_ONE = {"HIP": [("key", 2)], "TKEY": [("key", 5)], "TSIG": [("mac", 4), ("other", 8)]}  # base64 values read from a single token (its index)
TXT_LIKE = {"TXT", "SPF", "AVC", "NINFO", "RESINFO", "WALLET"}


def enc_optname(n):
    return "none" if n is None else enc_labels(n.labels)


def _fv(v, kind):
    if kind == "u":
        return "u" + str(int(v))
    if kind == "nm":
        return "n" + enc_labels(v.labels)
    if kind == "b":
        return "b" + hx(bytes(v))
    if kind == "ip4":
        return "b" + hx(socket.inet_pton(socket.AF_INET, v))
    if kind == "ip6":
        return "b" + hx(socket.inet_pton(socket.AF_INET6, v))
    if kind == "bl":
        return "l" + ";".join(hx(bytes(x)) for x in v)
    if kind == "len":
        return "u" + str(len(v))
    if kind == "nl":
        return "m" + ";".join(enc_labels(x.labels) for x in v)
    if kind == "apl":
        def addr(it):
            if it.family == 1:
                return socket.inet_pton(socket.AF_INET, it.address)
            if it.family == 2:
                return socket.inet_pton(socket.AF_INET6, it.address)
            return binascii.unhexlify(it.address)
        return "a" + ";".join(f"{int(it.family)}:{1 if it.negation else 0}:{hx(addr(it))}:{int(it.prefix)}" for it in v)
    if kind == "wl":
        return "w" + ";".join(f"{int(w)}:{hx(bytes(bm))}" for w, bm in v)
    raise ValueError(kind)


def _gw(tname, rd):
    """IPSECKEY gateway + key / AMTRELAY relay: g<type>|<address text>|<name>|<key>"""
    ty, g, key = (rd.gateway_type, rd.gateway, rd.key) if tname == "IPSECKEY" else (rd.relay_type, rd.relay, b"")
    addr = g if isinstance(g, str) else ""
    nm = enc_labels(g.labels) if isinstance(g, dns.name.Name) else "@"
    return f"g{int(ty)}|{cps(addr)}|{nm}|{hx(bytes(key))}"


def dump(tname, rd):
    fields, tail = MODEL[tname]
    out = [("b" + hx(rd.to_wire()[2:])) if kind == "wire2" else _fv(getattr(rd, slot), kind) for slot, kind in fields]
    out.append("/")
    if tail is not None and tail[1] == "wks":
        out.append(f"k{hx(socket.inet_pton(socket.AF_INET, rd.address))}:{int(rd.protocol)}:{hx(bytes(rd.bitmap))}")
        return " ".join(out)
    out.append("-" if tail is None else _gw(tname, rd) if tail[1] == "gw" else _fv(getattr(rd, tail[0]), tail[1]))
    return " ".join(out)


def ascii_only_names(text):
    return all(ord(ch) < 128 for ch in text)


def corr_print(ctx, c, tname, rd, st, origin, text):
    """text: the implementation's to_styled_text output or None when it raised"""
    if tname not in MODEL:
        return
    o = origin if st.get("o") else None
    op = (f"c05.print {tname} o={enc_optname(o)} r={1 if st.get('rel') else 0} hc={st.get('hcs', 128)} hs={cps(st.get('hsep', ' '))} "
          f"bc={st.get('bcs', 32)} bs={cps(st.get('bsep', ' '))} u={1 if st.get('utf8') else 0} {dump(tname, rd)}")
    ctx.corr(op, "err" if text is None else "ok " + cps(text), c)


def model_corr_fromtext(ctx, c, tname, text, origin, rel, rd, relto=None):
    """rd: the implementation's from_text result or None when it raised a DNSException"""
    if tname not in MODEL and not tname.startswith("TYPE"):
        return
    if len(text) > 20000:
        ctx.count("corr.skip.text-longer-than-20000-characters")   # the oversized-key witnesses: oracle only (model time)
        return
    if len(text) > 4300 and re.search(r"[0-9_]{4301}", text):
        # CPython refuses to convert more than 4300 decimal digits (ValueError, wrapped into SyntaxError): the model's
        # int() has no such limit; oracle only
        ctx.count("corr.skip.more-than-4300-digits")
        return
    generic = text.lstrip(" \t(").startswith("\\#")
    if tname in MODEL and (any(k == "nm" for _, k in MODEL[tname][0]) or (MODEL[tname][1] or ("", ""))[1] in ("nl", "gw")) and not ascii_only_names(text):
        ctx.count("corr.skip.non-ascii-with-name-field(IDNA)")
        return
    if generic and tname in NOWIRE:
        ctx.count("corr.skip.generic-form-of-type-without-model-wire-codec")
        return
    if tname == "WKS":
        # protocol / service mnemonics go through the host's getprotobyname / getservbyname: outside the model
        try:
            tk = dns.tokenizer.Tokenizer(text)
            vals = []
            while True:
                t = tk.get()
                if t.is_eol_or_eof():
                    break
                vals.append(t.unescape().value)
            if any(not v.isdecimal() or any(ord(ch) > 127 for ch in v) for v in vals[1:]):
                ctx.count("corr.skip.wks-mnemonic-or-non-ascii-digits")
                return
        except Exception:
            pass
    if rd is not None and tname in B64_ONE and not generic:
        try:
            toks = ["".join(chr(int(x)) for x in t.split(":", 1)[1].split(",")) if not t.endswith(":-") else "" for t in lex_impl(text).split(" ") if t]
        except Exception:
            toks = []
        for attr, idx in B64_ONE[tname]:
            v = getattr(rd, attr)
            if len(v) == 0 and tname == "TSIG" and attr == "other":
                continue
            if len(v) == 0 or idx >= len(toks) or base64.b64encode(v).decode() != toks[idx]:
                ctx.count("corr.skip.noncanonical-base64")
                return
        if tname == "TKEY":
            concat = "".join(toks[6:])
            if concat != base64.b64encode(rd.other).decode():
                ctx.count("corr.skip.noncanonical-base64")
                return
    if rd is not None and tname in B64_TAIL and not generic:
        fields, tail = MODEL[tname]
        blob = getattr(rd, tail[0])
        try:
            vals = [t.split(":", 1)[1] for t in lex_impl(text).split(" ") if t][len(fields) + B64_TAIL_SKIP.get(tname, 0):]
            concat = "".join("".join(chr(int(x)) for x in v.split(",")) if v != "-" else "" for v in vals)
        except Exception:
            concat = None
        if concat != base64.b64encode(blob).decode():
            # base64.b64decode skips foreign characters and stops at padding; the model's codec is the strict one
            ctx.count("corr.skip.noncanonical-base64")
            return
    tn = "-" if tname.startswith("TYPE") else tname
    op = f"c05.parse {tn} o={enc_optname(origin)} r={1 if rel else 0} rt={enc_optname(relto)} {cps(text)}"
    if rd is None:
        impl = "err"
    elif isinstance(rd, dns.rdata.GenericRdata):
        impl = "ok g " + hx(rd.data)
    else:
        impl = "ok k " + dump(tname, rd)
    ctx.corr(op, impl, c)


def _outcome(fn, fmt):
    try:
        return "ok " + fmt(fn())
    except (dns.exception.DNSException, ValueError, binascii.Error) as e:
        return "err"


def lex_impl(text):
    tok = dns.tokenizer.Tokenizer(text)
    out = []
    while True:
        t = tok.get()
        if t.is_eol_or_eof():
            break
        out.append(("i:" if t.is_identifier() else "q:" if t.is_quoted_string() else "?:") + cps(t.value))
    return " ".join(out)


def eval_prim(ctx: Ctx, c: dict):
    """correspondence on one modelled primitive"""
    op = c["op"]
    if op == "ip4.ntoa":
        b = bytes.fromhex(c["b"])
        impl = _outcome(lambda: dns.ipv4.inet_ntoa(b), cps)
        ctx.corr(f"c05.ip4.ntoa {hx(b)}", impl, c)
        if len(b) == 4:
            back = _outcome(lambda: dns.ipv4.inet_aton(dns.ipv4.inet_ntoa(b)), hx)
            if back != "ok " + hx(b):
                _fail(ctx, "C05/ipv4/roundtrip", f"inet_aton(inet_ntoa({b.hex()})) -> {back}", {"kind": "prim", "case": c})
    elif op == "ip6.ntoa":
        b = bytes.fromhex(c["b"])
        impl = _outcome(lambda: dns.ipv6.inet_ntoa(b), cps)
        ctx.corr(f"c05.ip6.ntoa {hx(b)}", impl, c)
        if len(b) == 16:
            back = _outcome(lambda: dns.ipv6.inet_aton(dns.ipv6.inet_ntoa(b)), hx)
            if back != "ok " + hx(b):
                _fail(ctx, "C05/ipv6/roundtrip", f"inet_aton(inet_ntoa({b.hex()})) = {dns.ipv6.inet_ntoa(b)!r} -> {back}", {"kind": "prim", "case": c})
            try:
                ref = socket.inet_pton(socket.AF_INET6, dns.ipv6.inet_ntoa(b))
                if ref != b:
                    _fail(ctx, "C05/ipv6/ntoa-not-rfc4291", f"inet_ntoa({b.hex()}) = {dns.ipv6.inet_ntoa(b)!r} is read as {ref.hex()} by inet_pton", {"kind": "prim", "case": c})
            except OSError:
                _fail(ctx, "C05/ipv6/ntoa-not-rfc4291", f"inet_ntoa({b.hex()}) = {dns.ipv6.inet_ntoa(b)!r} rejected by inet_pton", {"kind": "prim", "case": c})
    elif op in ("ip4.aton", "ip6.aton"):
        t = c["t"]
        fn = dns.ipv4.inet_aton if op == "ip4.aton" else dns.ipv6.inet_aton
        try:
            impl = "ok " + hx(fn(t))
        except dns.exception.DNSException:
            impl = "err"
        except Exception as e:
            _fail(ctx, f"C05/{op}/foreign-exception/{type(e).__name__}", f"{op}({t!r}) raised {e!r}", {"kind": "prim", "case": c})
            return
        ctx.corr(f"c05.{op} {cps(t)}", impl, c)
        ctx.count(f"prim.{op}." + impl[:2])
    elif op == "esc":
        b = bytes.fromhex(c["b"])
        ctx.corr(f"c05.esc {hx(b)}", "ok " + cps(dns.rdata._escapify(b)), c)
        # octet-exact path: unescape_to_bytes inverts _escapify for every octet
        tk = dns.tokenizer.Token(dns.tokenizer.QUOTED_STRING, dns.rdata._escapify(b), True)
        if tk.unescape_to_bytes().value != b:
            _fail(ctx, "C05/charstring/unescape_to_bytes-not-inverse", f"unescape_to_bytes(_escapify({b.hex()})) differs", {"kind": "prim", "case": c})
    elif op == "escu":
        t = c["t"]
        ctx.corr(f"c05.escu {cps(t)}", "ok " + cps(dns.rdata._escapify_unicode(t)), c)
        # the Unicode form must be read back as the UTF-8 octets of the string
        tk = dns.tokenizer.Token(dns.tokenizer.QUOTED_STRING, dns.rdata._escapify_unicode(t), True)
        try:
            back = tk.unescape_to_bytes().value
        except dns.exception.DNSException as e:
            back = e
        if back != t.encode():
            _fail(ctx, "C05/charstring/escapify_unicode-not-inverse",
                  f"unescape_to_bytes(_escapify_unicode({t!r})) = {back!r}, expected {t.encode()!r}", {"kind": "prim", "case": c})
    elif op == "utf8dec":
        b = bytes.fromhex(c["b"])
        try:
            impl = "ok " + cps(b.decode())
        except UnicodeDecodeError:
            impl = "err"
        ctx.corr(f"c05.utf8dec {hx(b)}", impl, c)
    elif op in ("unesc", "unescb"):
        t = c["t"]
        tk = dns.tokenizer.Token(dns.tokenizer.IDENTIFIER, t, "\\" in t)
        if op == "unesc":
            impl = _outcome(lambda: tk.unescape().value, cps)
        else:
            impl = _outcome(lambda: tk.unescape_to_bytes().value, hx)
        ctx.corr(f"c05.{op} {cps(t)}", impl, c)
        ctx.count(f"prim.{op}." + impl[:2])
    elif op == "lex":
        t = c["t"]
        try:
            impl = "ok " + lex_impl(t)
            impl = impl.rstrip(" ")
        except dns.exception.DNSException:
            impl = "err"
        except Exception as e:
            _fail(ctx, f"C05/tokenizer/foreign-exception/{type(e).__name__}", f"tokenizing {t!r} raised {e!r}", {"kind": "prim", "case": c})
            return
        ctx.corr(f"c05.lex {cps(t)}", impl, c)
        ctx.count("prim.lex." + impl[:2])
    elif op == "int":
        t, base = c["t"], c["base"]
        try:
            v = int(t, base)
            impl = f"ok {v}"
        except ValueError:
            impl = "err"
        ctx.corr(f"c05.int {base} {cps(t)}", impl, c)
    elif op == "ttl":
        t = c["t"]
        impl = _outcome(lambda: dns.ttl.from_text(t), str)
        ctx.corr(f"c05.ttl {cps(t)}", impl, c)
    elif op == "wb":
        d, n, sep = c["d"], c["n"], c["sep"]
        ctx.corr(f"c05.wb {cps(d)} {n} {cps(sep)}", "ok " + cps(dns.rdata._wordbreak(d.encode(), n, sep)), c)
    elif op == "hexdec":
        t = c["t"]
        impl = _outcome(lambda: binascii.unhexlify(t.encode()), hx)
        ctx.corr(f"c05.hexdec {cps(t)}", impl, c)
    elif op == "b64":
        b = bytes.fromhex(c["b"])
        e = base64.b64encode(b).decode()
        ctx.corr(f"c05.b64enc {hx(b)}", "ok " + cps(e), c)
        ctx.corr(f"c05.b64dec {cps(e)}", "ok " + hx(b), c)
    else:
        raise ValueError(op)


def eval_case(ctx: Ctx, c: dict):
    k = c["kind"]
    try:
        if k == "rt":
            eval_rt(ctx, c)
        elif k == "generic":
            eval_generic(ctx, c)
        elif k == "ft":
            eval_ft(ctx, c)
        elif k == "prim":
            eval_prim(ctx, c)
        else:
            raise ValueError(k)
    except Exception as e:  # an exception escaping one of the library calls the oracle does not expect to raise
        import traceback
        where = traceback.extract_tb(e.__traceback__)[-1]
        _fail(ctx, f"C05/{k}/unexpected-exception/{c.get('type', c.get('op', ''))}/{type(e).__name__}",
              f"{type(e).__name__}: {e} (raised at {os.path.basename(where.filename)}:{where.lineno} {where.name}) while evaluating the case",
              {"kind": k, "case": c})


# ------------------------------------------------------------------------------------------------
# generators
# ------------------------------------------------------------------------------------------------
def hexl(labels):
    return None if labels is None else [bytes(l).hex() for l in labels]


def gen_style(rng):
    st = {}
    if rng.chance(1, 2):
        st["o"] = 1
        st["rel"] = rng.below(2)
    if rng.chance(1, 2):
        st["hcs"] = rng.choice([0, 1, 2, 3, 4, 16, 31, 32, 33, 56, 64, 127, 128, 129, 1000])
        st["hsep"] = rng.choice([" ", " ", "\t", "  ", " \t "])
        st["bcs"] = rng.choice([0, 1, 2, 3, 4, 5, 31, 32, 33, 44, 56, 64, 76, 1000])
        st["bsep"] = rng.choice([" ", " ", "\t", "  "])
    if rng.chance(1, 3):
        st["utf8"] = 1
    return st


def gen_parse(rng, st):
    p = {"o": 1, "rel": 1}
    m = rng.below(6)
    if m == 0:
        p["rel"] = 0
    elif m == 1:
        p["rto"] = 1
    elif m == 2 and not st.get("o"):
        p["o"] = 0
    return p


def generate(ctx: Ctx, scale: float, rng):
    n_rt = max(1, int(60 * scale))
    for (rdclass, rdtype, tname, gen) in TYPES:
        for _ in range(n_rt):
            origin = rng.choice(ORIGINS)
            g = G(rng, origin)
            wire = gen(g)
            st = gen_style(rng)
            c = {"kind": "rt", "type": tname, "wire": wire.hex(), "origin": hexl(origin), "wire_origin": 1 if rng.chance(3, 4) else 0,
                 "style": st, "parse": gen_parse(rng, st)}
            if not c["wire_origin"] and rng.chance(1, 2):
                c["origin"] = None
                c["style"].pop("o", None)
                c["parse"] = {"o": 0, "rel": rng.below(2)}
            ctx.case(("rt", tname, wire, json.dumps(c["style"], sort_keys=True), json.dumps(c["parse"], sort_keys=True)), sample=c)
            eval_case(ctx, c)
        for _ in range(max(1, n_rt // 4)):
            origin = rng.choice(ORIGINS)
            g = G(rng, origin)
            wire = gen(g)
            c = {"kind": "generic", "type": tname, "wire": wire.hex(), "origin": hexl(origin), "wire_origin": rng.below(2),
                 "parse_origin": rng.below(2), "rel": rng.below(2), "style": gen_style(rng)}
            ctx.case(("generic", tname, wire, c["parse_origin"], c["rel"]), sample=c)
            eval_case(ctx, c)
    for _ in range(max(1, int(400 * scale))):
        g = G(rng, [b""])
        wire = g.blob()
        c = {"kind": "generic", "type": "TYPE" + str(rng.choice([65280, 65281, 3, 4, 7, 14, 38, 100, 1234, 65535])), "wire": wire.hex(),
             "origin": hexl(rng.choice(ORIGINS)) if rng.chance(1, 2) else None, "style": gen_style(rng), "zero_form": rng.below(2)}
        ctx.case(("generic", c["type"], wire, json.dumps(c["style"], sort_keys=True)), sample=c)
        eval_case(ctx, c)


# --- text side: soups and mutated valid text
NUM_ATOMS = ["0", "1", "7", "8", "9", "10", "255", "256", "65535", "65536", "4294967295", "4294967296", "281474976710655", "-1", "-0", "+1",
             "007", "1_0", "_1", "1_", "1__0", "0o17", "\\0495", "\\0320", "1\\032", "3600", "1w", "1W2d3h", "1h30m", "1x", "2d1"]
STR_ATOMS = ['""', '"a"', '"a b"', 'abc', '"\\200"', '\\200', '"\\""', 'a\\"b', '"\\\\"', '"\\000"', '"\\255"', '"\\256"', '"\\25"',
             '"\xe9"', '\xe9', '"\u0100"', '"' + "x" * 255 + '"', '"' + "x" * 256 + '"', '"' + "\\200" * 128 + '"', '"a;b"', '"a(b"', "a\\;b", "-", "\\#"]
NAME_ATOMS = ["@", ".", "a.", "a", "a.b", "www.example.", "a..b", "\\.", "\\046.x", "a\\.b.", "*.a", "x" * 63 + ".", "x" * 64 + ".", "\\255.", "\\256.",
              "\\(\\).", "a\\032b."] + [".".join(["y" * 60] * 4) + ".", ".".join(["y" * 62] * 4) + "."]
BLOB_ATOMS = ["00", "ff", "abcd", "ABCD", "abc", "0g", "a b", "AA==", "AAA=", "AAAA", "A===", "=", "AA", "QUJD", "QU JD", "QUJDRA==", "Zm9v", "Zm9", "Zg=="]
ADDR_ATOMS = ["1.2.3.4", "01.2.3.4", "256.1.1.1", "1.2.3", "1.2.3.4.5", "0.0.0.0", "255.255.255.255", "::", "::1", "1::", "::1.2.3.4", "::ffff:1.2.3.4",
              "1:2:3:4:5:6:7:8", "1:2:3:4:5:6:7::", "::2:3:4:5:6:7:8", ":1", "1:", ":::", "12345::", "g::", "1::2::3", "FFFF::", "0:0:0:0:0:0:0:0", "1.2.3.4\\010"]
MISC_ATOMS = ["0123456789abcdefghijklmnopqrstuv", "2t7b4g4vsa5smi47k61mv5bv1a22bojr", "2T7B4G4VSA5SMI47K61MV5BV1A22BOJR", "wxyz0000", "ab", "abc", "a",
              "abcd", "abcde", "abcdef", "abcdefg", "ag======", "a=", "0v", "0w", "0!", "A NS SOA RRSIG NSEC DNSKEY CAA", "NSEC URI", "TYPE1234 A A",
              "TYPE65535 TYPE256", "TYPE255 TYPE256 TYPE511 TYPE512", "CAA A", "-",
              "NOKEY", "NOCONF|ZONE", "NOAUTH|NOCONF", "ZONE|SIG3", "NOKEY|", "nokey", "49152", "0xC000", "DNSSEC", "ALL", "TLS", "tls", "256",
              "NSAP-PTR", "NSAP_PTR", "nsap-ptr", "TYPE01", "type1", "TYPE65535", "TYPE", "TYPE-1", "NONE", "ANY", "A-", "-A",
              "20380119031407", "19700101000000", "21060207062815", "21060207062816", "20240229120000", "20230229120000", "20241301000000",
              "20240100000000", "2024011x000000", "+0240101000000", "2024_101000000", "00000101000000", "00010101000000", "4294967295", "4294967296",
              "01700000000", "1700000000", "170000000000", "99991231235959", "20240101-10000", "20240101996060",
              "PKIX", "pkix", "OID", "URI", "253", "65536", "-0", "+7", "0007", "RSASHA256", "ED25519", "ed448", "PRIVATEOID", "17", "INDIRECT",
              "0x1f:0001:0002:0003", "+1ff:0001:0002:0003", "1_ff:0001:0002:0003", "0b11:0001:0002:0003", "-001:0001:0002:0003",
              "0X_f:0001:0002:0003", "0014:4fff:ff20:ee64", "0014:4fff:ff20:ee6", "0014-4fff-ff20-ee64", "\\0320ff:0001:0002:0003",
              "00-00-5e-00-53-2a", "00-00-5e-ef-10-00-00-2a", "00-00-5E-00-53-2A", "-0-00-5e-00-53-2a", "0000-5e-00-53-2a", "00-00-5e-00-53",
              "0x", "0x47.0005.80", "0x47000580", "0X47", "0x4", "x47", "0x4g",
              "RSASHA256", "rsasha1", "PRIVATEOID", "8", "256", "PKIX", "A", "NS", "TYPE1", "TYPE65536", "TYPE0", "NOTIFY", "N", "S", "E", "W", "10m", "-100001m",
              "99999999999m", "nanm", "infm", "1e3m", "4435.61m", "0.07m", "90000000.00m", "(", ")", ";c", "TCP", "tcp", "smtp", "0x", "0xab", "-", "!1:1.2.3.4/8",
              "1:0.0.0.0/0", "3:ab/8", "2:::/0", "!2:1::/128", "2:1::/129", "1:1.2.3.4/33", "1:1.2.3.4/+8", "+1:1.2.3.4/8", "0x1:1.2.3.4/8", "1:1.2.3.4",
              "1.2.3.4/8", "!", "!!1:1.2.3.4/8", "1:1.2.3.4/8/9", "1:2:1.2.3.4/8", "2:1:2::3/64", "65536:ab/8", "-0:ab/8", '"1:1.2.3.4/8"', "1_0:1.2.3.4/8",
              "01:1.2.3.4/08", "1:1.2.3.4/-0", "1:1.2.3.4/", ":1.2.3.4/8", "2:::ffff:1.2.3.4/96", "1:01.2.3.4/8", "281474976710656", "0" * 4300 + "7", "1" * 4301, "9" * 4300, "0" * 4299 + "7", "12.5\\010", "\\01012.5", "12\\010.5", "12.5\\032", "12.5\\009", "12.5\\000", "12.5\\127", "12.5\\013", "-12.\\010", ".5\\010",
              "12\\010", "!7:00/255", "3:AB/8", "3:abc/8", "3:/8", "0:ab/0", "3:ab/256", "3:ab00/8", "3:0g/8", "3:\\097b/8",
              "3:ababababababababababababababababababababababababababababababababababababababababababababababababababababababababababababababab/8", "3:abababababababababababababababababababababababababababababababababababababababababababababababababababababababababababababababab/8",
              "90.00000000000000710542735760100185871124267578125", "90.000000000000007105427357601001858711242675781251", "-90.00000000000000710542735760100185871124267578125", "-90.000000000000007105427357601001858711242675781251", "90.00000000000000710542735760100185871124267578124", "90.0", "+90.", "90.00000000000001", "-90.00000000000002", "91", "180.0000000000000142108547152020037174224853515625", "180.00000000000001421085471520200371742248535156251", "-180.0000000000000142108547152020037174224853515625", "-180.00000000000001421085471520200371742248535156251", "180.0000000000000142108547152020037174224853515624", "180.0", "+180.", "180.00000000000001", "-180.00000000000002", "181", ".5", "5.", ".", "+.", "-.5", "1.2.3", "1e5", "00090.000", "-0",
              "alpn=h2", 'alpn="h2,h3"', "port=53", "no-default-alpn", "key65280=abc", "mandatory=alpn", "20240101000000", "1700000000"]
ALL_ATOMS = NUM_ATOMS + STR_ATOMS + NAME_ATOMS + BLOB_ATOMS + ADDR_ATOMS + MISC_ATOMS
ESC_POOL = ["\\032", "\\009", "\\010", "\\059", "\\040", "\\041", "\\034", "\\092", "\\000", "\\127", "\\200", "\\255", "\\ ", "\\;", "\\(", '\\"', "\\\\", "\\."]
BOUNDARY_INTS = [v + d for v in (0, 2 ** 7, 2 ** 8, 2 ** 15, 2 ** 16, 2 ** 31, 2 ** 32, 2 ** 48) for d in (-1, 0, 1) if v + d >= 0]
EDGE_ESC = ["\\010", "\\010", "\\013", "\\009", "\\032", "\\000", "\\127", "\\011", "\\012", "\\031", "\\133", "\\160"]
CHAR_POOL = ['"', "\\", " ", "\t", ";", "(", ")", "\n", ".", "@", "0", "9", "a", "Z", "\x00", "\x7f", "\xe9", "=", ",", "-", "+", "_", ":", "/", "!"]


def mutate_text(rng, text):
    toks = text.split(" ")
    for _ in range(rng.choice([1, 1, 1, 2, 3])):
        m = rng.below(12)
        i = rng.below(len(toks)) if toks else 0
        if m == 0 and toks:
            toks[i] = rng.choice(ALL_ATOMS)
        elif m == 1 and toks:
            del toks[i]
        elif m == 2 and toks:
            toks.insert(i, toks[i])
        elif m == 3:
            toks.insert(i, rng.choice(ALL_ATOMS))
        elif m == 4 and toks and toks[i]:
            t = toks[i]
            j = rng.below(len(t) + 1)
            toks[i] = t[:j] + rng.choice(CHAR_POOL) + t[j:]
        elif m == 5 and toks and toks[i]:
            t = toks[i]
            j = rng.below(len(t))
            toks[i] = t[:j] + t[j + 1:]
        elif m == 6 and toks and toks[i]:
            t = toks[i]
            j = rng.below(len(t))
            toks[i] = t[:j] + rng.choice(CHAR_POOL) + t[j + 1:]
        elif m == 7 and toks:
            # an escaped delimiter / blank / special inside a token: accepted values must still print to parseable text
            t = toks[i]
            j = rng.below(len(t) + 1)
            toks[i] = t[:j] + rng.choice(ESC_POOL) + t[j:]
        elif m == 11 and toks:
            # a decimal token replaced by an exact field boundary (one before, at, one past 2^8 … 2^48)
            ds = [k for k, t in enumerate(toks) if t.isdigit()]
            if ds:
                toks[rng.choice(ds)] = str(rng.choice(BOUNDARY_INTS))
        elif m >= 9 and toks:
            # an escaped blank / control octet at the very end (or start) of a token: validators anchored with `$`,
            # strip() and split() treat such an octet specially; printers may emit it raw
            e = rng.choice(EDGE_ESC)
            toks[i] = toks[i] + e if m == 9 or not toks[i] else e + toks[i]
        elif m == 8 and toks and toks[i]:
            # spell one character as \DDD (Latin-1 only)
            t = toks[i]
            j = rng.below(len(t))
            if ord(t[j]) < 256 and t[j] != "\\":
                toks[i] = t[:j] + "\\%03d" % ord(t[j]) + t[j + 1:]
    return " ".join(toks)


def soup(rng, atoms, k=None, sep=""):
    k = rng.choice([0, 1, 1, 2, 3, 4, 6]) if k is None else k
    return sep.join(rng.choice(atoms) for _ in range(k))


IP4_PARTS = ["0", "1", "9", "10", "99", "100", "199", "200", "255", "256", "999", "01", "00", "", "a", " 1", "-1", "+1", "1_0", "\xe9", "1\n", "0x1"]
IP6_PARTS = ["0", "1", "ffff", "FFFF", "abcd", "12345", "g", "", "", "00a0", "0000", "1.2.3.4", "255.255.255.255", "1.2.3.256", "01.2.3.4", "1.2.3", "%", "\n", "\xe9",
             "0", "a", "db8", "2001"]
UNESC_ATOMS = ["a", "b", "\\", "\\0", "\\00", "\\000", "\\065", "\\127", "\\128", "\\200", "\\255", "\\256", "\\999", "\\1a2", "\\12", '"', "\xe9", "\u0100",
               "\U0001f600", "\\\xe9", "\\\\", '\\"', " ", "\\a", "0", "9", "\x00", "\x7f", "\x80", "\xff", "\u200b"]
LEX_ATOMS = ["a", "bc", " ", "  ", "\t", "\n", "(", ")", ";", '"', "\\", "\\ ", '\\"', "\\\n", "\\(", "\xe9", "x y", '"a b"', '""', ";comment", "\\;", '"a;b"',
             '"a\\"b"', "\\000", '"\n"', "( a\n b )", "a(b", 'a"b"', '"a"b', "\r", "\x00"]
INT_ATOMS = ["0", "1", "7", "8", "9", "12", "007", "+", "-", "_", " ", "\t", "\n", "\x0b", "\x0c", "\r", "\x1c", "\x85", "\xa0", "0o", "0O", "o", "e", "x", "a", ".",
             "17", "65535", "4294967295"]
TTL_ATOMS = ["0", "1", "9", "60", "w", "W", "d", "h", "H", "m", "s", "S", "x", "-", ".", " ", "4294967295", "4294967296", "604800", "99999999999"]
HEX_ATOMS = ["0", "9", "a", "f", "A", "F", "g", "G", " ", "00", "ff", "\xe9", "-", "x"]


# code points for the txt_is_utf8 style: ASCII specials, C0, DEL, C1 / Latin-1 specials, soft hyphen, combining marks,
# zero-width and ideographic spaces, line/paragraph separators, BOM, private use, noncharacters, astral planes
UCP_POOL = [0x22, 0x5C, 0x20, 0x3B, 0x28, 0x29, 0x40, 0x24, 0x61, 0x5A, 0x30, 0x00, 0x01, 0x09, 0x0A, 0x0D, 0x1B, 0x1F, 0x7F,
            0x80, 0x85, 0x9F, 0xA0, 0xA1, 0xAD, 0xE9, 0xFF, 0x100, 0x17F, 0x300, 0x301, 0x34F, 0x378, 0x660, 0x7FF, 0x800, 0x1680,
            0x180E, 0x2000, 0x200B, 0x200C, 0x200D, 0x200E, 0x2028, 0x2029, 0x202E, 0x205F, 0x2060, 0x3000, 0x4E2D, 0xD7FF, 0xE000,
            0xFEFF, 0xFFFD, 0xFFFE, 0xFFFF, 0x10000, 0x1F600, 0xE0001, 0xE0100, 0xF0000, 0x10FFFF]


def gen_ustring(rng, maxbytes=255):
    n = rng.choice([0, 1, 1, 2, 3, 5, 8, 20, 60])
    m = rng.below(3)
    out = ""
    for _ in range(n):
        if m == 0 or rng.chance(1, 2):
            cp = rng.choice(UCP_POOL)
        elif m == 1:
            cp = rng.choice([rng.below(0x80), rng.range(0x80, 0x7FF), rng.range(0x800, 0xD7FF), rng.range(0xE000, 0xFFFF), rng.range(0x10000, 0x10FFFF)])
        else:
            cp = rng.choice([0x61, 0x62, 0x20, 0x41])
        if len((out + chr(cp)).encode()) > maxbytes:
            break
        out += chr(cp)
    return out


def gen_utf8_txt(ctx: Ctx, scale: float, rng):
    """TXT-like types under RdataStyle(txt_is_utf8=True): strings that are valid UTF-8, optionally mixed with one that is not"""
    g = G(rng, [b""])
    for tname in sorted(TXT_LIKE):
        for _ in range(max(1, int(25 * scale))):
            strings = [gen_ustring(rng).encode() for _ in range(rng.choice([1, 1, 2, 3]))]
            if rng.chance(1, 5):
                strings.insert(rng.below(len(strings) + 1), g.octets(rng.choice([1, 2, 5, 20])))
            if rng.chance(1, 8):  # truncated / overlong / surrogate encodings: must fall back to the octet form
                strings.append(rng.choice([b"\xc2", b"\xe2\x80", b"\xc0\xaf", b"\xed\xa0\x80", b"\xf4\x90\x80\x80", b"\xf0\x80\x80\x80",
                                           b"a\xffb", b"\xe0\x80\x80", b"\xf8\x88\x80\x80\x80", b"\x80"]))
            wire = b"".join(bytes([len(x)]) + x for x in strings)
            st = {"utf8": 1}
            c = {"kind": "rt", "type": tname, "wire": wire.hex(), "origin": None, "wire_origin": 0, "style": st, "parse": {"o": 0, "rel": 1}}
            ctx.case(("rt-utf8", tname, wire), sample=c)
            ctx.count("rt.txt_is_utf8")
            eval_case(ctx, c)
    out = []
    for _ in range(max(1, int(150 * scale))):
        out.append({"kind": "prim", "op": "escu", "t": gen_ustring(rng, 600)})
    for cp in UCP_POOL:
        out.append({"kind": "prim", "op": "escu", "t": "a" + chr(cp) + "b"})
    for _ in range(max(1, int(150 * scale))):
        m = rng.below(3)
        if m == 0:
            b = gen_ustring(rng).encode()
            if b and rng.chance(1, 2):
                i = rng.below(len(b))
                b = b[:i] + bytes([rng.below(256)]) + b[i + 1:]
        elif m == 1:
            b = rng.bytes(rng.below(6), [0x00, 0x41, 0x7F, 0x80, 0xBF, 0xC0, 0xC1, 0xC2, 0xDF, 0xE0, 0xED, 0xEF, 0xF0, 0xF4, 0xF5, 0xFF, 0xA0, 0x9F, 0x90, 0x8F])
        else:
            b = g.octets(rng.below(8))
        out.append({"kind": "prim", "op": "utf8dec", "b": b.hex()})
    for c in out:
        ctx.case(("prim", json.dumps(c, sort_keys=True)), sample=c)
        eval_case(ctx, c)


def gen_prims(ctx: Ctx, scale: float, rng):
    g = G(rng, [b""])
    n = lambda q: max(1, int(q * scale))
    out = []
    for _ in range(n(300)):
        out.append({"kind": "prim", "op": "ip4.ntoa", "b": (g.ip4() if rng.chance(9, 10) else rng.bytes(rng.below(7))).hex()})
    for _ in range(n(600)):
        out.append({"kind": "prim", "op": "ip6.ntoa", "b": (g.ip6() if rng.chance(19, 20) else rng.bytes(rng.choice([0, 4, 15, 17]))).hex()})
    for _ in range(n(400)):
        if rng.chance(1, 3):
            t = dns.ipv4.inet_ntoa(g.ip4())
            if rng.chance(1, 2):
                t = mutate_text(rng, t)
        else:
            t = ".".join(rng.choice(IP4_PARTS) for _ in range(rng.choice([4, 4, 4, 3, 5, 1, 0])))
        out.append({"kind": "prim", "op": "ip4.aton", "t": t})
    for _ in range(n(900)):
        m = rng.below(3)
        if m == 0:
            t = dns.ipv6.inet_ntoa(g.ip6())
            if rng.chance(1, 2):
                j = rng.below(len(t) + 1)
                t = t[:j] + rng.choice([":", "::", ".", "0", "f", "g", "\n", "1", ""]) + t[min(len(t), j + rng.below(2)):]
        else:
            t = ":".join(rng.choice(IP6_PARTS) for _ in range(rng.choice([8, 8, 7, 6, 9, 3, 2, 1, 4, 5])))
            if rng.chance(1, 4):
                t = rng.choice(["::", ":", ""]) + t
            if rng.chance(1, 4):
                t = t + rng.choice(["::", ":", "\n", ""])
        out.append({"kind": "prim", "op": "ip6.aton", "t": t})
    for _ in range(n(300)):
        out.append({"kind": "prim", "op": "esc", "b": g.octets(rng.choice([0, 1, 2, 5, 20, 255])).hex()})
    for b in range(256) if scale >= 1 else []:
        out.append({"kind": "prim", "op": "esc", "b": bytes([b]).hex()})
    for _ in range(n(500)):
        out.append({"kind": "prim", "op": rng.choice(["unesc", "unescb"]), "t": soup(rng, UNESC_ATOMS)})
    for _ in range(n(900)):
        out.append({"kind": "prim", "op": "lex", "t": soup(rng, LEX_ATOMS, rng.choice([0, 1, 2, 3, 4, 5, 7, 10]))})
    for _ in range(n(500)):
        out.append({"kind": "prim", "op": "int", "base": rng.choice([10, 10, 8]), "t": soup(rng, INT_ATOMS, rng.choice([0, 1, 1, 2, 3, 4]))})
    for _ in range(n(300)):
        out.append({"kind": "prim", "op": "ttl", "t": soup(rng, TTL_ATOMS, rng.choice([0, 1, 1, 2, 3, 4, 6]))})
    for _ in range(n(200)):
        d = "".join(rng.choice("0123456789abcdefQUJD+/=") for _ in range(rng.choice([0, 1, 2, 3, 31, 32, 33, 64, 65, 100])))
        out.append({"kind": "prim", "op": "wb", "d": d, "n": rng.choice([0, 1, 2, 3, 4, 31, 32, 33, 64, 128, 1000]), "sep": rng.choice([" ", "\t", "  ", "-", ""])})
    for _ in range(n(200)):
        out.append({"kind": "prim", "op": "hexdec", "t": soup(rng, HEX_ATOMS, rng.choice([0, 1, 2, 3, 4, 8]))})
    for _ in range(n(150)):
        out.append({"kind": "prim", "op": "b64", "b": g.blob().hex()})
    for c in out:
        ctx.case(("prim", json.dumps(c, sort_keys=True)), sample=c)
        eval_case(ctx, c)


def gen_generic_compressed(ctx: Ctx, scale: float, rng):
    """generic syntax of known types whose data holds a compression pointer: must be rejected (re-encode check)"""
    for _ in range(max(1, int(60 * scale))):
        g = G(rng, [b""])
        tname = rng.choice(["RP", "PX", "SOA", "MX", "NS", "SRV", "NAPTR", "CH-A"])
        first = g.rel_labels(40) + [b""]
        w1 = b"".join(bytes([len(l)]) + l for l in first)
        ptr = b"\xc0" + bytes([rng.choice([0, 0, 1, 2]) if len(w1) > 2 else 0])
        if tname == "RP":
            wire = w1 + ptr
        elif tname == "PX":
            wire = g.p16() + w1 + b"\xc0\x02"
        elif tname == "SOA":
            wire = w1 + ptr + g.p32() * 5
        elif tname == "MX":
            wire = g.p16() + rng.choice([b"\xc0\x02", b"\x01a\xc0\x00", w1])
        elif tname == "NS":
            wire = rng.choice([b"\xc0\x00", b"\x01a\xc0\x00", w1])
        elif tname == "SRV":
            wire = g.p16() * 3 + rng.choice([b"\xc0\x00", b"\xc0\x06", w1])
        elif tname == "NAPTR":
            wire = g.p16() * 2 + b"\x00\x00\x00" + rng.choice([b"\xc0\x00", w1])
        else:
            wire = w1 + g.p16()
        text = "\\# %d %s" % (len(wire), wire.hex())
        c = {"kind": "ft", "type": tname, "text": text, "origin": None, "rel": 1}
        ctx.case(("ft-generic-compressed", tname, text), sample=c)
        eval_case(ctx, c)
        # oracle: a known type's generic form that is accepted must re-encode to the very same octets
        rdclass, rdtype, _, _ = BY_NAME[tname]
        try:
            rd = dns.rdata.from_text(rdclass, rdtype, text)
        except dns.exception.DNSException:
            ctx.count("generic.compressed.rejected")
            continue
        if rd.to_wire() != wire:
            _fail(ctx, "C05/generic-form/known-type/accepted-but-not-the-same-octets",
                  f"{tname}: {text!r} accepted although the record re-encodes to {rd.to_wire().hex()}", {"kind": "ft", "case": c})
        else:
            ctx.count("generic.compressed.accepted-uncompressed")


def gen_ft(ctx: Ctx, scale: float, rng):
    n_ft = max(1, int(40 * scale))
    for (rdclass, rdtype, tname, gen) in TYPES:
        if tname == "OPT":
            continue
        for _ in range(n_ft):
            origin = rng.choice(ORIGINS) if rng.chance(2, 3) else None
            g = G(rng, origin or [b""])
            m = rng.below(5)
            text = None
            if m <= 2:
                wire = gen(g)
                try:
                    rd = dns.rdata.from_wire(rdclass, rdtype, wire, 0, len(wire), mkname(origin))
                    text = rd.to_text()
                except Exception:
                    text = None
                if text is not None and m >= 1:
                    text = mutate_text(rng, text)
            if text is None:
                text = soup(rng, ALL_ATOMS, rng.choice([0, 1, 2, 3, 4, 5, 8]), " ")
            c = {"kind": "ft", "type": tname, "text": text, "origin": hexl(origin), "rel": rng.below(2) if origin else 1}
            ctx.case(("ft", tname, text, str(origin), c["rel"]), sample=c if len(text) < 200 else None)
            eval_case(ctx, c)


LIMIT_INTS = [2 ** 8 - 1, 2 ** 8, 2 ** 16 - 1, 2 ** 16, 2 ** 31, 2 ** 32 - 1, 2 ** 32, 2 ** 48 - 1, 2 ** 48]


def gen_boundary_sweep(ctx: Ctx, rng):
    """every decimal token of one valid text per type is set to each exact field limit (2^8, 2^16, 2^32, 2^48, one
    before and at): the accept / reject decision is compared with the model and accepted values must encode"""
    for (rdclass, rdtype, tname, gen) in TYPES:
        if tname == "OPT":
            continue
        text = None
        for _ in range(6):
            wire = gen(G(rng, [b""]))
            try:
                text = dns.rdata.from_wire(rdclass, rdtype, wire, 0, len(wire)).to_text()
                break
            except Exception:
                text = None
        if text is None:
            continue
        toks = text.split(" ")
        for k, t in enumerate(toks):
            if not t.isdigit():
                continue
            for v in LIMIT_INTS:
                t2 = " ".join(toks[:k] + [str(v)] + toks[k + 1:])
                c = {"kind": "ft", "type": tname, "text": t2, "origin": None, "rel": 1}
                ctx.case(("ft-limit", tname, k, v), sample=None)
                ctx.count("ft.limit-sweep")
                eval_case(ctx, c)


# per-type status of the Lean side (mirrors C05.provedTypes / Model.modelledTypes; the oracle covers every type)
PROVED = ["A", "AAAA", "NS", "CNAME", "PTR", "DNAME", "NSAP-PTR", "MX", "AFSDB", "RT", "KX", "LP", "PX", "SRV", "RP", "SOA", "TXT", "SPF", "AVC",
          "NINFO", "RESINFO", "WALLET", "HINFO", "X25", "ISDN", "NAPTR", "CAA", "URI", "DS", "DLV", "CDS", "TLSA", "SMIMEA", "SSHFP", "ZONEMD", "DNSKEY",
          "CDNSKEY", "DHCID", "OPENPGPKEY", "BRID", "HHIT", "L32", "NSEC3PARAM", "CH-A", "EUI48", "EUI64", "NID", "L64", "NSAP", "CERT", "DSYNC", "KEY", "RRSIG", "SIG", "NSEC", "CSYNC", "NSEC3", "HIP", "TKEY", "TSIG",
          "IPSECKEY", "AMTRELAY", "APL", "WKS", "GPOS"]


def type_status():
    out = {}
    for (_, _, tname, _) in TYPES:
        if tname in PROVED and tname in NOENC:
            out[tname] = "proved (model + correspondence + parseText_printText; to_wire / generic form oracle-only)"
        elif tname in PROVED and tname in NOWIRE:
            out[tname] = "proved (model + correspondence + parseText_printText + text_accepts_encodable; generic form oracle-only)"
        elif tname in PROVED:
            out[tname] = "proved (model + correspondence + parseText_printText + text_accepts_encodable)"
        elif tname in MODEL:
            out[tname] = "modelled (model + correspondence; no round-trip lemma for one of its field kinds yet)"
        elif tname == "OPT":
            out[tname] = "oracle-only (no presentation format: to_text totality only)"
        else:
            out[tname] = "oracle-only"
    out["TYPEnnn (unknown)"] = "proved (generic_form)"
    return out


def run(ctx: Ctx):
    for p in sorted(glob.glob(os.path.join(VERIF, "corpus", "C05", "*.json"))):
        c = json.load(open(p))
        ctx.case(("corpus", p), sample=None)
        eval_case(ctx, c)
        ctx.count("corpus")
    scale = 4 if ctx.tier == "quick" else 40
    rng = ctx.rng.fork(5)
    ctx.extra["type_status"] = type_status()
    generate(ctx, scale, rng)
    gen_prims(ctx, scale, rng.fork(1))
    gen_ft(ctx, scale, rng.fork(2))
    gen_generic_compressed(ctx, scale, rng.fork(3))
    gen_utf8_txt(ctx, scale, rng.fork(4))
    gen_boundary_sweep(ctx, rng.fork(5))


def search(ctx: Ctx):
    for m in ctx.mismatches[:50]:
        if m.case is not None and "kind" in m.case:
            eval_case(ctx, m.case)
    scale = 8 if ctx.tier == "quick" else 60
    rng = ctx.rng.fork(7)
    generate(ctx, scale, rng)
    gen_prims(ctx, scale, rng.fork(1))
    gen_ft(ctx, scale, rng.fork(2))
    gen_generic_compressed(ctx, scale, rng.fork(3))
    gen_utf8_txt(ctx, scale, rng.fork(4))


def replay(ctx: Ctx, obj: dict):
    eval_case(ctx, obj["case"])
    return [f.what for f in ctx.failures]


def _uncps(t):
    return "" if t == "-" else "".join(chr(int(x)) for x in t.split(","))


def impl_of_op(op: str) -> str:
    """re-evaluate one protocol line on the implementation (used by --replay of a correspondence break)"""
    ws = op.split(" ")
    k = ws[0]
    ctx = Ctx("C05", "quick", 1)
    ctx.driver_ok = False
    if k == "c05.parse":
        from harness.core import dec_labels
        tn, o, r, rt, text = ws[1], ws[2][2:], ws[3][2:], ws[4][3:], _uncps(ws[5])
        origin = None if o == "none" else dns.name.Name(dec_labels(o))
        relto = None if rt == "none" else dns.name.Name(dec_labels(rt))
        if tn == "-":
            rdclass, rdtype, tname = 1, 65280, "TYPE65280"
        else:
            rdclass, rdtype, tname, _ = BY_NAME[tn]
        try:
            rd = dns.rdata.from_text(rdclass, rdtype, text, origin=origin, relativize=(r == "1"), relativize_to=relto)
        except dns.exception.DNSException:
            return "err"
        return "ok g " + hx(rd.data) if isinstance(rd, dns.rdata.GenericRdata) else "ok k " + dump(tname, rd)
    prim = {"c05.ip4.ntoa": ("ip4.ntoa", "b"), "c05.ip6.ntoa": ("ip6.ntoa", "b"), "c05.ip4.aton": ("ip4.aton", "t"),
            "c05.ip6.aton": ("ip6.aton", "t"), "c05.esc": ("esc", "b"), "c05.unesc": ("unesc", "t"), "c05.unescb": ("unescb", "t"),
            "c05.lex": ("lex", "t"), "c05.ttl": ("ttl", "t"), "c05.hexdec": ("hexdec", "t")}
    if k in prim:
        name, arg = prim[k]
        c = {"kind": "prim", "op": name}
        c[arg] = ("" if ws[1] == "-" else ws[1]) if arg == "b" else _uncps(ws[1])
        eval_prim(ctx, c)
    elif k == "c05.int":
        eval_prim(ctx, {"kind": "prim", "op": "int", "base": int(ws[1]), "t": _uncps(ws[2])})
    elif k == "c05.wb":
        eval_prim(ctx, {"kind": "prim", "op": "wb", "d": _uncps(ws[1]), "n": int(ws[2]), "sep": _uncps(ws[3])})
    else:
        return "(no implementation adapter for this op: re-run ./check C05)"
    for (q, impl, _) in ctx.queue:
        if q == op:
            return impl
    return ctx.queue[0][1] if ctx.queue else "?"


LEVEL = {
    "text": "Lean 4 theorems over executable models of the text codecs (dns/ipv4.py, dns/ipv6.py in full, dns.rdata._escapify, Token.unescape / unescape_to_bytes, the tokenizer as one automaton, _escapify_unicode and the txt_is_utf8 style of the TXT-like types, _wordbreak chunking with concatenate_remaining_identifiers, Python int()/dns.ttl, hex, base64 and base32hex, mnemonic tables (rdatatype, DNSSEC algorithm, CERT type, DSYNC scheme, KEY flags/protocol, rcode), RRSIG times through the civil-calendar conversion (checked exhaustively over 1970-01-01..2106-02-07), NSEC/NSEC3/CSYNC type bitmaps (on top of C15's from_rdtypes), WKS service bitmaps, APL items, IPSECKEY/AMTRELAY gateways, GPOS coordinates (float() range test as exact rational arithmetic), name fields on top of the C01 model under every origin/relativize configuration that does not rewrite names, the generic \\# form with its re-encode check, and a per-type schema table for 65 record classes): inet_aton(inet_ntoa(a)) = a for IPv4 and IPv6 (every zero-run / embedded-IPv4 shape), the quoted character-string round trip for all 256 octets on the octet path, with the code-point path get_string characterised separately (exact below 0x80, counter-example proved), blob round trips under every lossless chunking style, the generic form of unknown and known types, parse(print v) = v through dns.rdata.from_text for all 65 schema classes (parseText_printText), `accepted from text => encodable to wire` (text_accepts_encodable) for 64 of them (all but AMTRELAY), and `accepted from text => to_styled_text does not raise` (text_accepted_prints) for all 65 under every style whose name handling succeeds. Tied to the code by a differential correspondence check on every modelled function (print, parse and to_wire direction, malformed streams) and by constants/tables regenerated from the working tree; completed by a direct round-trip / totality / encodability oracle on the implementation over all 69 implemented record classes.",
    "note": "Trusted: Lean kernel + propext/Classical.choice/Quot.sound; the statements in lean/Props/C05.lean; the correspondence harness and its generators (differential testing bounds the tie). 4 record classes are covered by the oracle only: LOC (binary floating-point arithmetic in altitude/size/precision), SVCB and HTTPS (the parameter syntax depends on token adjacency, `tok.get(want_leading=True)`, which the token model does not carry), OPT (no presentation format). AMTRELAY has a proved text round trip but its to_wire is oracle-only (header octets not in schema order); HIP / TKEY are encodable since commit 18b73c9 bounds their key / other data by 65535 octets; the generic \\# form of HIP, TKEY, TSIG, IPSECKEY, AMTRELAY, APL, WKS is oracle-only (no wire decoder in the model). text_accepts_encodable is stated over the model's own to_wire (encRec, tied by the correspondence op c05.wire.enc); it is not composed with the C02 message codec theorems because C02 models different field kinds. Name fields: proved unchanged for (a) no origin anywhere, (b) absolute names with relativize=False under any origin, (c) the zone-file configuration (absolute origin, relativize=True; printing against no origin or the same origin); in the remaining configurations as_name provably returns nameBack (the derelativized / re-relativized name), which is equal modulo the origin; for relativize_to different from origin, name_field_relativize_to states as_name = relativize(derelativize(m, origin), relativize_to), and the oracle checks every name-bearing type against the relativize=False parse. Per-type status is written to the evidence (coverage.type_status).",
    "technique": "Lean 4 proof (escape and tokenizer automata, combinator round trips lifted over a schema table, IPv6 zero-run selection by exhaustive case analysis of the 256 zero patterns + list theory for split/join) + model-vs-implementation correspondence + direct oracle",
    "design_ref": "DESIGN.md §7 C05",
}

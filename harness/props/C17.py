"""C17 — resolver caches never serve stale data, honour the LRU bound, are linearizable.

Correspondence: dns.resolver.Cache / LRUCache (working tree, `dns.resolver.time` rebound to a controllable clock,
real `Answer` objects) vs lean/Model/Cache.lean through the driver: after every operation the returned value, the
whole state (for LRUCache the ring dumped from the sentinel through the real prev/next pointers, both directions,
and the `data` dict) and the counters.
Oracle: the clauses of the property evaluated step by step on the implementation's own states (never stale, latest
unexpired, bound, LRU-first eviction, counters, ring/dict agreement), sequentially and - under the deterministic
scheduler of harness/sched_cache.py - for 2..4 real threads with line-level preemption inside the cache methods
(lock-discipline monitor + every completed history checked in lock-acquisition order).
"""
import glob
import inspect
import itertools
import json
import os

import dns.message
import dns.name
import dns.rdata
import dns.rdataclass
import dns.rdatatype
import dns.resolver

from harness import sched_cache as SC
from harness.core import VERIF, Ctx, Rng

RULE = (
    "one SplitMix64 state; sequential histories of 1..80 operations over 6 keys (get/put/flush(key)/flush()/"
    "set_max_size/clock advance/hits/misses/get_hits_for_key/reset/snapshot) with max_size from {-1,0,1..6}, "
    "cleaning_interval from {0,1,5,20,300}, TTLs from {0,1,2,3,5,10,50} (so expiration == now occurs often), answers "
    "created before they are stored, clock steps from {0,1,2,3,5,10,interval}; concurrent cases: 2..4 threads x 2..6 "
    "operations under a seeded schedule with preemption at every line of every cache method; a case is non-trivial if "
    "its key (kind, parameters, operation list, schedule seed) is new and it contains at least one put and one get"
)
TRUSTED_BASE = [
    "threading.Lock contract (mutual exclusion, no reentrancy) - the scheduler shim implements exactly that",
    "CPython: a single attribute store/load is atomic; sys.settrace line events delimit the preemption points explored",
    "time.time() is monotone and constant within one cache method call (explicit clock in the model)",
]
ASSUMPTIONS = [
    "linearizability theorem: the body of a method is atomic once the lock is held (Lock contract); that every access "
    "to data/ring pointers/statistics happens under the lock is checked by the monitor on the explored schedules only (tie, not proof)",
    "answers are reduced to (identity, expiration); keys to small integers (real (Name, rdtype, rdclass) tuples in the harness)",
    "schedules are explored by seeded sampling, not exhaustively",
]

NKEYS = 6
TTL_POOL = [0, 1, 1, 2, 3, 5, 10, 50]
AGE_POOL = [0, 0, 0, 0, 1, 2, 5]
MAX_POOL = [-1, 0, 1, 1, 2, 2, 3, 3, 4, 5, 6]
INTERVAL_POOL = [0, 1, 5, 20, 300]

SIG_D14 = "C17/LRUCache.set_max_size/lru-bound/shrink-below-len"
SIG_NOLOCK = "C17/LRUCache.set_max_size/lock-discipline/unlocked-access:max_size"
SIG_RACE = "C17/LRUCache/linearizable/race-with-unlocked-set_max_size"


# ------------------------------------------------------------------------------------------------
# clock, keys, answers
# ------------------------------------------------------------------------------------------------
class Clock:
    def __init__(self):
        self.t = 0.0
        self._real = dns.resolver.time if not isinstance(dns.resolver.time, Clock) else dns.resolver.time._real

    def time(self):
        return self.t

    def __getattr__(self, name):
        return getattr(self._real, name)


CLOCK = Clock()
_REAL_TIME = CLOCK._real
_REAL_THREADING = dns.resolver.threading
_REAL_NODE = dns.resolver.LRUCacheNode
_REAL_STATS = dns.resolver.CacheStatistics

QNAMES = [dns.name.from_text(f"k{i}.example.") for i in range(NKEYS + 2)]
KEYS = [(q, dns.rdatatype.A, dns.rdataclass.IN) for q in QNAMES]
# keys 4 and 5 are falsy objects: any hashable is a key, and `flush(key)` / lookups must test `is None`, not truth
KEYS[4] = ()
KEYS[5] = 0
KID = {k: i for i, k in enumerate(KEYS)}
CALLS = [0]  # operation counter: selects the call form (positional / keyword) and the key alias
ANSWERS = {}  # (v, exp) -> Answer: a repeated put (same or another key) hands in the very same object


class HostileValue:
    """a cached value whose `expiration` raises on its first `n` reads (a stub / broken Answer-like object)"""

    def __init__(self, vid, n, exp):
        self.vid, self.left, self.exp_val = vid, n, exp

    @property
    def expiration(self):
        if self.left > 0:
            self.left -= 1
            raise HostileError("expiration is not available")
        return float(self.exp_val)


class HostileError(Exception):
    pass


def exp_of(v):
    return int(v.exp_val) if isinstance(v, HostileValue) else int(v.expiration)


def key_obj(k: int, form: int = 0):
    """the key object for key number k.  `form` picks an equal-but-different object: the name in another case and
    the type/class as plain ints for tuple keys, `False` for the key 0, a fresh `tuple()` for `()`"""
    if k >= len(KEYS):
        key = (dns.name.from_text(f"k{k}.example."), dns.rdatatype.A, dns.rdataclass.IN)
        KID.setdefault(key, k)
        return key
    key = KEYS[k]
    if form % 2 == 0:
        return key
    if k == 5:
        return False  # False == 0 and hash(False) == hash(0)
    if k == 4:
        return tuple()
    return (dns.name.from_text(key[0].to_text().upper()), 1, 1)
_MSG = {}
ANSWER_PROBLEMS = []  # (signature, what): Answer.expiration differs from creation time + minimum TTL
SNAPSHOTS = []  # (statistics snapshot object, hits, misses at capture)


def _message(k, kind):
    """one response per (key, kind): 0 plain A, 1 CNAME chain to an A, 2 negative (NODATA with SOA in authority)"""
    if (k, kind) not in _MSG:
        qn = QNAMES[k % len(QNAMES)]
        q = dns.message.make_query(qn, "A")
        r = dns.message.make_response(q)
        IN, A = dns.rdataclass.IN, dns.rdatatype.A
        if kind == 0:
            rr = r.find_rrset(r.answer, qn, IN, A, create=True)
            rr.add(dns.rdata.from_text("IN", "A", "10.0.0.1"), 5)
            parts = [rr]
        elif kind == 1:
            tgt = dns.name.from_text(f"t{k}.example.")
            c = r.find_rrset(r.answer, qn, IN, dns.rdatatype.CNAME, create=True)
            c.add(dns.rdata.from_text("IN", "CNAME", tgt.to_text()), 5)
            rr = r.find_rrset(r.answer, tgt, IN, A, create=True)
            rr.add(dns.rdata.from_text("IN", "A", "10.0.0.2"), 5)
            parts = [c, rr]
        else:
            soa = r.find_rrset(r.authority, dns.name.from_text("example."), IN, dns.rdatatype.SOA, create=True)
            soa.add(dns.rdata.from_text("IN", "SOA", "ns. host. 1 2 3 4 5"), 5)
            parts = [soa]
        _MSG[(k, kind)] = (qn, r, parts)
    return _MSG[(k, kind)]


def make_answer(k: int, v: int, exp: int):
    """a real dns.resolver.Answer whose expiration (= time.time() + minimum TTL at creation) must be `exp`.
    The answer's identity `v` selects its shape: plain rrset, CNAME chain (the minimum TTL is on either link),
    negative answer (rrset None, so the Answer object is *falsy*; TTL = min(SOA ttl, SOA minimum))."""
    if (v, exp) in ANSWERS:
        return ANSWERS[(v, exp)]  # the same object again (re-put of an object the cache may still hold)
    kind = {2: 1, 5: 1, 3: 2, 7: 2}.get(v % 8, 0)
    qn, r, parts = _message(k, kind)
    ttl = min(exp, 7)
    if kind == 0:
        parts[0].ttl = ttl
    elif kind == 1:
        lo, hi = (0, 1) if v % 8 == 2 else (1, 0)
        parts[lo].ttl, parts[hi].ttl = ttl, ttl + 4
    else:
        soa = parts[0]
        if v % 8 == 3:
            soa.ttl = ttl + 3
            soa.clear()
            soa.add(dns.rdata.from_text("IN", "SOA", f"ns. host. 1 2 3 4 {ttl}"), ttl + 3)
        else:
            soa.clear()
            soa.add(dns.rdata.from_text("IN", "SOA", f"ns. host. 1 2 3 4 {ttl + 9}"), ttl)
    saved = CLOCK.t
    CLOCK.t = float(exp - ttl)
    try:
        a = dns.resolver.Answer(qn, dns.rdatatype.A, dns.rdataclass.IN, r)
    finally:
        CLOCK.t = saved
    a.vid = v
    ANSWERS[(v, exp)] = a
    if a.expiration != float(exp):
        ANSWER_PROBLEMS.append(("C17/Answer.__init__/expiration",
                                f"Answer of shape {('plain', 'CNAME chain', 'negative')[kind]} created at t={exp - ttl} with minimum TTL {ttl}: "
                                f"expiration {a.expiration}, expected {exp}"))
    return a


def parse_tok(tok: str):
    tok = tok.rstrip("!")
    c, a = tok[0], tok[1:]
    if c == "p":
        k, v, e = a.split(":")
        return c, (int(k), int(v), int(e))
    if c in "gfkas":
        return c, (int(a),)
    return c, ()


OPNAME = {"g": "get", "p": "put", "f": "flush", "F": "flush", "s": "set_max_size", "a": "clock", "h": "hits",
          "m": "misses", "k": "get_hits_for_key", "r": "reset_statistics", "S": "get_statistics_snapshot"}


def safe_apply(cache, tok: str):
    try:
        return apply_op(cache, tok)
    except Exception as e:  # noqa: BLE001
        return "X" + type(e).__name__


def apply_op(cache, tok: str):
    """run one operation on the real cache; returns the canonical result token.  The call form (positional /
    keyword arguments, explicit `None`) and the key object (an equal alias) rotate with the operation counter."""
    c, a = parse_tok(tok)
    CALLS[0] += 1
    n = CALLS[0]
    if c in "gpfk":
        key = key_obj(a[0], n // 2)
    if c == "g":
        r = cache.get(key) if n % 2 else cache.get(key=key)
        return "N" if r is None else f"V{r.vid}"
    if c == "p":
        value = make_answer(*a)
        if n % 3 == 0:
            cache.put(key, value)
        elif n % 3 == 1:
            cache.put(key=key, value=value)
        else:
            cache.put(value=value, key=key)
        return "U"
    if c == "f":
        if n % 2:
            cache.flush(key)
        else:
            cache.flush(key=key)
        return "U"
    if c == "F":
        if n % 3 == 0:
            cache.flush()
        elif n % 3 == 1:
            cache.flush(None)
        else:
            cache.flush(key=None)
        return "U"
    if c == "s":
        if n % 2:
            cache.set_max_size(a[0])
        else:
            cache.set_max_size(max_size=a[0])
        return "U"
    if c == "a":
        CLOCK.t += a[0]
        return "U"
    if c == "h":
        return f"#{cache.hits()}"
    if c == "m":
        return f"#{cache.misses()}"
    if c == "k":
        return f"#{cache.get_hits_for_key(key) if n % 2 else cache.get_hits_for_key(key=key)}"
    if c == "r":
        cache.reset_statistics()
        return "U"
    if c == "S":
        s = cache.get_statistics_snapshot()
        SNAPSHOTS.append((s, SC.raw(s, "hits"), SC.raw(s, "misses")))
        return f"T{SC.raw(s, 'hits')}/{SC.raw(s, 'misses')}"
    raise ValueError(tok)


# ------------------------------------------------------------------------------------------------
# state dumps (through the real pointers, bypassing the access monitor)
# ------------------------------------------------------------------------------------------------
def dump_lru(c):
    raw = SC.raw
    s, data = raw(c, "sentinel"), raw(c, "data")
    bound = len(data) + 3
    fwd, n = [], raw(s, "next")
    while n is not s and len(fwd) <= bound:
        fwd.append(n)
        n = raw(n, "next")
    bwd, n = [], raw(s, "prev")
    while n is not s and len(bwd) <= bound:
        bwd.append(n)
        n = raw(n, "prev")
    wf = None
    if len(fwd) > bound or len(bwd) > bound:
        wf = "ring does not return to the sentinel"
    elif [id(x) for x in fwd] != [id(x) for x in reversed(bwd)]:
        wf = "next-ring and prev-ring disagree"
    elif len(fwd) != len(data):
        wf = f"ring has {len(fwd)} nodes, data has {len(data)} keys"
    elif any(data.get(raw(x, "key")) is not x for x in fwd):
        wf = "data[key] is not the ring node carrying that key"
    ring = [(KID.get(raw(x, "key"), -1), getattr(raw(x, "value"), "vid", -1), exp_of(raw(x, "value")), raw(x, "hits"))
            for x in fwd[:bound]]
    st = raw(c, "statistics")
    return {"ring": ring, "max": raw(c, "max_size"), "H": raw(st, "hits"), "M": raw(st, "misses"), "wf": wf}


def dump_cache(c):
    raw = SC.raw
    data = raw(c, "data")
    d = {KID.get(k, -1): (getattr(v, "vid", -1), exp_of(v)) for k, v in data.items()}
    st = raw(c, "statistics")
    return {"data": d, "nc": int(raw(c, "next_cleaning")), "H": raw(st, "hits"), "M": raw(st, "misses"), "wf": None}


def state_tok(kind, d):
    if kind == "lru":
        ring = ",".join(f"{k}:{v}:{e}:{h}" for k, v, e, h in d["ring"]) or "-"
        return f"{ring}|{d['max']}|{d['H']}/{d['M']}"
    data = ",".join(f"{k}:{v}:{e}" for k, (v, e) in sorted(d["data"].items())) or "-"
    return f"{data}|{d['nc']}|{d['H']}/{d['M']}"


# ------------------------------------------------------------------------------------------------
# the property, clause by clause, on one step of the implementation (prev state --op/out--> new state)
# ------------------------------------------------------------------------------------------------
def clamp(n):
    return 1 if n < 1 else n


def check_history(kind, params, steps):
    """steps: list of (tok, out, dump-or-None) in (claimed) sequential order, starting from the state `params['init']`
    at time params['t0'].  Returns a list of (signature, what, index)."""
    fails = []
    now = params["t0"]
    prev = params["init"]
    cls = "LRUCache" if kind == "lru" else "Cache"

    def bad(i, op, clause, what):
        fails.append((f"C17/{cls}.{OPNAME[op]}/{clause}", what, i))

    for i, (tok, out, new) in enumerate(steps):
        c, a = parse_tok(tok)
        H, M = prev["H"], prev["M"]
        if kind == "lru":
            ring = prev["ring"]
            k = a[0] if c in "gpfk" else None
            ent = next((x for x in ring if x[0] == k), None) if k is not None else None
            rest = [x for x in ring if x[0] != k] if k is not None else ring
            exp_ring = [ring]
            exp_max = prev["max"]
            exp_out = "U"
            if c == "g":
                if ent is not None and ent[2] > now:
                    exp_out = f"V{ent[1]}"
                    exp_ring = [[(ent[0], ent[1], ent[2], ent[3] + 1)] + rest]
                    H += 1
                else:
                    exp_out = "N"
                    exp_ring = [rest, ring]
                    M += 1
                if out != exp_out:
                    if out.startswith("V") and ent is not None and ent[2] <= now:
                        bad(i, c, "never-stale", f"get(k{k}) at t={now} returned answer {out[1:]} whose expiration is {ent[2]}")
                    elif out.startswith("V"):
                        bad(i, c, "latest-unexpired/wrong-answer", f"get(k{k}) returned {out}, stored is {ent}")
                    else:
                        bad(i, c, "latest-unexpired/lost", f"get(k{k}) at t={now} returned None although {ent} is stored, unexpired, not flushed, not evicted")
            elif c == "p":
                if new is not None:
                    nr = new["ring"]
                    if not nr or nr[0] != (a[0], a[1], a[2], 0):
                        bad(i, c, "latest-unexpired/not-stored", f"after put(k{k}) the most recently used entry is {nr[:1]}")
                    else:
                        tail = nr[1:]
                        if tail != rest[:len(tail)]:
                            bad(i, c, "evicts-lru-first", f"put(k{k}) with ring {ring} (MRU first), max_size {prev['max']} left {nr}: survivors are not the most recently used ones in order")
                        elif len(tail) < min(len(rest), max(prev["max"] - 1, 0)):
                            bad(i, c, "evicts-only-when-full", f"put(k{k}) with {len(rest)} other entries and max_size {prev['max']} kept only {len(tail)} of them: a live answer was dropped without need")
                    if len(nr) > prev["max"]:
                        bad(i, c, "lru-bound/after-put", f"{len(nr)} entries after put with max_size {prev['max']}")
                    exp_ring = [nr]  # validated above
                else:
                    exp_ring = [[(a[0], a[1], a[2], 0)] + rest[:max(0, prev["max"] - 1)]]
            elif c == "f":
                exp_ring = [rest]
            elif c == "F":
                exp_ring = [[]]
            elif c == "s":
                exp_max = clamp(a[0])
                # any eviction done here must be LRU-first
                exp_ring = [ring[:j] for j in range(len(ring), -1, -1)]
                if new is None:
                    exp_ring = [ring] if not params.get("intended") else [ring[:exp_max]]
            elif c == "h":
                exp_out = f"#{H}"
            elif c == "m":
                exp_out = f"#{M}"
            elif c == "k":
                exp_out = f"#{ent[3]}" if ent is not None and ent[2] > now else "#0"
            elif c == "r":
                H, M = 0, 0
            elif c == "S":
                exp_out = f"T{H}/{M}"
            elif c == "a":
                now += a[0]
            if c != "g" and out != exp_out:
                bad(i, c, "counters" if c in "hmkS" else "result", f"{tok} returned {out}, expected {exp_out}")
            if new is None:
                new = {"ring": exp_ring[0], "max": exp_max, "H": H, "M": M, "wf": None}
            else:
                if new["wf"]:
                    bad(i, c, "ring-wf", f"after {tok}: {new['wf']}")
                elif c != "p" and new["ring"] not in exp_ring:
                    clause = {"g": "recency/hit-not-moved-to-front" if exp_out != "N" else "state", "f": "flush/not-removed",
                              "F": "flush/not-removed", "s": "evicts-lru-first"}.get(c, "state")
                    bad(i, c, clause, f"after {tok} ring {ring} became {new['ring']}")
                if (new["H"], new["M"]) != (H, M):
                    bad(i, c, "counters", f"after {tok} -> {out}: hits/misses {new['H']}/{new['M']}, every lookup counted once gives {H}/{M}")
                if c == "s" and new["max"] != exp_max and new["max"] < 1:
                    bad(i, c, "lru-bound/limit", f"max_size {new['max']}")
                n_new, n_prev = len(new["ring"]), len(ring)
                if n_new > new["max"] and c != "p" and (n_new > n_prev or new["max"] < prev["max"] or n_prev <= prev["max"]):
                    if c == "s" and new["max"] < prev["max"] and n_new == n_prev:
                        fails.append((SIG_D14, f"set_max_size({a[0]}) with {n_prev} entries: {n_new} entries remain (> limit {new['max']}) until the next put", i))
                    else:
                        bad(i, c, "lru-bound", f"{n_new} entries with max_size {new['max']} after {tok}")
        else:
            data = prev["data"]
            k = a[0] if c in "gpf" else None
            ent = data.get(k) if k is not None else None
            exp_out = "U"
            may_clean = c in "gp"
            target = dict(data)
            if c == "g":
                if ent is not None and ent[1] > now:
                    exp_out = f"V{ent[0]}"
                    H += 1
                else:
                    exp_out = "N"
                    M += 1
                if out != exp_out:
                    if out.startswith("V") and ent is not None and ent[1] <= now:
                        bad(i, c, "never-stale", f"get(k{k}) at t={now} returned answer {out[1:]} whose expiration is {ent[1]}")
                    elif out.startswith("V"):
                        bad(i, c, "latest-unexpired/wrong-answer", f"get(k{k}) returned {out}, stored is {ent}")
                    else:
                        bad(i, c, "latest-unexpired/lost", f"get(k{k}) at t={now} returned None although {ent} is stored, unexpired and not flushed")
            elif c == "p":
                target[k] = (a[1], a[2])
            elif c == "f":
                target.pop(k, None)
            elif c == "F":
                target = {}
            elif c == "h":
                exp_out = f"#{H}"
            elif c == "m":
                exp_out = f"#{M}"
            elif c == "r":
                H, M = 0, 0
            elif c == "S":
                exp_out = f"T{H}/{M}"
            elif c == "a":
                now += a[0]
            elif c == "k":
                exp_out = "#0"
            if c != "g" and out != exp_out:
                bad(i, c, "counters" if c in "hmS" else "result", f"{tok} returned {out}, expected {exp_out}")
            if new is None:
                new = {"data": target, "nc": prev["nc"], "H": H, "M": M, "wf": None}
            else:
                nd = new["data"]
                okd = all(nd.get(kk) == vv or (may_clean and kk not in nd and vv[1] <= now and not (c == "p" and kk == k))
                          for kk, vv in target.items()) and all(kk in target for kk in nd)
                if not okd:
                    clause = {"p": "latest-unexpired/not-stored", "f": "flush/not-removed", "F": "flush/not-removed"}.get(
                        c, "latest-unexpired/lost" if any(kk not in nd and vv[1] > now for kk, vv in target.items()) else "state")
                    bad(i, c, clause, f"after {tok} at t={now} data {data} became {nd}")
                if (new["H"], new["M"]) != (H, M):
                    bad(i, c, "counters", f"after {tok} -> {out}: hits/misses {new['H']}/{new['M']}, every lookup counted once gives {H}/{M}")
        prev = new
    return fails, prev


# ------------------------------------------------------------------------------------------------
# which variant of set_max_size does the code implement?  (DESIGN §6: replay the witness, then demand
# correspondence with that variant everywhere)
# ------------------------------------------------------------------------------------------------
_VARIANT = {}


def detect_intended():
    if "v" not in _VARIANT:
        with clock_installed():
            CLOCK.t = 1000.0
            try:
                c = dns.resolver.LRUCache(4)
                for i in range(4):
                    c.put(KEYS[i], make_answer(i, i, 2000))
                c.set_max_size(2)
                _VARIANT["v"] = len(c.data) <= 2
            except Exception:  # noqa: BLE001 - reported by the cases themselves
                _VARIANT["v"] = True
    return _VARIANT["v"]


class clock_installed:
    def __enter__(self):
        dns.resolver.time = CLOCK
        return CLOCK

    def __exit__(self, *a):
        dns.resolver.time = _REAL_TIME
        return False


def new_cache(kind, params):
    CLOCK.t = float(params["t0"])
    if params.get("default"):
        # the documented defaults: LRUCache() holds 100000 nodes, Cache() sweeps every 300 s
        c = dns.resolver.LRUCache() if kind == "lru" else dns.resolver.Cache()
        if kind == "lru":
            return c, {"ring": [], "max": 100000, "H": 0, "M": 0, "wf": None}
        return c, {"data": {}, "nc": params["t0"] + 300, "H": 0, "M": 0, "wf": None}
    if kind == "lru":
        c = dns.resolver.LRUCache(params["max"])
        init = {"ring": [], "max": clamp(params["max"]), "H": 0, "M": 0, "wf": None}
    else:
        c = dns.resolver.Cache(cleaning_interval=float(params["interval"]))
        init = {"data": {}, "nc": params["t0"] + params["interval"], "H": 0, "M": 0, "wf": None}
    return c, init


def op_line(kind, params, toks):
    if kind == "lru":
        return f"c17.lru {params['max']} {params['t0']} " + " ".join(toks)
    return f"c17.cache {params['interval']} {params['t0']} " + " ".join(toks)


def report(ctx, case, fails, extra=None):
    seen = set()
    for sig, what, i in fails:
        if sig in seen:
            continue
        seen.add(sig)
        rep = {"kind": case["kind"], "case": case, "step": i}
        if extra:
            rep.update(extra)
        ctx.fail(sig, what, rep)


# ------------------------------------------------------------------------------------------------
# sequential case
# ------------------------------------------------------------------------------------------------
def eval_seq(ctx: Ctx, case: dict):
    kind = case["kind"]
    params = {"t0": case["t0"], "intended": detect_intended(), "default": case.get("default", False)}
    if kind == "lru":
        params["max"] = 100000 if params["default"] else case["max"]
    else:
        params["interval"] = 300 if params["default"] else case["interval"]
    dump = dump_lru if kind == "lru" else dump_cache
    steps = []
    del ANSWER_PROBLEMS[:]
    del SNAPSHOTS[:]
    ANSWERS.clear()
    with clock_installed():
        cache, init = new_cache(kind, params)
        params["init"] = init
        for tok in case["ops"]:
            try:
                out = apply_op(cache, tok)
            except Exception as e:  # noqa: BLE001
                out = "X" + type(e).__name__
            steps.append((tok, out, dump(cache)))
            ctx.count(f"{kind}.op.{OPNAME[tok[0]]}" + (".hit" if out.startswith("V") else ".miss" if out == "N" else ""))
    impl = " ".join(["ok"] + [f"{o}|{state_tok(kind, d)}" for _, o, d in steps])
    ctx.corr(op_line(kind, params, case["ops"]), impl, case)
    fails, _ = check_history(kind, params, steps)
    for tok, out, _ in steps:
        if out.startswith("X"):
            fails.append((f"C17/{'LRUCache' if kind == 'lru' else 'Cache'}.{OPNAME[tok[0]]}/raises", f"{tok} raised {out[1:]}", 0))
    for sig, what in ANSWER_PROBLEMS:
        fails.append((sig, what, 0))
    for snap, h, m in SNAPSHOTS:
        if (SC.raw(snap, "hits"), SC.raw(snap, "misses")) != (h, m):
            fails.append((f"C17/{'LRUCache' if kind == 'lru' else 'Cache'}.get_statistics_snapshot/counters/snapshot-aliased",
                          f"a statistics snapshot taken as {h}/{m} reads {SC.raw(snap, 'hits')}/{SC.raw(snap, 'misses')} after later lookups: it is not a copy", 0))
            break
    report(ctx, case, fails)
    return fails


# ------------------------------------------------------------------------------------------------
# concurrent case
# ------------------------------------------------------------------------------------------------
MON_CACHE = ("data", "statistics", "sentinel", "max_size", "next_cleaning")
MON_NODE = ("prev", "next", "hits", "value", "key")
MON_STATS = ("hits", "misses")


def build_scheduled_cache(kind, params, sched):
    """the real classes, with monitored subclasses for the access check and the scheduler's Lock"""
    sched.trace_code_of(dns.resolver.CacheBase, dns.resolver.Cache, dns.resolver.LRUCache, _REAL_NODE, _REAL_STATS)
    dns.resolver.threading = SC.ThreadingShim(sched)
    dns.resolver.LRUCacheNode = SC.monitored(_REAL_NODE, MON_NODE, sched)
    dns.resolver.CacheStatistics = SC.monitored(_REAL_STATS, MON_STATS, sched)
    try:
        CLOCK.t = float(params["t0"])
        if kind == "lru":
            cls = SC.monitored(dns.resolver.LRUCache, MON_CACHE, sched)
            cache = cls(params["max"])
        else:
            cls = SC.monitored(dns.resolver.Cache, MON_CACHE, sched)
            cache = cls(cleaning_interval=float(params["interval"]))
    finally:
        dns.resolver.threading = _REAL_THREADING
    return cache


def restore_classes():
    dns.resolver.threading = _REAL_THREADING
    dns.resolver.LRUCacheNode = _REAL_NODE
    dns.resolver.CacheStatistics = _REAL_STATS


def run_conc(case, policy):
    """returns (sched, history entries, init dump, params)"""
    kind = case["cache"]
    params = {"t0": case["t0"], "intended": detect_intended()}
    if kind == "lru":
        params["max"] = case["max"]
    else:
        params["interval"] = case["interval"]
    dump = dump_lru if kind == "lru" else dump_cache
    sched = SC.Sched(policy, max_steps=case.get("max_steps", 20000))
    with clock_installed():
        try:
            cache = build_scheduled_cache(kind, params, sched)
            params["pre_outs"] = [safe_apply(cache, tok) for tok in case.get("prefix", [])]
            params["init"] = dump(cache)
            params["t0"] = int(CLOCK.t)
            sched.on_release = lambda me: me.cur is not None and me.cur.__setitem__("dump", dump(cache))

            def worker(prog):
                def fn(me):
                    for tok in prog:
                        me.cur = {"tok": tok, "pos": None, "tid": me.id, "dump": None, "out": None}
                        if tok[0] == "a":
                            # the clock belongs to the harness; moving it under the cache lock keeps it constant
                            # inside every cache method, as the model assumes
                            with sched.lock:
                                CLOCK.t += int(tok[1:])
                            me.cur["out"] = "U"
                        else:
                            try:
                                me.cur["out"] = apply_op(cache, tok)
                            except SC.SchedAbort:
                                raise
                            except Exception as e:  # noqa: BLE001
                                me.cur["out"] = "X" + type(e).__name__
                        sched.place(me)  # an operation that never touched shared state
                        me.cur = None
                return fn

            for prog in case["progs"]:
                sched.spawn(worker(prog))
            sched.monitoring = True
            sched.run(timeout=30.0)
            sched.monitoring = False
            final = dump(cache)
        finally:
            restore_classes()
    return sched, params, final


def linearizations(hist):
    """candidate sequential orders: lock-acquisition order; an operation that ran without the lock while another
    thread was inside its critical section may also be placed just before that operation"""
    loose = [i for i, h in enumerate(hist) if h.get("holder") is not None]
    if not loose or len(loose) > 6:
        return [list(range(len(hist)))]
    cands = []
    for choice in itertools.product([False, True], repeat=len(loose)):
        order = list(range(len(hist)))
        for i, before in zip(loose, choice):
            if before:
                holder = hist[i]["holder"]
                # position of the holder's operation in progress: the last entry of that thread before i
                j = max((p for p in range(i) if hist[p]["tid"] == holder), default=None)
                if j is not None:
                    order.remove(i)
                    order.insert(order.index(j), i)
        if order not in cands:
            cands.append(order)
    return cands


def eval_conc(ctx: Ctx, case: dict):
    kind = case["cache"]
    cls = "LRUCache" if kind == "lru" else "Cache"
    if case.get("script") is not None:
        attempts = [SC.ScriptPolicy(case["script"])] + [SC.RandomPolicy(Rng(case["seed"] * 1000 + j)) for j in range(case.get("retries", 0))]
    else:
        attempts = [SC.RandomPolicy(Rng(case["seed"]))]
    all_fails = []
    for policy in attempts:
        sched, params, final = run_conc(case, policy)
        hist = sched.history
        fails = []
        extra = {"schedule": list(sched.trace)}
        if sched.deadlock:
            fails.append((f"C17/{cls}/linearizable/deadlock", "threads blocked forever on the cache lock", 0))
        if sched.livelock:
            fails.append((f"C17/{cls}/linearizable/no-progress", "schedule budget exhausted (a cache method does not terminate)", 0))
        for t in sched.threads:
            if t.error is not None:
                fails.append((f"C17/{cls}/linearizable/raises", f"thread {t.id}: {t.error!r}", 0))
        for pk, detail in sched.problems:
            attr = detail.split(" ")[0].split(".")[-1]
            fn = detail.split(" in ")[-1]
            if pk == "unlocked-access":
                fails.append((f"C17/{cls}.{fn}/lock-discipline/unlocked-access:{attr}", f"{detail} while the calling thread does not hold the cache lock", 0))
            else:
                fails.append((f"C17/{cls}/lock-discipline/{pk}", detail, 0))
        complete = not (sched.deadlock or sched.livelock) and all(h["out"] is not None for h in hist)
        if complete:
            best = None
            for order in linearizations(hist):
                steps = [(hist[i]["tok"], hist[i]["out"], hist[i]["dump"]) for i in order]
                f, last = check_history(kind, params, steps)
                # the last state reached by the claimed sequential order must be the real final state
                if not f:
                    fk = ("ring", "max") if kind == "lru" else ("data",)
                    if any(last[x] != final[x] for x in fk) or (last["H"], last["M"]) != (final["H"], final["M"]):
                        f = [(f"C17/{cls}/linearizable/final-state",
                              f"final state {state_tok(kind, final)} is not the state {state_tok(kind, dict(final, **last))} reached by the sequential order", len(steps))]
                if best is None or len(f) < len(best[1]):
                    best = (order, f)
                if not f:
                    break
            order, f = best
            if f:
                unlocked = any(h.get("holder") is not None for h in hist) or any(pk == "unlocked-access" for pk, _ in sched.problems)
                if unlocked and any(h["tok"][0] == "s" for h in hist):
                    fails.append((SIG_RACE, "no sequential order of the operations explains the results: " + f[0][1], f[0][2]))
                else:
                    fails.extend((sig.replace(f"C17/{cls}.", f"C17/{cls}.conc-"), "concurrent history, in lock-acquisition order: " + what, i) for sig, what, i in f)
            toks = [hist[i]["tok"] + ("" if hist[i]["dump"] is not None else "!") for i in order]
            impl = " ".join(["ok"] + [f"{o}|?" for o in params["pre_outs"]] + [f"{hist[i]['out']}|" + (state_tok(kind, hist[i]["dump"]) if hist[i]["dump"] is not None else "?") for i in order])
            if not f and not any(h["out"].startswith("X") for h in hist):
                # (a history that no sequential order explains is reported by the oracle above; the sequential
                # model has nothing to be compared with)
                ctx.corr(op_line_from(kind, params, case, toks), impl, case)
            ctx.count(f"conc.{kind}.threads={len(case['progs'])}")
            ctx.count("conc.switches", sum(1 for a, b in zip(sched.trace, sched.trace[1:]) if a != b))
        all_fails.extend(fails)
        if fails:
            report(ctx, case, fails, extra)
            break
    return all_fails


def op_line_from(kind, params, case, toks):
    """the model line for a concurrent history: the prefix (run sequentially before the threads start) then the
    history in the chosen sequential order"""
    pre = list(case.get("prefix", []))
    p = dict(params)
    p["t0"] = case["t0"]
    return op_line(kind, p, [t + "!" for t in pre] + toks)


# ------------------------------------------------------------------------------------------------
# lock discipline of every public method, enumerated from the classes on every run
# ------------------------------------------------------------------------------------------------
def eval_lockprobe(ctx: Ctx, case: dict):
    kind = case["cache"]
    real = dns.resolver.LRUCache if kind == "lru" else dns.resolver.Cache
    cls = real.__name__
    fails = []
    names = sorted(n for n in dir(real) if not n.startswith("_") and callable(getattr(real, n)))
    ctx.extra.setdefault("public_methods", {})[cls] = names
    for name in names:
        sig = inspect.signature(getattr(real, name))
        args = []
        okargs = True
        for pn, p in list(sig.parameters.items())[1:]:
            if pn == "key":
                args.append(KEYS[1])
            elif pn == "value":
                args.append(None)  # filled below
            elif pn == "max_size":
                args.append(3)
            elif p.default is not inspect.Parameter.empty:
                continue
            else:
                okargs = False
        if not okargs:
            ctx.count("lockprobe.unknown-signature")
            ctx.notes.append(f"public method {cls}.{name}{sig} has parameters the lock probe cannot fill; it is not covered")
            continue
        params = {"t0": 1000, "max": 4, "interval": 5}
        sched = SC.Sched(SC.RandomPolicy(Rng(7), 1, 1))
        with clock_installed():
            try:
                cache = build_scheduled_cache(kind, params, sched)
                try:
                    for i in range(3):
                        cache.put(KEYS[i], make_answer(i, i, 1100))
                    cache.get(KEYS[1])
                except Exception as e:  # noqa: BLE001
                    fails.append((f"C17/{cls}.put/raises", f"filling a fresh {cls} raised {e!r}", 0))
                    continue
                call_args = [make_answer(1, 9, 1100) if a is None else a for a in args]

                def fn(me, cache=cache, name=name, call_args=call_args):
                    me.cur = {"tok": name, "pos": None, "tid": me.id}
                    getattr(cache, name)(*call_args)
                    me.cur = None

                sched.spawn(fn)
                sched.monitoring = True
                sched.run(timeout=10.0)
                sched.monitoring = False
            finally:
                restore_classes()
        ctx.count(f"lockprobe.{cls}.{name}")
        acquired = any(h.get("tok") == name for h in sched.history)
        for pk, detail in sched.problems:
            attr = detail.split(" ")[0].split(".")[-1]
            fails.append((f"C17/{cls}.{name}/lock-discipline/unlocked-access:{attr}",
                          f"{cls}.{name}: {detail} without holding the cache lock", 0))
        for t in sched.threads:
            if t.error is not None:
                fails.append((f"C17/{cls}.{name}/raises", repr(t.error), 0))
        del acquired
    report(ctx, case, fails)
    return fails



# ------------------------------------------------------------------------------------------------
# what is left behind after an error: a cached value whose `expiration` raises when a method looks at it
# ------------------------------------------------------------------------------------------------
def eval_hostile(ctx: Ctx, case: dict):
    kind = case["cache"]
    cls = "LRUCache" if kind == "lru" else "Cache"
    params = {"t0": case["t0"], "max": case.get("max", 3), "interval": case.get("interval", 5)}
    dump = dump_lru if kind == "lru" else dump_cache
    fails = []
    ANSWERS.clear()
    with clock_installed():
        cache, _ = new_cache(kind, params)
        for i, tok in enumerate(case["ops"] + ["p7:9999:999999", "g7", "f7"]):
            try:
                if tok[0] == "x":
                    k, n = (int(v) for v in tok[1:].split(":"))
                    cache.put(key_obj(k), HostileValue(5000 + i, n, 10 ** 9))
                    out = "U"
                else:
                    out = apply_op(cache, tok)
            except HostileError:
                out = "Xhostile"
            except Exception as e:  # noqa: BLE001
                out = "X" + type(e).__name__
                fails.append((f"C17/{cls}.{OPNAME.get(tok[0], 'put')}/after-error/raises",
                              f"after an earlier lookup failed inside the cache (a value whose expiration raises), {tok} raises {type(e).__name__}: the cache is left unusable", i))
                break
            ctx.count(f"hostile.{kind}." + ("error" if out == "Xhostile" else "ok"))
            d = dump(cache)
            if d["wf"]:
                fails.append((f"C17/{cls}.{OPNAME.get(tok[0], 'put')}/after-error/ring-wf",
                              f"after {tok} -> {out} (the value's expiration raised inside the method): {d['wf']}", i))
                break
            if kind == "lru" and len(d["ring"]) > d["max"]:
                fails.append((f"C17/{cls}.{OPNAME.get(tok[0], 'put')}/after-error/lru-bound", f"after {tok} -> {out}: {len(d['ring'])} entries, max_size {d['max']}", i))
                break
    report(ctx, case, fails)
    return fails


def hostile_lru_enabled():
    """LRUCache.get on the unchanged tree unlinks the node before it looks at value.expiration, so an exception there
    leaves the node in the dict but out of the ring (a fix is proposed in corpus/C17/APPLIED-5ebffc8-lru-get-unlink-before-expiry-check.diff).
    The LRU half of this stream, and its witness, are switched on by renaming corpus/C17/hostile-lru-get.json.pending
    to .json once the repair is in the repository."""
    return os.path.exists(os.path.join(VERIF, "corpus", "C17", "hostile-lru-get.json")) or os.environ.get("VERIF_C17_HOSTILE_LRU") == "1"


def gen_hostile(rng, kind):
    ops = []
    for _ in range(rng.range(4, 14)):
        x = rng.below(10)
        if x < 3:
            ops.append(f"x{rng.below(4)}:{rng.choice([1, 1, 2])}")
        elif x < 6:
            ops.append(f"p{rng.below(5)}:{rng.below(900) * 8}:{rng.choice([1001, 1005, 2000])}")
        elif x < 9:
            ops.append(f"g{rng.below(5)}")
        else:
            ops.append(rng.choice(["a1", "a5", f"k{rng.below(4)}", f"f{rng.below(4)}", "s2", "s1"]) if kind == "lru" else rng.choice(["a1", "a5", "a6", f"f{rng.below(4)}"]))
    c = {"kind": "hostile", "cache": kind, "t0": 1000, "ops": ops}
    if kind == "lru":
        c["max"] = rng.choice([1, 2, 3])
    else:
        c["interval"] = rng.choice([0, 1, 5])
    return c

# ------------------------------------------------------------------------------------------------
def eval_case(ctx: Ctx, case: dict):
    k = case["kind"]
    if k in ("lru", "cache"):
        return eval_seq(ctx, case)
    if k == "conc":
        return eval_conc(ctx, case)
    if k == "lockprobe":
        return eval_lockprobe(ctx, case)
    if k == "hostile":
        return eval_hostile(ctx, case)
    raise ValueError(k)


# ------------------------------------------------------------------------------------------------
# generators
# ------------------------------------------------------------------------------------------------
class Gen:
    """generates op tokens while tracking the clock and a counter for answer identities"""

    def __init__(self, rng, t0, kind, interval=5, nkeys=NKEYS):
        self.rng, self.now, self.kind, self.interval, self.nkeys = rng, t0, kind, interval, nkeys
        self.v = 0
        self.put_keys = []

    def key(self):
        r = self.rng
        if self.put_keys and r.chance(3, 4):
            return r.choice(self.put_keys)
        return r.below(self.nkeys)

    def op(self, allow_setmax=True, allow_adv=True):
        r = self.rng
        x = r.below(100)
        if x < 30 and getattr(self, "last_puts", None) and r.chance(1, 8):
            # the very same Answer object again, under the same or another key
            _, v, exp = self.last_puts[r.below(len(self.last_puts))]
            k = r.below(self.nkeys)
            if k not in self.put_keys:
                self.put_keys.append(k)
            return f"p{k}:{v}:{exp}"
        if x < 30:
            k = r.below(self.nkeys)
            self.v += 1
            ttl, age = r.choice(TTL_POOL), r.choice(AGE_POOL)
            exp = max(0, self.now - age + ttl)
            if k not in self.put_keys:
                self.put_keys.append(k)
            self.last_puts = (getattr(self, "last_puts", []) + [(k, self.v, exp)])[-4:]
            return f"p{k}:{self.v}:{exp}"
        if x < 62:
            return f"g{self.key()}"
        if x < 67:
            return f"f{self.key()}"
        if x < 69:
            return "F"
        if x < 75 and self.kind == "lru" and allow_setmax:
            return f"s{r.choice(MAX_POOL)}"
        if x < 86 and allow_adv:
            dt = r.choice([0, 1, 1, 1, 2, 3, 5, 10, self.interval])
            self.now += dt
            return f"a{dt}"
        if x < 89:
            return "h"
        if x < 92:
            return "m"
        if x < 96 and self.kind == "lru":
            return f"k{self.key()}"
        if x < 98:
            return "S"
        return "r" if r.chance(1, 3) else "S"


def gen_seq(rng, kind):
    t0 = rng.choice([0, 5, 1000, 1000, 2 ** 31 - 2, 2 ** 32 - 3])
    n = rng.choice([1, 2, 3, 5, 8, 12, 20, 30, 50, 80])
    if kind == "lru":
        case = {"kind": "lru", "max": rng.choice(MAX_POOL), "t0": t0}
        g = Gen(rng, t0, kind, nkeys=rng.choice([2, 3, NKEYS]))
    else:
        iv = rng.choice(INTERVAL_POOL)
        case = {"kind": "cache", "interval": iv, "t0": t0}
        g = Gen(rng, t0, kind, interval=iv, nkeys=rng.choice([2, 3, NKEYS]))
    case["ops"] = [g.op() for _ in range(n)]
    return case


def gen_conc(rng, idx):
    kind = "lru" if rng.chance(2, 3) else "cache"
    t0 = 1000
    case = {"kind": "conc", "cache": kind, "t0": t0, "seed": rng.next() % (1 << 31)}
    if kind == "lru":
        case["max"] = rng.choice([1, 2, 2, 3, 4])
    else:
        case["interval"] = rng.choice([0, 1, 5])
    g = Gen(rng, t0, kind, interval=case.get("interval", 5), nkeys=rng.choice([2, 3, 4]))
    case["prefix"] = [g.op(allow_setmax=False) for _ in range(rng.choice([0, 2, 4, 6]))]
    nt = rng.range(2, 4)
    # clock advances inside threads would make the generator's notion of `now` schedule-dependent; expirations are
    # chosen around the start time plus the advances, so both outcomes occur
    case["progs"] = [[g.op(allow_setmax=False) for _ in range(rng.range(2, 6))] for _ in range(nt)]
    return case


def case_key(case):
    return json.dumps(case, sort_keys=True)


def nontrivial(case):
    ops = case.get("ops") or [t for p in case.get("progs", []) for t in p] + case.get("prefix", [])
    return any(t[0] == "p" for t in ops) and any(t[0] == "g" for t in ops)


def generate(ctx: Ctx, scale: int, rng, conc=True):
    for i in range(150 * scale):
        kind = "lru" if (i % 2 and hostile_lru_enabled()) else "cache"
        c = gen_hostile(rng, kind)
        ctx.case(case_key(c), True, sample=c if i < 2 else None)
        eval_case(ctx, c)
    for _ in range(1500 * scale):
        c = gen_seq(rng, "lru")
        ctx.case(case_key(c), nontrivial(c), sample=c if len(c["ops"]) <= 12 else None)
        eval_case(ctx, c)
    for _ in range(1500 * scale):
        c = gen_seq(rng, "cache")
        ctx.case(case_key(c), nontrivial(c), sample=c if len(c["ops"]) <= 12 else None)
        eval_case(ctx, c)
    if conc:
        for i in range(500 * scale):
            c = gen_conc(rng, i)
            ctx.case(case_key(c), nontrivial(c), sample=c if i < 2 else None)
            eval_case(ctx, c)


BOUNDARY = [
    # expiration exactly now / one tick later, both caches
    {"kind": "lru", "max": 2, "t0": 1000, "ops": ["p0:1:1001", "g0", "a1", "g0", "k0", "h", "m"]},
    {"kind": "cache", "interval": 5, "t0": 1000, "ops": ["p0:1:1001", "g0", "a1", "g0", "h", "m", "a4", "g0", "p1:2:1010", "a5", "g1"]},
    {"kind": "cache", "interval": 0, "t0": 0, "ops": ["p0:1:0", "g0", "p0:2:1", "g0", "F", "g0"]},
    # eviction order with hits re-ordering
    {"kind": "lru", "max": 3, "t0": 1000, "ops": ["p0:1:2000", "p1:2:2000", "p2:3:2000", "g0", "p3:4:2000", "g1", "g0", "g2", "g3", "p1:5:2000", "g2"]},
    {"kind": "lru", "max": 1, "t0": 1000, "ops": ["p0:1:2000", "p1:2:2000", "g0", "g1", "p1:3:2000", "g1", "f1", "g1"]},
    # set_max_size: grow, clamp
    {"kind": "lru", "max": 0, "t0": 1000, "ops": ["p0:1:2000", "p1:2:2000", "s3", "p0:3:2000", "p2:4:2000", "p3:5:2000", "s-1", "p4:6:2000"]},
    # falsy keys ((), 0): flushing one of them must not flush the cache
    {"kind": "lru", "max": 5, "t0": 1000, "ops": ["p4:1:2000", "p5:2:2000", "p0:4:2000", "g4", "g5", "f4", "g5", "g0", "g4", "f5", "g0", "k0", "k5"]},
    {"kind": "cache", "interval": 5, "t0": 1000, "ops": ["p4:1:2000", "p5:2:2000", "p0:4:2000", "g4", "g5", "f5", "g4", "g0", "g5", "f4", "g0"]},
    # every answer shape (plain, CNAME chain with the minimum on either link, negative = falsy Answer object), both caches
    {"kind": "lru", "max": 8, "t0": 1000, "ops": ["p0:8:1005", "p1:2:1005", "p2:5:1005", "p3:3:1005", "p4:7:1005", "g0", "g1", "g2", "g3", "g4", "k3", "a5", "g1", "g3"]},
    {"kind": "cache", "interval": 300, "t0": 1000, "ops": ["p0:8:1005", "p1:2:1005", "p2:5:1005", "p3:3:1005", "p4:7:1005", "g0", "g1", "g2", "g3", "g4", "a4", "g3", "a1", "g3", "g4"]},
    # snapshots are copies
    {"kind": "lru", "max": 2, "t0": 1000, "ops": ["S", "p0:1:2000", "g0", "g1", "S", "g0", "r", "g1", "S", "h", "m"]},
    {"kind": "cache", "interval": 5, "t0": 1000, "ops": ["S", "p0:1:2000", "g0", "g1", "S", "g0", "r", "g1", "S", "h", "m"]},
    # the documented default constructors
    {"kind": "lru", "default": True, "t0": 1000, "ops": ["p0:1:2000", "p1:2:2000", "g0", "s100001", "p2:3:2000"]},
    {"kind": "cache", "default": True, "t0": 1000, "ops": ["p0:1:1010", "g0", "a299", "g0", "a1", "g0", "p1:2:1400", "a300", "g1"]},
]


def big_case():
    """hundreds of entries: the ring, the make-room loop and a deep shrink at a size no small case reaches"""
    ops = [f"p{k}:{k + 1}:{5000 + k % 7}" for k in range(400)]
    ops += [f"g{k}" for k in (0, 143, 144, 399, 200)] + ["s100", "g299", "g300", "g399", "g200", "h", "m"]
    ops += [f"p{k}:{1000 + k}:6000" for k in range(400, 520)] + ["g399", "g200", "g420", "a4100", "g519", "F", "g519"]
    return {"kind": "lru", "max": 256, "t0": 1000, "ops": ops}


def run(ctx: Ctx):
    ctx.extra["set_max_size_evicts"] = detect_intended()  # informational; the model follows the repaired code
    for p in sorted(glob.glob(os.path.join(VERIF, "corpus", "C17", "*.json"))):
        c = json.load(open(p))
        ctx.case(("corpus", os.path.basename(p)), sample=None)
        eval_case(ctx, c)
        ctx.count("corpus")
    for c in BOUNDARY + [big_case()]:
        ctx.case(case_key(c))
        eval_case(ctx, c)
        ctx.count("boundary")
    for kind in ("lru", "cache"):
        eval_case(ctx, {"kind": "lockprobe", "cache": kind})
    generate(ctx, 1 if ctx.tier == "quick" else 20, ctx.rng)


def search(ctx: Ctx):
    for m in ctx.mismatches[:50]:
        if m.case is not None:
            eval_case(ctx, m.case)
    generate(ctx, 3 if ctx.tier == "quick" else 30, ctx.rng.fork(7))


def replay(ctx: Ctx, obj: dict):
    case = obj["case"]
    if case.get("kind") == "conc" and obj.get("schedule") and case.get("script") is None:
        case = dict(case, script=obj["schedule"], retries=0)
    fails = eval_case(ctx, case)
    return [w for _, w, _ in fails]


LEVEL = {
    "text": "Lean 4 theorems over an executable model of dns.resolver.Cache and LRUCache (sentinel ring as a list, explicit clock), for all operation sequences: a lookup never returns an answer at or after its expiration (both caches, from any state); Cache refines a timed map (a lookup returns exactly the most recent put of the key that was not flushed and has not expired, whatever sweeps happened); LRUCache refines a timed map plus a recency list of keys (a lookup returns the timed map's answer iff the key is still in the recency list and unexpired; the list changes only by move-to-front, flush, found-expired, and the tail cut of put / set_max_size); the ring carries every key at most once after every prefix (ring and dict agree); put leaves exactly new :: take (max_size-1) (ring without key), and after every operation of every sequence at most max_size entries are held (set_max_size evicts under the lock), only least-recently-used entries are evicted (stated with ghost last-use stamps: every evicted entry was used strictly earlier than every kept one) and none unless the cache is full; hits/misses equal the number of lookups that returned / did not return an answer, and each node's per-key hit count is the number of hits since the key was stored; the prev/next pointers of the sentinel ring, updated by link_after / unlink exactly as coded (and by the make-room, shrink and flush loops following sentinel.prev / gnode.next), represent the list model after every prefix of every sequence (single cycle through the sentinel, prev inverse to next); for any number of threads, any programs and any schedule, the lock-protected system is the sequential cache run in lock-acquisition order (state, per-thread results, program order, mutual exclusion) - both in a model where a method body is one step and in a finer one where every statement of every method (statistics reads, the statements of _maybe_clean, unlink / expiry test / link_after, argument evaluation and return outside the lock) is a step of its own, shared accesses are executed whether or not the lock is held, and linearizability is derived from the lock discipline of the code (accesses only between acquire and release), which is shown to be an invariant of every run. The model is tied to the code by a differential correspondence check after every operation (ring dumped through the real prev/next pointers in both directions, real Answer objects, dns.resolver.time rebound) and, for 2-4 real threads under a deterministic scheduler with preemption at every line of every cache method, by a lock-discipline monitor on every access to data, ring pointers, statistics and max_size, and by checking every completed history in acquisition order.",
    "note": "Trusted: Lean kernel + propext/Classical.choice/Quot.sound; the statements in lean/Props/C17.lean; the correspondence harness, its generators and the scheduler shim; the threading.Lock contract. That the real methods keep the lock discipline assumed of the statement-level codes (codeC / codeL in Model/Cache.lean) is checked by the access monitor on sampled schedules and by the per-method lock probe (tie, not proof); the statement-level codes are tied to the real methods only through the sequential correspondence (each implements stepC / stepL, proved) - sweeps and the eviction loop are one step each. The former set_max_size (no eviction, no lock) is kept only as a regression record (bound_needs_eviction_in_set_max_size).",
    "technique": "Lean 4 proof (invariants by induction over operation sequences, refinement to a timed map, closed form of the eviction loop, small-step lock system) + model-vs-implementation correspondence + deterministic-scheduler concurrency tie",
    "design_ref": "DESIGN.md §7 C17",
}

"""C18 — a network exchange returns only a genuine response; stream framing is exact.

Correspondence: dns.query (and dns.asyncquery, tie only) driven through scripted socket objects passed via the
public ``sock=`` parameters vs lean/Model/Net.lean through the driver.  ``dns.query.time`` and
``dns.query.selectors`` are rebound to a virtual clock / scripted selector, so the real ``_wait_for`` runs.
Oracle: the property clauses evaluated on the implementation from the *construction* of every datagram
(who sent it, what is in it), independent of dnspython and of the Lean model.
"""
from harness.core import Stalled as _Stalled
import contextlib
import glob
import json
import os
import socket

import dns.asyncquery
import dns.exception
import dns.flags
import dns.inet
import dns.message
import dns.name
import dns.query
import dns.update

from harness.core import Ctx, VERIF, enc_labels, hx

RULE = (
    "cases come from one SplitMix64 state: datagram scripts (0..7 events: would-block waits and datagrams built by an "
    "independent wire encoder from a description — genuine reply, wrong id / QR / opcode / question / class / type, rcode "
    "exception, extended rcode, TC, trailing octets, cut inside question or answer, TSIG without keyring, random garbage; "
    "sources: same address in another textual form, other host, other port, other scope, unparsable, multicast "
    "destination) under all 32 option combinations cycled by counter; address texts built from a known binary address; "
    "stream scripts (every single cut and cut pair of framed streams, random splits, would-block, EOF, deadlines, short "
    "sends); udp_with_fallback scripts (UDP script ending in a genuine / forged / cut truncated reply + TCP script), sync and async; "
    "a case is non-trivial if its key (kind + inputs) is new"
)
TRUSTED_BASE = [
    "scripted socket / selector / clock fakes in harness/props/C18.py (contract of sockets and selectors: recv(n) returns "
    "at most n octets, b'' at EOF, BlockingIOError when not ready; select(timeout) returns empty on timeout)",
    "the independent wire encoder and datagram summaries of harness/props/C18.py (checked against dns.message.from_wire "
    "by the c18.fromwire correspondence on every datagram)",
]
ASSUMPTIONS = [
    "TSIG-signed exchanges, DoT/DoH/DoQ, udp_with_fallback and socket creation/connect are outside the model",
    "address texts are ASCII without newline (the '$' of dns.ipv6's dot-quad pattern is then the end of text)",
    "dns.asyncquery has its own model functions (backend recv/recvfrom/sendall calls with a per-call timeout) and theorems; "
    "the backend socket's contract (recv returns at most n octets, b'' at EOF, raises Timeout after its timeout; sendall sends all or "
    "times out) is the scripted fake's",
    "the model reads 'shorter than a header', id, QR, opcode, TC and the whole question section (labels, compression pointers, type, "
    "class, qdcount, the UPDATE zone rule) from the datagram's own octets; what the reader finds after the question section (EDNS "
    "flags, whether and how a record raised, trailing octets) is a summary; the record reader itself is C03/C04",
]

AF4 = int(socket.AF_INET)
AF6 = int(socket.AF_INET6)


# ------------------------------------------------------------------------------------------------
# fakes
# ------------------------------------------------------------------------------------------------
class ScriptedInterrupt(BaseException):
    """a non-library BaseException raised by the socket in mid-exchange"""


XEXC = {"OSError": ConnectionResetError, "ValueError": ValueError, "Interrupt": ScriptedInterrupt, "FormError": dns.exception.FormError,
        "KeyError": KeyError}


class ScriptExhausted(BaseException):
    """the script has nothing more and there is no deadline: the real call would block for ever"""


class Clock:
    def __init__(self, now):
        self.now = now


class FakeTime:
    def __init__(self, clock):
        self.clock = clock

    def time(self):
        return self.clock.now


class FakeSelector:
    def __init__(self, clock):
        self.clock = clock
        self.fd = None

    def __enter__(self):
        return self

    def __exit__(self, *a):
        return False

    def register(self, fd, events):
        self.fd = fd
        self.events = events

    def select(self, timeout=None):
        dt = getattr(self.fd, "_pending", None)
        if not (self.events & getattr(self.fd, "_pending_dir", 3)):
            dt = None  # waiting for the wrong direction: the awaited event never shows
        if dt is None:
            if timeout is None:
                raise ScriptExhausted()
            self.clock.now += timeout
            return []
        if timeout is not None and timeout <= 0:
            # a non-positive timeout is a poll: ready only if the event needs no time at all
            return [(self.fd, 1)] if dt == 0 else []
        if timeout is None or dt < timeout:
            self.clock.now += dt
            return [(self.fd, 1)]
        self.clock.now += timeout
        return []


class FakeSelectors:
    EVENT_READ = 1
    EVENT_WRITE = 2

    def __init__(self, clock):
        self.clock = clock

    def DefaultSelector(self):
        return FakeSelector(self.clock)


@contextlib.contextmanager
def patched(clock):
    saved = (dns.query.time, dns.query.selectors, dns.asyncquery.time)
    dns.query.time = FakeTime(clock)
    dns.query.selectors = FakeSelectors(clock)
    dns.asyncquery.time = FakeTime(clock)
    try:
        yield
    finally:
        dns.query.time, dns.query.selectors, dns.asyncquery.time = saved


def addr_tuple(a):
    return (a["host"],) + tuple(a["rest"])


class UdpSock:
    type = socket.SOCK_DGRAM

    def __init__(self, clock, family, events, send_blocks):
        self.clock = clock
        self.family = family
        self.events = list(events)
        self.send_blocks = list(send_blocks)
        self.delivered = 0
        self.last_src = None
        self.sent = []
        self._pending = None

    def sendto(self, data, dest, _via_send=False):
        if dest is None and not _via_send:
            raise TypeError("sendto() needs an address")  # as a real socket: send() is the call for a connected socket
        if self.send_blocks:
            self._pending = self.send_blocks.pop(0)
            self._pending_dir = 2
            raise BlockingIOError()
        self.sent.append((bytes(data), dest))
        return len(data)

    def send(self, data):
        return self.sendto(data, None, True)

    def close(self):
        self.closed = True

    def recvfrom(self, size):
        self._pending_dir = 1
        if not self.events:
            self._pending = None
            self.starved = True
            raise BlockingIOError()
        ev = self.events.pop(0)
        if ev["t"] == "X":
            raise XEXC[ev["exc"]]("scripted socket failure")
        if ev["t"] == "W":
            self._pending = ev["dt"]
            raise BlockingIOError()
        self.delivered += 1
        self.last_src = ev["src"]
        return (bytes.fromhex(ev["wire"])[:size], addr_tuple(ev["src"]))


class AsyncUdpSock:
    def __init__(self, clock, family, events, send_blocks):
        self.clock = clock
        self.family = family
        self.events = list(events)
        self.send_blocks = list(send_blocks)
        self.delivered = 0
        self.last_src = None

    def _wait(self, dt, remaining):
        if remaining is not None and dt >= remaining:
            self.clock.now += remaining
            raise dns.exception.Timeout
        self.clock.now += dt
        return None if remaining is None else remaining - dt

    async def sendto(self, what, destination, timeout):
        while self.send_blocks:
            timeout = self._wait(self.send_blocks.pop(0), timeout)
        return len(what)

    async def recvfrom(self, size, timeout):
        while True:
            if not self.events:
                self.starved = True
                if timeout is None:
                    raise ScriptExhausted()
                self.clock.now += timeout
                raise dns.exception.Timeout
            ev = self.events.pop(0)
            if ev["t"] == "X":
                raise XEXC[ev["exc"]]("scripted socket failure")
            if ev["t"] == "W":
                timeout = self._wait(ev["dt"], timeout)
                continue
            self.delivered += 1
            self.last_src = ev["src"]
            return (bytes.fromhex(ev["wire"])[:size], addr_tuple(ev["src"]))

    async def getpeername(self):
        return ("10.0.0.1", 53)

    async def close(self):
        self.closed = True


class TcpSock:
    type = socket.SOCK_STREAM
    family = socket.AF_INET

    def __init__(self, clock, sevents, revents):
        self.clock = clock
        self.sevents = [list(e) for e in sevents]
        self.revents = [list(e) for e in revents]
        self.sent = b""
        self._pending = None

    def send(self, data):
        self._pending_dir = 2
        if not self.sevents:
            self._pending = None
            raise BlockingIOError()
        ev = self.sevents.pop(0)
        if ev[0] == "W":
            self._pending = ev[1]
            raise BlockingIOError()
        k = min(ev[1], len(data))
        self.sent += bytes(data[:k])
        return k

    def close(self):
        self.closed = True

    def recv(self, count):
        self._pending_dir = 1
        if not self.revents:
            self._pending = None
            self.starved = True
            raise BlockingIOError()
        ev = self.revents[0]
        if ev[0] == "X":
            self.revents.pop(0)
            raise XEXC[ev[1]]("scripted socket failure")
        if ev[0] == "W":
            self.revents.pop(0)
            self._pending = ev[1]
            raise BlockingIOError()
        if ev[0] == "E":
            self.revents.pop(0)
            return b""
        d = bytes.fromhex(ev[1])
        if len(d) <= count:
            self.revents.pop(0)
            return d
        self.revents[0] = ["D", d[count:].hex()]
        return d[:count]

    def getpeername(self):
        return ("10.0.0.1", 53)

    def stream_rest(self):
        return b"".join(bytes.fromhex(e[1]) for e in self.revents if e[0] == "D")


class AsyncTcpSock:
    def __init__(self, clock, sevents, revents):
        self.clock = clock
        self.sevents = [list(e) for e in sevents]
        self.revents = [list(e) for e in revents]
        self.sent = b""

    def _wait(self, dt, remaining):
        if remaining is not None and dt >= remaining:
            self.clock.now += remaining
            raise dns.exception.Timeout
        self.clock.now += dt
        return None if remaining is None else remaining - dt

    async def sendall(self, what, timeout):
        # the backend's sendall is outside dnspython's own logic: blocks, then everything is accepted
        for ev in self.sevents:
            if ev[0] == "W":
                timeout = self._wait(ev[1], timeout)
        self.sevents = []
        self.sent += bytes(what)

    async def recv(self, count, timeout):
        while True:
            if not self.revents:
                self.starved = True
                if timeout is None:
                    raise ScriptExhausted()
                self.clock.now += timeout
                raise dns.exception.Timeout
            ev = self.revents[0]
            if ev[0] == "X":
                self.revents.pop(0)
                raise XEXC[ev[1]]("scripted socket failure")
            if ev[0] == "W":
                self.revents.pop(0)
                timeout = self._wait(ev[1], timeout)
                continue
            if ev[0] == "E":
                self.revents.pop(0)
                return b""
            d = bytes.fromhex(ev[1])
            if len(d) <= count:
                self.revents.pop(0)
                return d
            self.revents[0] = ["D", d[count:].hex()]
            return d[:count]

    async def getpeername(self):
        return ("10.0.0.1", 53)

    async def close(self):
        self.closed = True

    def stream_rest(self):
        return b"".join(bytes.fromhex(e[1]) for e in self.revents if e[0] == "D")


def run_coro(c):
    """the scripted backends never suspend: a coroutine runs to completion on the first send"""
    try:
        c.send(None)
    except StopIteration as e:
        return e.value
    c.close()
    raise RuntimeError("coroutine suspended on a scripted backend")


_B = [None, 53, None, 0]
EPS = {
    # name: (module, function, number of required positional args, optional parameter names, their documented defaults)
    "udp": ("query", "udp", 2, ["timeout", "port", "source", "source_port", "ignore_unexpected", "one_rr_per_rrset", "ignore_trailing",
                               "raise_on_truncation", "sock", "ignore_errors"], _B + [False, False, False, False, None, False]),
    "audp": ("asyncquery", "udp", 2, ["timeout", "port", "source", "source_port", "ignore_unexpected", "one_rr_per_rrset", "ignore_trailing",
                                      "raise_on_truncation", "sock", "backend", "ignore_errors"], _B + [False, False, False, False, None, None, False]),
    "recv": ("query", "receive_udp", 1, ["destination", "expiration", "ignore_unexpected", "one_rr_per_rrset", "keyring", "request_mac",
                                         "ignore_trailing", "raise_on_truncation", "ignore_errors", "query"],
             [None, None, False, False, None, b"", False, False, False, None]),
    "arecv": ("asyncquery", "receive_udp", 1, ["destination", "expiration", "ignore_unexpected", "one_rr_per_rrset", "keyring", "request_mac",
                                               "ignore_trailing", "raise_on_truncation", "ignore_errors", "query"],
              [None, None, False, False, None, b"", False, False, False, None]),
    "tcp": ("query", "tcp", 2, ["timeout", "port", "source", "source_port", "one_rr_per_rrset", "ignore_trailing", "sock"], _B + [False, False, None]),
    "atcp": ("asyncquery", "tcp", 2, ["timeout", "port", "source", "source_port", "one_rr_per_rrset", "ignore_trailing", "sock", "backend"],
             _B + [False, False, None, None]),
    "recvtcp": ("query", "receive_tcp", 1, ["expiration", "one_rr_per_rrset", "keyring", "request_mac", "ignore_trailing"], [None, False, None, b"", False]),
    "arecvtcp": ("asyncquery", "receive_tcp", 1, ["expiration", "one_rr_per_rrset", "keyring", "request_mac", "ignore_trailing", "ignore_errors"],
                 [None, False, None, b"", False, False]),
    "fallback": ("query", "udp_with_fallback", 2, ["timeout", "port", "source", "source_port", "ignore_unexpected", "one_rr_per_rrset",
                                                   "ignore_trailing", "udp_sock", "tcp_sock", "ignore_errors"], _B + [False, False, False, None, None, False]),
    "afallback": ("asyncquery", "udp_with_fallback", 2, ["timeout", "port", "source", "source_port", "ignore_unexpected", "one_rr_per_rrset",
                                                         "ignore_trailing", "udp_sock", "tcp_sock", "backend", "ignore_errors"],
                  _B + [False, False, False, None, None, None, False]),
    "sendtcp": ("query", "send_tcp", 2, ["expiration"], [None]),
    "asendtcp": ("asyncquery", "send_tcp", 2, ["expiration"], [None]),
    "sendudp": ("query", "send_udp", 3, ["expiration"], [None]),
    "asendudp": ("asyncquery", "send_udp", 3, ["expiration"], [None]),
}


def ep(name, style, *values):
    """call an entry point either with every argument positional ("pos") or with the optional ones as keywords and those equal to the
    documented default left out ("kw"): a changed default, or two parameters swapped in the signature, then shows"""
    mod, fn, npos, names, defaults = EPS[name]
    f = getattr(dns.query if mod == "query" else dns.asyncquery, fn)
    assert len(values) == npos + len(names), (name, len(values))
    if style != "kw":
        r = f(*values)
    else:
        kw = {n: v for n, v, d in zip(names, values[npos:], defaults) if not (type(v) is type(d) and v == d)}
        r = f(*values[:npos], **kw)
    return run_coro(r) if mod == "asyncquery" else r


def fmt_t(x):
    """virtual times are whole ticks, whether the caller passed int or float timeouts"""
    return int(x) if isinstance(x, float) and x == int(x) else x


def family_of(e: BaseException) -> str:
    if isinstance(e, ScriptExhausted):
        return "Exhausted"
    if isinstance(e, dns.exception.Timeout):
        return "Timeout"
    if isinstance(e, dns.query.UnexpectedSource):
        return "UnexpectedSource"
    if isinstance(e, dns.query.BadResponse):
        return "BadResponse"
    if isinstance(e, dns.message.Truncated):
        return "Truncated"
    if isinstance(e, dns.exception.FormError):
        return "FormError"
    if isinstance(e, EOFError):
        return "EOF"
    if isinstance(e, dns.exception.DNSException):
        return "OtherParse"
    if isinstance(e, NotImplementedError):
        return "NotImplemented"
    if isinstance(e, ValueError):
        return "ValueError"
    return "FOREIGN:" + type(e).__name__


# ------------------------------------------------------------------------------------------------
# independent wire encoder, datagram summaries, reference predicates
# ------------------------------------------------------------------------------------------------
RC_NOQ = (1, 2, 4, 5)  # FORMERR, SERVFAIL, NOTIMP, REFUSED (RFC 1035 values)


def enc_wire_name(labels):
    return b"".join(bytes([len(l)]) + l for l in labels)


def enc_question(qe):
    """[labels, class, type] or [labels, class, type, ptr]: with ptr the name is written as a compression pointer to that
    offset (the labels say what it decodes to; 0x3FFF = a pointer that does not point backwards)"""
    labels, cls, typ = qe[:3]
    if len(qe) > 3 and qe[3] is not None:
        name = bytes([0xC0 | (qe[3] >> 8), qe[3] & 0xFF])
    else:
        name = enc_wire_name([bytes.fromhex(x) for x in labels])
    return name + typ.to_bytes(2, "big") + cls.to_bytes(2, "big")


def marker_rr(i):
    return b"\x01m\x00" + (1).to_bytes(2, "big") + (1).to_bytes(2, "big") + (60).to_bytes(4, "big") + (4).to_bytes(2, "big") + bytes(
        [10, (i >> 16) & 255, (i >> 8) & 255, i & 255])


def dup_rr():
    return b"\x01m\x00" + (1).to_bytes(2, "big") + (1).to_bytes(2, "big") + (60).to_bytes(4, "big") + (4).to_bytes(2, "big") + bytes([10, 255, 255, 255])


def pad_rr(n):
    """a TXT record with n octets of rdata (character-strings of up to 255 octets)"""
    rd = b""
    left = n
    while left > 0:
        k = min(255, left - 1)
        rd += bytes([k]) + b"x" * k
        left -= k + 1
    return b"\x01p\x00" + (16).to_bytes(2, "big") + (1).to_bytes(2, "big") + (60).to_bytes(4, "big") + len(rd).to_bytes(2, "big") + rd


def opt_rr(ednsflags):
    return b"\x00" + (41).to_bytes(2, "big") + (1232).to_bytes(2, "big") + ednsflags.to_bytes(4, "big") + b"\x00\x00"


def tsig_rr(msgid):
    rd = enc_wire_name([b"hmac-sha256", b""]) + (1700000000).to_bytes(6, "big") + (300).to_bytes(2, "big") + (32).to_bytes(2, "big") + bytes(
        range(32)) + msgid.to_bytes(2, "big") + b"\x00\x00" + b"\x00\x00"
    return enc_wire_name([b"key", b""]) + (250).to_bytes(2, "big") + (255).to_bytes(2, "big") + (0).to_bytes(4, "big") + len(rd).to_bytes(2, "big") + rd


def build_dgram(d):
    """octets of a datagram from its description.
    d: id, flags, questions [[labels-hex], cls, typ], marker (int|None), edns (int|None), tsig (bool),
       trailing (hex), cut (None | ["q", k, j] | ["an", j]), raw (hex|None)"""
    if d.get("raw") is not None:
        return bytes.fromhex(d["raw"])
    qs = d["questions"]
    an = [marker_rr(d["marker"])] if d.get("marker") is not None else []
    if an and d.get("dup"):
        an.append(dup_rr())
    if an and d.get("pad"):
        an.append(pad_rr(d["pad"]))
    ad = []
    if d.get("edns") is not None:
        ad.append(opt_rr(d["edns"]))
    if d.get("tsig"):
        ad.append(tsig_rr(d["id"]))
    hdr = d["id"].to_bytes(2, "big") + d["flags"].to_bytes(2, "big") + len(qs).to_bytes(2, "big") + len(an).to_bytes(2, "big") + (0).to_bytes(
        2, "big") + len(ad).to_bytes(2, "big")
    cut = d.get("cut")
    if cut and cut[0] == "q":
        k, j = cut[1], cut[2]
        return hdr + b"".join(enc_question(q) for q in qs[:k]) + enc_question(qs[k])[:j]
    body = hdr + b"".join(enc_question(q) for q in qs)
    if cut and cut[0] == "an":
        return body + an[0][: cut[1]]
    return body + b"".join(an) + b"".join(ad) + bytes.fromhex(d.get("trailing") or "")


def p_name(labels_hex):
    return enc_labels([bytes.fromhex(x) for x in labels_hex])


def p_msg(id_, flags, edns, questions):
    q = ";".join(f"{p_name(l)}/{c}/{t}" for (l, c, t) in questions) if questions else "-"
    return f"{id_}.{flags}.{edns}.{q}"


def summarise(d):
    """what the parser finds in build_dgram(d), from the description alone:
    ("S",) | ("B", id, flags, edns, questions, formErr) | ("F", id, flags, edns, questions, trailing)"""
    assert d.get("raw") is None
    qs = [list(q[:3]) for q in d["questions"]]
    opcode = (d["flags"] >> 11) & 0xF
    cut = d.get("cut")
    # the first question that cannot be read: cut short, or a compression pointer that does not point backwards
    nq = len(qs)
    fails = False
    if cut and cut[0] == "q":
        nq, fails = cut[1], True
    for k, q in enumerate(d["questions"][:nq]):
        if len(q) > 3 and q[3] == 0x3FFF:
            nq, fails = k, True
            break
    parsed = []
    if opcode == 5:
        # UpdateMessage._parse_rr_header, zone section: one SOA of a data class, else FormError
        for q in qs[:nq]:
            if q[1] in (254, 255) or q[2] != 6 or parsed:
                return ("B", d["id"], d["flags"], 0, parsed, True)
            parsed.append(q)
    else:
        parsed = qs[:nq]
    if fails:
        return ("B", d["id"], d["flags"], 0, parsed, True)
    if opcode == 5 and not parsed and d.get("marker") is not None:
        return ("B", d["id"], d["flags"], 0, parsed, True)  # prerequisite RR without a zone
    if cut:
        return ("B", d["id"], d["flags"], 0, parsed, True)
    edns = d["edns"] if d.get("edns") is not None else 0
    if d.get("tsig"):
        return ("B", d["id"], d["flags"], edns, parsed, False)  # UnknownTSIGKey: not in the FormError family
    return ("F", d["id"], d["flags"], edns, parsed, bool(d.get("trailing")))


def p_qs(questions):
    return ";".join(f"{p_name(l)}/{c}/{t}" for (l, c, t) in questions) if questions else "-"


def p_body(s):
    """what the reader finds after the question section: <ednsflags>~<n|0|1 broken>~<trailing>
    (header and question section are read by the model from the octets)"""
    if s[0] == "S":
        return "0~n~0"
    if s[0] == "B":
        return f"{s[3]}~{1 if s[5] else 0}~0"
    return f"{s[3]}~n~{1 if s[5] else 0}"


def p_wire(s, wire_hex):
    """a datagram for the model: its octets (the model reads id / flags / 'shorter than a header' from them)
    and the body summary"""
    return f"{wire_hex or '-'}~{p_body(s)}"


def derive_summary(wire: bytes):
    """summary of arbitrary octets, obtained by running the library's reader (used for random garbage only)"""
    if len(wire) < 12:
        return ("S",)
    rd = dns.message._WireReader(wire, lambda m: _init_msg(m), False, False, False, None, False, False)
    try:
        m = rd.read()
        return ("F", m.id, int(m.flags), m.ednsflags, _qs_of(m), False)
    except dns.message.TrailingJunk:
        m = rd.message
        return ("F", m.id, int(m.flags), m.ednsflags, _qs_of(m), True)
    except dns.exception.FormError:
        m = rd.message
        if m is None:
            return ("S",)
        return ("B", m.id, int(m.flags), m.ednsflags, _qs_of(m), True)
    except Exception:
        m = rd.message
        if m is None:
            return ("S",)
        return ("B", m.id, int(m.flags), m.ednsflags, _qs_of(m), False)


def _init_msg(m):
    m.request_mac = b""
    m.xfr = False
    m.origin = None
    m.tsig_ctx = None


def _qs_of(m):
    return [[[l.hex() for l in rr.name.labels], int(rr.rdclass), int(rr.rdtype)] for rr in m.question]


def canon_q(questions):
    return {(tuple(bytes.fromhex(x).lower() for x in l), c, t) for (l, c, t) in questions}


def ref_is_response(q, s):
    """the property's acceptance predicate over a query description and a parsed (or partial) message summary"""
    _, id_, flags, edns, questions, _x = s
    if not flags & 0x8000:
        return False
    if id_ != q["id"]:
        return False
    if (flags >> 11) & 0xF != (q["flags"] >> 11) & 0xF:
        return False
    rcode = (flags & 0xF) | ((edns >> 20) & 0xFF0)
    if rcode in RC_NOQ and not questions:
        return True
    if (q["flags"] >> 11) & 0xF == 5:
        return True
    return canon_q(q["questions"]) == canon_q(questions)


def fam_of_af(af):
    return 4 if af == AF4 else 6 if af == AF6 else None


def ref_is_mcast(a):
    b = a.get("bin")
    if b is None:
        return None  # is_multicast raises
    b = bytes.fromhex(b)
    return (224 <= b[0] <= 239) if len(b) == 4 else b[0] == 255


def ref_src_ok(af, src, dest):
    """did the datagram come from where the query went (None: the check itself raises)"""
    if dest is None:
        return True
    f = fam_of_af(af)
    if f is None:
        return None
    same = (src.get("bin") is not None and dest.get("bin") is not None and src["fam"] == f and dest["fam"] == f
            and src["bin"] == dest["bin"] and list(src["rest"]) == list(dest["rest"]))
    if same:
        return True
    mc = ref_is_mcast(dest)
    if mc is None:
        return None
    return bool(mc and list(src["rest"]) == list(dest["rest"]))


def p_addr(a):
    if a is None:
        return "none"
    return "/".join([hx(a["host"].encode("ascii"))] + [str(x) for x in a["rest"]])


def p_opt(x):
    return "none" if x is None else str(x)


def p_opts(o):
    return "".join("1" if o[k] else "0" for k in ("iu", "one", "it", "rt", "ie"))


def build_query(qd):
    """a real dns.message object from a query description {id, flags, questions}"""
    opcode = (qd["flags"] >> 11) & 0xF
    if opcode == 0:
        m = dns.message.QueryMessage(id=qd["id"])
    elif opcode == 5:
        m = dns.update.UpdateMessage(id=qd["id"])
    else:
        m = dns.message.Message(id=qd["id"])
    m.flags = dns.flags.Flag(qd["flags"])
    for (l, c, t) in qd["questions"]:
        m.find_rrset(m.question, dns.name.Name([bytes.fromhex(x) for x in l]), c, t, create=True, force_unique=True)
    return m


def q_sum(qd):
    return p_msg(qd["id"], qd["flags"], 0, qd["questions"])


# ------------------------------------------------------------------------------------------------
# evaluation
# ------------------------------------------------------------------------------------------------
ASYNC_COE = None  # which variant dns.asyncquery.receive_udp implements (learnt from the witness, see async_variant)

ASYNC_WITNESS = {
    "kind": "udp", "api": "audp", "q": {"id": 4660, "flags": 256, "questions": [[["777777", "6578616d706c65", ""], 1, 1]]},
    "where": {"host": "10.1.1.1", "rest": [53], "bin": "0a010101", "fam": 4}, "af": AF4, "timeout": None, "now": 100,
    "opts": {"iu": False, "one": False, "it": False, "rt": False, "ie": True}, "send_blocks": [],
    "events": [
        {"t": "D", "src": {"host": "10.1.1.1", "rest": [53], "bin": "0a010101", "fam": 4},
         "d": {"id": 4660, "flags": 0x8180, "questions": [[["777777", "6578616d706c65", ""], 1, 1]], "marker": 0, "cut": ["an", 12]}},
        {"t": "D", "src": {"host": "10.1.1.1", "rest": [53], "bin": "0a010101", "fam": 4},
         "d": {"id": 4660, "flags": 0x8180, "questions": [[["777777", "6578616d706c65", ""], 1, 1]], "marker": 1}},
    ],
}


def ev_complete(ev):
    """fill in the octets and the summary of a datagram event"""
    if ev["t"] != "D":
        return ev
    if "wire" not in ev:
        w = build_dgram(ev["d"])
        ev["wire"] = w.hex()
    if "sum" not in ev:
        if ev["d"].get("raw") is not None:
            ev["sum"] = list(derive_summary(bytes.fromhex(ev["wire"])))
            ev["derived"] = True
        else:
            ev["sum"] = list(summarise(ev["d"]))
    return ev


def p_uev(ev):
    if ev["t"] == "W":
        return f"W{ev['dt']}"
    return f"D={p_addr(ev['src'])}={p_wire(ev['sum'], ev['wire'])}"


def dg_props(ev, o, coe=False):
    """reference facts about one datagram under the options (from its construction)"""
    s = ev["sum"]
    hdr = s[0] != "S"
    tcbit = hdr and bool(s[2] & 0x0200)
    if s[0] == "F":
        malformed = bool(s[5]) and not o["it"]
        formfam = True
    elif s[0] == "B":
        malformed = True
        formfam = bool(s[5])
    else:
        malformed, formfam = True, True
    return {"hdr": hdr, "tc": tcbit, "malformed": malformed, "formfam": formfam, "full": s[0] == "F"}


def eval_udp(ctx: Ctx, c: dict):
    global ASYNC_COE
    rep = {"kind": "udp", "case": c}
    api = c["api"]
    is_async = api in ("audp", "arecv")
    o = c["opts"]
    qd = c["q"]
    q = build_query(qd)
    events = [ev_complete(dict(e)) for e in c["events"]]
    clock = Clock(c["now"])
    where = c["where"]
    coe = bool(ASYNC_COE) if is_async else False
    arg = where["host"] + (f"%{where['rest'][2]}" if len(where["rest"]) == 3 and where["rest"][2] else "")
    # destination tuple as the library computes it (input preparation; _destination_and_source is not modelled)
    if api in ("udp", "audp"):
        dest = dict(where)
        query_given = True
    else:
        dest = c.get("dest")
        query_given = bool(c.get("pass_query", True))
    exp = None if c["timeout"] is None else c["now"] + c["timeout"]
    sockcls = AsyncUdpSock if is_async else UdpSock
    sock = sockcls(clock, c["af"], events, c.get("send_blocks", []))
    style = c.get("style", "pos")
    tmo = float(c["timeout"]) if (c.get("ftime") and c["timeout"] is not None) else c["timeout"]
    out = None
    with patched(clock):
        try:
            if api == "udp":
                r = ep("udp", style, q, arg, tmo, where["rest"][0], None, 0, o["iu"], o["one"], o["it"], o["rt"], sock, o["ie"])
                out = ("ok", r, c["now"] + r.time)
            elif api == "audp":
                r = ep("audp", style, q, arg, tmo, where["rest"][0], None, 0, o["iu"], o["one"], o["it"], o["rt"], sock, None, o["ie"])
                out = ("ok", r, c["now"] + r.time)
            elif api == "recv":
                t = ep("recv", style, sock, None if dest is None else addr_tuple(dest), exp, o["iu"], o["one"], None, b"", o["it"], o["rt"],
                       o["ie"], q if query_given else None)
                out = ("ok", t[0], t[1])
                if (dest is None) != (len(t) == 3):
                    ctx.fail("C18/receive_udp/return-shape", "tuple arity does not follow the destination argument", rep)
            elif api == "arecv":
                t = ep("arecv", style, sock, None if dest is None else addr_tuple(dest), exp, o["iu"], o["one"], None, b"",
                       o["it"], o["rt"], o["ie"], q if query_given else None)
                out = ("ok", t[0], t[1])
            else:
                raise ValueError(api)
        except ScriptExhausted as e:
            out = ("err", family_of(e))
        except Exception as e:
            out = ("err", family_of(e))
    n = sock.delivered
    if getattr(sock, "closed", False):
        ctx.fail(f"C18/{api}/supplied-socket-closed", "the caller's socket was closed by the exchange", rep)
    dgs = [e for e in events if e["t"] == "D"]
    if out[0] == "ok":
        r = out[1]
        impl = f"ok idx={n - 1} id={r.id} flags={int(r.flags)} src={p_addr(sock.last_src)} t={fmt_t(out[2])}"
    else:
        impl = f"err {out[1]} idx={n}"
    # correspondence
    evs = " ".join(p_uev(e) for e in events)
    if api in ("udp", "audp"):
        blocks = ",".join(str(x) for x in c.get("send_blocks", [])) or "-"
        op = f"c18.{'audp' if is_async else 'udp'} {int(coe)} {q_sum(qd)} {c['af']} {p_addr(dest)} {p_opt(c['timeout'])} {p_opts(o)} {blocks} {c['now']} {evs}"
    else:
        op = (f"c18.{'arecvudp' if is_async else 'recvudp'} {int(coe)} {c['af']} {p_addr(dest)} {p_opt(c['timeout'])} {p_opts(o)} "
              f"{q_sum(qd) if query_given else 'none'} {c['now']} {evs}")
    ctx.corr(op.rstrip(), impl, c)
    ctx.count(f"udp.{api}." + (out[1] if out[0] == "err" else "ok"))
    ctx.count("udp.opts." + p_opts(o))
    # per-datagram parser correspondence (ties the summaries to the octets)
    if not is_async:
        for e in dgs:
            eval_fromwire(ctx, e, o, c)
    # ---------------- direct oracle ----------------
    if out[0] == "err" and out[1].startswith("FOREIGN"):
        ctx.fail(f"C18/{api}/foreign-exception:{out[1][8:]}", f"exchange raised {out[1]}", rep)
        return
    consumed = dgs[:n]
    decisive = out[0] == "ok" or out[1] in ("UnexpectedSource", "BadResponse", "Truncated", "FormError", "OtherParse", "ValueError", "NotImplemented")
    skipped = consumed[:-1] if (decisive and consumed) else consumed
    last = consumed[-1] if (decisive and consumed) else None

    def facts(e):
        p = dg_props(e, o)
        p["src"] = ref_src_ok(c["af"], e["src"], dest)
        s = e["sum"]
        p["resp"] = ref_is_response(qd, s) if (p["hdr"] and query_given) else (True if p["hdr"] else False)
        p["must_trunc"] = bool(o["rt"] and p["hdr"] and p["tc"] and p["formfam"] and (p["malformed"] or p["full"]) and p["resp"])
        p["acceptable"] = bool(not p["malformed"] and p["resp"] and not (p["tc"] and o["rt"]))
        return p

    tag = "async-" if is_async else ""
    # an expired deadline is an error: replay the waits that happened before the outcome
    if exp is not None:
        t, seen, tripped = c["now"], 0, False
        for dt in (c.get("send_blocks", []) if api in ("udp", "audp") else []):
            if exp <= t or dt >= exp - t:
                tripped = True
                break
            t += dt
        if not tripped:
            for e in events:
                if e["t"] == "D":
                    seen += 1
                    if decisive and seen >= n:
                        break
                elif exp <= t or e["dt"] >= exp - t:
                    tripped = True
                    break
                else:
                    t += e["dt"]
        if tripped and not (out[0] == "err" and out[1] == "Timeout"):
            ctx.fail(f"C18/{tag}{api}/deadline/expired-deadline-not-an-error",
                     "a wait reached the deadline, yet the exchange went on: " + (out[1] if out[0] == "err" else "returned a message"), rep)
    for e in skipped:
        p = facts(e)
        if p["src"] is None:
            ctx.fail(f"C18/{tag}{api}/skipped/source-check-should-raise", "a datagram whose source check raises was skipped", rep)
        elif not p["src"]:
            if not o["iu"]:
                ctx.fail(f"C18/{tag}{api}/skipped/unexpected-source-without-ignore_unexpected",
                         f"datagram from {e['src']['host']} skipped although ignore_unexpected is off", rep)
        elif p["must_trunc"]:
            ctx.fail(f"C18/{tag}{api}/skipped/truncation-not-reported", "a truncated reply to the query was skipped with raise_on_truncation", rep)
        elif p["acceptable"]:
            ctx.fail(f"C18/{tag}{api}/skipped/genuine-skipped", "a genuine reply was skipped", rep)
        elif not o["ie"]:
            ctx.fail(f"C18/{tag}{api}/skipped/error-without-ignore_errors", "a malformed or mismatched datagram was skipped although ignore_errors is off", rep)
    if out[0] == "ok":
        r = out[1]
        p = facts(last) if last is not None else None
        if last is None:
            ctx.fail(f"C18/{tag}{api}/returned/nothing-received", "a message was returned although no datagram was delivered", rep)
            return
        s = last["sum"]
        need_resp = api in ("udp", "audp") or (o["ie"] and query_given)
        if p["src"] is not True:
            ctx.fail(f"C18/{tag}{api}/returned/wrong-source", f"returned a datagram from {last['src']['host']}/{last['src']['rest']}", rep)
        elif p["malformed"]:
            cls = "trailing" if s[0] == "F" else "cut-or-broken"
            if is_async and o["ie"]:
                # one root cause whichever entry point / kind of damage: the parser is told continue_on_error=ignore_errors
                sig = "C18/asyncquery.receive_udp/returned/malformed/ignore_errors"
            else:
                sig = f"C18/{tag}{api}/returned/malformed/{cls}" + ("/ignore_errors" if o["ie"] else "")
            ctx.fail(sig, f"a malformed datagram ({cls}) was returned as the response by {api}", rep)
        elif need_resp and not ref_is_response(qd, s):
            ctx.fail(f"C18/{tag}{api}/returned/not-a-response", "returned a message that is not a response to the query (QR/id/opcode/question)", rep)
        elif p["tc"] and o["rt"]:
            ctx.fail(f"C18/{tag}{api}/returned/truncated-not-raised", "a TC reply was returned although raise_on_truncation is on", rep)
        # the returned object is the datagram just delivered
        if s[0] != "S" and (r.id != s[1] or int(r.flags) != s[2]):
            ctx.fail(f"C18/{tag}{api}/returned/not-the-delivered-datagram", "returned message differs from the datagram delivered last", rep)
        mk = last.get("d", {}).get("marker") if last.get("d") else None
        if mk is not None and not p["malformed"] and r.answer:
            got = list(r.answer[0])[0].address if hasattr(list(r.answer[0])[0], "address") else None
            if got != f"10.{(mk >> 16) & 255}.{(mk >> 8) & 255}.{mk & 255}":
                ctx.fail(f"C18/{tag}{api}/returned/not-the-delivered-datagram", "returned message carries another datagram's marker", rep)
            check_sections(ctx, f"{tag}{api}", last["d"], r, o["one"], rep)
    else:
        fam = out[1]
        p = facts(last) if last is not None else None
        bad = None
        if fam == "Timeout":
            if exp is None or not (clock.now >= exp or not sock.events):
                bad = "timeout-without-deadline"
        elif fam == "Exhausted":
            if exp is not None:
                bad = "hang-with-deadline"
        elif fam in ("ValueError", "NotImplemented"):
            if last is None or p["src"] is not None:
                bad = "source-check-raised"
        elif last is None:
            bad = "raised-before-any-datagram"
        elif fam == "UnexpectedSource":
            if o["iu"] or p["src"] is not False:
                bad = "unexpected-source-not-as-configured"
        elif p["src"] is not True:
            bad = "raised-on-foreign-datagram"
        elif fam == "BadResponse":
            if api not in ("udp", "audp") or o["ie"] or p["malformed"] or ref_is_response(qd, last["sum"]):
                bad = "badresponse-not-as-configured"
        elif fam == "Truncated":
            if not (o["rt"] and p["hdr"] and p["tc"]) or (o["ie"] and query_given and not ref_is_response(qd, last["sum"])):
                bad = "forged-truncation-raised" if (o["rt"] and p["hdr"] and p["tc"]) else "truncated-not-as-configured"
        elif fam in ("FormError", "OtherParse"):
            if o["ie"] or not p["malformed"]:
                bad = "parse-error-not-as-configured"
            elif p["must_trunc"]:
                bad = "truncation-not-reported"
        if bad:
            ctx.fail(f"C18/{tag}{api}/raised/{fam}/{bad}", f"exchange raised {fam} at datagram {n}: {bad}", rep)


def check_sections(ctx, where, d, r, one, rep):
    """the returned message is the whole datagram, parsed as configured (one_rr_per_rrset honoured, nothing cut off)"""
    if d.get("cut") or d.get("raw") is not None or d.get("marker") is None:
        return
    if d.get("dup"):
        want = 2 if (one or (d["flags"] >> 11) & 0xF == 5) else 1  # an UPDATE message is always read one RR per RRset
        got = sum(1 for rr in r.answer if rr.rdtype == 1)
        if got != want:
            ctx.fail(f"C18/{where}/option/one_rr_per_rrset-not-honoured", f"{got} A rrsets in the answer section, one_rr_per_rrset={one}", rep)
    if d.get("pad"):
        txt = [rr for rr in r.answer if rr.rdtype == 16]
        n = sum(sum(len(x) + 1 for x in rd.strings) for rr in txt for rd in rr)
        if n != d["pad"]:
            ctx.fail(f"C18/{where}/returned/message-cut-short", f"the {d['pad']}-octet TXT record of the reply arrived as {n} octets", rep)


def eval_fromwire(ctx, e, o, c):
    s = e["sum"]
    wire = bytes.fromhex(e["wire"])
    try:
        m = dns.message.from_wire(wire, one_rr_per_rrset=o["one"], ignore_trailing=o["it"], raise_on_truncation=o["rt"])
        impl = f"ok id={m.id} flags={int(m.flags)} nq={len(m.question)}"
    except dns.message.Truncated as ex:
        m = ex.message()
        impl = f"err Truncated id={m.id} flags={int(m.flags)} nq={len(m.question)}"
    except dns.exception.FormError:
        impl = "err FormError"
    except dns.exception.DNSException:
        impl = "err OtherParse"
    except Exception as ex:
        impl = "err FOREIGN:" + type(ex).__name__
    ctx.corr(f"c18.fromwire {p_wire(s, e['wire'])} {int(o['it'])} {int(o['rt'])} 0", impl, c)
    ctx.count("fromwire." + impl.split(" ")[1 if impl.startswith("err") else 0].split(":")[0])


def p_rev(e):
    return "E" if e[0] == "E" else (f"W{e[1]}" if e[0] == "W" else "D" + (e[1] or "-"))


def p_sev(e):
    return f"A{e[1]}" if e[0] == "A" else f"W{e[1]}"


def ref_stream(revents, now, exp, need_fn):
    """spec of the read side: octets that arrive before EOF / the deadline, in order.
    need_fn(buf) -> total octets wanted so far (None = enough).  Returns (buf, reason) with reason in
    ok | EOF | Timeout | Exhausted."""
    buf = b""
    for e in revents:
        if need_fn(buf) is None:
            return buf, "ok"
        if e[0] == "D":
            d = bytes.fromhex(e[1])
            if not d:
                return buf, "EOF"
            buf += d
        elif e[0] == "E":
            return buf, "EOF"
        else:
            if exp is not None and (exp <= now or e[1] >= exp - now):
                return buf, "Timeout"
            now += e[1]
    if need_fn(buf) is None:
        return buf, "ok"
    return buf, ("Timeout" if exp is not None else "Exhausted")


def frame_need(buf):
    if len(buf) < 2:
        return 2
    l = int.from_bytes(buf[:2], "big")
    return None if len(buf) >= 2 + l else 2 + l


def ref_write(data, sevents, now, exp):
    sent = 0
    for e in sevents:
        if sent >= len(data):
            return sent, "ok"
        if e[0] == "A":
            sent += min(e[1], len(data) - sent)
        else:
            if exp is not None and (exp <= now or e[1] >= exp - now):
                return sent, "Timeout"
            now += e[1]
    if sent >= len(data):
        return sent, "ok"
    return sent, ("Timeout" if exp is not None else "Exhausted")


def eval_stream(ctx: Ctx, c: dict):
    """kinds netread / netwrite / sendtcp / recvtcp / tcp (+ async twins arecvtcp / atcp)"""
    k = c["kind"]
    rep = {"kind": k, "case": c}
    clock = Clock(c["now"])
    exp = None if c["timeout"] is None else c["now"] + c["timeout"]
    sev = c.get("sevents", [])
    rev = c.get("revents", [])
    is_async = k in ("arecvtcp", "atcp", "areadexactly", "asendtcp")
    style = c.get("style", "pos")
    tmo = float(c["timeout"]) if (c.get("ftime") and c["timeout"] is not None) else c["timeout"]
    sock = (AsyncTcpSock if is_async else TcpSock)(clock, sev, rev)
    frames = c.get("frames", {})  # hex frame -> datagram description
    sums = {h: list(summarise(d)) if d.get("raw") is None else list(derive_summary(bytes.fromhex(h))) for h, d in frames.items()}
    ptbl = " ".join(f"P{h or '-'}={p_body(s)}" for h, s in sums.items())
    out = None
    with patched(clock):
        try:
            if k == "netread":
                out = ("ok", dns.query._net_read(sock, c["count"], exp))
            elif k == "areadexactly":
                out = ("ok", run_coro(dns.asyncquery._read_exactly(sock, c["count"], exp)))
            elif k == "asendtcp":
                nb, _t = ep("asendtcp", style, sock, build_query(c["msg"]) if "msg" in c else bytes.fromhex(c["data"]), exp)
                out = ("ok", nb)
            elif k == "netwrite":
                dns.query._net_write(sock, bytes.fromhex(c["data"]), exp)
                out = ("ok", None)
            elif k == "sendtcp":
                nb, _t = ep("sendtcp", style, sock, build_query(c["msg"]) if "msg" in c else bytes.fromhex(c["data"]), exp)
                out = ("ok", nb)
            elif k == "recvtcp":
                out = ("ok", ep("recvtcp", style, sock, exp, c["one"], None, b"", c["it"]))
            elif k == "arecvtcp":
                out = ("ok", ep("arecvtcp", style, sock, exp, c["one"], None, b"", c["it"], c.get("ie", False)))
            elif k == "tcp":
                q = build_query(c["q"])
                r = ep("tcp", style, q, "10.0.0.1", tmo, 53, None, 0, c["one"], c["it"], sock)
                out = ("ok", (r, c["now"] + r.time))
            elif k == "atcp":
                q = build_query(c["q"])
                r = ep("atcp", style, q, "10.0.0.1", tmo, 53, None, 0, c["one"], c["it"], sock, None)
                out = ("ok", (r, c["now"] + r.time))
            else:
                raise ValueError(k)
        except ScriptExhausted as e:
            out = ("err", family_of(e))
        except Exception as e:
            out = ("err", family_of(e))
    fam = out[1] if out[0] == "err" else "ok"
    ctx.count(f"stream.{k}.{fam}")
    if getattr(sock, "closed", False):
        ctx.fail(f"C18/{k}/supplied-socket-closed", "the caller's socket was closed by the exchange", rep)
    if fam.startswith("FOREIGN"):
        ctx.fail(f"C18/{k}/foreign-exception:{fam[8:]}", f"{k} raised {fam}", rep)
    revs = " ".join(p_rev(e) for e in rev)
    sevs = " ".join(p_sev(e) for e in sev)
    blocks = " ".join(str(e[1]) for e in sev if e[0] == "W")
    if k in ("netread", "areadexactly"):
        fn = "_net_read" if k == "netread" else "asyncquery._read_exactly"
        impl = f"ok {hx(out[1])} rest={hx(sock.stream_rest())} t={clock.now}" if out[0] == "ok" else f"err {fam}"
        ctx.corr(f"c18.{k} {c['count']} {p_opt(c['timeout'])} {c['now']} {revs}".rstrip(), impl, c)
        buf, why = ref_stream(rev, c["now"], exp, lambda b: None if len(b) >= c["count"] else c["count"])
        if out[0] == "ok":
            if why != "ok" or out[1] != buf[: c["count"]]:
                ctx.fail(f"C18/{fn}/framing/wrong-octets", f"_net_read returned {out[1].hex()} for a stream delivering {buf.hex()} ({why})", rep)
        elif why == "ok" and c["count"] <= len(buf):
            ctx.fail(f"C18/{fn}/framing/error-on-complete-stream/{fam}", "the octets were all there before EOF / the deadline", rep)
        elif fam not in ("EOF", "Timeout", "Exhausted") or (why != "ok" and fam != why):
            ctx.fail(f"C18/{fn}/short-stream/wrong-error/{fam}", f"stream ends by {why}, raised {fam}", rep)
        return
    if k in ("netwrite", "sendtcp", "asendtcp"):
        data = build_query(c["msg"]).to_wire() if "msg" in c else bytes.fromhex(c["data"])
        full = data if k == "netwrite" else len(data).to_bytes(2, "big") + data
        impl = f"sent={hx(sock.sent)} ok t={clock.now}" if out[0] == "ok" else f"sent={hx(sock.sent)} err {fam}"
        ctx.corr(f"c18.{k} {hx(data)} {p_opt(c['timeout'])} {c['now']} {blocks if k == 'asendtcp' else sevs}".rstrip(), impl, c)
        n, why = ref_write(full, ([e for e in sev if e[0] == "W"] + [["A", 70000]]) if k == "asendtcp" else sev, c["now"], exp)
        if out[0] == "ok" and sock.sent != full:
            ctx.fail(f"C18/{k}/framing/emitted-differs", f"reported success after emitting {sock.sent.hex()} for {full.hex()}", rep)
        if not full.startswith(sock.sent):
            ctx.fail(f"C18/{k}/framing/emitted-not-a-prefix", f"emitted {sock.sent.hex()} for {full.hex()}", rep)
        if out[0] == "ok" and k in ("sendtcp", "asendtcp") and out[1] != len(full):
            ctx.fail(f"C18/{k}/framing/reported-length", "bytes_sent is not the framed length", rep)
        if out[0] == "err" and why == "ok":
            ctx.fail(f"C18/{k}/framing/error-although-all-accepted/{fam}", "the socket accepted everything before the deadline", rep)
        if out[0] == "ok" and why != "ok":
            ctx.fail(f"C18/{k}/short-write-reported-as-success", f"the socket stops by {why}", rep)
        return
    # receive side with framing
    if k in ("recvtcp", "arecvtcp"):
        buf, why = ref_stream(rev, c["now"], exp, frame_need)
        extra = f" {int(bool(c.get('ie', False)))}" if k == "arecvtcp" else ""
        if out[0] == "ok":
            m, t = out[1]
            impl = f"ok id={m.id} flags={int(m.flags)} frame={hx(bytes(m.wire))} rest={hx(sock.stream_rest())} t={t}"
        else:
            impl = f"err {fam}"
        ctx.corr(f"c18.{k} {p_opt(c['timeout'])} {c['now']} {int(c['it'])}{extra} {ptbl} / {revs}".replace("  ", " ").rstrip(), impl, c)
        oracle_frame(ctx, k, c, rep, out, fam, buf, why, sums, None, sock)
        if c.get("again") and fam in ("ok", "FormError", "OtherParse", "Truncated"):
            # the same socket used for the next message of the connection (after a success or an error):
            # the second call must behave as a first call on what the first one left unread
            left = [list(e) for e in sock.revents]
            now2 = clock.now
            exp2 = None if c["timeout"] is None else now2 + c["timeout"]
            with patched(clock):
                try:
                    out2 = ("ok", ep(k, style, sock, exp2, c["one"], None, b"", c["it"], *((c.get("ie", False),) if k == "arecvtcp" else ())))
                except ScriptExhausted as e:
                    out2 = ("err", family_of(e))
                except Exception as e:
                    out2 = ("err", family_of(e))
            fam2 = out2[1] if out2[0] == "err" else "ok"
            ctx.count(f"stream.{k}.again.{fam2}")
            if out2[0] == "ok":
                m2, t2 = out2[1]
                impl2 = f"ok id={m2.id} flags={int(m2.flags)} frame={hx(bytes(m2.wire))} rest={hx(sock.stream_rest())} t={t2}"
            else:
                impl2 = f"err {fam2}"
            revs2 = " ".join(p_rev(e) for e in left)
            ctx.corr(f"c18.{k} {p_opt(c['timeout'])} {now2} {int(c['it'])}{extra} {ptbl} / {revs2}".replace("  ", " ").rstrip(), impl2, c)
            buf2, why2 = ref_stream(left, now2, exp2, frame_need)
            c2 = dict(c, revents=left, now=now2)
            oracle_frame(ctx, k, c2, {"kind": k, "case": c, "note": "second call on the same socket"}, out2, fam2, buf2, why2, sums, None, sock)
        return
    # tcp / atcp
    qd = c["q"]
    qwire = build_query(qd).to_wire()
    full = len(qwire).to_bytes(2, "big") + qwire
    if is_async:
        sev_model = [e for e in sev if e[0] == "W"] + [["A", 70000]]
    else:
        sev_model = sev
    nsent, wwhy = ref_write(full, sev_model, c["now"], exp)
    # the clock after the send phase, for the reference of the read phase
    now1 = c["now"]
    if wwhy == "ok":
        acc = 0
        for e in sev_model:
            if acc >= len(full):
                break
            if e[0] == "A":
                acc += min(e[1], len(full) - acc)
            else:
                now1 += e[1]
        buf, why = ref_stream(rev, now1, exp, frame_need)
    else:
        buf, why = b"", wwhy
    if out[0] == "ok":
        r, t = out[1]
        impl = f"sent={hx(sock.sent)} ok id={r.id} flags={int(r.flags)} frame={hx(bytes(r.wire))} t={fmt_t(t)}"
    else:
        impl = f"sent={hx(sock.sent)} err {fam}"
    sm = blocks if is_async else " ".join(p_sev(e) for e in sev_model)
    ctx.corr(f"c18.{k} {q_sum(qd)} {hx(qwire)} {p_opt(c['timeout'])} {int(c['it'])} {c['now']} {ptbl} / {sm} / {revs}".replace("  ", " ").rstrip(), impl, c)
    if out[0] == "ok" and sock.sent != full:
        ctx.fail(f"C18/{k}/framing/emitted-differs", f"query framed as {sock.sent.hex()} instead of {full.hex()}", rep)
    if not full.startswith(sock.sent):
        ctx.fail(f"C18/{k}/framing/emitted-not-a-prefix", f"emitted {sock.sent.hex()} for {full.hex()}", rep)
    if wwhy != "ok":
        if out[0] == "ok":
            ctx.fail(f"C18/{k}/short-write-reported-as-success", f"the socket stops by {wwhy}", rep)
        return
    oracle_frame(ctx, k, c, rep, out, fam, buf, why, sums, qd, sock)


def oracle_frame(ctx, k, c, rep, out, fam, buf, why, sums, qd, sock):
    """framing + acceptance clauses for receive_tcp / tcp"""
    tag = "async-" if k.startswith("a") else ""
    if why != "ok":
        if out[0] == "ok":
            ctx.fail(f"C18/{tag}{k}/short-stream/returned-a-message/{why}", f"a message was returned although the stream ends by {why} after {buf.hex()}", rep)
        elif fam not in ("EOF", "Timeout", "Exhausted"):
            ctx.fail(f"C18/{tag}{k}/short-stream/wrong-error/{fam}", f"stream ends by {why}, raised {fam}", rep)
        elif fam != why:
            ctx.fail(f"C18/{tag}{k}/short-stream/wrong-error/{fam}-for-{why}", f"stream ends by {why}, raised {fam}", rep)
        return
    l = int.from_bytes(buf[:2], "big")
    frame = buf[2:2 + l]
    s = sums.get(frame.hex())
    if s is None:
        s = list(derive_summary(frame))
    it = c["it"]
    coe = bool(c.get("ie", False)) if k == "arecvtcp" else False
    malformed = s[0] != "F" or (bool(s[5]) and not it)
    if out[0] == "ok":
        m = out[1][0]
        if s[0] == "S" or m.id != s[1] or int(m.flags) != s[2] or bytes(m.wire) != frame:
            ctx.fail(f"C18/{tag}{k}/framing/wrong-message", f"returned message is not the first framed message {frame.hex()}", rep)
        elif malformed and not coe:
            ctx.fail(f"C18/{tag}{k}/returned/malformed", "a malformed framed message was returned", rep)
        elif qd is not None and not ref_is_response(qd, s):
            ctx.fail(f"C18/{tag}{k}/returned/not-a-response", "returned a message that is not a response to the query", rep)
        elif not malformed and c.get("frames", {}).get(frame.hex()) is not None:
            check_sections(ctx, f"{tag}{k}", c["frames"][frame.hex()], m, c.get("one", c.get("opts", {}).get("one", False)), rep)
        # framing consumed exactly the frame
        all_stream = b"".join(bytes.fromhex(e[1]) for e in c["revents"] if e[0] == "D")
        if all_stream[2 + l:] != sock.stream_rest():
            ctx.fail(f"C18/{tag}{k}/framing/consumed-too-much-or-little", "octets after the first message were consumed or octets of it left", rep)
    else:
        if fam in ("EOF", "Timeout", "Exhausted"):
            ctx.fail(f"C18/{tag}{k}/framing/error-on-complete-stream/{fam}", "the whole first message was on the stream before EOF / the deadline", rep)
        elif fam == "BadResponse":
            if qd is None or malformed or ref_is_response(qd, s):
                ctx.fail(f"C18/{tag}{k}/raised/BadResponse-for-a-genuine-response", "BadResponse raised for a genuine response", rep)
        elif fam in ("FormError", "OtherParse"):
            if not malformed:
                ctx.fail(f"C18/{tag}{k}/raised/{fam}-for-a-wellformed-message", "parse error on a well-formed framed message", rep)


def eval_small(ctx: Ctx, c: dict):
    k = c["kind"]
    rep = {"kind": k, "case": c}
    if k == "pton":
        text = c["text"]
        try:
            b = dns.inet.inet_pton(c["af"], text)
            impl = "ok " + hx(b)
        except dns.exception.SyntaxError:
            impl = "err Syntax"
        except NotImplementedError:
            impl = "err NotImplemented"
        except Exception as e:
            impl = "err FOREIGN:" + type(e).__name__
        if "\n" in text.split("%")[0] and impl.startswith("ok"):
            # repaired in 0148a06: the dot-quad pattern ends in \Z, no text with a newline in its address part is an address
            ctx.fail("C18/inet_pton/invalid-text-accepted", f"inet_pton({text!r}) -> {impl}", rep)
        ctx.corr(f"c18.pton {c['af']} {hx(text.encode('ascii'))}", impl, c)
        ctx.count("pton." + impl.split(" ")[0] + (":" + impl.split(" ")[1] if impl.startswith("err") else ""))
        if c.get("bin") is not None and fam_of_af(c["af"]) == c.get("fam") and impl != "ok " + c["bin"]:
            ctx.fail("C18/inet_pton/equivalent-text-differs", f"inet_pton({text!r}) -> {impl}, built from {c['bin']}", rep)
        if c.get("bin") is None and c.get("invalid") and impl.startswith("ok"):
            ctx.fail("C18/inet_pton/invalid-text-accepted", f"inet_pton({text!r}) -> {impl}", rep)
    elif k == "match":
        src, dest, iu, af = c["src"], c["dest"], c["iu"], c["af"]
        try:
            v = dns.query._matches_destination(af, addr_tuple(src), None if dest is None else addr_tuple(dest), iu)
            impl = "ok " + ("1" if v else "0")
        except Exception as e:
            impl = "err " + family_of(e)
        ctx.corr(f"c18.match {af} {p_addr(src)} {p_addr(dest)} {int(iu)}", impl, c)
        if dest is not None:
            try:
                v2 = dns.query._addresses_equal(af, addr_tuple(src), addr_tuple(dest))
                impl2 = "ok " + ("1" if v2 else "0")
            except Exception as e:
                impl2 = "err " + family_of(e)
            ctx.corr(f"c18.addreq {af} {p_addr(src)} {p_addr(dest)}", impl2, c)
            try:
                impl2r = "ok " + ("1" if dns.query._addresses_equal(af, addr_tuple(dest), addr_tuple(src)) else "0")
            except Exception as e:
                impl2r = "err " + family_of(e)
            if impl2r != impl2:
                ctx.fail("C18/_addresses_equal/not-symmetric", f"{src} vs {dest}: {impl2}, the other way round: {impl2r}", rep)
            try:
                impl3 = "ok " + ("1" if dns.inet.is_multicast(dest["host"]) else "0")
            except Exception as e:
                impl3 = "err " + family_of(e)
            ctx.corr(f"c18.mcast {hx(dest['host'].encode('ascii'))}", impl3, c)
        ctx.count("match." + impl.replace(" ", ":"))
        ok = ref_src_ok(af, src, dest)
        if ok is True and impl != "ok 1":
            ctx.fail("C18/_matches_destination/genuine-source-rejected", f"{src} vs {dest}: {impl}", rep)
        if ok is False and impl == "ok 1":
            ctx.fail("C18/_matches_destination/foreign-source-accepted", f"{src} vs {dest}: {impl}", rep)
        if ok is False and ((iu and impl != "ok 0") or (not iu and impl != "err UnexpectedSource")):
            ctx.fail("C18/_matches_destination/not-as-configured", f"{src} vs {dest} ignore_unexpected={iu}: {impl}", rep)
    elif k == "isresp":
        q = build_query(c["q"])
        d = c["r"]
        wire = build_dgram(d)
        s = list(summarise(d))
        try:
            m = dns.message.from_wire(wire)
        except Exception:
            ctx.count("isresp.unparsable")
            return
        v = q.is_response(m)
        ctx.corr(f"c18.isresp {q_sum(c['q'])} {p_msg(s[1], s[2], s[3], s[4])}", "ok " + ("1" if v else "0"), c)
        ctx.count("isresp." + str(int(v)))
        if bool(v) != ref_is_response(c["q"], s):
            ctx.fail("C18/is_response/" + ("accepts-a-non-response" if v else "rejects-a-response"),
                     f"is_response -> {v} for query {c['q']} and message {d}", rep)
    else:
        raise ValueError(k)


def eval_fallback(ctx: Ctx, c: dict):
    """udp_with_fallback (sync / async): a truncated UDP reply leads to exactly one TCP exchange with the same query"""
    k = c["kind"]
    is_async = k == "afallback"
    rep = {"kind": k, "case": c}
    o = dict(c["opts"], rt=True)
    qd = c["q"]
    where = c["where"]
    arg = where["host"] + (f"%{where['rest'][2]}" if len(where["rest"]) == 3 and where["rest"][2] else "")
    events = [ev_complete(dict(e)) for e in c["events"]]
    sev, rev = c.get("sevents", []), c.get("revents", [])
    frames = c.get("frames", {})
    sums = {h: list(summarise(d)) if d.get("raw") is None else list(derive_summary(bytes.fromhex(h))) for h, d in frames.items()}
    ptbl = " ".join(f"P{h or '-'}={p_body(s)}" for h, s in sums.items())

    def run(fallback: bool):
        clock = Clock(c["now"])
        q = build_query(qd)
        us = (AsyncUdpSock if is_async else UdpSock)(clock, c["af"], events, c.get("send_blocks", []))
        ts = (AsyncTcpSock if is_async else TcpSock)(clock, sev, rev)
        with patched(clock):
            try:
                if fallback and not is_async:
                    r = ep("fallback", c.get("style", "pos"), q, arg, c["timeout"], where["rest"][0], None, 0, o["iu"], o["one"], o["it"], us, ts, o["ie"])
                elif fallback:
                    r = ep("afallback", c.get("style", "pos"), q, arg, c["timeout"], where["rest"][0], None, 0, o["iu"], o["one"], o["it"],
                           us, ts, None, o["ie"])
                elif not is_async:
                    r = dns.query.udp(q, arg, c["timeout"], where["rest"][0], None, 0, o["iu"], o["one"], o["it"], True, us, o["ie"])
                else:
                    r = run_coro(dns.asyncquery.udp(q, arg, c["timeout"], where["rest"][0], None, 0, o["iu"], o["one"], o["it"], True, us, None, o["ie"]))
                return ("ok", r), us, ts, clock
            except ScriptExhausted as e:
                return ("err", family_of(e)), us, ts, clock
            except Exception as e:
                return ("err", family_of(e)), us, ts, clock

    out, us, ts, clock = run(True)
    uout, us2, _ts2, uclock = run(False)  # the UDP phase alone (deterministic replay of the same script)
    touched = bool(ts.sent) or len(ts.revents) != len(rev) or len(ts.sevents) != len(sev) or ts.stream_rest() != b"".join(
        bytes.fromhex(e[1]) for e in rev if e[0] == "D")
    if out[0] == "ok":
        r, used = out[1]
        impl = f"sent={hx(ts.sent)} ok tcp={int(bool(used))} id={r.id} flags={int(r.flags)} t={r.time}"
    else:
        impl = f"sent={hx(ts.sent)} err {out[1]}"
    qwire = build_query(qd).to_wire()
    full = len(qwire).to_bytes(2, "big") + qwire
    blocks = ",".join(str(x) for x in c.get("send_blocks", [])) or "-"
    uevs = " ".join(p_uev(e) for e in events)
    sm = " ".join(str(e[1]) for e in sev if e[0] == "W") if is_async else " ".join(p_sev(e) for e in sev)
    revs = " ".join(p_rev(e) for e in rev)
    op = (f"c18.{k} {q_sum(qd)} {hx(qwire)} {c['af']} {p_addr(where)} {p_opt(c['timeout'])} {p_opts(o)} {blocks} {c['now']} "
          f"{ptbl} / {uevs} / {sm} / {revs}")
    ctx.corr(" ".join(op.split()), impl, c)
    fam = out[1] if out[0] == "err" else ("tcp" if out[1][1] else "udp")
    ctx.count(f"{k}.{fam}")
    tag = "async-" if is_async else ""
    if out[0] == "err" and out[1].startswith("FOREIGN"):
        ctx.fail(f"C18/{tag}udp_with_fallback/foreign-exception:{out[1][8:]}", f"raised {out[1]}", rep)
        return
    # ---- oracle: the UDP phase decides, and only a truncation leads to TCP, exactly once, with the same query
    udp_trunc = uout[0] == "err" and uout[1] == "Truncated"
    if not udp_trunc:
        if touched:
            ctx.fail(f"C18/{tag}udp_with_fallback/tcp-used-without-truncation", f"UDP phase ended with {uout[1] if uout[0]=='err' else 'a reply'}, yet the TCP socket was used", rep)
        if uout[0] == "ok":
            if out[0] != "ok" or out[1][1] or out[1][0].id != uout[1].id or int(out[1][0].flags) != int(uout[1].flags):
                ctx.fail(f"C18/{tag}udp_with_fallback/udp-reply-not-returned", "the UDP reply was not what udp_with_fallback returned (or used_tcp is set)", rep)
        elif out[0] != "err" or out[1] != uout[1]:
            ctx.fail(f"C18/{tag}udp_with_fallback/udp-error-not-propagated", f"UDP phase raised {uout[1]}, udp_with_fallback: {impl}", rep)
        return
    # truncated: the deciding datagram is a reply to q (or ignore_errors is off) — eval_udp's clauses cover that; here: the TCP leg
    if out[0] == "ok" and not out[1][1]:
        ctx.fail(f"C18/{tag}udp_with_fallback/truncation-without-tcp", "a truncated UDP reply was returned / used_tcp is False", rep)
        return
    if out[0] == "err" and out[1] == "Truncated":
        ctx.fail(f"C18/{tag}udp_with_fallback/truncation-without-tcp", "Truncated escaped instead of a TCP exchange", rep)
        return
    if not full.startswith(ts.sent) or (out[0] == "ok" and ts.sent != full):
        ctx.fail(f"C18/{tag}udp_with_fallback/tcp-query-differs", f"TCP leg emitted {ts.sent.hex()}, one framed copy of the query is {full.hex()}", rep)
    # reference of the TCP leg, starting at the clock of the truncation with a fresh deadline
    t0 = uclock.now
    exp2 = None if c["timeout"] is None else t0 + c["timeout"]
    sev_model = ([e for e in sev if e[0] == "W"] + [["A", 70000]]) if is_async else sev
    nsent, wwhy = ref_write(full, sev_model, t0, exp2)
    if wwhy != "ok":
        if out[0] == "ok":
            ctx.fail(f"C18/{tag}udp_with_fallback/short-write-reported-as-success", f"the TCP socket stops by {wwhy}", rep)
        return
    now1, acc = t0, 0
    for e in sev_model:
        if acc >= len(full):
            break
        if e[0] == "A":
            acc += min(e[1], len(full) - acc)
        else:
            now1 += e[1]
    buf, why = ref_stream(rev, now1, exp2, frame_need)
    tout = ("ok", (out[1][0], None)) if out[0] == "ok" else out
    cc = dict(c, revents=rev, it=o["it"])
    oracle_frame(ctx, "afallback" if is_async else "fallback", cc, rep, tout, out[1] if out[0] == "err" else "ok", buf, why, sums, qd, ts)


def eval_sendudp(ctx: Ctx, c: dict):
    """send_udp (sync / async): the datagram handed to the socket is the message's wire, once, to the destination"""
    k = c["kind"]
    is_async = k == "asendudp"
    rep = {"kind": k, "case": c}
    clock = Clock(c["now"])
    exp = None if c["timeout"] is None else c["now"] + c["timeout"]
    q = build_query(c["msg"])
    wire = q.to_wire()
    what = q if c.get("as_message") else wire
    dest = c.get("dest")
    sent = []

    class ASock(AsyncUdpSock):
        async def sendto(self, data, destination, timeout):
            n = await AsyncUdpSock.sendto(self, data, destination, timeout)
            sent.append((bytes(data), destination))
            return n

    sock = (ASock if is_async else UdpSock)(clock, AF4, [], c.get("send_blocks", []))
    with patched(clock):
        try:
            if is_async:
                n, t = ep("asendudp", c.get("style", "pos"), sock, what, None if dest is None else addr_tuple(dest), exp)
            else:
                n, t = ep("sendudp", c.get("style", "pos"), sock, what, None if dest is None else addr_tuple(dest), exp)
                sent = sock.sent
            out = ("ok", n)
        except BaseException as e:
            if isinstance(e, _Stalled):
                raise
            out = ("err", family_of(e))
            if not is_async:
                sent = sock.sent
    ctx.count(f"{k}." + (out[1] if out[0] == "err" else "ok"))
    blocks = c.get("send_blocks", [])
    t, tripped = c["now"], False
    for dt in blocks:
        if exp is not None and (exp <= t or dt >= exp - t):
            tripped = True
            break
        t += dt
    want_dest = None if dest is None else addr_tuple(dest)
    if out[0] == "ok":
        if tripped:
            ctx.fail(f"C18/{k}/deadline/expired-deadline-not-an-error", "a send wait reached the deadline, yet send_udp succeeded", rep)
        if sent != [(wire, want_dest)] or out[1] != len(wire):
            ctx.fail(f"C18/{k}/datagram-differs", f"socket was given {[(x.hex(), d) for x, d in sent]}, wire is {wire.hex()} to {want_dest}", rep)
    else:
        if out[1] not in ("Timeout", "Exhausted") or (out[1] == "Timeout" and not tripped) or sent:
            ctx.fail(f"C18/{k}/raised/{out[1]}", f"send_udp raised {out[1]} (deadline reached: {tripped})", rep)


def run_x(c, cut):
    """run the exchange of case c on the implementation (script cut before the failure if `cut`); -> (outcome, starved, closed)"""
    k = c["kind"]
    clock = Clock(c["now"])
    exp = None if c["timeout"] is None else c["now"] + c["timeout"]
    style = c.get("style", "pos")
    if k == "udp":
        api = c["api"]
        evs = [ev_complete(dict(e)) for e in c["events"]]
        if cut:
            evs = evs[: next(i for i, e in enumerate(evs) if e["t"] == "X")]
        sock = (AsyncUdpSock if api.startswith("a") else UdpSock)(clock, c["af"], evs, c.get("send_blocks", []))
        q = build_query(c["q"])
        o = c["opts"]
        where = c["where"]
        dest = where if api in ("udp", "audp") else c.get("dest")
        dt = None if dest is None else addr_tuple(dest)

        def go():
            if api in ("udp", "audp"):
                extra = (sock, o["ie"]) if api == "udp" else (sock, None, o["ie"])
                arg = where["host"] + (f"%{where['rest'][2]}" if len(where["rest"]) == 3 and where["rest"][2] else "")
                r = ep(api, style, q, arg, c["timeout"], where["rest"][0], None, 0, o["iu"], o["one"], o["it"], o["rt"], *extra)
                return r.id, int(r.flags)
            t = ep(api, style, sock, dt, exp, o["iu"], o["one"], None, b"", o["it"], o["rt"], o["ie"], q if c.get("pass_query", True) else None)
            return t[0].id, int(t[0].flags)
    else:
        rev = [list(e) for e in c["revents"]]
        if cut:
            rev = rev[: next(i for i, e in enumerate(rev) if e[0] == "X")]
        sock = (AsyncTcpSock if k.startswith("a") else TcpSock)(clock, c.get("sevents", []), rev)

        def go():
            if k in ("recvtcp", "arecvtcp"):
                extra = (c.get("ie", False),) if k == "arecvtcp" else ()
                m, _t = ep(k, style, sock, exp, c["one"], None, b"", c["it"], *extra)
            else:
                extra = (None,) if k == "atcp" else ()
                m = ep(k, style, build_query(c["q"]), "10.0.0.1", c["timeout"], 53, None, 0, c["one"], c["it"], sock, *extra)
            return m.id, int(m.flags)
    with patched(clock):
        try:
            out = ("ok",) + go()
        except BaseException as e:
            if isinstance(e, _Stalled):
                raise
            out = ("err", family_of(e))
    n = getattr(sock, "delivered", None)
    return out + (n,), bool(getattr(sock, "starved", False)), bool(getattr(sock, "closed", False))


def eval_x(ctx: Ctx, c: dict):
    """the socket itself fails in mid-exchange (OSError, a foreign exception, a BaseException): that failure must surface unchanged —
    not swallowed by ignore_errors, not turned into a timeout, nothing returned — and everything before it must go as without it"""
    k = c["kind"] if c["kind"] != "udp" else c["api"]
    rep = {"kind": c["kind"], "case": c}
    evs = c["events"] if c["kind"] == "udp" else c["revents"]
    x = next(e for e in evs if (e["t"] if isinstance(e, dict) else e[0]) == "X")
    name = x["exc"] if isinstance(x, dict) else x[1]
    want = family_of(XEXC[name]("x"))
    a, a_starved, _ = run_x(c, True)
    b, _, closed = run_x(c, False)
    ctx.count(f"xfail.{k}.{b[1] if b[0] == 'err' else 'ok'}")
    if closed:
        ctx.fail(f"C18/{k}/supplied-socket-closed", "the caller's socket was closed by the exchange", rep)
    if a_starved:
        if b[0] != "err" or b[1] != want:
            ctx.fail(f"C18/{k}/socket-failure-not-propagated/{name}", f"the socket raised {want} where the exchange was waiting; outcome {b}", rep)
    elif a != b:
        ctx.fail(f"C18/{k}/socket-failure-changed-earlier-outcome", f"without the later failure: {a}; with it: {b}", rep)


def eval_case(ctx: Ctx, c: dict):
    k = c["kind"]
    if c.get("xfail"):
        return eval_x(ctx, c)
    if k in ("sendudp", "asendudp"):
        eval_sendudp(ctx, c)
    elif k in ("fallback", "afallback"):
        eval_fallback(ctx, c)
    elif k == "udp":
        eval_udp(ctx, c)
    elif k in ("pton", "match", "isresp"):
        eval_small(ctx, c)
    else:
        eval_stream(ctx, c)


# ------------------------------------------------------------------------------------------------
# generators
# ------------------------------------------------------------------------------------------------
V4_POOL = ["0a000001", "c0000235", "e00000fb", "effffffa", "7f000001", "00000000", "ffffffff", "df000001", "f0000001", "0a000002"]
V6_POOL = ["00000000000000000000000000000001", "20010db8000000000000000000000053", "fe800000000000000000000000000001",
           "ff0200000000000000000000000000fb", "00000000000000000000ffff0a000001", "00000000000000000000000000000000",
           "20010db8000100000000000000000001", "000100000000000200000000000300ff", "fe00000000000000000000000000abcd",
           "00010002000300040005000600070008", "00010002000300040005000600070000"]
NAMES = [["777777", "6578616d706c65", ""], ["61", ""], [""], ["575757", "4578616d706c65", ""], ["777777", "6578616d706c65", "636f6d", ""],
         ["5a", "5b40", ""], ["78" * 63, ""]]


def v4_text(b):
    return ".".join(str(x) for x in b)


def v6_text(rng, b, form=None):
    g = [int.from_bytes(b[i:i + 2], "big") for i in range(0, 16, 2)]
    form = rng.below(7) if form is None else form
    fmt = (lambda x: "%x" % x)
    if form == 1:
        fmt = (lambda x: "%04x" % x)
    elif form == 2:
        fmt = (lambda x: "%X" % x)
    tail = None
    groups = g
    if form in (4, 6):
        tail = v4_text(b[12:16])
        groups = g[:6]
    parts = [fmt(x) for x in groups]
    if form in (3, 4, 5):
        runs = []
        i = 0
        while i < len(groups):
            if groups[i] == 0:
                j = i
                while j < len(groups) and groups[j] == 0:
                    j += 1
                runs.append((i, j))
                i = j
            else:
                i += 1
        if runs:
            i, j = rng.choice(runs)
            if form == 5 and j - i > 1 and rng.chance(1, 2):
                j = i + 1 + rng.below(j - i)  # compress only part of the run
            left, right = ":".join(parts[:i]), ":".join(parts[j:])
            text = left + "::" + right
            if tail is not None:
                text = text + (":" if right else "") + tail
            return text
    text = ":".join(parts)
    if tail is not None:
        text += ":" + tail
    return text


INVALID4 = ["010.0.0.1", "10.0.0.1.", "10.0.0", "10.0.0.256", " 10.0.0.1", "10.0.0.1 ", "10..0.1", "", "10.0.0.1.2", "a.b.c.d", "10.0.0.-1",
            "10.0.0.1e0", "0x0a.0.0.1", "10.0.0.00", "1.2.3.4:53", "::1", "10,0,0,1", "10.0.0.99999999999999999999"]
INVALID6 = ["1::2::3", "1:2:3:4:5:6:7:8:9", "12345::1", "g::1", ":1::2", "1::2:", "1:2:3:4:5:6:7", "", ":", ":::", "1:::2", "::1%a%b",
            "1:2:3:4:5:6:7:1.2.3.4", "::1.2.3", "::1.2.3.256", "::01.2.3.4", "10.0.0.1", "1:2:3:4:5:6:7:8:", "::ffff:1.2.3.4.5", "[::1]", "::1 ",
            "1:2:3:4:5:6:7::8", "::1:2:3:4:5:6:7:8", "%1", "0::0::0"]


def gen_addr(rng, fam, bin_hex=None, port=53, scope=0, flow=0, form=None, with_scope_text=False):
    if bin_hex is None:
        pool = V4_POOL if fam == 4 else V6_POOL
        bin_hex = rng.choice(pool) if rng.chance(4, 5) else rng.bytes(4 if fam == 4 else 16).hex()
    b = bytes.fromhex(bin_hex)
    if fam == 4:
        return {"host": v4_text(b), "rest": [port], "bin": bin_hex, "fam": 4}
    text = v6_text(rng, b, form)
    if with_scope_text:
        text += "%" + rng.choice(["1", "eth0", "3"])
    return {"host": text, "rest": [port, flow, scope], "bin": bin_hex, "fam": 6}


def gen_bad_addr(rng, fam, rest):
    t = rng.choice(INVALID4 if fam == 4 else INVALID6)
    if t == "10.0.0.1":  # invalid for this family only
        return {"host": t, "rest": list(rest), "bin": "0a000001", "fam": 4}
    if t == "::1":
        return {"host": t, "rest": list(rest), "bin": "00000000000000000000000000000001", "fam": 6}
    return {"host": t, "rest": list(rest), "bin": None, "fam": None}


def gen_src(rng, fam, dest):
    """a source address for a datagram, relative to the destination"""
    m = rng.below(20)
    port = dest["rest"][0]
    if m < 11 or dest.get("bin") is None:
        if dest.get("bin") is None:
            return gen_addr(rng, fam, None, port)
        a = gen_addr(rng, fam, dest["bin"], port, with_scope_text=(fam == 6 and rng.chance(1, 6)))
        a["rest"] = list(dest["rest"])
        return a
    if m < 14:
        other = rng.choice([x for x in (V4_POOL if fam == 4 else V6_POOL) if x != dest["bin"]])
        a = gen_addr(rng, fam, other, port)
        a["rest"] = list(dest["rest"])
        return a
    if m < 16:
        a = gen_addr(rng, fam, dest["bin"], port)
        a["rest"] = list(dest["rest"])
        a["rest"][0] = rng.choice([port + 1, port - 1, 0, 65535, 1024])
        return a
    if m == 16 and fam == 6:
        a = gen_addr(rng, fam, dest["bin"], port)
        a["rest"] = [port, rng.choice([0, 1]), dest["rest"][2] + rng.choice([0, 1, 1])]
        if rng.chance(1, 3):
            a["rest"] = rng.choice([[port], [port, 0], list(dest["rest"]) + [0]])  # a tuple of another arity is another address
        return a
    if m == 16:
        a = gen_addr(rng, fam, dest["bin"], port)
        a["rest"] = rng.choice([[port, 0], [port, 0, 0], []])
        return a
    if m == 17:
        return gen_bad_addr(rng, fam, dest["rest"])
    if m == 18:
        # the other family's text for "the same" host
        if fam == 4:
            return {"host": "::ffff:" + dest["host"], "rest": list(dest["rest"]), "bin": "00000000000000000000ffff" + dest["bin"], "fam": 6}
        return {"host": "10.0.0.1", "rest": list(dest["rest"]), "bin": "0a000001", "fam": 4}
    other = rng.bytes(4 if fam == 4 else 16).hex()
    a = gen_addr(rng, fam, other, port)
    a["rest"] = list(dest["rest"])
    return a


def gen_qdesc(rng):
    id_ = rng.choice([0, 1, 0xFFFF, 0x1234, 0x8000]) if rng.chance(1, 4) else rng.below(65536)
    opcode = rng.choice([0] * 14 + [5, 5, 5, 4, 4, 2, 1])
    flags = (opcode << 11) | (0x0100 if rng.chance(2, 3) else 0) | (0x0010 if rng.chance(1, 8) else 0)
    nq = rng.choice([1] * 8 + [0, 2])
    qs = []
    for _ in range(nq):
        if opcode == 5:
            qs.append([rng.choice(NAMES), 1, 6])
        else:
            qs.append([rng.choice(NAMES), rng.choice([1, 1, 1, 3, 255]), rng.choice([1, 1, 28, 15, 6, 255, 65280])])
    if opcode == 5:
        qs = qs[:1]
    return {"id": id_, "flags": flags, "questions": qs}


def swapcase_labels(labels):
    return [bytes(x ^ 0x20 if (65 <= x <= 90 or 97 <= x <= 122) else x for x in bytes.fromhex(l)).hex() for l in labels]


def gen_ddesc(rng, qd, idx):
    """description of a datagram: a genuine reply to qd with 0..2 mutations"""
    d = {"id": qd["id"], "flags": 0x8000 | (qd["flags"] & 0x7900) | 0x0080, "questions": [[list(q[0]), q[1], q[2]] for q in qd["questions"]],
         "marker": idx}
    if (qd["flags"] >> 11) & 0xF == 5 and not d["questions"]:
        d["marker"] = None if rng.chance(3, 4) else idx
    nm = rng.choice([0, 0, 0, 1, 1, 1, 2])
    muts = []
    for _ in range(nm):
        m = rng.below(27)
        muts.append(m)
        if m == 0:
            d["id"] = (d["id"] + rng.choice([1, 65535, 256, 0x8000])) % 65536
        elif m == 1:
            d["id"] = rng.below(65536)
        elif m == 2:
            d["flags"] &= ~0x8000
        elif m == 3:
            d["flags"] = (d["flags"] & ~0x7800) | (rng.choice([0, 1, 2, 4, 5, 15]) << 11)
        elif m == 4 and d["questions"]:
            q = rng.choice(d["questions"])
            q[0] = rng.choice([n for n in NAMES if n != q[0]])
        elif m == 5 and d["questions"]:
            q = rng.choice(d["questions"])
            q[0] = swapcase_labels(q[0])
        elif m == 6 and d["questions"]:
            rng.choice(d["questions"])[1] = rng.choice([1, 3, 4, 255])
        elif m == 7 and d["questions"]:
            rng.choice(d["questions"])[2] = rng.choice([1, 2, 28, 6, 255])
        elif m == 8:
            d["questions"] = d["questions"][:-1]
        elif m == 9:
            d["questions"].append([rng.choice(NAMES), 1, rng.choice([1, 6])])
        elif m == 10 and d["questions"]:
            d["questions"].append([swapcase_labels(d["questions"][0][0]), d["questions"][0][1], d["questions"][0][2]])
        elif m == 11:
            d["flags"] = (d["flags"] & ~0xF) | rng.choice([1, 2, 3, 4, 5, 9])
        elif m == 12:
            d["flags"] = (d["flags"] & ~0xF) | rng.choice([1, 2, 4, 5])
            d["questions"] = []
        elif m == 13:
            d["edns"] = rng.choice([0, 0x8000, 0x01000000, 0xFF000000, 0x00100000])
        elif m == 14:
            d["flags"] |= 0x0200
        elif m == 15:
            d["trailing"] = rng.bytes(rng.choice([1, 1, 2, 12])).hex()
        elif m == 16 and d["questions"]:
            k = rng.below(len(d["questions"]))
            d["cut"] = ["q", k, rng.below(len(enc_question(d["questions"][k])))]
        elif m == 17 and d.get("marker") is not None:
            d["cut"] = ["an", rng.below(len(marker_rr(0)))]
        elif m == 18:
            d["tsig"] = True
        elif m == 19:
            d["flags"] |= 0x0200
            if d.get("marker") is not None and rng.chance(1, 2):
                d["cut"] = ["an", rng.below(len(marker_rr(0)))]
        elif m == 20:
            d["questions"] = list(reversed(d["questions"]))
        elif m == 21:
            d["flags"] ^= rng.choice([0x0400, 0x0020, 0x0040, 0x0100])
        elif m == 22:
            # an rcode outside the four that may come without a question, and no question
            d["flags"] = (d["flags"] & ~0xF) | rng.choice([0, 3, 6, 7, 8, 9, 10, 15])
            d["questions"] = []
        elif m == 23:
            d["dup"] = True
        elif m == 24:
            d["pad"] = rng.choice([300, 500, 513, 1400, 1500, 4000])
        elif m == 25 and d["questions"]:
            # a further question whose name is a compression pointer to the first one's (same name, other type)
            d["questions"].append([list(d["questions"][0][0]), d["questions"][0][1], rng.choice([1, 28, d["questions"][0][2]]), 12])
        elif m == 26 and d["questions"]:
            q = rng.choice(d["questions"])
            if len(q) == 3:
                q.append(0x3FFF)  # a pointer that does not point backwards
    # pointer questions: only after an uncompressed first question, and they decode to its name
    for k, q in enumerate(d["questions"]):
        if len(q) > 3 and q[3] == 12:
            if k == 0 or len(d["questions"][0]) > 3:
                del q[3]
            else:
                q[0] = list(d["questions"][0][0])
    cut = d.get("cut")
    if cut and cut[0] == "q" and (cut[1] >= len(d["questions"]) or cut[2] >= len(enc_question(d["questions"][cut[1]]))):
        d.pop("cut")
    if cut and cut[0] == "an" and d.get("marker") is None:
        d.pop("cut")
    if d.get("cut"):
        d.pop("trailing", None)
        d.pop("tsig", None)
        d.pop("edns", None)
    return d, muts


def gen_garbage(rng, qd, idx):
    m = rng.below(5)
    if m == 0:
        return {"raw": rng.bytes(rng.below(12)).hex()}
    if m == 1:
        return {"raw": rng.bytes(rng.range(12, 40)).hex()}
    d, _ = gen_ddesc(rng, qd, idx)
    w = bytearray(build_dgram(d))
    if m == 2 and w:
        w[rng.below(len(w))] ^= 1 << rng.below(8)
    elif m == 3:
        w = w[: rng.below(len(w) + 1)]
    else:
        i = rng.below(len(w) + 1)
        w[i:i] = rng.bytes(rng.range(1, 3))
    return {"raw": bytes(w).hex()}


def gen_udp_case(rng, counter, api=None):
    if api is None:
        api = rng.choice(["udp"] * 6 + ["recv"] * 2 + ["audp"] * 2 + ["arecv"])
    is_async = api.startswith("a")
    fam = 4 if rng.chance(3, 5) else 6
    port = rng.choice([53, 53, 5353, 1024])
    pool = V4_POOL if fam == 4 else V6_POOL
    dest = gen_addr(rng, fam, rng.choice(pool), port, scope=(rng.choice([0, 0, 3]) if fam == 6 else 0), form=(rng.choice([0, 3]) if fam == 6 else None))
    af = AF4 if fam == 4 else AF6
    r = rng.below(40)
    if r == 0:
        af = AF6 if fam == 4 else AF4
    elif r == 1:
        af = 1
    qd = gen_qdesc(rng)
    o = {"iu": bool(counter & 1), "one": bool(counter & 2), "it": bool(counter & 4), "rt": bool(counter & 8), "ie": bool(counter & 16)}
    c = {"kind": "udp", "api": api, "q": qd, "where": dest, "af": af, "opts": o,
         "timeout": None if rng.chance(1, 2) else rng.range(0, 12), "now": rng.choice([0, 100, 1000000]),
         "send_blocks": [] if rng.chance(5, 6) else [rng.below(8) for _ in range(rng.range(1, 2))]}
    if api in ("recv", "arecv"):
        c["pass_query"] = rng.chance(3, 4)
        r = rng.below(12)
        c["dest"] = None if r < 2 else (gen_bad_addr(rng, fam, dest["rest"]) if r == 2 else dest)
    if rng.chance(1, 12):
        c["now"], c["timeout"] = 0, 0  # the deadline is the falsy value 0
    c["style"] = rng.choice(["pos", "kw"])
    c["ftime"] = rng.chance(1, 5)
    events = []
    idx = 0
    for _ in range(rng.choice([0, 1, 1, 2, 2, 3, 4, 6])):
        if rng.chance(1, 5):
            events.append({"t": "W", "dt": rng.below(7)})
            continue
        if rng.chance(1, 7) and not is_async:
            d = gen_garbage(rng, qd, idx)
        else:
            d, _ = gen_ddesc(rng, qd, idx)
        events.append({"t": "D", "src": gen_src(rng, fam, dest), "d": d})
        idx += 1
    if rng.chance(3, 4):
        d = {"id": qd["id"], "flags": 0x8000 | (qd["flags"] & 0x7900) | 0x0080, "questions": qd["questions"], "marker": idx}
        if (qd["flags"] >> 11) & 0xF == 5 and not qd["questions"]:
            d["marker"] = None
        src = dict(dest)
        if fam == 6:
            src = gen_addr(rng, 6, dest["bin"], port)
            src["rest"] = list(dest["rest"])
        if d["marker"] is not None and rng.chance(1, 5):
            d["dup"] = True
        if d["marker"] is not None and rng.chance(1, 8):
            d["pad"] = rng.choice([300, 513, 1500, 4000])
        events.append({"t": "D", "src": src, "d": d})
    c["events"] = events
    return c


def split_stream(rng, data: bytes, cuts, block_p=(1, 4)):
    """chunk events for data cut at the given sorted positions, with would-block events sprinkled in"""
    ev = []
    prev = 0
    for p in list(cuts) + [len(data)]:
        if rng.chance(*block_p):
            ev.append(["W", rng.below(5)])
        if p > prev:
            ev.append(["D", data[prev:p].hex()])
        prev = p
    return ev


def gen_revents(rng, stream: bytes):
    n = len(stream)
    m = rng.below(6)
    if m == 0:
        cuts = []
    elif m == 1:
        cuts = list(range(1, n))  # one octet at a time
    else:
        cuts = sorted({rng.below(n + 1) for _ in range(rng.range(1, 5))})
    ev = split_stream(rng, stream, cuts)
    f = rng.below(10)
    if f == 0 and ev:
        # early end of stream
        i = rng.below(len(ev) + 1)
        ev = ev[:i] + [["E"]]
    elif f == 1 and ev:
        ev = ev[: rng.below(len(ev))]  # the peer goes silent
    elif f == 2:
        ev.insert(rng.below(len(ev) + 1), ["D", ""])
    elif f == 3:
        ev.insert(rng.below(len(ev) + 1), ["W", rng.choice([5, 10, 100])])
    if rng.chance(1, 3):
        ev.append(["E"])
    return ev


def gen_sevents(rng, total: int):
    ev = []
    left = total
    m = rng.below(5)
    while left > 0 and len(ev) < 60:
        if rng.chance(1, 5):
            ev.append(["W", rng.below(5)])
            continue
        k = left if m == 0 else 1 if m == 1 else rng.choice([1, 2, 3, left, left + 5, rng.range(1, max(1, left))])
        if rng.chance(1, 30):
            k = 0
        ev.append(["A", k])
        left -= min(k, left)
    f = rng.below(8)
    if f == 0 and ev:
        ev = ev[: rng.below(len(ev))]
    elif f == 1:
        ev.insert(rng.below(len(ev) + 1), ["W", rng.choice([5, 10, 100])])
    return ev


def gen_frame(rng, qd):
    """(frame octets, description) of a framed message: a reply to qd with mutations, or garbage"""
    if rng.chance(1, 10):
        raw = rng.bytes(rng.choice([0, 1, 5, 11, 12, 13, 20]))
        return raw, {"raw": raw.hex()}
    d, _ = gen_ddesc(rng, qd, rng.below(1000))
    return build_dgram(d), d


def gen_stream_case(rng, kind=None):
    if kind is None:
        kind = rng.choice(["netread"] * 3 + ["netwrite"] * 2 + ["sendtcp"] + ["recvtcp"] * 3 + ["tcp"] * 5 + ["arecvtcp"] * 2 + ["atcp"] * 3
                          + ["areadexactly"] * 2 + ["asendtcp"])
    c = {"kind": kind, "timeout": None if rng.chance(1, 2) else rng.range(0, 14), "now": rng.choice([0, 7, 1000000]),
         "style": rng.choice(["pos", "kw"]), "ftime": rng.chance(1, 5)}
    if rng.chance(1, 12):
        c["now"], c["timeout"] = 0, 0  # the deadline is the falsy value 0
    if kind in ("netread", "areadexactly"):
        s = rng.bytes(rng.choice([0, 1, 2, 3, 5, 8, 13, 40]))
        c["count"] = rng.choice([0, 1, 2, len(s), max(0, len(s) - 1), len(s) + 1, rng.below(len(s) + 2)])
        c["revents"] = gen_revents(rng, s)
        return c
    if kind in ("netwrite", "sendtcp", "asendtcp"):
        data = rng.bytes(rng.choice([0, 1, 2, 3, 12, 29, 40, 300]))
        c["data"] = data.hex()
        if kind != "netwrite" and rng.chance(1, 2):
            # the documented other argument type: a Message, framed by to_wire(prepend_length=True)
            c["msg"] = gen_qdesc(rng)
            data = build_query(c["msg"]).to_wire()
            c["data"] = data.hex()
        if kind == "asendtcp":
            c["sevents"] = [["W", rng.below(6)] for _ in range(rng.choice([0, 0, 1, 2]))]
        else:
            c["sevents"] = gen_sevents(rng, len(data) + (2 if kind == "sendtcp" else 0))
        return c
    qd = gen_qdesc(rng)
    frame, d = gen_frame(rng, qd)
    if d.get("raw") is None and d.get("marker") is not None and not d.get("cut") and rng.chance(1, 4):
        d["dup"] = True  # two records of one RRset: one_rr_per_rrset shows in the returned message
        frame = build_dgram(d)
    stream = len(frame).to_bytes(2, "big") + frame
    r = rng.below(8)
    if r == 0:
        f2, d2 = gen_frame(rng, qd)
        stream += len(f2).to_bytes(2, "big") + f2
    elif r == 1:
        stream += rng.bytes(rng.range(1, 5))
    elif r == 2 and frame:
        stream = stream[: 2 + rng.below(len(frame))]  # declared length exceeds what ever arrives
    elif r == 3:
        stream = (len(frame) + rng.range(1, 300)).to_bytes(2, "big") + frame
    c["one"] = rng.chance(1, 2)
    c["it"] = rng.chance(1, 3)
    c["frames"] = {frame.hex(): d}
    if kind in ("recvtcp", "arecvtcp") and rng.chance(1, 3):
        # a second message on the same connection, read by a second call on the same socket
        f2, d2 = gen_frame(rng, qd)
        c["frames"][f2.hex()] = d2
        stream = len(frame).to_bytes(2, "big") + frame + len(f2).to_bytes(2, "big") + f2
        c["again"] = True
    c["revents"] = gen_revents(rng, stream)
    if kind == "arecvtcp":
        c["ie"] = rng.chance(1, 2)
    if kind in ("tcp", "atcp"):
        c["q"] = qd
        total = 2 + len(build_query(qd).to_wire())
        c["sevents"] = gen_sevents(rng, total) if kind == "tcp" else ([["W", rng.below(6)]] if rng.chance(1, 4) else [])
    return c


def cut_cases(rng, n_streams, max_len, pairs):
    """every single cut (and every cut pair) of framed streams, with and without a would-block at the cut"""
    out = []
    for _ in range(n_streams):
        qd = gen_qdesc(rng)
        qd["questions"] = [[rng.choice([["61", ""], [""], ["7878", ""]]), 1, 1]] if (qd["flags"] >> 11) & 0xF != 5 else []
        d = {"id": qd["id"], "flags": 0x8000 | (qd["flags"] & 0x7900), "questions": qd["questions"], "marker": None}
        frame = build_dgram(d)
        tail = rng.bytes(rng.below(4))
        stream = (len(frame).to_bytes(2, "big") + frame + tail)[:max_len]
        if len(stream) < 2 + len(frame):
            continue
        n = len(stream)
        cutsets = [[i] for i in range(0, n + 1)]
        if pairs:
            cutsets += [[i, j] for i in range(1, n) for j in range(i + 1, n)]
        for cs in cutsets:
            for blk in ((0, 1), (1, 1)):
                ev = split_stream(rng, stream, cs, blk)
                kind = rng.choice(["recvtcp", "tcp", "tcp", "atcp"])
                c = {"kind": kind, "timeout": rng.choice([None, 1000]), "now": 0, "one": False, "it": False, "frames": {frame.hex(): d},
                     "revents": ev}
                if kind in ("tcp", "atcp"):
                    c["q"] = qd
                    c["sevents"] = [["A", 1000]] if kind == "tcp" else []
                out.append(c)
        # the same for the write side: every single split of the framed query into two sends
        qw = build_query(qd).to_wire()
        for i in range(0, len(qw) + 3):
            out.append({"kind": "sendtcp", "timeout": None, "now": 0, "data": qw.hex(), "sevents": [["A", i], ["W", 1], ["A", len(qw) + 2]]})
    return out


def gen_fallback_case(rng, counter):
    """a UDP script that (often) ends in a truncated reply, plus a TCP script for the retry"""
    kind = "afallback" if rng.chance(1, 3) else "fallback"
    u = gen_udp_case(rng, counter, api=("audp" if kind == "afallback" else "udp"))
    qd = u["q"]
    fam = u["where"]["fam"]
    events = u["events"]
    r = rng.below(4)
    if r < 3 and events and events[-1]["t"] == "D" and "flags" in events[-1]["d"]:
        # turn the final genuine reply into a truncated one (sometimes cut short as real truncated replies are)
        d = dict(events[-1]["d"])
        d["flags"] |= 0x0200
        if r == 1 and d.get("marker") is not None:
            d["cut"] = ["an", rng.below(len(marker_rr(0)))]
        if r == 2 and rng.chance(1, 2):
            d["id"] = (d["id"] + 1) % 65536  # a forged truncation
        events[-1] = dict(events[-1], d=d)
    frame, d = gen_frame(rng, qd)
    if rng.chance(2, 3):
        d = {"id": qd["id"], "flags": 0x8000 | (qd["flags"] & 0x7900) | 0x0080, "questions": qd["questions"],
             "marker": None if ((qd["flags"] >> 11) & 0xF == 5 and not qd["questions"]) else 7}
        frame = build_dgram(d)
    stream = len(frame).to_bytes(2, "big") + frame + (rng.bytes(rng.below(4)) if rng.chance(1, 4) else b"")
    total = 2 + len(build_query(qd).to_wire())
    c = {"kind": kind, "style": u["style"], "q": qd, "where": u["where"], "af": u["af"], "opts": u["opts"], "timeout": u["timeout"], "now": u["now"],
         "send_blocks": u["send_blocks"], "events": events, "frames": {frame.hex(): d}, "revents": gen_revents(rng, stream),
         "sevents": (gen_sevents(rng, total) if kind == "fallback" else ([["W", rng.below(6)]] if rng.chance(1, 4) else []))}
    return c


def gen_sendudp_case(rng):
    kind = "asendudp" if rng.chance(1, 3) else "sendudp"
    c = {"kind": kind, "style": rng.choice(["pos", "kw"]), "msg": gen_qdesc(rng), "as_message": rng.chance(1, 2), "timeout": None if rng.chance(1, 2) else rng.range(0, 8),
         "now": rng.choice([0, 100]), "send_blocks": [] if rng.chance(1, 2) else [rng.below(6) for _ in range(rng.range(1, 2))],
         "dest": None if (kind == "sendudp" and rng.chance(1, 4)) else gen_addr(rng, 4)}
    return c


def big_frame_cases(rng, n):
    """framed messages of 0x7fff .. 0xffff octets (the length prefix is an *unsigned* 16-bit number), through every stream entry point"""
    out = []
    sizes = [0x7FFF, 0x8000, 0x8001, 0xFFFF, 0xC000, 0x80FF, 0xFF00]
    for i in range(n):
        qd = gen_qdesc(rng)
        qd["questions"] = [[["61", ""], 1, 1]] if (qd["flags"] >> 11) & 0xF != 5 else [[["61", ""], 1, 6]]
        d = {"id": qd["id"], "flags": 0x8000 | (qd["flags"] & 0x7900), "questions": qd["questions"], "marker": 3}
        base = len(build_dgram(d))
        size = sizes[i % len(sizes)]
        # the pad RR costs 13 octets of header (owner 2 + type/class/ttl/rdlen 10 ... ) plus its rdata
        d["pad"] = size - base - len(pad_rr(0))
        frame = build_dgram(d)
        assert len(frame) == size, (len(frame), size)
        stream = len(frame).to_bytes(2, "big") + frame + (b"\x00\x01" if i % 2 else b"")
        cuts = sorted({1, 2 + rng.below(size), 2 + size - 1}) if i % 3 else []
        kind = ["recvtcp", "tcp", "arecvtcp", "atcp", "fallback"][i % 5]
        c = {"kind": kind, "timeout": rng.choice([None, 50]), "now": 0, "one": False, "it": False, "frames": {frame.hex(): d},
             "revents": split_stream(rng, stream, cuts, (1, 3))}
        if kind in ("tcp", "atcp"):
            c["q"] = qd
            c["sevents"] = [["A", 1000]] if kind == "tcp" else []
        if kind == "fallback":
            dest = gen_addr(rng, 4, "0a000001", 53)
            td = {"id": qd["id"], "flags": 0x8200 | (qd["flags"] & 0x7900), "questions": qd["questions"], "marker": 0}
            c.update({"q": qd, "where": dest, "af": AF4, "opts": {"iu": False, "one": False, "it": False, "rt": True, "ie": False},
                      "send_blocks": [], "events": [{"t": "D", "src": dict(dest), "d": td}], "sevents": [["A", 1000]]})
        out.append(c)
    return out


def gen_x_case(rng, counter):
    """an exchange script into which a socket failure is spliced"""
    name = rng.choice(["OSError", "OSError", "ValueError", "Interrupt", "FormError", "KeyError"])
    if rng.chance(1, 2):
        c = gen_udp_case(rng, counter)
        evs = c["events"]
        evs.insert(rng.below(len(evs) + 1), {"t": "X", "exc": name})
    else:
        c = gen_stream_case(rng, rng.choice(["recvtcp", "tcp", "arecvtcp", "atcp"]))
        c["revents"].insert(rng.below(len(c["revents"]) + 1), ["X", name])
    c["xfail"] = True
    return c


def max_dgram_cases(rng):
    """a genuine reply of exactly 65535 octets (the largest UDP payload `recvfrom` is asked for), sync and async"""
    out = []
    for api in ("udp", "audp", "recv"):
        qd = gen_qdesc(rng)
        qd["flags"] &= ~0x7800
        qd["questions"] = [[["61", ""], 1, 1]]
        dest = gen_addr(rng, 4, "0a000001", 53)
        d = {"id": qd["id"], "flags": 0x8000 | (qd["flags"] & 0x0100) | 0x0080, "questions": qd["questions"], "marker": 0}
        d["pad"] = 65535 - len(build_dgram(d)) - len(pad_rr(0))
        assert len(build_dgram(d)) == 65535
        c = {"kind": "udp", "api": api, "q": qd, "where": dest, "af": AF4, "timeout": None, "now": 0, "send_blocks": [], "style": "kw",
             "opts": {"iu": False, "one": False, "it": False, "rt": False, "ie": False}, "events": [{"t": "D", "src": dict(dest), "d": d}]}
        if api == "recv":
            c["dest"] = dest
        out.append(c)
    return out


def gen_pton_case(rng):
    fam = 4 if rng.chance(1, 3) else 6
    af = AF4 if fam == 4 else AF6
    r = rng.below(10)
    if r < 5:
        a = gen_addr(rng, fam, with_scope_text=(fam == 6 and rng.chance(1, 5)))
        c = {"kind": "pton", "af": af, "text": a["host"], "bin": a["bin"], "fam": fam}
    elif r < 8:
        t = rng.choice(INVALID4 if fam == 4 else INVALID6)
        c = {"kind": "pton", "af": af, "text": t, "bin": None, "fam": None, "invalid": True}
        if t in ("10.0.0.1", "::1"):
            c["invalid"] = fam == (6 if t == "10.0.0.1" else 4)
    elif r == 8:
        # a valid text with one character a careless validator lets through at its edge (regex `$`, isdigit, strip)
        a = gen_addr(rng, fam, form=(rng.choice([0, 3, 4, 4, 6]) if fam == 6 else None))
        ch = rng.choice(["\n", "\n", "\r", "\t", " ", "\x00", "\x7f", "\x0b", "\r\n", "\n\n"])
        t = a["host"] + ch if rng.chance(3, 4) else ch + a["host"]
        c = {"kind": "pton", "af": af, "text": t, "bin": None, "fam": None, "edge": True}
    else:
        # soup over the characters the parsers look at
        atoms = ["0", "1", "9", "a", "f", "F", "g", ":", "::", ".", "%", "255", "256", "00", "ffff", "12345", "1.2.3.4", " ", "\n"]
        t = "".join(rng.choice(atoms) for _ in range(rng.range(0, 9)))
        c = {"kind": "pton", "af": af, "text": t, "bin": None, "fam": None}
    if rng.chance(1, 15):
        c["af"] = rng.choice([AF4, AF6, 1, 0])
        c.pop("invalid", None)
    return c


def gen_match_case(rng):
    fam = 4 if rng.chance(1, 2) else 6
    af = AF4 if fam == 4 else AF6
    dest = gen_addr(rng, fam, None, rng.choice([53, 5353]), scope=(rng.choice([0, 2]) if fam == 6 else 0))
    r = rng.below(12)
    if r == 0:
        dest = None
        src = gen_addr(rng, fam)
    else:
        if r == 1:
            dest = gen_bad_addr(rng, fam, dest["rest"])
        src = gen_src(rng, fam, dest)
    if rng.chance(1, 25):
        af = rng.choice([AF4, AF6, 1])
    return {"kind": "match", "af": af, "src": src, "dest": dest, "iu": rng.chance(1, 2)}


def gen_isresp_case(rng):
    qd = gen_qdesc(rng)
    d, _ = gen_ddesc(rng, qd, 0)
    for k in ("cut", "tsig", "trailing"):
        d.pop(k, None)
    return {"kind": "isresp", "q": qd, "r": d}


def async_variant(ctx: Ctx):
    """learn from the witness which variant dns.asyncquery.receive_udp implements (DESIGN §6): as shipped it
    passes continue_on_error=ignore_errors to the parser, so a malformed datagram is handed back"""
    global ASYNC_COE
    ASYNC_COE = False
    c = json.loads(json.dumps(ASYNC_WITNESS))
    clock = Clock(c["now"])
    events = [ev_complete(dict(e)) for e in c["events"]]
    sock = AsyncUdpSock(clock, c["af"], events, [])
    q = build_query(c["q"])
    with patched(clock):
        try:
            run_coro(dns.asyncquery.udp(q, "10.1.1.1", None, 53, None, 0, False, False, False, False, sock, None, True))
        except BaseException as _be:
            if isinstance(_be, _Stalled):
                raise
            pass
    ASYNC_COE = sock.delivered == 1
    ctx.extra["async_receive_udp_variant"] = "asShipped(continue_on_error=ignore_errors)" if ASYNC_COE else "intended"


def generate(ctx: Ctx, scale: int, rng, counter0=0):
    n = lambda q: max(1, q * scale)
    for i in range(n(1200)):
        c = gen_pton_case(rng)
        ctx.case(("pton", c["af"], c["text"]), sample=c)
        eval_case(ctx, c)
    for i in range(n(1500)):
        c = gen_match_case(rng)
        ctx.case(("match", json.dumps(c, sort_keys=True)), sample=c)
        eval_case(ctx, c)
    for i in range(n(2000)):
        c = gen_isresp_case(rng)
        ctx.case(("isresp", json.dumps(c, sort_keys=True)), sample=c)
        eval_case(ctx, c)
    for i in range(n(12000)):
        c = gen_udp_case(rng, counter0 + i)
        ctx.case(("udp", json.dumps(c, sort_keys=True)), sample=c)
        eval_case(ctx, c)
    for i in range(n(1500)):
        c = gen_x_case(rng, counter0 + i)
        ctx.case(("x", json.dumps(c, sort_keys=True)), sample=None)
        eval_case(ctx, c)
    for i in range(n(600)):
        c = gen_sendudp_case(rng)
        ctx.case((c["kind"], json.dumps(c, sort_keys=True)), sample=c)
        eval_case(ctx, c)
    for i in range(n(3000)):
        c = gen_fallback_case(rng, counter0 + i)
        ctx.case((c["kind"], json.dumps(c, sort_keys=True)), sample=c)
        eval_case(ctx, c)
    for i in range(n(8000)):
        c = gen_stream_case(rng)
        ctx.case((c["kind"], json.dumps(c, sort_keys=True)), sample=c)
        eval_case(ctx, c)


def run(ctx: Ctx):
    async_variant(ctx)
    for p in sorted(glob.glob(os.path.join(VERIF, "corpus", "C18", "*.json"))):
        c = json.load(open(p))
        ctx.case(("corpus", p), sample=None)
        eval_case(ctx, c)
        ctx.count("corpus")
    thorough = ctx.tier == "thorough"
    for c in max_dgram_cases(ctx.rng):
        ctx.case(("udp", "max-dgram", c["api"]), sample=None)
        eval_case(ctx, c)
        ctx.count("maxdgram")
    for c in big_frame_cases(ctx.rng, 35 if thorough else 10):
        ctx.case((c["kind"], "big", len(next(iter(c["frames"]))) // 2), sample=None)
        eval_case(ctx, c)
        ctx.count("bigframe")
    for c in cut_cases(ctx.rng, 10 if thorough else 2, 40 if thorough else 22, pairs=True):
        ctx.case((c["kind"], json.dumps(c, sort_keys=True)), sample=None)
        eval_case(ctx, c)
        ctx.count("cuts")
    generate(ctx, 24 if thorough else 1, ctx.rng)


def search(ctx: Ctx):
    """failing-input search on the implementation: the disagreeing cases, then a fresh larger budget"""
    if ASYNC_COE is None:
        async_variant(ctx)
    for m in ctx.mismatches[:50]:
        if m.case is not None:
            eval_case(ctx, m.case)
    for c in big_frame_cases(ctx.rng.fork(5), 14):
        eval_case(ctx, c)
    for c in cut_cases(ctx.rng.fork(3), 4, 30, pairs=True):
        eval_case(ctx, c)
    generate(ctx, 3 if ctx.tier == "quick" else 20, ctx.rng.fork(7), counter0=5)


def replay(ctx: Ctx, obj: dict):
    if ASYNC_COE is None:
        async_variant(ctx)
    eval_case(ctx, obj["case"])
    return [f.what for f in ctx.failures]


LEVEL = {
    "text": "Lean 4 theorems over an executable model of dns/query.py's exchange logic (address comparison, Message.is_response, "
            "the receive_udp loop and udp()'s final check under every option combination, _wait_for deadlines, _net_read/_net_write, "
            "send_tcp/receive_tcp/tcp): whatever precedes it, a returned message is a response to the query sent and came from the queried "
            "address; every other datagram is skipped or raises exactly as configured; a genuine TC reply raises Truncated when asked and a "
            "forged one does not end an ignore_errors exchange; for every split of the stream into chunks and would-block events receive_tcp "
            "returns exactly the first length-prefixed message and _net_write emits exactly the message octets; early EOF or an expired "
            "deadline is an error; a truncated UDP reply in udp_with_fallback leads to exactly one TCP exchange with the same query and TCP "
            "is used in no other case; the acceptance predicate is proved about the datagram's header octets (id, QR, opcode, TC, length >= 12) "
            "and its question octets (returned_question_octets); "
            "dns.asyncquery's _read_exactly / receive_tcp / send_tcp / tcp / receive_udp / udp / udp_with_fallback have their own model "
            "functions (backend calls with per-call timeouts), proved to compute the same results and to satisfy the same theorems. The model is tied to the code by a differential correspondence check through scripted sockets on the public "
            "sock= parameters (real _wait_for over a scripted selector and virtual clock) and by constants regenerated from the working tree.",
    "note": "Trusted: Lean kernel + propext/Classical.choice/Quot.sound; statements in lean/Props/C18.lean; the scripted socket/selector "
            "fakes (socket, selector and async backend contracts) and the independent datagram encoder; generator coverage. "
            "What the reader finds after the question section is a summary (C03/C04 own the record reader).",
    "technique": "Lean 4 proof (induction over datagram scripts / chunk lists) + model-vs-implementation correspondence over scripted sockets",
    "design_ref": "DESIGN.md §7 C18",
}
